"""C52 — format upgrades and reconfigurations preserve history and trees.

Mechanism: breezy/reconfigure.py Reconfigure (__init__ discovery, _plan_changes,
_set_use_shared, _check, _select_bind_location, apply), breezy/upgrade.py
(upgrade / smart_upgrade / Convert), breezy/bzr/bzrdir.py ConvertMetaToMeta
(+ the repository / branch / working-tree converters it drives:
CopyConverter, Converter5to6/6to7/7to8, Converter4to5 / 4or5to6).

Model: Model/C52.lean.  A location = layout (working tree?, local branch
bound/unbound | branch reference, local repository | shared repository above |
none, format tag) + observation (branch tip, history code, tags, tree state =
content code + pending-change flag) + what is known about the bind location
(master tip / tags, remembered locations).  `plan` is the literal
`_plan_changes` / `_set_use_shared` flag computation, `reconfigure` = the
to_* factory + `_check` + `apply`, `convert` changes the format tag only.

T2 (the substance): generated histories (commits, a merge, tags, ghosts-free)
with a dirty or clean working tree are built in every layout x repository
placement that real breezy can create, and
 * every ordered (source layout, target) pair is driven through the real
   Reconfigure factory + apply() (quick tier: a seed-rotated subset, thorough:
   all), then chains of 2..4 reconfigurations;
 * every creatable source format (knit, pack-0.92, 1.9, 2a, + rich-root
   variants; working tree formats 4/5/6) is upgraded to the default through
   upgrade.upgrade();
the outcome (ok / error kind), the resulting layout and the observation
(tip, revision -> testament sha1 map of the whole ancestry, tags, tree dump,
status incl. pending merges) are compared with the model and, independently,
with the observation before (oracle).
Oracle (no model): tip, revno, testament map and tags never change; a working
tree that exists before and after a step has the same entries, contents, exec
bits, file ids, iter_changes output, parents and unknowns; a tree with pending
changes is never removed (unless forced); a created tree is the clean tree of
the tip; a successful to_X yields layout X; a successful upgrade yields the
default formats; the location can always be opened afterwards.

No violation of the property was found on the unchanged tree.  Observations
(not violations, see the report): a failed to_checkout on a tree-less branch
without remembered location leaves the freshly created working tree behind
(modelled: partial_apply_witness); to_standalone on a lightweight checkout
creates a repository of the default format rather than the branch's; on
BzrBranch5 (knit-era) branches _select_bind_location raises UpgradeRequired.

Mutants this was built against (scratch worktree): _check ignoring
has_changes (oracle: tree with pending changes destroyed); create_branch
without set_last_revision_info (oracle: tip null:); tags not merged from the
referenced branch (oracle: tags lost); new repository not filled by fetch
(oracle: location cannot be opened, NoSuchRevision); to_tree planning
want_bound=True (oracle: layout is not the one asked for + model mismatch);
Converter5to6 writing revno-1 (oracle: upgrade changed revno).  Harmless
rewrite kept clean: tree flags of _plan_changes computed by boolean expressions.
"""
import os
import random
import shutil

from vlib import env

THEOREMS = ["factory_tree_flags", "convert_preserves_obs", "upgrade_preserves_obs", "keeps_treeInv",
            "reconfigure_composes", "force_destroys_witness", "partial_apply_witness"]
RULE = ("case = (history script, dirty flag, source layout x repository placement, target | chain of targets | source "
        "format); non-trivial = the operation succeeds and changes the layout / format; distinct by (layout, target(s), "
        "dirty, history shape)")
ASSUMPTIONS = [
    "the master / parent branch named by the remembered location carries the same tags as the local branch (it is "
    "sprouted from it or is its origin): Reconfigure merges tags into a branch reference target, conflicts are not generated",
    "reconfiguration chains use formats whose branch supports old-bound locations and tags (2a, 1.9, pack-0.92); "
    "knit-era formats appear in the upgrade stream only",
    "a cross-format fetch refused with IncompatibleRepositories (repository created by to_standalone for a lightweight "
    "checkout has the default format) is an excluded, counted outcome: nothing changes",
]
TRUSTED = [
    "history is abstracted to a code in the model: that fetch / the repository converters keep every revision's testament is "
    "exactly what the correspondence run measures (testament sha1 of the whole ancestry before and after), not what is proved",
    "the model's view of a location (tree?, bound?, reference?, repository placement, remembered location, in sync) is read "
    "from the real objects by the harness, independently of Reconfigure",
]

TARGETS = ["branch", "tree", "checkout", "lightweight-checkout", "standalone", "use-shared"]
SOURCES = ["tree", "branch", "checkout", "lightweight-checkout"]


# --------------------------------------------------------------------------
# building locations

def _commit(wt, msg, rev_id, ts):
    return wt.commit(msg, rev_id=rev_id, timestamp=1000000000 + ts, timezone=0, committer="V <v@e.c>")


def write_history(wt, rng, tag):
    """3..5 revisions incl. renames / deletes / a merge, 0..2 tags; returns list of revids"""
    d = wt.basedir
    revs = []
    with open(d + "/a", "wb") as f:
        f.write(b"a 1\n")
    os.mkdir(d + "/dir")
    with open(d + "/dir/b", "wb") as f:
        f.write(b"b 1\n")
    os.chmod(d + "/dir/b", 0o755)
    os.symlink("a", d + "/link")
    wt.add(["a", "dir", "dir/b", "link"], ids=[b"a-id", b"dir-id", b"b-id", b"link-id"])
    revs.append(_commit(wt, "one\nsecond line", b"%s-r1" % tag, 1))
    n = rng.randint(2, 4)
    for i in range(2, n + 1):
        r = rng.random()
        if r < 0.35:
            with open(d + "/a", "ab") as f:
                f.write(b"a %d\n" % i)
        elif r < 0.6 and os.path.exists(d + "/dir/b"):
            wt.rename_one("dir/b", "b%d" % i)
        elif r < 0.8:
            with open(d + "/n%d" % i, "wb") as f:
                f.write(b"n %d\n" % i)
            wt.add(["n%d" % i], ids=[b"n%d-id" % i])
        else:
            with open(d + "/a", "wb") as f:
                f.write(b"rewritten %d\n" % i)
        revs.append(_commit(wt, "rev %d \xe2\x82\xac" % i if False else "rev %d" % i, b"%s-r%d" % (tag, i), i))
    if rng.random() < 0.5:
        # a merged side branch
        side = wt.controldir.sprout(env.fresh_dir("c52side"), revision_id=revs[0]).open_workingtree()
        with open(side.basedir + "/side", "wb") as f:
            f.write(b"side\n")
        side.add(["side"], ids=[b"side-id"])
        _commit(side, "side", b"%s-s1" % tag, 9)
        wt.merge_from_branch(side.branch)
        revs.append(_commit(wt, "merge", b"%s-m" % tag, 10))
        shutil.rmtree(side.basedir, ignore_errors=True)
    if wt.branch.supports_tags():
        for j in range(rng.randint(0, 2)):
            wt.branch.tags.set_tag("tag%d" % j, rng.choice(revs))
    return revs


def make_dirty(wt, rng):
    d = wt.basedir
    ops = []
    with open(d + "/a", "ab") as f:
        f.write(b"uncommitted\n")
    ops.append("edit")
    if rng.random() < 0.6:
        with open(d + "/new", "wb") as f:
            f.write(b"new\n")
        wt.add(["new"], ids=[b"new-id"])
        ops.append("add")
    if rng.random() < 0.4:
        wt.rename_one("link", "link2")
        ops.append("rename")
    if rng.random() < 0.3:
        os.chmod(d + "/a", 0o755)
        ops.append("chmod")
    with open(d + "/unknown.txt", "wb") as f:
        f.write(b"unversioned\n")
    return ops


def build_location(seedt):
    """seedt = (seed, index, source, shared, dirty, fmt) -> dict(path=..., master=..., ...)"""
    from breezy.controldir import ControlDir, format_registry
    seed, idx, source, shared, dirty, fmt = seedt
    rng = random.Random(repr(("hist", seed, idx)))
    root = env.fresh_dir("c52")
    cformat = format_registry.make_controldir(fmt)
    info = dict(root=root, seed=list(seedt), source=source, shared=shared, dirty=dirty, fmt=fmt)
    repo_parent = os.path.join(root, "repo")
    os.mkdir(repo_parent)
    if shared:
        ControlDir.create(repo_parent, format=cformat).create_repository(shared=True)
    loc = os.path.join(repo_parent, "loc")
    master = os.path.join(root, "master")
    if source in ("tree", "branch"):
        if shared:
            br = ControlDir.create_branch_convenience(loc, force_new_tree=True, format=cformat)
            wt = br.controldir.open_workingtree()
        else:
            wt = ControlDir.create_standalone_workingtree(loc, format=cformat)
        try:
            wt.set_root_id(b"root-id")
        except Exception:  # noqa
            pass
        revs = write_history(wt, rng, b"h%d" % idx)
        info["parent"] = None
        if rng.random() < 0.5:
            # a remembered parent location holding the same history (a bind candidate)
            wt.controldir.sprout(master, revision_id=wt.branch.last_revision())
            wt.branch.set_parent(master)
            info["parent"] = master
        if source == "branch":
            wt.controldir.destroy_workingtree()
            wt = None
    else:
        mwt = ControlDir.create_standalone_workingtree(master, format=cformat)
        try:
            mwt.set_root_id(b"root-id")
        except Exception:  # noqa
            pass
        revs = write_history(mwt, rng, b"h%d" % idx)
        if source == "checkout":
            os.makedirs(loc, exist_ok=True)
            wt = mwt.branch.create_checkout(loc, lightweight=False)
        else:
            wt = mwt.branch.create_checkout(loc, lightweight=True)
        info["parent"] = master
    info["dirty_ops"] = []
    if wt is not None and dirty:
        info["dirty_ops"] = make_dirty(wt, rng)
    info.update(path=loc, master=master if os.path.isdir(master) else None, revs=[r.decode() for r in revs])
    return info


# --------------------------------------------------------------------------
# observation

def layout_of(path):
    from breezy.controldir import ControlDir
    from breezy import errors
    cd = ControlDir.open(path)
    out = {}
    try:
        wt = cd.open_workingtree()
        out["tree"] = True
    except errors.NoWorkingTree:
        out["tree"] = False
    br = cd.open_branch()
    if br.user_url != cd.user_url:
        out["branch"] = "reference"
    else:
        out["branch"] = "bound" if br.get_bound_location() else "local"
    try:
        repo = cd.find_repository()
        out["repo"] = "local" if repo.user_url == cd.user_url else "shared"
    except errors.NoRepositoryPresent:
        out["repo"] = "none"
    return out


def observe(path):
    """(tip, {rev: testament sha1}, tags, tree dump | None, status | None, formats)"""
    from breezy.controldir import ControlDir
    from breezy import errors
    from breezy.bzr.testament import StrictTestament3
    import hashlib
    cd = ControlDir.open(path)
    br = cd.open_branch()
    obs = {}
    with br.lock_read():
        tip = br.last_revision()
        obs["tip"] = tip.decode()
        obs["revno"] = br.revno()
        graph = br.repository.get_graph()
        anc = sorted(r for r, _ in graph.iter_ancestry([tip]) if r != b"null:")
        tm = {}
        for r in anc:
            t = StrictTestament3.from_revision(br.repository, r)
            tm[r.decode()] = t.as_sha1().decode() if isinstance(t.as_sha1(), bytes) else t.as_sha1()
        obs["testaments"] = tm
        obs["tags"] = ({k: v.decode() for k, v in sorted(br.tags.get_tag_dict().items())}
                       if br.supports_tags() else {})
    try:
        wt = cd.open_workingtree()
    except errors.NoWorkingTree:
        obs["tree"] = None
        obs["status"] = None
        return obs
    with wt.lock_read():
        dump = {}
        for p, ie in wt.iter_entries_by_dir():
            full = os.path.join(wt.basedir, p) if p else wt.basedir
            if os.path.islink(full):
                dump[p] = ("l", os.readlink(full))
            elif os.path.isdir(full):
                dump[p] = ("d", "")
            elif os.path.isfile(full):
                dump[p] = ("f", hashlib.sha1(open(full, "rb").read()).hexdigest()[:12] + ("x" if os.stat(full).st_mode & 0o100 else ""))
            else:
                dump[p] = ("missing", "")
            dump[p] = dump[p] + (ie.file_id.decode(),)
        obs["tree"] = dump
        st = sorted((c.file_id.decode(), tuple(c.path), c.changed_content, tuple(c.versioned), tuple(c.kind), tuple(c.executable))
                    for c in wt.iter_changes(wt.basis_tree()))
        obs["status"] = dict(changes=st, parents=[p.decode() for p in wt.get_parent_ids()],
                             unknowns=sorted(wt.unknowns()))
    return obs


def err_kind(e):
    return "E:" + type(e).__name__


# --------------------------------------------------------------------------
# driving the real code

TCODE = {"branch": "b", "tree": "t", "checkout": "c", "lightweight-checkout": "l", "standalone": "s", "use-shared": "u"}
ERRMAP = {"AlreadyBranch": "E:Already", "AlreadyTree": "E:Already", "AlreadyCheckout": "E:Already",
          "AlreadyLightweightCheckout": "E:Already", "AlreadyUsingShared": "E:Already", "AlreadyStandalone": "E:Already",
          "UncommittedChanges": "E:UncommittedChanges", "UnsyncedBranches": "E:UnsyncedBranches",
          "NoBindLocation": "E:NoBindLocation", "ReconfigurationNotSupported": "E:NotSupported"}


def factory(target):
    from breezy import reconfigure
    R = reconfigure.Reconfigure
    return {"branch": R.to_branch, "tree": R.to_tree, "checkout": R.to_checkout,
            "lightweight-checkout": R.to_lightweight_checkout, "standalone": R.to_standalone,
            "use-shared": R.to_use_shared}[target]


def model_state(path, info):
    """the model's view of the location, read from the real objects (not through Reconfigure)"""
    from breezy.controldir import ControlDir
    from breezy.branch import Branch
    lay = layout_of(path)
    cd = ControlDir.open(path)
    br = cd.open_branch()
    dirty = False
    if lay["tree"]:
        wt = cd.open_workingtree()
        with wt.lock_read():
            dirty = wt.has_changes()
    if lay["branch"] == "reference":
        known, synced = True, True
    else:
        loc = br.get_bound_location()
        for getter in (br.get_old_bound_location, br.get_push_location, br.get_parent):
            if loc is None:
                loc = getter()
        known = loc is not None
        synced = True
        if known:
            try:
                synced = Branch.open(loc).last_revision() == br.last_revision()
            except Exception:  # noqa
                synced = False
    above = os.path.isdir(os.path.join(os.path.dirname(path), ".bzr", "repository"))
    b = lambda x: "T" if x else "F"  # noqa
    return "%s %s %s %s %s %s %s" % (b(lay["tree"]), b(dirty), {"local": "u", "bound": "b", "reference": "r"}[lay["branch"]],
                                     {"none": "n", "local": "o", "shared": "s"}[lay["repo"]], b(above), b(known), b(synced))


def short_state(path):
    lay = layout_of(path)
    st = model_state(path, None).split(" ")
    return "".join(st[:4]) + st[5]


def run_chain(arg):
    """(seedt, targets, force) -> result dict; module level for the fork pool"""
    seedt, targets, force, unsync = arg
    from breezy.controldir import ControlDir
    info = build_location(seedt)
    path = info["path"]
    res = dict(info=dict(source=info["source"], shared=info["shared"], dirty=info["dirty"], fmt=info["fmt"],
                         parent=bool(info["parent"]), dirty_ops=info["dirty_ops"], nrevs=len(info["revs"])), steps=[])
    try:
        if unsync and info["master"]:
            # the remembered location moves on: the branches are no longer in sync
            mwt = ControlDir.open(info["master"]).open_workingtree()
            with open(mwt.basedir + "/master-only", "wb") as f:
                f.write(b"m\n")
            mwt.add(["master-only"])
            _commit(mwt, "master moves", b"master-extra", 50)
            res["info"]["unsynced"] = True
        res["state0"] = model_state(path, info)
        res["obs0"] = observe(path)
        for t in targets:
            try:
                r = factory(t)(ControlDir.open(path))
                r.apply(force)
                out = "ok"
            except Exception as e:  # noqa
                n = type(e).__name__
                out = ERRMAP.get(n, "E:" + n)
                if n == "NotBranchError" and t == "use-shared":
                    out = "E:NoSharedRepository"
            step = dict(target=t, out=out)
            try:
                step["state"] = short_state(path)
                step["obs"] = observe(path)
            except Exception as e:  # noqa
                step["broken"] = "%s: %s" % (type(e).__name__, str(e)[:200])
            res["steps"].append(step)
            if "broken" in step:
                break
    finally:
        shutil.rmtree(info["root"], ignore_errors=True)
    return res


def tree_state(obs0, obs):
    if obs["tree"] is None:
        return "none"
    if obs0["tree"] is not None and obs["tree"] == obs0["tree"] and obs["status"] == obs0["status"]:
        return "kept"
    st = obs["status"]
    if not st["changes"] and len(st["parents"]) <= 1:
        return "clean"
    return "other"


def check_chain(ctx, arg, res):
    seedt, targets, force, unsync = arg
    case = dict(seed=list(seedt), targets=list(targets), force=force, unsync=unsync)
    ctx.case(dict(state=res.get("state0"), targets=targets, force=force, nrevs=res["info"]["nrevs"], ops=res["info"]["dirty_ops"]),
             nontrivial=any(s["out"] == "ok" for s in res["steps"]))
    ctx.count("source:%s/%s/%s" % (res["info"]["source"], "shared" if res["info"]["shared"] else "own",
                                   "dirty" if res["info"]["dirty"] else "clean"))
    obs0 = res["obs0"]
    prev = obs0
    had_dirty = bool(obs0["status"] and (obs0["status"]["changes"] or len(obs0["status"]["parents"]) > 1))
    impl = []
    for s in res["steps"]:
        ctx.count("step:%s:%s" % (s["target"], s["out"]))
        if "broken" in s:
            ctx.violation(case, "after to_%s (%s) the location cannot be opened: %s" % (s["target"], s["out"], s["broken"]))
            impl.append("%s:broken" % s["out"])
            break
        o = s["obs"]
        # ---- oracle: history, tags; the tree when one is kept; no pending change is ever lost
        for k in ("tip", "revno", "testaments", "tags"):
            if o[k] != obs0[k]:
                ctx.violation(case, "to_%s (%s) changed %s: %r -> %r" % (s["target"], s["out"], k, obs0[k], o[k]))
        if prev["tree"] is not None and o["tree"] is not None and (o["tree"] != prev["tree"] or o["status"] != prev["status"]):
            ctx.violation(case, "to_%s (%s) changed the working tree: %r" % (
                s["target"], s["out"], [k for k in set(o["tree"]) | set(prev["tree"]) if o["tree"].get(k) != prev["tree"].get(k)][:4]
                or "status"))
        if prev["tree"] is not None and o["tree"] is None and not force:
            st = prev["status"]
            if st["changes"] or len(st["parents"]) > 1:
                ctx.violation(case, "to_%s destroyed a working tree with pending changes" % s["target"])
        if prev["tree"] is None and o["tree"] is not None:
            st = o["status"]
            if st["changes"] or len(st["parents"]) != (1 if o["tip"] != "null:" else 0):
                ctx.violation(case, "to_%s created a working tree that is not the clean tree of the tip" % s["target"])
        if s["out"] != "ok" and s["out"] != "E:NoBindLocation" and s["state"] != (res["steps"][res["steps"].index(s) - 1]["state"]
                                                                                  if res["steps"].index(s) else None) \
                and res["steps"].index(s) > 0:
            ctx.count("error-changed-layout:%s" % s["out"])
        if s["out"] == "ok":
            # the layout asked for is the layout obtained (state = tree, dirty, branch kind, repository kind, ...)
            st = s["state"]
            want = {"branch": st[0] == "F" and st[2] == "u", "tree": st[0] == "T" and st[2] == "u",
                    "checkout": st[0] == "T" and st[2] == "b", "lightweight-checkout": st[0] == "T" and st[2] == "r",
                    "standalone": st[3] == "o", "use-shared": st[3] != "o"}[s["target"]]
            if not want:
                ctx.violation(case, "to_%s succeeded but the location is %s (tree, dirty, branch u|b|r, repository n|o|s, "
                                    "bind location known)" % (s["target"], st))
        impl.append("%s:%s:%s" % (s["out"], s["state"], tree_state(obs0, o)))
        prev = o
    line = "chain %s %s %s" % ("T" if force else "F", ",".join(TCODE[t] for t in targets), res["state0"])
    return case, line, " ".join(impl)


def canon_model(reply, state0):
    """a re-created clean tree is indistinguishable from the original tree when that was clean"""
    st = state0.split(" ")
    if st[0] == "T" and st[1] == "F":
        return reply.replace(":clean", ":kept")
    return reply


def scenarios(ctx):
    """(seedt, targets, force, unsync) jobs"""
    rng = ctx.rng
    combos = []
    for source in SOURCES:
        for shared in (False, True):
            for dirty in (False, True):
                if source == "branch" and dirty:
                    continue
                combos.append((source, shared, dirty))
    pairs = [(c, t) for c in combos for t in TARGETS]        # 14 x 6 = 84 ordered (source layout, target) pairs
    if not ctx.thorough():
        # rotate by seed: a third of the pairs per run, every pair within three consecutive seeds
        pairs = [p for i, p in enumerate(pairs) if (i + ctx.seed) % 3 == 0]
    jobs = []
    idx = 0
    if not ctx.thorough():
        # the transitions that destroy or re-create something run on every seed
        core = [(("tree", False, True), "branch"), (("checkout", True, True), "branch"),
                (("lightweight-checkout", False, True), "branch"), (("lightweight-checkout", True, True), "tree"),
                (("tree", True, True), "standalone"), (("checkout", False, True), "lightweight-checkout")]
        pairs = core + [p for p in pairs if p not in core]
    fmts = ["2a", "2a", "1.9", "pack-0.92"]     # (knit-era branches lack old-bound locations: upgrade stream only)
    for (source, shared, dirty), t in pairs:
        idx += 1
        jobs.append(((ctx.seed, idx, source, shared, dirty, fmts[idx % len(fmts)] if ctx.thorough() else "2a"), [t], False,
                     rng.random() < 0.15))
    for _ in range(ctx.pick(10, 120)):
        idx += 1
        source, shared, dirty = rng.choice(combos)
        k = rng.randint(2, 4)
        jobs.append(((ctx.seed, idx, source, shared, dirty, rng.choice(fmts)), [rng.choice(TARGETS) for _ in range(k)],
                     rng.random() < 0.1, rng.random() < 0.1))
    return jobs


# --------------------------------------------------------------------------
# format upgrades

UPGRADE_FORMATS = ["knit", "dirstate", "dirstate-tags", "pack-0.92", "rich-root", "rich-root-pack", "1.6", "1.6.1-rich-root",
                   "1.9", "1.9-rich-root", "1.14", "1.14-rich-root", "2a", "dirstate-with-subtree", "pack-0.92-subtree"]
FMT_CODE = {f: i + 1 for i, f in enumerate(UPGRADE_FORMATS)}       # 0 = the default format (2a)
FMT_CODE["2a"] = 0
DEFAULT_TRIPLE = ("RepositoryFormat2a", "BzrBranchFormat7", "WorkingTreeFormat6")


def formats_of(path):
    from breezy.controldir import ControlDir
    cd = ControlDir.open(path)
    return (type(cd.find_repository()._format).__name__, type(cd.open_branch()._format).__name__,
            type(cd.open_workingtree()._format).__name__, type(cd._format).__name__)


def run_upgrade(arg):
    """(seedt, target format name | None) -> result dict"""
    seedt, target = arg
    from breezy import upgrade
    from breezy.controldir import format_registry
    info = build_location(seedt)
    res = dict(fmt=info["fmt"], target=target, shared=info["shared"], source=info["source"], dirty=info["dirty"])
    try:
        path = info["path"]
        res["obs0"] = observe(path)
        res["f0"] = formats_of(path)
        todo = [path]
        if info["shared"]:
            todo = [os.path.dirname(path)]          # the shared repository (its branches are upgraded with it)
        try:
            excs = []
            for p in todo:
                excs += upgrade.upgrade(p, None if target is None else format_registry.make_controldir(target), clean_up=True)
            res["out"] = "ok" if not excs else "E:" + type(excs[0]).__name__
        except Exception as e:  # noqa
            res["out"] = "E:" + type(e).__name__
            res["errtext"] = str(e)[:200]
        try:
            res["obs"] = observe(path)
            res["f1"] = formats_of(path)
            res["leftovers"] = sorted(n for n in os.listdir(path) if n.startswith("backup.bzr"))
        except Exception as e:  # noqa
            res["broken"] = "%s: %s" % (type(e).__name__, str(e)[:200])
    finally:
        shutil.rmtree(info["root"], ignore_errors=True)
    return res


def check_upgrade(ctx, arg, res):
    seedt, target = arg
    case = dict(seed=list(seedt), upgrade_to=target or "default")
    ctx.case(dict(fmt=res["fmt"], target=target, shared=res["shared"], dirty=res["dirty"], source=res["source"]),
             nontrivial=res.get("f0") != res.get("f1"))
    ctx.count("upgrade:%s->%s:%s" % (res["fmt"], target or "default", res.get("out")))
    if "broken" in res:
        ctx.violation(case, "after upgrading %s the location cannot be opened: %s" % (res["fmt"], res["broken"]))
        return case, "convert %d 0" % FMT_CODE[res["fmt"]], "broken"
    for k in res["obs0"]:
        if res["obs"][k] != res["obs0"][k]:
            a, b = res["obs0"][k], res["obs"][k]
            detail = ""
            if isinstance(a, dict) and isinstance(b, dict):
                detail = repr([(x, a.get(x), b.get(x)) for x in sorted(set(a) | set(b), key=str) if a.get(x) != b.get(x)][:3])
            ctx.violation(case, "upgrade %s -> %s changed %s %s" % (res["fmt"], target or "default", k, detail))
    if res["out"] == "ok" and target is None and res["f1"][:3] != DEFAULT_TRIPLE:
        ctx.violation(case, "upgrade of %s reports success but the formats are %r" % (res["fmt"], res["f1"]))
    if res["out"] != "ok":
        ctx.violation(case, "upgrade of %s failed: %s %s" % (res["fmt"], res["out"], res.get("errtext", "")))
    if res.get("leftovers"):
        ctx.count("backup-left")
    impl = "uptodate" if res["f0"] == res["f1"] else "ok %d" % (0 if res["f1"][:3] == DEFAULT_TRIPLE and target is None else 99)
    tcode = 0 if target is None else 99
    return case, "convert %d %d" % (FMT_CODE[res["fmt"]] if res["f0"][:3] != DEFAULT_TRIPLE or target else 0, tcode), impl


# --------------------------------------------------------------------------

def run(ctx):
    jobs = scenarios(ctx)
    results = ctx.pmap(run_chain, jobs)
    cases, lines, impls, states = [], [], [], []
    for a, r in zip(jobs, results):
        if "state0" not in r or "obs0" not in r:
            ctx.count("scenario-build-failed")
            continue
        c, l, i = check_chain(ctx, a, r)
        if "E:IncompatibleRepositories" in i:
            # a repository created by to_standalone for a lightweight checkout has the default format, not the
            # branch's: a later fetch into an older shared repository is refused (nothing changes). Counted only.
            ctx.count("excluded:incompatible-repositories")
            continue
        cases.append(c); lines.append(l); impls.append(i); states.append(r["state0"])
    ujobs = []
    if ctx.thorough():
        fmts = UPGRADE_FORMATS
    else:
        # every run covers every converter class (branch 5 -> 6 -> 7 -> 8, tree 3 -> 4 -> 5 -> 6, knit / pack -> 2a):
        # knit (branch 5, tree 3), dirstate-tags (branch 6, tree 4), 1.14 (branch 7, tree 5) + two rotating formats
        rest = [f for f in UPGRADE_FORMATS if f not in ("knit", "dirstate-tags", "1.14")]
        fmts = ["knit", "dirstate-tags", "1.14"] + [rest[(ctx.seed * 2 + j) % len(rest)] for j in range(2)]
    idx = 1000
    for f in fmts:
        for k in range(ctx.pick(1, 3)):
            idx += 1
            source = ["tree", "checkout", "tree"][k % 3]
            ujobs.append(((ctx.seed, idx, source, k == 2, True, f), None))
    idx += 1
    ujobs.append(((ctx.seed, idx, "tree", False, True, "2a"), "development-colo"))
    uresults = ctx.pmap(run_upgrade, ujobs)
    for a, r in zip(ujobs, uresults):
        c, l, i = check_upgrade(ctx, a, r)
        cases.append(c); lines.append(l); impls.append(i); states.append(None)
    if ctx.model_available and lines:
        outs = ctx.model(lines)
        for c, l, i, m, st in zip(cases, lines, impls, outs, states):
            ctx.traces += 1
            if st is not None:
                m = canon_model(m, st)
            if i != m:
                ctx.mismatch(c, i, m, line=l)


def replay(ctx, case):
    if "targets" in case:
        arg = (tuple(case["seed"]), case["targets"], case["force"], case.get("unsync", False))
        r = run_chain(arg)
        c, l, i = check_chain(ctx, arg, r)
        m = canon_model(ctx.model([l])[0], r["state0"]) if ctx.model_available else None
        return dict(case=case, impl=i, model=m, agree=(i == m), oracle_failures=[v["what"] for v in ctx.violations])
    arg = (tuple(case["seed"]), None if case["upgrade_to"] == "default" else case["upgrade_to"])
    r = run_upgrade(arg)
    c, l, i = check_upgrade(ctx, arg, r)
    m = ctx.model([l])[0] if ctx.model_available else None
    return dict(case=case, impl=i, model=m, agree=(i == m), oracle_failures=[v["what"] for v in ctx.violations])
