"""C14 family bzr-unversioned-parent-without-file-id.

A versioned directory is moved below a path that does not exist (and so has no file id).
find_raw_conflicts reports "unversioned parent" + "missing parent"; resolve_unversioned_parent
calls tt.version_file(trans_id, file_id=tt.inactive_file_id(trans_id)) with file_id None, which
raises ValueError: resolve_conflicts neither returns nor raises MalformedTransform.
Exit 1 = defect present, 0 = absent."""
import sys
from _boot import *
wt = make_tree("2a", [("b", "directory", "", True)])
tt = wt.transform()
try:
    y = tt.trans_id_tree_path("y")                 # a path that does not exist
    tt.adjust_path("b", y, tt.trans_id_tree_path("b"))
    print("raw conflicts:", tt.find_raw_conflicts())
    try:
        resolve_conflicts(tt)
        print("resolve_conflicts returned; remaining:", tt.find_raw_conflicts())
        sys.exit(0)
    except MalformedTransform as e:
        print("MalformedTransform (acceptable):", e.conflicts)
        sys.exit(0)
    except Exception as e:
        print("DEFECT: resolve_conflicts raised %s: %s" % (type(e).__name__, e))
        sys.exit(1)
finally:
    tt.finalize()
