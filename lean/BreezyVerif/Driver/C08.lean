import BreezyVerif.Common
import BreezyVerif.Model.C08
import BreezyVerif.Driver.C03Lib
/-
C08 driver (repository fields as in Driver/C03Lib).

  sfetch <exclusion> <find_ghosts T|F> <rev> <src r i t> <st r i t> <fb r i t>
     -> E:NoSuchRevision | E:SourceIncomplete |
        ok <missing> <st revs> <st invs> <st texts> <stackable before T|F> <stackable after T|F> <exclusionLocal T|F>
  scommit <rev> <info:parents> <inventory entries> <new texts> <st r i t> <fb r i t>
     -> E:CannotFillParentInventories | ok <st revs> <st invs> <st texts> <stackable after T|F>
  scheck <new revision ids, comma separated> <st r i t> <fb r i t>
     -> <checkNew T|F> <stackable T|F>
  spack <st r i t> <fb r i t>
     -> ok <st revs> <st invs> <st texts> <stackable after T|F>
  sinv <st r i t> <fb r i t>
     -> <stackable T|F>
  hfetch <exclusion> <find_ghosts T|F> <rev> <src r i t> <st r i t> <fb r i t>
     -> the hypotheses of the fetch theorems in this state, one T|F each:
        closed agreeSrcSt agreeFbSrc srcSupplies exclusionLocal topoSrc noOrphanSrc fetchOk | good stackableW
        completeFb noOrphanFb | after a successful fetch: stackable stackableW tipPresent tipReadable (or `-`)
  hcommit <rev> <info:parents> <inventory entries> <new texts> <st r i t> <fb r i t>
     -> fresh parentsSmaller commitCovers commitOk | good stackableW completeFb noOrphanFb
-/
namespace BreezyVerif.C08

open BreezyVerif.C03

def parseRec (s : String) : Option RevRec :=
  match s.splitOn ":" with
  | [m, ps] => do pure ⟨← parseDots ps, ← m.toNat?⟩
  | _ => none

def parseEntries (s : String) : Option Inv :=
  if s == "-" then some [] else (s.splitOn ",").mapM parseEntry

def handle : List String → String
  | ["sfetch", x, fg, rev, sr, si, stx, lr, li, lt, fr, fi, ft] =>
    match parseX x, parseBool fg, rev.toNat?, parseRepo sr si stx, parseRepo lr li lt, parseRepo fr fi ft with
    | some x, some fg, some rev, some src, some st, some fb =>
      let s : Stacked := ⟨st, fb⟩
      match fetchStacked x fg src s rev with
      | .error .noSuchRevision => "E:NoSuchRevision"
      | .error .sourceIncomplete => "E:SourceIncomplete"
      | .ok s' => s!"ok {showIds (missing fg src (both s) rev)} {showRepo s'.st} {showBool (stackable s)} {showBool (stackable s')} {showBool (exclusionLocal x src (missing fg src (both s) rev))}"
    | _, _, _, _, _, _ => "bad-op"
  | ["scommit", k, rec, inv, nt, lr, li, lt, fr, fi, ft] =>
    match k.toNat?, parseRec rec, parseEntries inv, parseSemi parseText nt, parseRepo lr li lt, parseRepo fr fi ft with
    | some k, some rec, some inv, some nt, some st, some fb =>
      match commitStacked ⟨st, fb⟩ k rec inv nt with
      | .error .cannotFillParentInventories => "E:CannotFillParentInventories"
      | .ok s' => s!"ok {showRepo s'.st} {showBool (stackable s')}"
    | _, _, _, _, _, _ => "bad-op"
  | ["scheck", new, lr, li, lt, fr, fi, ft] =>
    match parseNatList new, parseRepo lr li lt, parseRepo fr fi ft with
    | some new, some st, some fb => s!"{showBool (checkNew st new)} {showBool (stackable ⟨st, fb⟩)}"
    | _, _, _ => "bad-op"
  | ["spack", lr, li, lt, fr, fi, ft] =>
    match parseRepo lr li lt, parseRepo fr fi ft with
    | some st, some fb =>
      let s' := pack ⟨st, fb⟩
      s!"ok {showRepo s'.st} {showBool (stackable s')}"
    | _, _ => "bad-op"
  | ["hfetch", x, fg, rev, sr, si, stx, lr, li, lt, fr, fi, ft] =>
    match parseX x, parseBool fg, rev.toNat?, parseRepo sr si stx, parseRepo lr li lt, parseRepo fr fi ft with
    | some x, some fg, some rev, some src, some st, some fb =>
      let s : Stacked := ⟨st, fb⟩
      let b := showBool
      let pre := s!"{b (fg || closed (both s) src)} {b (agreeOn src.invs s.st.invs)} {b (agreeOn s.fb.invs src.invs)} {b (srcSuppliesM src s (missing fg src (both s) rev))} {b (exclusionLocal x src (missing fg src (both s) rev))} {b (topo src)} {b (noOrphanInv src)} {b (fetchOk x fg src s rev)} | {b (good s)} {b (stackableW s)} {b (complete fb)} {b (noOrphanInv fb)}"
      match fetchStacked x fg src s rev with
      | .ok s' => s!"{pre} | {b (stackable s')} {b (stackableW s')} {b (presentRev s' rev)} {b (readable (both s') rev)}"
      | .error _ => s!"{pre} | -"
    | _, _, _, _, _, _ => "bad-op"
  | ["hcommit", k, rec, inv, nt, lr, li, lt, fr, fi, ft] =>
    match k.toNat?, parseRec rec, parseEntries inv, parseSemi parseText nt, parseRepo lr li lt, parseRepo fr fi ft with
    | some k, some rec, some inv, some nt, some st, some fb =>
      let s : Stacked := ⟨st, fb⟩
      let b := showBool
      s!"{b (!presentRev s k && (get s.st.invs k).isNone && (get s.fb.invs k).isNone)} {b (rec.parents.all fun p => decide (p < k))} {b (commitCovers s rec inv nt)} {b (commitOk s k rec inv nt)} | {b (good s)} {b (stackableW s)} {b (complete fb)} {b (noOrphanInv fb)}"
    | _, _, _, _, _, _ => "bad-op"
  | ["sinv", lr, li, lt, fr, fi, ft] =>
    match parseRepo lr li lt, parseRepo fr fi ft with
    | some st, some fb => showBool (stackable ⟨st, fb⟩)
    | _, _ => "bad-op"
  | _ => "bad-op"

end BreezyVerif.C08

def main : IO Unit := BreezyVerif.runDriver BreezyVerif.C08.handle
