import BreezyVerif.Common
import BreezyVerif.Model.C50
namespace BreezyVerif.C50

/-! Line protocol.  A string is its code points in lowercase hex joined by `.`
(`_` = empty string); a token list is comma separated (`-` = empty list); a
token is `T:<str>` (quoted) or `F:<str>`. -/

def hexNat (n : Nat) : String := String.ofList (Nat.toDigits 16 n)

def parseHexNat (s : String) : Option Nat :=
  if s.isEmpty || s.length > 6 then none else
  s.toList.foldlM (fun acc c => (hexVal c).map (acc * 16 + ·)) 0

def parseChar (s : String) : Option Char := do
  let n ← parseHexNat s
  if h : n.isValidChar then some (Char.ofNatAux n h) else none

def parseStr (s : String) : Option Str :=
  if s == "_" then some [] else (s.splitOn ".").mapM parseChar

def showStr (s : Str) : String :=
  if s.isEmpty then "_" else ".".intercalate (s.map fun c => hexNat c.toNat)

def showTok (t : Bool × Str) : String := showBool t.1 ++ ":" ++ showStr t.2

def showToks (l : List (Bool × Str)) : String := joinList (l.map showTok)

/-- `tok sq s` (structural model) | `mtok sq s` (literal machine; `nofuel` if it
does not halt) | `quote sq s` | `qjoin sq s1,s2,…` | `wsrange lo hi` (hex,
inclusive: the whitespace code points in the range) -/
def handle : List String → String
  | ["tok", sq, s] =>
    match parseBool sq, parseStr s with
    | some sq, some s => showToks (tokens sq s)
    | _, _ => "bad-op"
  | ["mtok", sq, s] =>
    match parseBool sq, parseStr s with
    | some sq, some s =>
      match mTokens sq s with
      | some l => showToks l
      | none => "nofuel"
    | _, _ => "bad-op"
  | ["quote", sq, s] =>
    match parseBool sq, parseStr s with
    | some sq, some s => showStr (quote sq s)
    | _, _ => "bad-op"
  | ["qjoin", sq, l] =>
    match parseBool sq, (splitList l).mapM parseStr with
    | some sq, some l => showStr (joinSp (l.map (quote sq)))
    | _, _ => "bad-op"
  | ["wsrange", lo, hi] =>
    match parseHexNat lo, parseHexNat hi with
    | some lo, some hi =>
      if hi < lo || hi - lo > 0x20000 then "bad-op" else
      joinList (((List.range (hi - lo + 1)).map (· + lo)).filterMap fun n =>
        if h : n.isValidChar then (if isWs (Char.ofNatAux n h) then some (hexNat n) else none)
        else none)
    | _, _ => "bad-op"
  | _ => "bad-op"

end BreezyVerif.C50

def main : IO Unit := BreezyVerif.runDriver BreezyVerif.C50.handle
