import BreezyVerif.Model.C14
/-! Fuel lemmas for C14: a walk that has finished keeps its answer when given more fuel. -/
namespace BreezyVerif.C14

theorem finalPath_succ (tt : TT) : ∀ (fuel : Nat) (t : Tid) (p : List String),
    tt.finalPath fuel t = some p → tt.finalPath (fuel + 1) t = some p := by
  intro fuel
  induction fuel with
  | zero => intro t p h; simp [TT.finalPath] at h
  | succ n ih =>
    intro t p h
    unfold TT.finalPath at h ⊢
    by_cases hr : t = TT.root
    · simpa [hr] using h
    · simp only [hr, if_false] at h ⊢
      split at h
      · rename_i pp nn _ _
        cases hq : tt.finalPath n pp with
        | none => simp [hq] at h
        | some q =>
          simp only [hq, Option.map_some] at h
          simp [ih pp q hq, h]
      · cases h

theorem finalPath_mono (tt : TT) (fuel k : Nat) (t : Tid) (p : List String)
    (h : tt.finalPath fuel t = some p) : tt.finalPath (fuel + k) t = some p := by
  induction k with
  | zero => exact h
  | succ k ih => exact finalPath_succ tt _ t p ih

theorem treePath_succ (tt : TT) : ∀ (fuel : Nat) (t : Tid) (p : List String),
    tt.treePath fuel t = some p → tt.treePath (fuel + 1) t = some p := by
  intro fuel
  induction fuel with
  | zero => intro t p h; simp [TT.treePath] at h
  | succ n ih =>
    intro t p h
    unfold TT.treePath at h ⊢
    by_cases hr : t = TT.root
    · simpa [hr] using h
    · simp only [hr, if_false] at h ⊢
      cases hb : tt.base[t]? with
      | none => simp [hb] at h
      | some b =>
        simp only [hb] at h ⊢
        cases hp : b.parent with
        | none => simp [hp] at h
        | some pp =>
          simp only [hp] at h ⊢
          cases hq : tt.treePath n pp with
          | none => simp [hq] at h
          | some q =>
            simp only [hq, Option.map_some] at h
            simp [ih pp q hq, h]

theorem invPath_succ (inv : Inv) : ∀ (fuel : Nat) (f : String) (p : List String),
    invPath inv fuel f = some p → invPath inv (fuel + 1) f = some p := by
  intro fuel
  induction fuel with
  | zero => intro f p h; simp [invPath] at h
  | succ n ih =>
    intro f p h
    unfold invPath at h ⊢
    cases he : (inv.find? (fun e => e.1 == f)).map (·.2) with
    | none => simp [he] at h
    | some e =>
      simp only [he] at h ⊢
      cases hpf : e.parentFid with
      | none => simpa [hpf] using h
      | some pf =>
        simp only [hpf] at h ⊢
        cases hq : invPath inv n pf with
        | none => simp [hq] at h
        | some q =>
          simp only [hq, Option.map_some] at h
          simp [ih pf q hq, h]

theorem loopWalk_succ (tt : TT) (t : Tid) : ∀ (fuel : Nat) (cur : Tid) (seen : List Tid),
    tt.loopWalk t fuel cur seen = true → tt.loopWalk t (fuel + 1) cur seen = true := by
  intro fuel
  induction fuel with
  | zero => intro cur seen h; simp [TT.loopWalk] at h
  | succ n ih =>
    intro cur seen h
    unfold TT.loopWalk at h ⊢
    cases hp : tt.finalParent cur with
    | none => simp [hp] at h
    | some pp =>
      cases pp with
      | none => simp [hp] at h
      | some p =>
        simp only [hp] at h ⊢
        by_cases h1 : p = t
        · simp [h1]
        · simp only [h1, if_false] at h ⊢
          by_cases h2 : (cur :: seen).contains p = true
          · rw [if_pos h2] at h; cases h
          · rw [if_neg h2] at h ⊢
            exact ih p (cur :: seen) h

theorem findChanged_succ (tt : TT) : ∀ (fuel : Nat) (cur r : Tid),
    tt.findChanged fuel cur = .ok r → tt.findChanged (fuel + 1) cur = .ok r := by
  intro fuel
  induction fuel with
  | zero => intro cur r h; simp [TT.findChanged] at h
  | succ n ih =>
    intro cur r h
    unfold TT.findChanged at h ⊢
    by_cases hc : tt.pathChanged cur = true
    · simpa [hc] using h
    · simp only [hc, Bool.false_eq_true, if_false] at h ⊢
      cases hp : tt.finalParent cur with
      | none => simp [hp] at h
      | some pp =>
        cases pp with
        | none => simp [hp] at h
        | some p =>
          simp only [hp] at h ⊢
          exact ih p r h

end BreezyVerif.C14
