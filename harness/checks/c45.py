r"""C45 - end-of-line filters round-trip canonical content
(breezy/filters/eol.py: _to_lf_converter, _to_crlf_converter,
_eol_filter_stack_map; breezy/filters/__init__.py: filtered_output_bytes,
filtered_input_file; breezy/bzr/workingtree_4.py: ContentFilterAwareSHA1Provider).

Model: lean/BreezyVerif/Model/C45.lean; theorems in Props/C45.lean (all byte
strings, all settings, both platforms), T1 in Props/C45T1.lean.

T1 (every run): Generated/C45.lean is rewritten from eol.py: the table
`_eol_filter_stack_map` (sorted by key), the `_native_output` platform switch,
and the byte constants / shape of the two converters; Lean re-proves that the
regenerated table has exactly the model's entries and restates the theorems
for it.

T2 (every run):
 * both converters on every byte string over {CR, LF, NUL, a} up to length L
   (quick 8, thorough 10) and on random strings over a wider alphabet;
 * every setting x both platforms x every such string up to length L2 (quick
   6, thorough 8) through eol_lookup + filtered_output_bytes /
   filtered_input_file (write, read, read-after-write); the win32 table is
   obtained by executing a private copy of eol.py with sys.platform patched;
   random chunkings of the output side; unknown keys (error kind only);
 * a dirstate tree per setting with an `eol` rule in BRZ_HOME/rules: canonical
   files are committed, the branch is checked out afresh, the bytes on disk are
   compared with the model and iter_changes() against the basis is evaluated.

Oracle (independent of the model): for every setting and every canonical c
without NUL: read(write(c)) == c; NUL => both converters and every stack are
the identity; `exact` never changes anything; the CRLF reader only stores
canonical content; settings named crlf* check out with CRLF only and settings
named lf* check canonical text (without CR CR LF) out without any CRLF; the
fresh checkout reports no changes and stores/reads back the committed bytes.

Finding (family "crlf-repo-cr-cr-lf"): the settings that store CRLF and write
LF lose one CR of every "\r\r\n" (classifier: reader is _to_crlf_converter,
writer is _to_lf_converter, content without NUL contains b"\r\r\n"); theorem
`crlf_repo_witness`, exact characterisation `roundtrip_iff`.

Observation (not a violation of C45, counted as `lf-reader-noncanonical`):
_to_lf_converter is not idempotent ("\r\r\n" -> "\r\n" -> "\n"), so a commit
under an LF-in-repo setting can store non-canonical text; theorem
`toLf_not_idempotent_witness`.  The CRLF reader always stores canonical text
(`toCrlf_canonical`).

Mutants this was built against (scratch worktree, run with the family above
treated as known; each reported as VIOLATION with the concrete input shown):
 M1 _to_lf_converter: NUL test dropped              native: b'a\r\n\x00' converted
 M2 _UNIX_NL_RE = rb"\n" (lookbehind dropped)       CRLF reader stores b'a\r\r\r\n' for b'a\r\r\n'
 M3 table: "crlf" writer -> _to_lf_converter         crlf must write CRLF: b'a\r\n' -> b'a\n'
 M4 table: "lf-with-crlf-in-repo" reader -> _to_lf   must store CRLF: b'a\r\n' read as b'a\n'
 M5 filtered_output_bytes applies filter.reader      crlf must write CRLF
 M6 content.replace(b"\r\n", b"\n", 3)              crlf: b'\n\n\n\n' read back b'\n\n\n\r\n'
 M7 _to_crlf_converter tests NUL in chunks[0] only   chunks [b'a', b'\n\x00'] -> b'a\r\n\x00'
 M8b ContentFilterAwareSHA1Provider.sha1 ignores filters   fresh checkout of b'a\n\ra\r' reports a change
 M9 filtered_input_file skips the first filter       native: b'a\r\r\n' ... read back differs
 M10 win32 `_native_output = _to_lf_converter`        native (win32) must write CRLF
 (M8 the same in stat_and_sha1: not reached by checkout / status / commit /
  revert / get_file_sha1 - behaviourally equivalent, stays clean)
 H1 harmless: dict entries reordered + reader loop as comprehension: clean, 22/22
 H2 harmless but shape-changing (`content` renamed, `find() >= 0`): extraction
    fails, Generated/C45.lean is invalidated, T1 lemmas recorded as
    t1_unproved, exhaustive T2 clean: exit 0.
"""
import ast
import io
import itertools
import os
import re
import sys

from vlib import env

THEOREMS = [
    "roundtrip_iff", "roundtrip_lf_repo", "roundtrip_crlf_repo_partial", "crlf_repo_witness",
    "binary_untouched", "exact_identity", "output_chunking", "toLf_toCrlf", "toCrlf_toLf_iff",
    "roundtrip_crlf_repo_fixed", "toCrlf_canonical", "toLf_not_idempotent_witness",
    "crlf_settings_write_crlf", "lf_settings_write_lf", "crlf_repo_settings_store_crlf",
]
T1_EQUALITY_THEOREMS = ["eol_map_gen_eq", "eol_map_gen_keys_nodup", "converter_consts_gen_eq",
                        "roundtrip_iff_generated", "binary_untouched_generated"]
RULE = ("case = (platform, eol setting, content) / (converter, content) / (setting, file content in a "
        "checked-out tree); exhaustive over {CR,LF,NUL,a}^<=L for converters and settings, random wider "
        "strings and chunkings; non-trivial = content contains CR or LF and the setting is not 'exact'")
ASSUMPTIONS = [
    "the win32 variant of the table is exercised by executing a copy of eol.py with sys.platform patched to 'win32'",
    "'reports no changes' is modelled as read(write(c)) == c; SHA-1 and the dirstate are exercised, not modelled",
]
TRUSTED = [
    "bytes.replace and re.sub with a fixed-width lookbehind are modelled by replCrlf / subUnixNl (tied by the exhaustive converter comparison)",
    "tools/extract.py-style AST extraction in this module (T1)",
]

ALPHA = [b"\r", b"\n", b"\x00", b"a"]
KEYS = ["exact", "native", "lf", "crlf", "native-with-crlf-in-repo", "lf-with-crlf-in-repo",
        "crlf-with-crlf-in-repo"]
FAMILY = "crlf-repo-cr-cr-lf"
BARE_LF = re.compile(rb"(?<!\r)\n")


def hx(b):
    return b.hex() if b else "-"


# ---------------------------------------------------------------- T1
def extract(ctx):
    sys.path.insert(0, os.path.join(env.VERIF, "tools"))
    import extract as ex
    try:
        return _extract(ex)
    except Exception as e:
        # never leave a stale table behind: the T1 theorems must not check against old source
        ex.write_if_changed(os.path.join(env.VERIF, "lean/BreezyVerif/Generated/C45.lean"),
                            "-- GENERATED by harness/checks/c45.py — extraction FAILED: %s\n"
                            "import BreezyVerif.Model.C45\n" % str(e).replace("\n", " ")[:300])
        raise


def _extract(ex):
    path = os.path.join(env.REPO, "breezy/filters/eol.py")
    tree = ast.parse(open(path).read())
    conv = {"_to_lf_converter": "Conv.toLf", "_to_crlf_converter": "Conv.toCrlf"}

    def conv_name(node, allow_native=True):
        if isinstance(node, ast.Constant) and node.value is None:
            return "none"
        if isinstance(node, ast.Name) and node.id in conv:
            return "(some %s)" % conv[node.id]
        if allow_native and isinstance(node, ast.Name) and node.id == "_native_output":
            return "(some (nativeOutputGen win))"
        raise ex.ExtractError("unexpected converter %s" % ast.unparse(node))

    # _native_output platform switch
    native = None
    for n in tree.body:
        if (isinstance(n, ast.If) and len(n.body) == 1 and len(n.orelse) == 1
                and all(isinstance(s, ast.Assign) and len(s.targets) == 1
                        and isinstance(s.targets[0], ast.Name) and s.targets[0].id == "_native_output"
                        for s in (n.body[0], n.orelse[0]))):
            if ast.unparse(n.test) != "sys.platform == 'win32'":
                raise ex.ExtractError("unexpected platform test %s" % ast.unparse(n.test))
            a, b = n.body[0].value, n.orelse[0].value
            if not (isinstance(a, ast.Name) and a.id in conv and isinstance(b, ast.Name) and b.id in conv):
                raise ex.ExtractError("unexpected _native_output values")
            native = (conv[a.id], conv[b.id])
    if native is None:
        raise ex.ExtractError("_native_output switch not found")

    # the table
    val = ex.find_assign(path, "_eol_filter_stack_map")
    if not isinstance(val, ast.Dict):
        raise ex.ExtractError("_eol_filter_stack_map is not a dict literal")
    entries = []
    for k, v in zip(val.keys, val.values):
        if not (isinstance(k, ast.Constant) and isinstance(k.value, str) and isinstance(v, ast.List)):
            raise ex.ExtractError("unexpected table entry %s" % ast.unparse(k))
        fl = []
        for call in v.elts:
            if not (isinstance(call, ast.Call) and isinstance(call.func, ast.Name) and call.func.id == "ContentFilter"
                    and len(call.args) == 2 and not call.keywords):
                raise ex.ExtractError("unexpected filter %s" % ast.unparse(call))
            fl.append("⟨%s, %s⟩" % (conv_name(call.args[0]), conv_name(call.args[1])))
        entries.append((k.value, "[" + ", ".join(fl) + "]"))
    entries.sort(key=lambda e: e[0])

    # shape and constants of the converters
    def conv_parts(fname):
        f = ex.find_func(path, fname)
        body = [s for s in f.body if not (isinstance(s, ast.Expr) and isinstance(s.value, ast.Constant))]
        if len(body) != 2 or ast.unparse(body[0]) != "content = b''.join(chunks)":
            raise ex.ExtractError("%s: unexpected body" % fname)
        iff = body[1]
        if not (isinstance(iff, ast.If) and isinstance(iff.test, ast.Compare) and len(iff.test.ops) == 1
                and isinstance(iff.test.ops[0], ast.In) and isinstance(iff.test.left, ast.Constant)
                and isinstance(iff.test.left.value, bytes) and ast.unparse(iff.test.comparators[0]) == "content"
                and len(iff.body) == 1 and ast.unparse(iff.body[0]) == "return [content]"
                and len(iff.orelse) == 1 and isinstance(iff.orelse[0], ast.Return)
                and isinstance(iff.orelse[0].value, ast.List) and len(iff.orelse[0].value.elts) == 1):
            raise ex.ExtractError("%s: unexpected NUL test / returns" % fname)
        return iff.test.left.value, iff.orelse[0].value.elts[0]

    nul1, e1 = conv_parts("_to_lf_converter")
    if not (isinstance(e1, ast.Call) and ast.unparse(e1.func) == "content.replace" and len(e1.args) == 2
            and all(isinstance(a, ast.Constant) and isinstance(a.value, bytes) for a in e1.args)):
        raise ex.ExtractError("_to_lf_converter: unexpected conversion %s" % ast.unparse(e1))
    nul2, e2 = conv_parts("_to_crlf_converter")
    if not (isinstance(e2, ast.Call) and ast.unparse(e2.func) == "_UNIX_NL_RE.sub" and len(e2.args) == 2
            and isinstance(e2.args[0], ast.Constant) and isinstance(e2.args[0].value, bytes)
            and ast.unparse(e2.args[1]) == "content" and not e2.keywords):
        raise ex.ExtractError("_to_crlf_converter: unexpected conversion %s" % ast.unparse(e2))
    rx = ex.find_assign(path, "_UNIX_NL_RE")
    if not (isinstance(rx, ast.Call) and ast.unparse(rx.func) == "re.compile" and len(rx.args) == 1
            and isinstance(rx.args[0], ast.Constant) and isinstance(rx.args[0].value, bytes) and not rx.keywords):
        raise ex.ExtractError("_UNIX_NL_RE: unexpected definition")

    text = "\n".join([
        "-- GENERATED by harness/checks/c45.py from breezy/filters/eol.py — do not edit",
        "import BreezyVerif.Model.C45",
        "namespace BreezyVerif.C45",
        "def nativeOutputGen (win : Bool) : Conv := if win then %s else %s" % native,
        "def eolMapGen (win : Bool) : List (String × List Filter) :=",
        "  [ " + ",\n    ".join("(%s, %s)" % (ex.lean_str(k), v) for k, v in entries) + " ]",
        "def lfReplaceFromGen : Bytes := %s" % ex.lean_bytes(e1.args[0].value),
        "def lfReplaceToGen : Bytes := %s" % ex.lean_bytes(e1.args[1].value),
        "def crlfPatternGen : Bytes := %s" % ex.lean_bytes(rx.args[0].value),
        "def crlfReplGen : Bytes := %s" % ex.lean_bytes(e2.args[0].value),
        "def nulMarkersGen : List Bytes := [%s, %s]" % (ex.lean_bytes(nul1), ex.lean_bytes(nul2)),
        "end BreezyVerif.C45", ""])
    ex.write_if_changed(os.path.join(env.VERIF, "lean/BreezyVerif/Generated/C45.lean"), text)
    return "regenerated eolMapGen (%d entries), nativeOutputGen and converter constants from eol.py" % len(entries)


# ---------------------------------------------------------------- implementation access
_WIN = []


def _mods():
    from breezy import filters
    from breezy.filters import eol
    if not _WIN:
        import importlib.util
        path = os.path.join(env.REPO, "breezy/filters/eol.py")
        spec = importlib.util.spec_from_file_location("breezy.filters._verif_eol_win32", path)
        mod = importlib.util.module_from_spec(spec)
        old = sys.platform
        sys.platform = "win32"
        try:
            spec.loader.exec_module(mod)
        finally:
            sys.platform = old
        _WIN.append(mod)
    return filters, eol, _WIN[0]


def _write(filters, stack, chunks):
    return b"".join(filters.filtered_output_bytes(chunks, stack))


def _read(ctx, filters, stack, d):
    f, size = filters.filtered_input_file(io.BytesIO(d), stack)
    t = f.read()
    if size != len(t):
        ctx.violation(dict(kind="size", d=hx(d)), "filtered_input_file reports size %d for %d bytes" % (size, len(t)))
    return t


def case0(win, key, c):
    return dict(kind="rt", win=win, key=key, c=hx(c))


def _family(eolmod, stack, c):
    """classifier of the known failing family, computed from the concrete input"""
    if (b"\x00" not in c and b"\r\r\n" in c and len(stack) == 1
            and getattr(stack[0].reader, "__name__", "") == "_to_crlf_converter"
            and getattr(stack[0].writer, "__name__", "") == "_to_lf_converter"
            and stack[0].reader(([b"x\n"])) == [b"x\r\n"] and stack[0].writer([b"x\r\n"]) == [b"x\n"]):
        return FAMILY
    return None


def _strings(L):
    for n in range(L + 1):
        for t in itertools.product(ALPHA, repeat=n):
            yield b"".join(t)


def _rand_bytes(rng, maxlen):
    pool = [b"\r", b"\n", b"\r\n", b"\r\r\n", b"\n\r", b"a", b"b", b" ", b"\t", b"\x0b", b"\x85", b"\xff", b"\x1a"]
    n = rng.randint(0, maxlen)
    out = b"".join(rng.choice(pool) for _ in range(n))
    if rng.random() < 0.1:
        i = rng.randint(0, len(out))
        out = out[:i] + b"\x00" + out[i:]
    return out


# ---------------------------------------------------------------- parts of the run
def _converters(ctx, eolmod, contents, tag):
    cases, lines, outs = [], [], []
    for c in contents:
        lf = b"".join(eolmod._to_lf_converter([c]))
        cr = b"".join(eolmod._to_crlf_converter([c]))
        if b"\x00" in c and (lf != c or cr != c):
            ctx.violation(dict(kind="conv", c=hx(c)), "binary content converted: %r -> lf %r / crlf %r" % (c, lf, cr))
        ctx.case([tag, hx(c)], nontrivial=(b"\r" in c or b"\n" in c))
        ctx.count("conv-len:%d" % min(len(c), 12))
        if b"\x00" in c:
            ctx.count("conv-binary")
        for op, out in (("lf", lf), ("crlf", cr)):
            cases.append([tag, op, hx(c)])
            lines.append("%s %s" % (op, hx(c)))
            outs.append(hx(out))
    ctx.diff(cases, lines, outs)


def _settings(ctx, filters, tables, contents, tag, rng=None):
    """tables: [(win, eol module)].  write / read / read-after-write for every key."""
    cases, lines, outs = [], [], []
    for win, mod in tables:
        W = "T" if win else "F"
        for key in KEYS:
            stack = mod.eol_lookup(key)
            via_registry = None
            if not win:
                via_registry = filters._get_filter_stack_for((("eol", key),))
                if via_registry != stack:
                    ctx.violation(dict(kind="registry", key=key), "registry returns a different stack for %s" % key)
            for c in contents:
                rd = _read(ctx, filters, stack, c)
                disk = _write(filters, stack, [c])
                back = _read(ctx, filters, stack, disk)
                canonical = rd == c
                binary = b"\x00" in c
                if (not canonical and getattr(stack[0].reader, "__name__", "") == "_to_crlf_converter"
                        and _read(ctx, filters, stack, rd) != rd):
                    ctx.violation(case0(win, key, c), "%s: the CRLF reader stores %r for %r, which is not canonical "
                                  "(reading it again gives %r)" % (key, rd, c, _read(ctx, filters, stack, rd)))
                case = dict(kind="rt", win=win, key=key, c=hx(c))
                if binary and (disk != c or rd != c):
                    ctx.violation(case, "binary content converted by %s: %r -> tree %r, read %r" % (key, c, disk, rd))
                if key == "exact" and (disk != c or rd != c):
                    ctx.violation(case, "'exact' changed %r" % c)
                if (not canonical and not binary and _read(ctx, filters, stack, rd) != rd):
                    ctx.count("lf-reader-noncanonical")     # observation, see docstring
                if not binary:
                    # what the setting names promise about the working tree
                    writes_crlf = key in ("crlf", "crlf-with-crlf-in-repo") or (win and key.startswith("native"))
                    writes_lf = key in ("lf", "lf-with-crlf-in-repo") or (not win and key.startswith("native"))
                    if key.endswith("-with-crlf-in-repo") and BARE_LF.search(rd):
                        ctx.violation(case, "%s must store CRLF but %r is read as %r" % (key, c, rd))
                    if writes_crlf and BARE_LF.search(disk):
                        ctx.violation(case, "%s%s must write CRLF but %r is checked out as %r"
                                      % (key, " (win32)" if win else "", c, disk))
                    if writes_lf and canonical and b"\r\r\n" not in c and b"\r\n" in disk:
                        ctx.violation(case, "%s%s must write LF but canonical %r is checked out as %r"
                                      % (key, " (win32)" if win else "", c, disk))
                if canonical and not binary and back != c:
                    fam = _family(mod, stack, c)
                    ctx.count("roundtrip-fails:" + key)
                    # every failure outside the classified family is recorded; inside it the
                    # first few per setting (all are counted in the distribution)
                    if fam is None or tag in ("fixed", "replay") or ctx.dist["roundtrip-fails:" + key] <= 8:
                        ctx.violation(case, "%s%s: canonical %r -> working tree %r -> read back %r"
                                      % (key, " (win32)" if win else "", c, disk, back), family=fam)
                ctx.case([tag, win, key, hx(c)], nontrivial=(key != "exact" and (b"\r" in c or b"\n" in c)))
                ctx.count("canonical" if canonical else "non-canonical")
                if binary:
                    ctx.count("binary")
                disk_chunked = disk
                if len(c) > 1 and (tag == "fixed" or (rng is not None and rng.random() < 0.5)):
                    if tag == "fixed":
                        cuts = [len(c) // 2]
                    else:
                        cuts = sorted(rng.randint(0, len(c)) for _ in range(rng.randint(1, 3)))
                    chunks = [c[i:j] for i, j in zip([0] + cuts, cuts + [len(c)])]
                    disk_chunked = _write(filters, stack, iter(chunks))
                    if disk_chunked != disk:
                        ctx.violation(case, "%s: output depends on chunking: %r -> %r, unchunked %r"
                                      % (key, chunks, disk_chunked, disk))
                    ctx.count("chunked")
                else:
                    chunks = [c]
                for op, arg, out in (("in", hx(c), rd),
                                     ("out", ",".join(x.hex() or "_" for x in chunks) or "-", disk_chunked),
                                     ("rt", hx(c), back)):
                    cases.append([tag, op, win, key, hx(c)])
                    lines.append("%s %s %s %s" % (op, W, key, arg))
                    outs.append(hx(out))
    ctx.diff(cases, lines, outs)


def _unknown_keys(ctx, eolmod):
    from breezy.errors import BzrError
    cases, lines, outs = [], [], []
    for key in ("", "LF", "crlf ", "native-with-lf-in-repo", "exact-with-crlf-in-repo", "none"):
        try:
            eolmod.eol_lookup(key)
            out = "accepted"
        except BzrError:
            out = "E:BzrError"
        if " " in key or not key:
            continue    # not expressible in the line protocol; rejection checked above
        ctx.case(["unknown-key", key], nontrivial=False)
        ctx.count("malformed-key")
        cases.append(["unknown-key", key])
        lines.append("in F %s 610a" % key)
        outs.append(out)
    ctx.diff(cases, lines, outs)


def _tree_part(ctx, filters, eolmod, key, contents, fmt="2a"):
    """commit canonical files under an eol rule, check out afresh, look at disk and iter_changes"""
    from breezy import rules
    stack = eolmod.eol_lookup(key)
    rp = rules.rules_path()
    os.makedirs(os.path.dirname(rp), exist_ok=True)
    with open(rp, "w") as f:
        f.write("[name *]\neol = %s\n" % key)
    rules.reset_rules()
    filters._stack_cache.clear()
    try:
        wt = env.make_tree(fmt)
        names = []
        ok = [c for c in contents if _read(ctx, filters, stack, c) == c]
        ctx.count("tree-skipped-noncanonical", len(contents) - len(ok))
        contents = ok
        for i, c in enumerate(contents):
            name = "f%02d" % i
            with open(os.path.join(wt.basedir, name), "wb") as f:
                f.write(c)
            names.append(name)
        wt.add(names)
        rev1 = wt.commit("add")
        wt2 = wt.controldir.sprout(os.path.join(env.fresh_dir("co"), "t")).open_workingtree()
        with wt2.lock_read():
            basis = wt2.basis_tree()
            with basis.lock_read():
                changed = {ch.path[1] or ch.path[0] for ch in wt2.iter_changes(basis)}
                stored = {n: basis.get_file_text(n) for n in names}
            readback = {n: wt2.get_file_text(n) for n in names}
        # a commit in the fresh checkout must not see any file as modified either
        wt2.commit("nothing changed")
        with wt2.lock_read():
            basis2 = wt2.basis_tree()
            with basis2.lock_read():
                recommitted = {n for n in names if basis2.get_file_revision(n) != rev1}
                stored2 = {n: basis2.get_file_text(n) for n in names}
        cases, lines, outs = [], [], []
        for name, c in zip(names, contents):
            case = dict(kind="tree", key=key, fmt=fmt, c=hx(c))
            with open(os.path.join(wt2.basedir, name), "rb") as f:
                disk = f.read()
            fam = _family(eolmod, stack, c)
            if stored[name] != c:
                ctx.violation(case, "%s: committed canonical %r but the repository stores %r" % (key, c, stored[name]))
            if disk != _write(filters, stack, [c]):
                ctx.violation(case, "%s: checkout wrote %r, filtered_output_bytes gives %r" % (key, disk, _write(filters, stack, [c])))
            if name in changed:
                ctx.violation(case, "%s: fresh checkout of canonical %r (on disk %r) reports a change" % (key, c, disk), family=fam)
            if readback[name] != c:
                ctx.violation(case, "%s: fresh checkout reads %r back as %r" % (key, c, readback[name]), family=fam)
            if name in recommitted or stored2[name] != c:
                ctx.violation(case, "%s: a commit in the fresh checkout of canonical %r (on disk %r) records the file "
                              "as modified (new text %r)" % (key, c, disk, stored2[name]), family=fam)
            ctx.case(["tree", fmt, key, hx(c)], nontrivial=(key != "exact" and (b"\r" in c or b"\n" in c)))
            ctx.count("tree-file:" + key)
            cases.append(["tree-disk", key, hx(c)])
            lines.append("out F %s %s" % (key, c.hex() or "_"))
            outs.append(hx(disk))
        ctx.diff(cases, lines, outs)
    finally:
        os.unlink(rp)
        rules.reset_rules()
        filters._stack_cache.clear()


def _canonical_sample(ctx, filters, stack, L, k, rng):
    pool = [c for c in _strings(L) if b"\x00" not in c and _read(ctx, filters, stack, c) == c
            and (b"\r" in c or b"\n" in c)]
    return rng.sample(pool, min(k, len(pool)))


def run(ctx, L=None, L2=None, nrand=None):
    filters, eolmod, winmod = _mods()
    rng = ctx.rng
    L = L or ctx.pick(8, 10)
    L2 = L2 or ctx.pick(6, 8)
    nrand = nrand or ctx.pick(3000, 20000)
    tables = [(False, eolmod), (True, winmod)]

    # corpus-like fixed cases first
    fixed = [b"", b"a\r\r\n", b"\r\r\n", b"a\r\n", b"a\n", b"\r", b"\n\r", b"a\r\r\r\n\r\n", b"a\r\n\x00", b"\x00",
             b"a\n\x00", b"\x00\r\n"]
    _settings(ctx, filters, tables, fixed, "fixed")
    _unknown_keys(ctx, eolmod)

    # exhaustive
    _converters(ctx, eolmod, list(_strings(L)), "conv-exh")
    _settings(ctx, filters, tables, list(_strings(L2)), "set-exh")
    ctx.exhaustive = True
    ctx.extra["exhaustive_domain"] = dict(alphabet=["\\r", "\\n", "\\0", "a"], converters_max_len=L,
                                          settings_max_len=L2, settings=len(KEYS), platforms=2)

    # random, wider alphabet, with chunkings
    rnd = [_rand_bytes(rng, rng.choice((4, 10, 30, 64))) for _ in range(nrand)]
    _converters(ctx, eolmod, rnd, "conv-rand")
    _settings(ctx, filters, tables, rnd[: nrand // 6], "set-rand", rng=rng)

    # trees
    for key in KEYS:
        stack = eolmod.eol_lookup(key)
        contents = [b"", b"plain", b"bin\r\n\x00\n\r"] + _canonical_sample(ctx, filters, stack, 6, ctx.pick(10, 60), rng)
        if key.endswith("-with-crlf-in-repo"):
            contents.append(b"a\r\r\nb\r\n")
        _tree_part(ctx, filters, eolmod, key, contents)


def widen(ctx):
    run(ctx, L=10, L2=8, nrand=20000)


def replay(ctx, case):
    filters, eolmod, winmod = _mods()
    c = bytes.fromhex(case["c"]) if case.get("c", "-") != "-" else b""
    if case.get("kind") == "tree":
        _tree_part(ctx, filters, eolmod, case["key"], [c], fmt=case.get("fmt", "2a"))
        return dict(case=case, content=repr(c), oracle_failures=[v["what"] for v in ctx.violations],
                    mismatches=[m for m in ctx.mismatches if m])
    if case.get("kind") == "conv":
        _converters(ctx, eolmod, [c], "replay")
        return dict(case=case, content=repr(c), lf=repr(b"".join(eolmod._to_lf_converter([c]))),
                    crlf=repr(b"".join(eolmod._to_crlf_converter([c]))),
                    oracle_failures=[v["what"] for v in ctx.violations], mismatches=[m for m in ctx.mismatches if m])
    win, key = case.get("win", False), case["key"]
    mod = winmod if win else eolmod
    stack = mod.eol_lookup(key)
    rd = _read(ctx, filters, stack, c)
    disk = _write(filters, stack, [c])
    back = _read(ctx, filters, stack, disk)
    _settings(ctx, filters, [(win, mod)], [c], "replay")
    m = ctx.model(["rt %s %s %s" % ("T" if win else "F", key, hx(c))])
    return dict(case=case, content=repr(c), canonical=(rd == c), working_tree=repr(disk), read_back=repr(back),
                impl=hx(back), model=m[0], oracle_failures=[v["what"] for v in ctx.violations],
                families=[v["family"] for v in ctx.violations])
