import BreezyVerif.Lemmas.C21C
/-! C21 — lemmas about revnos, `set_last_revision_info` and bound operations. -/
namespace BreezyVerif.C21

theorem revnoOK_iff (g : Graph) (b : Br) : revnoOK g b = true ↔ revnoOf g b.tip = some b.revno := by
  simp [revnoOK]

theorem requested_none (src : Br) (s : Tip) (rn : Option Nat)
    (h : requested src none = some (s, rn)) : s = src.tip ∧ rn = some src.revno := by
  by_cases h0 : src.tip = none
  · simp [requested, h0] at h
  · simp [requested, h0] at h
    exact ⟨h.1.symm, h.2.symm⟩

theorem requested_some (src : Br) (s' s : Tip) (rn : Option Nat)
    (h : requested src (some s') = some (s, rn)) : s = s' ∧ rn = none := by
  simp [requested] at h
  exact ⟨h.1.symm, h.2.symm⟩

theorem seed_lookup (src tgt : Br) (r' : Rev) (k' : Nat)
    (h : (seed tgt ++ seed src).lookup r' = some k') :
    (tgt.tip = some r' ∧ tgt.revno = k') ∨ (src.tip = some r' ∧ src.revno = k') := by
  cases ht : tgt.tip with
  | none =>
    cases hs : src.tip with
    | none => simp [seed, ht, hs] at h
    | some a =>
      simp only [seed, ht, hs, List.nil_append, List.lookup] at h
      split at h
      · rename_i heq
        simp at heq h
        right; exact ⟨by rw [heq], h⟩
      · cases h
  | some b =>
    cases hs : src.tip with
    | none =>
      simp only [seed, ht, hs, List.append_nil, List.lookup] at h
      split at h
      · rename_i heq
        simp at heq h
        left; exact ⟨by rw [heq], h⟩
      · cases h
    | some a =>
      simp only [seed, ht, hs, List.cons_append, List.nil_append, List.lookup] at h
      split at h
      · rename_i heq
        simp at heq h
        left; exact ⟨by rw [heq], h⟩
      · split at h
        · rename_i heq
          simp at heq h
          right; exact ⟨by rw [heq], h⟩
        · cases h

/-- the seeds `_update_revisions` hands to `find_distance_to_null` are correct
when both branches record correct revnos -/
theorem seeds_correct (g : Graph) (src tgt : Br) (hs : revnoOK g src = true) (ht : revnoOK g tgt = true) :
    ∀ r' k', (seed tgt ++ seed src).lookup r' = some k' → r' ∈ mentioned g →
      (lefthand g r').map List.length = some k' := by
  intro r' k' h _
  rw [revnoOK_iff] at hs ht
  rcases seed_lookup src tgt r' k' h with ⟨h1, h2⟩ | ⟨h1, h2⟩
  · rw [h1] at ht; rw [← h2]; simpa [revnoOf, lhTip] using ht
  · rw [h1] at hs; rw [← h2]; simpa [revnoOf, lhTip] using hs

theorem distTip_correct (g : Graph) (hwf : wf g = true) (src tgt : Br)
    (hs : revnoOK g src = true) (ht : revnoOK g tgt = true) (s : Tip) (hp : tipPresent g s = true)
    (n : Nat) (h : distTip (seed tgt ++ seed src) g s = some n) : revnoOf g s = some n := by
  cases s with
  | none => simp [distTip] at h; subst h; rfl
  | some r =>
    have hm := present_mentioned g r hp
    exact dist_correct _ g hwf (seeds_correct g src tgt hs ht) r n hm h

theorem distTip_complete (g : Graph) (hwf : wf g = true) (src tgt : Br)
    (hs : revnoOK g src = true) (ht : revnoOK g tgt = true) (s : Tip)
    (n : Nat) (h : revnoOf g s = some n) : distTip (seed tgt ++ seed src) g s = some n := by
  cases s with
  | none => simp [revnoOf, lhTip] at h; subst h; rfl
  | some r =>
    simp only [revnoOf, lhTip, Option.map_eq_some_iff] at h
    obtain ⟨l, hl, hn⟩ := h
    rw [← hn]
    exact dist_complete _ g hwf (seeds_correct g src tgt hs ht) r l hl

theorem setLast_ok (g : Graph) (b : Br) (n : Nat) (t : Tip) (b' : Br) (h : setLast g b n t = .ok b') :
    b' = { b with tip := t, revno := n } := by
  unfold setLast at h
  split at h
  · split at h
    · cases h; rfl
    · cases h
  · cases h; rfl

theorem setLast_free (g : Graph) (b : Br) (n : Nat) (t : Tip) (h : b.appendOnly = false) :
    setLast g b n t = .ok { b with tip := t, revno := n } := by
  simp [setLast, h]

/-- an accepted new tip of an append-only branch has the old tip on its left-hand chain -/
theorem setLast_append_only (g : Graph) (b : Br) (n : Nat) (t : Tip) (b' : Br)
    (hao : b.appendOnly = true) (h : setLast g b n t = .ok b') :
    b.tip = none ∨ ∃ o r, b.tip = some o ∧ t = some r ∧ o ∈ lhChain g r := by
  unfold setLast at h
  simp only [hao, if_true] at h
  unfold checkHistoryViolation at h
  cases hb : b.tip with
  | none => exact Or.inl rfl
  | some o =>
    right
    rw [hb] at h
    cases t with
    | none => simp at h
    | some r =>
      simp only at h
      cases hf : lhFind g r o with
      | found => exact ⟨o, r, rfl, rfl, lhFind_found_chain g r o hf⟩
      | exhausted => rw [hf] at h; simp at h
      | ghost => rw [hf] at h; simp at h

theorem bound2_err_unchanged (f : Br → Except Err Br) (tgt : Br) (m : Option Br)
    (h : (bound2 f tgt m).err ≠ none) : (bound2 f tgt m).tgt = tgt := by
  cases m with
  | none =>
    cases hf : f tgt <;> simp [bound2, hf] at h ⊢
  | some mb =>
    cases hm : f mb with
    | error e => simp [bound2, hm]
    | ok m' => cases hf : f tgt <;> simp [bound2, hm, hf] at h ⊢

/-- a per-branch invariant of `f` carries over to both branches touched by a bound operation -/
theorem bound2_pres (P : Br → Br → Prop) (hrefl : ∀ b, P b b) (f : Br → Except Err Br)
    (hf : ∀ b b', f b = .ok b' → P b b') (tgt : Br) (m : Option Br) :
    P tgt (bound2 f tgt m).tgt ∧
      ∀ mb, m = some mb → ∃ mb', (bound2 f tgt m).master = some mb' ∧ P mb mb' := by
  cases m with
  | none =>
    cases h : f tgt with
    | ok t => simp only [bound2, h]; exact ⟨hf _ _ h, by simp⟩
    | error e => simp only [bound2, h]; exact ⟨hrefl _, by simp⟩
  | some mb =>
    cases hm : f mb with
    | error e =>
      simp only [bound2, hm]
      exact ⟨hrefl _, by intro mb0 h0; cases h0; exact ⟨mb, rfl, hrefl _⟩⟩
    | ok m' =>
      cases h : f tgt with
      | ok t =>
        simp only [bound2, hm, h]
        exact ⟨hf _ _ h, by intro mb0 h0; cases h0; exact ⟨m', rfl, hf _ _ hm⟩⟩
      | error e =>
        simp only [bound2, hm, h]
        exact ⟨hrefl _, by intro mb0 h0; cases h0; exact ⟨m', rfl, hf _ _ hm⟩⟩

end BreezyVerif.C21
