import BreezyVerif.Common
import BreezyVerif.Model.C03
/-
C08 — stacked repositories, on top of the repository model of C03.

A stacked repository is a pair `(st, fb)`: what it stores itself and its
fallback.  Reads go to `both` (local first).  The invariant `stackable` is the
stacking invariant of `VersionedFileCommitBuilder._ensure_fallback_inventories`
("for any revision that is present, we either have all of the file content, or
we have the parent inventory and the delta file content"):

  for every revision stored locally: its inventory is local, the inventory of
  every parent that is a revision of `st` or `fb` is local, and every entry of
  its inventory that occurs in none of those parent inventories has its text
  stored locally.

Operations:
* `fetchStacked` — `RepoFetcher` into a stacked target: the revision search runs
  against the target graph *with* fallbacks (`both`), the stream is inserted
  into `st`, then `StreamSink` asks for the inventories of parents that are not
  local revisions (`get_missing_parent_inventories`, C03 `withParentInvs`).
* `commitStacked` — a commit: the new revision, its inventory, the texts of the
  entries it introduces, then `_ensure_fallback_inventories`: inventories of
  parents missing locally are copied from the fallback; if one cannot be
  found the commit fails ("Unable to fill in parent inventories").
* `checkNew` — `GCRepositoryPackCollection._check_new_inventories` at
  `commit_write_group`: every new revision has its inventory locally, and every
  entry of a new inventory that is in no locally stored parent-only inventory
  has its text locally.  (It does not look at revisions or at the fallback.)
Core Lean only.
-/
namespace BreezyVerif.C08

open BreezyVerif.C03
open BreezyVerif.C33 (parentsL)

structure Stacked where
  st : Repo
  fb : Repo
  deriving DecidableEq, Repr

/-- what reads see: local first, then the fallback -/
def both (s : Stacked) : Repo :=
  ⟨s.st.revs ++ s.fb.revs, s.st.invs ++ s.fb.invs, s.st.texts ++ s.fb.texts⟩

def presentRev (s : Stacked) (p : Rev) : Bool := hasRev s.st p || hasRev s.fb p

/-- entries of the locally stored inventories of the parents that are revisions somewhere -/
def parentEntries (s : Stacked) (rec : RevRec) : List Entry :=
  (rec.parents.filter (presentRev s)).flatMap (invOrEmpty s.st)

def stackableRev (s : Stacked) (k : Rev) (rec : RevRec) : Bool :=
  match get s.st.invs k with
  | none => false
  | some inv =>
    (rec.parents.all fun p => !presentRev s p || (get s.st.invs p).isSome) &&
    inv.all fun e => decide (e ∈ parentEntries s rec) || (get s.st.texts e.key).isSome

/-- the stacking invariant -/
def stackable (s : Stacked) : Bool := s.st.revs.all fun kv => stackableRev s kv.1 kv.2

/-- the tree of `k` can be read from `r`: inventory and every text -/
def readable (r : Repo) (k : Rev) : Bool :=
  match get r.invs k with
  | none => false
  | some inv => inv.all fun e => (get r.texts e.key).isSome

/-! ### fetch into a stacked repository -/

def fetchStacked (x : Exclusion) (fg : Bool) (src : Repo) (s : Stacked) (rev : Rev) : Except Err Stacked :=
  let m := missing fg src (both s) rev
  if !hasRev src rev && (fg || !presentRev s rev) then .error .noSuchRevision
  else if !streamable x src m then .error .sourceIncomplete
  else .ok { s with st := withParentInvs src (copy x src s.st m) m }

/-! ### commit to a stacked repository -/

inductive CommitErr where
  /-- "Unable to fill in parent inventories for a stacked branch" -/
  | cannotFillParentInventories
  deriving DecidableEq, Repr

/-- `_ensure_fallback_inventories`: inventories of the parents that are not stored
locally, taken from the fallback; `none` if one is in neither -/
def fallbackParentInvs (s : Stacked) (parents : List Rev) : Option (List (Rev × Inv)) :=
  let need := parents.filter fun p => (get s.st.invs p).isNone
  if need.all fun p => (get s.fb.invs p).isSome then
    some (need.filterMap fun p => (get s.fb.invs p).map fun i => (p, i))
  else none

/-- commit revision `k` (record `rec`, inventory `inv`, texts of the entries it introduces) -/
def commitStacked (s : Stacked) (k : Rev) (rec : RevRec) (inv : Inv) (newTexts : List (TextKey × Nat)) :
    Except CommitErr Stacked :=
  let st1 : Repo := ⟨s.st.revs ++ [(k, rec)], s.st.invs ++ [(k, inv)], s.st.texts ++ newTexts⟩
  match fallbackParentInvs ⟨st1, s.fb⟩ rec.parents with
  | none => .error .cannotFillParentInventories
  | some fill => .ok { s with st := { st1 with invs := st1.invs ++ fill } }

/-! ### the refusal at commit_write_group -/

/-- inventories stored locally for parents of the new revisions that are not new themselves -/
def parentOnlyEntries (st : Repo) (new : List Rev) : List Entry :=
  ((new.flatMap (parentsL (graph st))).filter fun p => !decide (p ∈ new)).flatMap (invOrEmpty st)

/-- `_check_new_inventories() == []` for the write group that added the revisions `new` -/
def checkNew (st : Repo) (new : List Rev) : Bool :=
  new.all fun k =>
    match get st.invs k with
    | none => false
    | some inv => inv.all fun e => decide (e ∈ parentOnlyEntries st new) || (get st.texts e.key).isSome

/-! ### pack / autopack -/

/-- one record per key, the first one (what lookups returned before) -/
def dedupKeys {α β : Type} [DecidableEq α] : List (α × β) → List (α × β)
  | [] => []
  | (k, v) :: rest => (k, v) :: (dedupKeys rest).filter fun kv => !decide (kv.1 = k)

/-- `Repository.pack()` / autopack: the packs are rewritten into one; every key keeps
its record (a repack must not drop anything, in particular not the inventories that
have no revision in this repository) -/
def packRepo (r : Repo) : Repo := ⟨dedupKeys r.revs, dedupKeys r.invs, dedupKeys r.texts⟩

def pack (s : Stacked) : Stacked := { s with st := packRepo s.st }

/-- the WRONG repack (witness only): like `pack`, but a text that the fallback holds as
well is not copied into the new pack ("the fallback has it anyway") -/
def packMinusFallback (s : Stacked) : Stacked :=
  { s with st := { packRepo s.st with
      texts := (dedupKeys s.st.texts).filter fun kv => (get s.fb.texts kv.1).isNone } }

/-- the fallback acquires what the stacked repository (read through the stack) holds of the
ancestry it is given: the branch is landed on the trunk it is stacked on.  The stacked
repository itself is not touched. -/
def land (s : Stacked) (revs : List (Rev × RevRec)) (invs : List (Rev × Inv)) (texts : List (TextKey × Nat)) : Stacked :=
  { s with fb := ⟨s.fb.revs ++ revs, s.fb.invs ++ invs, s.fb.texts ++ texts⟩ }

/-! ### hypotheses -/

/-- every locally stored inventory belongs to a revision of the stack or of the fallback -/
def invsHaveRevs (s : Stacked) : Bool := s.st.invs.all fun kv => presentRev s kv.1

/-- the source can supply the inventory of every revision the stack or its fallback holds
(it contains their history — the usual situation of a push from a full branch) -/
def srcSupplies (src : Repo) (s : Stacked) : Bool :=
  (s.st.revs ++ s.fb.revs).all fun kv => (get src.invs kv.1).isSome

/-- the weaker form that the theorems need: the source holds the inventory of every
parent of a revision it sends that is a revision of the stack or of its fallback
(`m` = the revisions sent).  Implied by `srcSupplies`; unlike it, it does not ask the
source to know the revisions committed on the stacked branch itself. -/
def srcSuppliesM (src : Repo) (s : Stacked) (m : List Rev) : Bool :=
  m.all fun k => (parentsL (graph src) k).all fun p => !presentRev s p || (get src.invs p).isSome

/-- what the stream's filter drops for a revision is shared with one of that revision's
own parents whose revision the source holds (sent or not).  True for histories made by
commits (an entry a commit introduces carries the committing revision's id, so it
occurs in no older inventory; every other entry is inherited from a parent);
evaluated by the harness on every case. -/
def exclusionLocal (x : Exclusion) (src : Repo) (m : List Rev) : Bool :=
  m.all fun k => (invOrEmpty src k).all fun e =>
    !decide (e ∈ excluded x src m) ||
      (parentsL (graph src) k).any fun p => hasRev src p && decide (e ∈ invOrEmpty src p)

/-- the commit stores the text of every entry it introduces: an entry that is in no
inventory of a present parent (read through the stack, as the commit reads its
basis trees) has its text among the texts written -/
def commitCovers (s : Stacked) (rec : RevRec) (inv : Inv) (nt : List (TextKey × Nat)) : Bool :=
  inv.all fun e =>
    decide (e ∈ (rec.parents.filter (presentRev s)).flatMap (invOrEmpty (both s))) ||
      (get (s.st.texts ++ nt) e.key).isSome

/-- parents have smaller ids (a topological numbering; the harness numbers revisions that way) -/
def topo (r : Repo) : Bool := r.revs.all fun kv => kv.2.parents.all fun p => decide (p < kv.1)

/-- the fallback and the local store agree on inventories both hold -/
def invsAgree (s : Stacked) : Bool := agreeOn s.fb.invs s.st.invs


/-! ### the invariant the code maintains by design

`_ensure_fallback_inventories`: "for any revision that is present, we either have
all of the file content, or we have the parent inventory and the delta file
content".  `get_missing_parent_inventories(check_for_missing_texts=True)` accepts a
write group whose parent inventories the source could not supply as long as no
text is missing.  `stackableW` is `stackable` without the demand that the
inventory of every present parent is stored locally: it is what a fetch from a
source that cannot supply a parent inventory (the parent is a ghost there, or the
source is itself stacked) still guarantees, and it is enough to read every tree. -/

def stackableRevW (s : Stacked) (k : Rev) (rec : RevRec) : Bool :=
  match get s.st.invs k with
  | none => false
  | some inv => inv.all fun e => decide (e ∈ parentEntries s rec) || (get s.st.texts e.key).isSome

def stackableW (s : Stacked) : Bool := s.st.revs.all fun kv => stackableRevW s kv.1 kv.2

/-! ### operation sequences on a stacked branch

The history of a stacked branch is a sequence of operations; an operation the
real code refuses (fetch of an unknown revision, a commit whose parent
inventories cannot be filled in) leaves the repository as it was. -/

inductive Op where
  /-- `fetch` / `push` of `rev` from the repository `src` -/
  | fetch (x : Exclusion) (fg : Bool) (src : Repo) (rev : Rev)
  /-- a commit on the stacked branch -/
  | commit (k : Rev) (rec : RevRec) (inv : Inv) (nt : List (TextKey × Nat))
  /-- `pack()` / autopack -/
  | pack
  deriving Repr

def step (s : Stacked) : Op → Stacked
  | .fetch x fg src rev =>
    match fetchStacked x fg src s rev with
    | .ok s' => s'
    | .error _ => s
  | .commit k rec inv nt =>
    match commitStacked s k rec inv nt with
    | .ok s' => s'
    | .error _ => s
  | .pack => pack s

def run : Stacked → List Op → Stacked
  | s, [] => s
  | s, o :: os => run (step s o) os

/-- what a fetch needs of its source, evaluated in the state it is applied to: the
stack (with its fallback) is ancestry-closed w.r.t. the source or ghosts are asked
for; the source, the local store and the fallback hold equal copies of the
inventories they share; the source can supply the inventories of the parents (present in the
stack or its fallback) of what it sends; `exclusionLocal`; the source's history is numbered
topologically and it holds no inventory without its revision (it is not itself a
stacked repository opened without its fallback). -/
def fetchOk (x : Exclusion) (fg : Bool) (src : Repo) (s : Stacked) (rev : Rev) : Bool :=
  (fg || closed (both s) src) && agreeOn src.invs s.st.invs && agreeOn s.fb.invs src.invs &&
  srcSuppliesM src s (missing fg src (both s) rev) && exclusionLocal x src (missing fg src (both s) rev) &&
  topo src && noOrphanInv src

/-- what a commit needs: a fresh revision id larger than its parents' (so not its own
parent), and the commit writes the text of every entry it introduces -/
def commitOk (s : Stacked) (k : Rev) (rec : RevRec) (inv : Inv) (nt : List (TextKey × Nat)) : Bool :=
  !presentRev s k && (get s.st.invs k).isNone && (get s.fb.invs k).isNone &&
  rec.parents.all (fun p => decide (p < k)) && commitCovers s rec inv nt

def stepOk (s : Stacked) : Op → Bool
  | .fetch x fg src rev => fetchOk x fg src s rev
  | .commit k rec inv nt => commitOk s k rec inv nt
  | .pack => true

/-- every operation of the sequence satisfies its precondition in the state it is applied to -/
def runOk : Stacked → List Op → Bool
  | _, [] => true
  | s, o :: os => stepOk s o && runOk (step s o) os

/-- the invariant of a stacked repository -/
def good (s : Stacked) : Bool := stackable s && topo s.st && invsAgree s && invsHaveRevs s

/-- a freshly created stacked repository -/
def emptyOn (fb : Repo) : Stacked := ⟨emptyRepo, fb⟩

end BreezyVerif.C08
