import BreezyVerif.Model.C38
import BreezyVerif.Lemmas.C38
/-
C38 — the index backend's storage refines its flat policy model (`step .index`):
lemmas for Props/C38.lean (refinement, write-group scripts, shared dict).
-/
namespace BreezyVerif.C38

/-! ### keys of different kinds never collide -/

theorem gitKey_inj (a b : B) : gitKey a = gitKey b ↔ a = b := by simp [gitKey]

theorem commitKey_inj (a b : B) : commitKey a = commitKey b ↔ a = b := by simp [commitKey]

theorem blobKey_inj (f r f' r' : B) : blobKey f r = blobKey f' r' ↔ f = f' ∧ r = r' := by simp [blobKey]

theorem gitKey_ne_blobKey (a f r : B) : gitKey a ≠ blobKey f r := by
  simp [gitKey, blobKey, kGit, kBlob]

theorem gitKey_ne_commitKey (a r : B) : gitKey a ≠ commitKey r := by
  simp [gitKey, commitKey, kGit, kCommit]

theorem commitKey_ne_blobKey (a f r : B) : commitKey a ≠ blobKey f r := by
  simp [commitKey, blobKey, kCommit, kBlob]

/-! ### `_add_node` as a function on answers -/

/-- `_add_node` then `_get_entry`: the key is bound afterwards — to the value
it already had, else to the new one -/
theorem addNode_get_l (s s' : IdxStore) (k : IKey) (v : B) (h : s.addNode k v = some s') :
    s'.get k = some (match s.get k with | some v' => v' | none => v) := by
  unfold IdxStore.addNode at h
  cases hb : s.builder with
  | none => simp [hb] at h
  | some b =>
    simp only [hb] at h
    cases hg : s.get k with
    | some v' =>
      simp only [hg, Option.some.injEq] at h
      subst h
      simp [hg]
    | none =>
      simp only [hg, Option.some.injEq] at h
      subst h
      unfold IdxStore.get at hg ⊢
      cases hf : filesGet s.files k with
      | some x => simp [hf] at hg
      | none =>
        simp only [hf, hb] at hg
        simp only [hf, layerGet_append, hg]
        simp [layerGet]

/-- the invariant behind reopen: `_add_node` never makes a key occur twice in
the store (files and builder together) -/
theorem addNode_keeps_keys_unique_l (s s' : IdxStore) (k : IKey) (v : B)
    (hn : s.allKeys.Nodup) (h : s.addNode k v = some s') : s'.allKeys.Nodup := by
  unfold IdxStore.addNode at h
  cases hb : s.builder with
  | none => simp [hb] at h
  | some b =>
    simp only [hb] at h
    cases hg : s.get k with
    | some v' =>
      simp only [hg, Option.some.injEq] at h
      subst h
      exact hn
    | none =>
      simp only [hg, Option.some.injEq] at h
      subst h
      unfold IdxStore.get at hg
      cases hf : filesGet s.files k with
      | some x => simp [hf] at hg
      | none =>
        simp only [hf, hb] at hg
        have h1 : k ∉ keysOf s.files := by
          rw [filesGet_eq_flat] at hf
          exact layerGet_none _ k hf
        have h2 : k ∉ b.map (·.1) := layerGet_none b k hg
        simp only [IdxStore.allKeys, hb] at hn ⊢
        simp only [List.map_append, List.map_cons, List.map_nil]
        rw [← List.append_assoc]
        rw [List.nodup_append]
        refine ⟨hn, by simp, ?_⟩
        intro a ha b' hb'
        simp only [List.mem_singleton] at hb'
        subst hb'
        intro he
        subst he
        rcases List.mem_append.1 ha with ha | ha
        · exact h1 ha
        · exact h2 ha

theorem addNode_files (s s' : IdxStore) (k : IKey) (v : B) (h : s.addNode k v = some s') :
    s'.files = s.files ∧ (s.builder ≠ none → s'.builder ≠ none) := by
  unfold IdxStore.addNode at h
  cases hb : s.builder with
  | none => simp [hb] at h
  | some b =>
    simp only [hb] at h
    cases hg : s.get k with
    | some v' =>
      simp only [hg, Option.some.injEq] at h
      subst h
      exact ⟨rfl, fun _ => by simp [hb]⟩
    | none =>
      simp only [hg, Option.some.injEq] at h
      subst h
      exact ⟨rfl, fun _ => by simp⟩

theorem addNode_isSome (s : IdxStore) (k : IKey) (v : B) (hb : s.builder ≠ none) :
    ∃ s', s.addNode k v = some s' := by
  unfold IdxStore.addNode
  cases hb' : s.builder with
  | none => exact absurd hb' hb
  | some b =>
    simp only
    cases s.get k with
    | some v' => exact ⟨_, rfl⟩
    | none => exact ⟨_, rfl⟩

theorem get_addNode (s s' : IdxStore) (k : IKey) (v : B) (h : s.addNode k v = some s') (q : IKey) :
    s'.get q = if q = k then some (match s.get k with | some v' => v' | none => v) else s.get q := by
  by_cases hq : q = k
  · subst hq
    simp only [if_true]
    exact addNode_get_l s s' q v h
  · simp only [hq, if_false]
    unfold IdxStore.addNode at h
    cases hb : s.builder with
    | none => simp [hb] at h
    | some b =>
      simp only [hb] at h
      cases hg : s.get k with
      | some v' =>
        simp only [hg, Option.some.injEq] at h
        subst h
        rfl
      | none =>
        simp only [hg, Option.some.injEq] at h
        subst h
        unfold IdxStore.get
        simp only [hb, layerGet_append]
        have : layerGet [(k, v)] q = none := by
          have hkq : ¬ k = q := fun h' => hq h'.symm
          simp [layerGet, hkq]
        cases filesGet s.files q with
        | some x => rfl
        | none =>
          simp only
          cases layerGet b q with
          | some y => rfl
          | none => simp [this]

/-! ### the flat policy as functions on answers -/

theorem alGet_append {κ : Type} [DecidableEq κ] (k q : κ) (v : B) :
    ∀ (l : List (κ × B)), alGet (l ++ [(k, v)]) q =
      match alGet l q with | some x => some x | none => if k = q then some v else none
  | [] => by simp [alGet]
  | (k', v') :: rest => by
    simp only [List.cons_append, alGet]
    split
    · rfl
    · exact alGet_append k q v rest

theorem alGet_alAddNew {κ : Type} [DecidableEq κ] (l : List (κ × B)) (k q : κ) (v : B) :
    alGet (alAddNew k v l) q =
      if q = k then some (match alGet l k with | some v' => v' | none => v) else alGet l q := by
  unfold alAddNew
  cases hg : alGet l k with
  | some v' =>
    simp only
    by_cases hq : q = k
    · subst hq; simp [hg]
    · simp [hq]
  | none =>
    simp only [alGet_append]
    by_cases hq : q = k
    · subst hq; simp [hg]
    · have : ¬ k = q := fun h => hq h.symm
      simp only [hq, if_false, this]
      cases alGet l q <;> rfl

theorem firstRow_addIfNoSha (st : St) (row : Row) (sha : B) :
    (st.git.find? (fun r => r.1 == sha) : Option Row) = firstRow st sha ∧
    (addIfNoSha row st.git).find? (fun r => r.1 == sha) =
      if sha = row.1 then some (match firstRow st row.1 with | some r => r | none => row) else firstRow st sha := by
  refine ⟨rfl, ?_⟩
  unfold addIfNoSha firstRow
  by_cases ha : st.git.any (fun r => r.1 == row.1) = true
  · simp only [ha, if_true]
    by_cases hs : sha = row.1
    · subst hs
      simp only [if_true]
      rw [List.any_eq_true] at ha
      obtain ⟨r, hr, hrs⟩ := ha
      cases hf : st.git.find? (fun r => r.1 == row.1) with
      | some x => rfl
      | none =>
        rw [List.find?_eq_none] at hf
        exact absurd hrs (hf r hr)
    · simp [hs]
  · simp only [ha]
    have hnone : st.git.find? (fun r => r.1 == row.1) = none := by
      rw [List.find?_eq_none]
      intro x hx hxs
      exact ha (List.any_eq_true.2 ⟨x, hx, hxs⟩)
    simp only [Bool.false_eq_true, if_false, List.find?_append]
    by_cases hs : sha = row.1
    · subst hs
      simp [hnone]
    · have : ¬ row.1 = sha := fun h => hs h.symm
      simp only [hs, if_false]
      cases st.git.find? (fun r => r.1 == sha) with
      | some x => rfl
      | none =>
        have hb : (row.1 == sha) = false := by simpa using this
        simp [List.find?, hb]

/-! ### refinement -/

/-- the layered store answers every key the index updater writes as the flat index-policy state does -/
structure Refines (s : IdxStore) (st : St) : Prop where
  git : ∀ sha, s.get (gitKey sha) = (firstRow st sha).map (fun r => encEntry r.2)
  blob : ∀ f r, s.get (blobKey f r) = alGet st.blobs (f, r)
  commit : ∀ r, (s.get (commitKey r)).map commitShaOf = alGet st.commits r

theorem refines_empty : Refines IdxStore.empty St.empty := by
  constructor <;> intros <;> rfl

theorem refines_trees (s : IdxStore) (st : St) (t : List (FKey × B)) (h : Refines s st) :
    Refines s { st with trees := t } := ⟨h.git, h.blob, h.commit⟩

theorem refines_git_add (s s' : IdxStore) (st : St) (row : Row) (hR : Refines s st)
    (h : s.addNode (gitKey row.1) (encEntry row.2) = some s') :
    Refines s' { st with git := addIfNoSha row st.git } := by
  have hg := get_addNode s s' _ _ h
  constructor
  · intro sha
    rw [hg (gitKey sha)]
    show _ = ((addIfNoSha row st.git).find? (fun r => r.1 == sha)).map (fun r => encEntry r.2)
    rw [(firstRow_addIfNoSha st row sha).2]
    by_cases hs : sha = row.1
    · subst hs
      simp only [if_true, hR.git row.1]
      cases firstRow st row.1 <;> rfl
    · have : ¬ gitKey sha = gitKey row.1 := fun e => hs ((gitKey_inj _ _).1 e)
      simp only [this, hs, if_false]
      exact hR.git sha
  · intro f r
    rw [hg (blobKey f r)]
    have : ¬ blobKey f r = gitKey row.1 := fun e => gitKey_ne_blobKey _ _ _ e.symm
    simp only [this, if_false]
    exact hR.blob f r
  · intro r
    rw [hg (commitKey r)]
    have : ¬ commitKey r = gitKey row.1 := fun e => gitKey_ne_commitKey _ _ e.symm
    simp only [this, if_false]
    exact hR.commit r

theorem refines_blob_add (s s' : IdxStore) (st : St) (f r sha : B) (hR : Refines s st)
    (h : s.addNode (blobKey f r) sha = some s') :
    Refines s' { st with blobs := alAddNew (f, r) sha st.blobs } := by
  have hg := get_addNode s s' _ _ h
  constructor
  · intro x
    rw [hg (gitKey x)]
    simp only [gitKey_ne_blobKey x f r, if_false]
    exact hR.git x
  · intro f' r'
    rw [hg (blobKey f' r')]
    show _ = alGet (alAddNew (f, r) sha st.blobs) (f', r')
    rw [alGet_alAddNew]
    by_cases hk : (f', r') = (f, r)
    · have hk' : blobKey f' r' = blobKey f r := by
        simp only [Prod.mk.injEq] at hk
        simp [blobKey, hk.1, hk.2]
      simp only [hk, hk', if_true, hR.blob f r]
    · have hk' : ¬ blobKey f' r' = blobKey f r := by
        intro e
        apply hk
        have := (blobKey_inj _ _ _ _).1 e
        simp [this.1, this.2]
      simp only [hk, hk', if_false]
      exact hR.blob f' r'
  · intro x
    rw [hg (commitKey x)]
    simp only [commitKey_ne_blobKey x f r, if_false]
    exact hR.commit x

theorem commitShaOf_enc (sha t : B) (hlen : sha.length = 40) : commitShaOf (sha ++ sp ++ t) = sha := by
  unfold commitShaOf
  rw [List.append_assoc]
  exact List.take_left' hlen

theorem refines_commit_add (s s' : IdxStore) (st : St) (r sha v : B) (hv : commitShaOf v = sha) (hR : Refines s st)
    (h : s.addNode (commitKey r) v = some s') :
    Refines s' { st with commits := alAddNew r sha st.commits } := by
  have hg := get_addNode s s' _ _ h
  constructor
  · intro x
    rw [hg (gitKey x)]
    simp only [gitKey_ne_commitKey x r, if_false]
    exact hR.git x
  · intro f' r'
    rw [hg (blobKey f' r')]
    have : ¬ blobKey f' r' = commitKey r := fun e => commitKey_ne_blobKey _ _ _ e.symm
    simp only [this, if_false]
    exact hR.blob f' r'
  · intro x
    rw [hg (commitKey x)]
    show _ = alGet (alAddNew r sha st.commits) x
    rw [alGet_alAddNew]
    by_cases hx : x = r
    · subst hx
      simp only [if_true]
      have h0 := hR.commit x
      cases hget : s.get (commitKey x) with
      | some v' =>
        rw [hget] at h0
        simp only [Option.map_some] at h0 ⊢
        rw [← h0]
      | none =>
        rw [hget] at h0
        simp only [Option.map_none] at h0
        simp only [Option.map_some, ← h0, hv]
    · have : ¬ commitKey x = commitKey r := fun e => hx ((commitKey_inj _ _).1 e)
      simp only [this, hx, if_false]
      exact hR.commit x

/-- one `add_object` on the layered store is one step of the flat index policy -/
theorem refines_addOp (s s' : IdxStore) (st : St) (o : Op) (hw : o.wf = true) (hR : Refines s st)
    (h : s.addNodes (opNodes o) = some s') : Refines s' (step .index st o) := by
  cases o with
  | commit r sha t tm =>
    simp only [opNodes, IdxStore.addNodes] at h
    cases h1 : s.addNode (gitKey sha) (encEntry (.commit r t tm)) with
    | none => simp [h1] at h
    | some s1 =>
      simp only [h1] at h
      cases h2 : s1.addNode (commitKey r) (sha ++ sp ++ t) with
      | none => rw [h2] at h; cases h
      | some s2 =>
        rw [h2] at h
        simp only [Option.some.injEq] at h
        subst h
        have hlen : sha.length = 40 := by simpa [Op.wf] using hw
        have r1 := refines_git_add s s1 st (sha, .commit r t tm) hR h1
        exact refines_commit_add s1 s2 _ r sha _ (commitShaOf_enc sha t hlen) r1 h2
  | blob sha f r =>
    simp only [opNodes, IdxStore.addNodes] at h
    cases h1 : s.addNode (gitKey sha) (encEntry (.blob f r)) with
    | none => simp [h1] at h
    | some s1 =>
      simp only [h1] at h
      cases h2 : s1.addNode (blobKey f r) sha with
      | none => simp [h2] at h
      | some s2 =>
        simp only [h2, Option.some.injEq] at h
        subst h
        have r1 := refines_git_add s s1 st (sha, .blob f r) hR h1
        exact refines_blob_add s1 s2 _ f r sha r1 h2
  | tree sha f r =>
    simp only [opNodes, IdxStore.addNodes] at h
    cases h1 : s.addNode (gitKey sha) (encEntry (.tree f r)) with
    | none => simp [h1] at h
    | some s1 =>
      simp only [h1, Option.some.injEq] at h
      subst h
      have r1 := refines_git_add s s1 st (sha, .tree f r) hR h1
      exact refines_trees s1 _ _ r1

/-! ### invariants of node sequences and write groups -/

/-- builder open, no key twice -/
def IdxStore.Good (s : IdxStore) : Prop := s.allKeys.Nodup

theorem addNodes_append (s : IdxStore) (a b : List (IKey × B)) :
    s.addNodes (a ++ b) = match s.addNodes a with | none => none | some s' => s'.addNodes b := by
  induction a generalizing s with
  | nil => rfl
  | cons x xs ih =>
    obtain ⟨k, v⟩ := x
    simp only [List.cons_append, IdxStore.addNodes]
    cases s.addNode k v with
    | none => rfl
    | some s1 => exact ih s1

theorem addNodes_inv (s : IdxStore) (ns : List (IKey × B)) (hb : s.builder ≠ none) (hn : s.allKeys.Nodup) :
    ∃ s', s.addNodes ns = some s' ∧ s'.builder ≠ none ∧ s'.allKeys.Nodup ∧ s'.files = s.files := by
  induction ns generalizing s with
  | nil => exact ⟨s, rfl, hb, hn, rfl⟩
  | cons x xs ih =>
    obtain ⟨k, v⟩ := x
    obtain ⟨s1, h1⟩ := addNode_isSome s k v hb
    have hf := addNode_files s s1 k v h1
    obtain ⟨s2, h2, hb2, hn2, hf2⟩ := ih s1 (hf.2 hb) (addNode_keeps_keys_unique_l s s1 k v hn h1)
    exact ⟨s2, by simp [IdxStore.addNodes, h1, h2], hb2, hn2, by rw [hf2, hf.1]⟩

theorem refines_addOps (s : IdxStore) (st : St) (ops : List Op) (hw : ∀ o ∈ ops, o.wf = true) (hR : Refines s st)
    (s' : IdxStore) (h : s.addNodes (ops.flatMap opNodes) = some s') : Refines s' (run .index st ops) := by
  induction ops generalizing s st with
  | nil =>
    simp only [List.flatMap_nil, IdxStore.addNodes, Option.some.injEq] at h
    subst h
    exact hR
  | cons o rest ih =>
    simp only [List.flatMap_cons, addNodes_append] at h
    cases h1 : s.addNodes (opNodes o) with
    | none => simp [h1] at h
    | some s1 =>
      simp only [h1] at h
      have r1 := refines_addOp s s1 st o (hw o (by simp)) hR h1
      simp only [run, List.foldl_cons]
      exact ih s1 (step .index st o) (fun o' ho' => hw o' (by simp [ho'])) r1 h

/-- a write group on a closed, duplicate-free store always succeeds; the result is closed and
duplicate-free again, answers every key as the store did before the commit, and refines the flat model -/
theorem writeGroup_inv (s : IdxStore) (st : St) (ops : List Op) (hw : ∀ o ∈ ops, o.wf = true)
    (hb : s.builder = none) (hn : s.allKeys.Nodup) (hR : Refines s st) :
    ∃ s', s.writeGroup ops = some s' ∧ s'.builder = none ∧ s'.allKeys.Nodup ∧
      Refines s' (run .index st ops) := by
  unfold IdxStore.writeGroup IdxStore.startWriteGroup
  simp only [hb]
  have hn0 : ({ s with builder := some [] } : IdxStore).allKeys.Nodup := by
    simpa [IdxStore.allKeys, hb] using hn
  have hR0 : Refines { s with builder := some [] } st := by
    have hget : ∀ k, ({ s with builder := some [] } : IdxStore).get k = s.get k := by
      intro k
      unfold IdxStore.get
      simp only [hb]
      cases filesGet s.files k <;> simp [layerGet]
    exact ⟨fun x => by rw [hget]; exact hR.git x, fun f r => by rw [hget]; exact hR.blob f r,
      fun r => by rw [hget]; exact hR.commit r⟩
  obtain ⟨s2, h2, hb2, hn2, _⟩ := addNodes_inv { s with builder := some [] } (ops.flatMap opNodes) (by simp) hn0
  have hR2 := refines_addOps _ st ops hw hR0 s2 h2
  simp only [h2]
  cases hbb : s2.builder with
  | none => exact absurd hbb hb2
  | some b =>
    have hc : s2.commitWriteGroup = some { files := b :: s2.files, builder := none } := by
      simp [IdxStore.commitWriteGroup, hbb]
    refine ⟨_, hc, rfl, ?_, ?_⟩
    · have : ((s2.files.flatMap id ++ b).map (·.1)).Nodup := by
        simpa [IdxStore.allKeys, hbb, keysOf] using hn2
      have hp : (b ++ s2.files.flatMap id).Perm (s2.files.flatMap id ++ b) := List.perm_append_comm
      have := (hp.map (·.1)).nodup_iff.2 this
      simpa [IdxStore.allKeys, keysOf] using this
    · have hget := commit_get' s2 _ hc hn2
      exact ⟨fun x => by rw [hget]; exact hR2.git x, fun f r => by rw [hget]; exact hR2.blob f r,
        fun r => by rw [hget]; exact hR2.commit r⟩
where
  commit_get' (s s' : IdxStore) (h : s.commitWriteGroup = some s') (hn : s.allKeys.Nodup) (k : IKey) :
      s'.get k = s.get k := by
    unfold IdxStore.commitWriteGroup at h
    cases hb : s.builder with
    | none => simp [hb] at h
    | some b =>
      simp only [hb, Option.some.injEq] at h
      subst h
      have hn1 : ((s.files.flatMap id ++ b).map (·.1)).Nodup := by
        simpa [IdxStore.allKeys, hb, keysOf] using hn
      have hperm : (s.files.flatMap id ++ b).Perm (b ++ s.files.flatMap id) := List.perm_append_comm
      have := layerGet_perm _ _ hperm hn1 k
      unfold IdxStore.get
      simp only [hb, filesGet, filesGet_eq_flat]
      rw [layerGet_append] at this
      rw [layerGet_append] at this
      generalize layerGet b k = x at this ⊢
      generalize layerGet (s.files.flatMap id) k = y at this ⊢
      cases x <;> cases y <;> simp at this ⊢ <;> exact this

theorem runGroups_inv (s : IdxStore) (st : St) (gs : List (List Op)) (hw : ∀ g ∈ gs, ∀ o ∈ g, o.wf = true)
    (hb : s.builder = none) (hn : s.allKeys.Nodup) (hR : Refines s st) :
    ∃ s', s.runGroups gs = some s' ∧ s'.builder = none ∧ s'.allKeys.Nodup ∧
      Refines s' (run .index st gs.flatten) := by
  induction gs generalizing s st with
  | nil => exact ⟨s, rfl, hb, hn, by simpa [run] using hR⟩
  | cons g rest ih =>
    obtain ⟨s1, h1, hb1, hn1, hR1⟩ := writeGroup_inv s st g (hw g (by simp)) hb hn hR
    obtain ⟨s2, h2, hb2, hn2, hR2⟩ := ih s1 (run .index st g) (fun g' hg' => hw g' (by simp [hg'])) hb1 hn1 hR1
    refine ⟨s2, by simp [IdxStore.runGroups, h1, h2], hb2, hn2, ?_⟩
    simpa [run, List.flatten_cons, List.foldl_append] using hR2

/-! ### states of the index policy hold one row per sha -/

theorem addIfNoSha_nodup (row : Row) (l : List Row) (h : (l.map (·.1)).Nodup) :
    ((addIfNoSha row l).map (·.1)).Nodup := by
  unfold addIfNoSha
  by_cases ha : l.any (fun r => r.1 == row.1) = true
  · simpa [ha] using h
  · simp only [ha, Bool.false_eq_true, if_false, List.map_append, List.map_cons, List.map_nil]
    rw [List.nodup_append]
    refine ⟨h, by simp, ?_⟩
    intro a haM b hbM
    simp only [List.mem_singleton] at hbM
    subst hbM
    intro e
    subst e
    apply ha
    rw [List.any_eq_true]
    obtain ⟨x, hx, hxe⟩ := List.mem_map.1 haM
    exact ⟨x, hx, by simp [hxe]⟩

theorem step_index_git (st : St) (o : Op) : (step .index st o).git = addIfNoSha o.row st.git := by
  cases o <;> rfl

theorem run_index_nodup (st : St) (ops : List Op) (h : (st.git.map (·.1)).Nodup) :
    ((run .index st ops).git.map (·.1)).Nodup := by
  induction ops generalizing st with
  | nil => exact h
  | cons o rest ih =>
    simp only [run, List.foldl_cons]
    apply ih
    rw [step_index_git]
    exact addIfNoSha_nodup _ _ h

theorem filter_of_nodup_keys (l : List Row) (sha : B) (h : (l.map (·.1)).Nodup) :
    l.filter (fun r => r.1 == sha) = (l.find? (fun r => r.1 == sha)).toList := by
  induction l with
  | nil => rfl
  | cons x xs ih =>
    simp only [List.map_cons, List.nodup_cons] at h
    by_cases hx : x.1 = sha
    · have hnone : xs.filter (fun r => r.1 == sha) = [] := by
        rw [List.filter_eq_nil_iff]
        intro r hr hrs
        apply h.1
        have : r.1 = x.1 := by rw [hx]; simpa using hrs
        rw [← this]
        exact List.mem_map.2 ⟨r, hr, rfl⟩
      simp [List.filter_cons, List.find?_cons, hx, hnone]
    · simp [List.filter_cons, List.find?_cons, hx, ih h.2]

/-! ### the shared dict of `DictGitShaMap` -/

/-- the last blob add for `k` (chronological list, later wins) -/
def lastBlob : List Op → FKey → Option B
  | [], _ => none
  | o :: rest, k =>
    match lastBlob rest k with
    | some v => some v
    | none => match o with
      | .blob s f r => if (f, r) = k then some s else none
      | _ => none

def lastTree : List Op → FKey → Option B
  | [], _ => none
  | o :: rest, k =>
    match lastTree rest k with
    | some v => some v
    | none => match o with
      | .tree s f r => if (f, r) = k then some s else none
      | _ => none

theorem blobId_run_dict (ops : List Op) (st : St) (k : FKey) :
    blobId (run .dict st ops) k = match lastBlob ops k with | some v => some v | none => blobId st k := by
  induction ops generalizing st with
  | nil => rfl
  | cons o rest ih =>
    simp only [run, List.foldl_cons] at ih ⊢
    rw [ih (step .dict st o)]
    simp only [lastBlob]
    cases lastBlob rest k with
    | some v => rfl
    | none =>
      simp only
      cases o with
      | commit r s t tm => rfl
      | tree s f r => rfl
      | blob s f r =>
        simp only [step, blobId]
        by_cases hk : (f, r) = k
        · subst hk; simp [alGet_alSet_same]
        · simp only [hk, if_false]
          exact alGet_alSet_other _ _ _ hk _

theorem treeGet_run_dict (ops : List Op) (st : St) (k : FKey) :
    alGet (run .dict st ops).trees k = match lastTree ops k with | some v => some v | none => alGet st.trees k := by
  induction ops generalizing st with
  | nil => rfl
  | cons o rest ih =>
    simp only [run, List.foldl_cons] at ih ⊢
    rw [ih (step .dict st o)]
    simp only [lastTree]
    cases lastTree rest k with
    | some v => rfl
    | none =>
      simp only
      cases o with
      | commit r s t tm => rfl
      | blob s f r => rfl
      | tree s f r =>
        simp only [step]
        by_cases hk : (f, r) = k
        · subst hk; simp [alGet_alSet_same]
        · simp only [hk, if_false]
          exact alGet_alSet_other _ _ _ hk _

theorem sharedId_no_tree (ops : List Op) (k : FKey) (h : ∀ o ∈ ops, isTreeOp o = true → o.fkey ≠ some k) :
    sharedId ops k = lastBlob ops k := by
  induction ops with
  | nil => rfl
  | cons o rest ih =>
    simp only [sharedId, lastBlob]
    rw [ih (fun o' ho' => h o' (by simp [ho']))]
    cases lastBlob rest k with
    | some v => rfl
    | none =>
      simp only
      cases o with
      | commit r s t tm => simp [Op.fkey]
      | blob s f r => simp [Op.fkey, Op.sha]
      | tree s f r =>
        have := h (.tree s f r) (by simp) rfl
        simp only [Op.fkey, ne_eq, Option.some.injEq] at this
        simp [Op.fkey, this]

theorem sharedId_no_blob (ops : List Op) (k : FKey)
    (h : ∀ o ∈ ops, (∃ s f r, o = .blob s f r) → o.fkey ≠ some k) :
    sharedId ops k = lastTree ops k := by
  induction ops with
  | nil => rfl
  | cons o rest ih =>
    simp only [sharedId, lastTree]
    rw [ih (fun o' ho' => h o' (by simp [ho']))]
    cases lastTree rest k with
    | some v => rfl
    | none =>
      simp only
      cases o with
      | commit r s t tm => simp [Op.fkey]
      | tree s f r => simp [Op.fkey, Op.sha]
      | blob s f r =>
        have := h (.blob s f r) (by simp) ⟨s, f, r, rfl⟩
        simp only [Op.fkey, ne_eq, Option.some.injEq] at this
        simp [Op.fkey, this]

/-! ### maps built with `alSet` have unique keys -/

theorem alSet_keys {κ : Type} [DecidableEq κ] (k : κ) (v : B) :
    ∀ (l : List (κ × B)), (alSet k v l).map (·.1) = if k ∈ l.map (·.1) then l.map (·.1) else l.map (·.1) ++ [k]
  | [] => by simp [alSet]
  | (k', v') :: rest => by
    simp only [alSet]
    by_cases h : k' = k
    · subst h; simp
    · have h' : ¬ k = k' := fun e => h e.symm
      simp only [h, if_false, List.map_cons, List.mem_cons, h', false_or]
      rw [alSet_keys k v rest]
      split <;> simp

theorem alSet_nodup {κ : Type} [DecidableEq κ] (k : κ) (v : B) (l : List (κ × B)) (h : (l.map (·.1)).Nodup) :
    ((alSet k v l).map (·.1)).Nodup := by
  rw [alSet_keys]
  split
  · exact h
  · rename_i hk
    rw [List.nodup_append]
    refine ⟨h, by simp, ?_⟩
    intro a ha b hb
    simp only [List.mem_singleton] at hb
    subst hb
    exact fun e => hk (e ▸ ha)

theorem run_dict_trees_nodup (st : St) (ops : List Op) (h : (st.trees.map (·.1)).Nodup) :
    ((run .dict st ops).trees.map (·.1)).Nodup := by
  induction ops generalizing st with
  | nil => exact h
  | cons o rest ih =>
    simp only [run, List.foldl_cons]
    apply ih
    cases o with
    | commit r s t tm => exact h
    | blob s f r => exact h
    | tree s f r => exact alSet_nodup _ _ _ h

theorem alGet_entries_of_nodup {κ : Type} [DecidableEq κ] :
    ∀ (l : List (κ × B)) (k : κ) (v : B), (l.map (·.1)).Nodup → alGet l k = some v → ∀ e ∈ l, e.1 = k → e.2 = v
  | [], _, _, _, h, _, _, _ => by simp [alGet] at h
  | (k', v') :: rest, k, v, hn, h, e, he, hk => by
    simp only [List.map_cons, List.nodup_cons] at hn
    simp only [alGet] at h
    simp only [List.mem_cons] at he
    split at h
    · rename_i hkk
      simp only [Option.some.injEq] at h
      rcases he with rfl | he
      · exact h
      · exfalso
        apply hn.1
        rw [hkk, ← hk]
        exact List.mem_map.2 ⟨e, he, rfl⟩
    · rename_i hkk
      rcases he with rfl | he
      · exact absurd hk hkk
      · exact alGet_entries_of_nodup rest k v hn.2 h e he hk

end BreezyVerif.C38
