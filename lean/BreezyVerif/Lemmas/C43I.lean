import BreezyVerif.Lemmas.C43H
/-!
C43 — helper lemmas, part 9: a full upload onto a remote that already shows the
tree changes nothing.
-/
namespace BreezyVerif.C43

/-- the step of the full upload for an entry the remote already shows -/
theorem exec_full_step_same (c : Cfg) (t : Tree) (s : State) (e : TEnt) (hbad : c.badLinks = []) (hp : e.path ≠ [])
    (he : t.find e.path = some e) (hshow : look s.root e.path = some e.obs) :
    ∃ r', exec c t s (fullStep e) = ({ s with root := r' }, none) ∧ ∀ q, look r' q = look s.root q := by
  have hpar : look s.root e.path.dropLast = some .dir := look_parent' s.root e.path hp (by rw [hshow]; simp)
  have hsplit := path_split e.path hp
  unfold fullStep
  cases hk : e.kind with
  | dir =>
    have hd : look s.root e.path = some .dir := by rw [hshow, obs_dir hk]
    obtain ⟨ks, hks⟩ := look_eq_dir hd
    exact ⟨s.root, by cases s; simp [exec, hks], fun _ => rfl⟩
  | file =>
    have hobs : e.obs = .file e.content e.exec := by simp [TEnt.obs, hk]
    rw [hobs] at hshow
    have hl : lookup s.root e.path = some (.file e.content e.exec) := by
      unfold look at hshow
      cases hx : lookup s.root e.path with
      | none => simp [hx] at hshow
      | some n =>
        cases n with
        | file c' x' => simp [hx, Node.obs] at hshow; rw [hshow.1, hshow.2]
        | link t' => simp [hx, Node.obs] at hshow
        | dir ks => simp [hx, Node.obs] at hshow
    by_cases hrob : c.robustSymlinks = true
    · -- `_force_clear` deletes the file, `upload_file` writes it again
      rw [hsplit] at hshow
      obtain ⟨r1, d1, d2⟩ := tDelete_spec s.root _ _ _ hshow (by simp)
      rw [← hsplit] at d1 d2
      have hpar1 : look r1 e.path.dropLast = some .dir := by rw [d2]; simp [dropLast_ne e.path hp, hpar]
      have hslot1 : look r1 e.path ≠ some .dir := by rw [d2]; simp
      rw [hsplit] at hslot1
      obtain ⟨r2, p1, p2⟩ := tPut_spec r1 _ _ e.content e.exec hpar1 hslot1
      rw [← hsplit] at p1 p2
      refine ⟨r2, by simp [exec, forceClear, hl, hrob, d1, lift, doUploadFile, he, hk, p1], ?_⟩
      intro q
      rw [p2 q, d2 q]
      by_cases hq : q = e.path
      · subst hq; rw [← hsplit] at hshow; simp [hshow]
      · simp [hq]
    · have hslot : look s.root e.path ≠ some .dir := by rw [hshow]; simp
      rw [hsplit] at hslot
      obtain ⟨r2, p1, p2⟩ := tPut_spec s.root _ _ e.content e.exec hpar hslot
      rw [← hsplit] at p1 p2
      refine ⟨r2, by simp [exec, forceClear, hl, hrob, lift, doUploadFile, he, hk, p1], ?_⟩
      intro q
      rw [p2 q]
      by_cases hq : q = e.path
      · subst hq; simp [hshow]
      · simp [hq]
  | symlink =>
    have hobs : e.obs = .link e.target := by simp [TEnt.obs, hk]
    rw [hobs] at hshow
    have hl : lookup s.root e.path = some (.link e.target) := by
      unfold look at hshow
      cases hx : lookup s.root e.path with
      | none => simp [hx] at hshow
      | some n =>
        cases n with
        | file c' x' => simp [hx, Node.obs] at hshow
        | link t' => simp [hx, Node.obs] at hshow; rw [hshow]
        | dir ks => simp [hx, Node.obs] at hshow
    have hshow' := hshow
    rw [hsplit] at hshow
    obtain ⟨r1, d1, d2⟩ := tDelete_spec s.root _ _ _ hshow (by simp)
    rw [← hsplit] at d1 d2
    have hpar1 : look r1 e.path.dropLast = some .dir := by rw [d2]; simp [dropLast_ne e.path hp, hpar]
    have hslot1 : look r1 e.path = none := by rw [d2]; simp
    rw [hsplit] at hslot1
    obtain ⟨r2, p1, p2⟩ := tSymlink_spec r1 _ _ e.target hpar1 hslot1
    rw [← hsplit] at p1 p2
    refine ⟨r2, by simp [exec, forceClear, hl, d1, linkFate, hbad, lift, p1], ?_⟩
    intro q
    rw [p2 q, d2 q]
    by_cases hq : q = e.path
    · subst hq; simp [hshow']
    · simp [hq]

theorem run_full_same (c : Cfg) (t : Tree) (hbad : c.badLinks = []) (kept : Tree) (s : State) (remote : Node)
    (hsame : ∀ q, look s.root q = look remote q)
    (hk : ∀ e ∈ kept, e.path ≠ [] ∧ t.find e.path = some e ∧ look remote e.path = some e.obs) :
    ∃ r', run c t s (kept.map fullStep) = ({ s with root := r' }, none) ∧ ∀ q, look r' q = look remote q := by
  induction kept generalizing s with
  | nil => exact ⟨s.root, by cases s; simp [run], hsame⟩
  | cons e kept ih =>
    obtain ⟨h1, h2, h3⟩ := hk e List.mem_cons_self
    obtain ⟨r1, e1, e2⟩ := exec_full_step_same c t s e hbad h1 h2 (by rw [hsame]; exact h3)
    obtain ⟨r', f1, f2⟩ := ih { s with root := r1 } (fun q => by show look r1 q = _; rw [e2, hsame])
      (fun e' he' => hk e' (List.mem_cons_of_mem _ he'))
    exact ⟨r', by simp only [List.map_cons, run, e1]; exact f1, f2⟩

/-- **a full upload onto a remote that shows the tree changes nothing** -/
theorem uploadFull_same (c : Cfg) (ign : List String) (t : Tree) (remote : Node) (hbad : c.badLinks = [])
    (hwf : treeWF t = true) (hm : Matches ign t remote) :
    ∃ r', uploadFull c ign t remote = (r', none) ∧ ∀ q, look r' q = look remote q := by
  obtain ⟨hfind, hwfp⟩ := treeWF_facts hwf
  have hk : ∀ e ∈ t.filter (keepFull ign), e.path ≠ [] ∧ t.find e.path = some e ∧ look remote e.path = some e.obs := by
    intro e he
    obtain ⟨hmem, hkeep⟩ := List.mem_filter.mp he
    have hp := (hwfp e hmem).1
    have hskip : (ignored ign e.path || special e.path) = false := by
      have := keepFull_iff ign e hp
      rw [hkeep] at this
      simpa using this.symm
    simp only [Bool.or_eq_false_iff] at hskip
    refine ⟨hp, hfind e hmem, ?_⟩
    rcases hm e.path hp hskip.1 with h | h
    · rw [h, tlook_of_find (hfind e hmem)]
    · rw [hskip.2] at h; cases h.1
  obtain ⟨r', h1, h2⟩ := run_full_same c t hbad (t.filter (keepFull ign)) { root := remote } remote (fun _ => rfl) hk
  exact ⟨r', by unfold uploadFull; rw [planFull_eq, h1], h2⟩

end BreezyVerif.C43
