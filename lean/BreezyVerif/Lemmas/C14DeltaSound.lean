import BreezyVerif.Model.C14
import BreezyVerif.Lemmas.C14
import BreezyVerif.Lemmas.C14Git
import BreezyVerif.Lemmas.C14Delta
/-! `delta_sound` (C14): the inventory delta `_generate_inventory_delta` builds, applied to the base
inventory, yields exactly the entries the `final_*` functions describe. -/
namespace BreezyVerif.C14

theorem alookup_some_of_ahas {β : Type} {l : List (Tid × β)} {k : Tid} (h : ahas l k = true) : ∃ v, alookup l k = some v := by
  cases hl : alookup l k with
  | some v => exact ⟨v, rfl⟩
  | none =>
    exfalso
    unfold alookup at hl
    unfold ahas at h
    obtain ⟨e, he, hk⟩ := List.any_eq_true.mp h
    cases hf : l.find? (fun e => e.1 == k) with
    | none =>
      rw [List.find?_eq_none] at hf
      exact hf e he hk
    | some e' => simp [hf] at hl

theorem ahas_of_mem {β : Type} {l : List (Tid × β)} {k : Tid} {v : β} (h : (k, v) ∈ l) : ahas l k = true :=
  List.any_eq_true.mpr ⟨(k, v), h, by simp⟩

/-- the hypotheses of `delta_sound`, unpacked -/
structure BzrHyps (tt : TT) : Prop where
  wf : tt.wf = true
  baseFids : tt.baseFidsInj = true
  finalFids : tt.finalFidInj = true
  parents : tt.parentsVersioned = true
  newIdFun : tt.newIdFunctional = true
  noOverwrite : tt.noOverwrite = true
  exist : tt.versionedExist = true
  noRev : tt.reversioned = []

theorem bzrHyps_unpack (tt : TT) (h : tt.bzrHyps = true) : BzrHyps tt := by
  simp only [TT.bzrHyps, Bool.and_eq_true, List.isEmpty_iff] at h
  obtain ⟨⟨⟨⟨⟨⟨⟨h1, h2⟩, h3⟩, h4⟩, h5⟩, h6⟩, h7⟩, h8⟩ := h
  exact ⟨h1, h2, h3, h4, h5, h6, h7, h8⟩

theorem wf_nbase_le (tt : TT) (h : tt.wf = true) : 0 < tt.nbase ∧ tt.nbase ≤ tt.next := by
  simp only [TT.wf, Bool.and_eq_true, decide_eq_true_eq] at h
  exact ⟨h.1.1.1.1, h.1.1.1.2⟩

theorem wf_known (tt : TT) (h : tt.wf = true) (t : Tid) (ht : t < tt.next) :
    t < tt.nbase ∨ (ahas tt.newName t = true ∧ ahas tt.newParent t = true) := by
  simp only [TT.wf, Bool.and_eq_true, decide_eq_true_eq, List.all_eq_true, TT.ids, List.mem_range, Bool.or_eq_true] at h
  exact h.2 t ht

/-- every known trans-id has a final parent and a final name -/
theorem final_dirent_exists (tt : TT) (h : tt.wf = true) (t : Tid) (ht : t < tt.next) :
    ∃ pp n, tt.finalParent t = some pp ∧ tt.finalName t = some n := by
  unfold TT.finalParent TT.finalName
  rcases wf_known tt h t ht with hb | ⟨hn, hp⟩
  · have hget : tt.base[t]? = some tt.base[t] := by simp [TT.nbase] at hb; simp [hb]
    cases alookup tt.newParent t <;> cases alookup tt.newName t <;> simp [hget]
  · obtain ⟨n, hn'⟩ := alookup_some_of_ahas hn
    obtain ⟨p, hp'⟩ := alookup_some_of_ahas hp
    simp [hn', hp']

theorem deltaEntry_isSome (tt : TT) (h : tt.wf = true) (t : Tid) (ht : t < tt.next) (f : String) :
    ∃ e, tt.deltaEntry t f = some e := by
  obtain ⟨pp, n, hp, hn⟩ := final_dirent_exists tt h t ht
  unfold TT.deltaEntry
  simp [hp, hn]

/-- an entry of `_new_id` decides the final file id of its trans-id -/
theorem finalFid_of_newId (tt : TT) (h : tt.newIdFunctional = true) (t : Tid) (f : String) (hm : (t, f) ∈ tt.newId) :
    t < tt.next ∧ tt.finalFid t = some f := by
  simp only [TT.newIdFunctional, List.all_eq_true, Bool.and_eq_true, decide_eq_true_eq, beq_iff_eq] at h
  obtain ⟨h1, h2⟩ := h (t, f) hm
  exact ⟨h1, by simp [TT.finalFid, h2]⟩

/-- S1: a file id some trans-id ends with is not removed by the delta -/
theorem no_removal_of_final (fl : Flags) (tt : TT) (hh : BzrHyps tt) (t : Tid) (f : String) (hf : tt.finalFid t = some f)
    (x : DeltaItem) (hx : x ∈ tt.deltaRemovals fl) : x.fid ≠ f := by
  obtain ⟨t1, ht1, g, hg, hany, rfl⟩ := (mem_deltaRemovals fl tt hh.noRev x).mp hx
  intro hgf
  have hgf' : g = f := hgf
  subst hgf'
  unfold TT.finalFid at hf
  cases hl : alookup tt.newId t with
  | some f' =>
    simp only [hl, Option.some.injEq] at hf
    subst hf
    have hm := mem_of_alookup hl
    rw [List.any_eq_false] at hany
    exact hany (t, f') hm (by simp)
  | none =>
    simp only [hl] at hf
    split at hf
    · cases hf
    · rename_i hnr
      have := baseFids_unique tt hh.baseFids t t1 g hf hg
      subst this
      exact hnr (by simpa using ht1)

/-- what membership in `_inventory_altered` means -/
theorem not_altered (tt : TT) (t : Tid) (ht : t < tt.next) (h : t ∉ tt.inventoryAltered) :
    ahas tt.newName t = false ∧ ahas tt.newParent t = false ∧ ahas tt.newExec t = false ∧
    (∀ f, (t, f) ∈ tt.newId → tt.treeFid t = some f) ∧
    (tt.removedContents.contains t = true → ahas tt.newContents t = true → tt.treeKind t = tt.finalKind t) ∧
    (∀ p f, (p, f) ∈ tt.newId → tt.treeFid p ≠ some f → (tt.base[t]?).bind (·.parent) = some p →
      (tt.treeKind t).isSome = true → t < tt.nbase → False) := by
  unfold TT.inventoryAltered at h
  simp only [List.mem_filter, TT.ids, List.mem_range, ht, true_and, Bool.or_eq_true, not_or, Bool.not_eq_true] at h
  obtain ⟨⟨⟨⟨⟨h1, h2⟩, h3⟩, h4⟩, h5⟩, h6⟩ := h
  refine ⟨h1, h2, h4, ?_, ?_, ?_⟩
  · intro f hm
    have h3' : t ∉ (tt.newId.filterMap fun e => if tt.treeFid e.1 = some e.2 then none else some e.1) := by
      simpa using h3
    by_cases heq : tt.treeFid t = some f
    · exact heq
    · exfalso
      apply h3'
      exact List.mem_filterMap.mpr ⟨(t, f), hm, by simp [heq]⟩
  · intro hr hc
    have h5' : t ∉ (tt.removedContents.filter fun t => ahas tt.newContents t && tt.treeKind t ≠ tt.finalKind t) := by
      simpa using h5
    by_cases heq : tt.treeKind t = tt.finalKind t
    · exact heq
    · exfalso
      apply h5'
      exact List.mem_filter.mpr ⟨by simpa using hr, by simp [hc, heq]⟩
  · intro p f hm hne hpar hk htb
    have h6' : t ∉ ((tt.newId.filterMap fun e => if tt.treeFid e.1 = some e.2 then none else some e.1).flatMap fun p =>
        (List.range tt.nbase).filter fun c => (tt.base[c]?).bind (·.parent) = some p && (tt.treeKind c).isSome) := by
      simpa using h6
    apply h6'
    refine List.mem_flatMap.mpr ⟨p, List.mem_filterMap.mpr ⟨(p, f), hm, by simp [hne]⟩, ?_⟩
    exact List.mem_filter.mpr ⟨by simpa using htb, by simp [hpar, hk]⟩

/-- S3: a trans-id the delta does not mention, that ends versioned, is a tree id whose base
inventory entry already is the final one -/
theorem unaltered_base_entry (tt : TT) (hh : BzrHyps tt) (t : Tid) (ht : t < tt.next) (hna : t ∉ tt.inventoryAltered)
    (f : String) (hf : tt.finalFid t = some f) :
    t < tt.nbase ∧ ∃ b, tt.base[t]? = some b ∧ b.fid = some f ∧ tt.deltaEntry t f = some (tt.baseEntry b) := by
  obtain ⟨hnn, hnp, _, hsame, hkind, hkids⟩ := not_altered tt t ht hna
  have htb : t < tt.nbase := by
    rcases wf_known tt hh.wf t ht with h1 | ⟨h1, _⟩
    · exact h1
    · simp [hnn] at h1
  -- its file id is the tree's
  have htf : tt.treeFid t = some f := by
    unfold TT.finalFid at hf
    cases hl : alookup tt.newId t with
    | some f' =>
      simp only [hl, Option.some.injEq] at hf
      subst hf
      exact hsame f' (mem_of_alookup hl)
    | none =>
      simp only [hl] at hf
      split at hf
      · cases hf
      · exact hf
  obtain ⟨_, b, hb, hbf⟩ := treeFid_some tt t f htf
  refine ⟨htb, b, hb, hbf, ?_⟩
  have hpc : tt.pathChanged t = false := by simp [TT.pathChanged, hnn, hnp]
  obtain ⟨hfp, hfn⟩ := final_of_unchanged tt t hpc
  have hk : (tt.treeKind t).isSome = true := by
    have := hh.exist
    simp only [TT.versionedExist, List.all_eq_true, List.mem_range, Bool.or_eq_true, Bool.not_eq_eq_eq_not,
      Bool.not_true] at this
    rcases this t htb with h1 | h1
    · simp [htf] at h1
    · exact h1
  have htk : tt.treeKind t = b.kind := by simp [TT.treeKind, hb]
  unfold TT.deltaEntry
  simp only [hfp, hfn, hb, Option.map_some, TT.baseEntry]
  -- the kind: a final kind, if there is one, is the tree's
  have hK : ∀ k, tt.finalKind t = some k → tt.treeKind t = some k := by
    intro k hfk
    unfold TT.finalKind at hfk
    cases hnc : alookup tt.newContents t with
    | some kd =>
      obtain ⟨k', d⟩ := kd
      simp only [hnc, Option.some.injEq] at hfk
      have hah := ahas_of_mem (mem_of_alookup hnc)
      by_cases hr : tt.removedContents.contains t = true
      · have := hkind hr hah
        rw [this]
        simp [TT.finalKind, hnc, hfk]
      · exfalso
        have := hh.noOverwrite
        simp only [TT.noOverwrite, List.all_eq_true, Bool.or_eq_true] at this
        rcases this (t, (k', d)) (mem_of_alookup hnc) with h1 | h1
        · simp [Option.isNone_iff_eq_none] at h1
          simp [h1] at hk
        · exact hr h1
    | none =>
      simp only [hnc] at hfk
      split at hfk
      · cases hfk
      · exact hfk
  -- the parent's file id
  have hpar : (b.parent.bind tt.finalFid) = (b.parent.bind tt.treeFid) := by
    cases hbp : b.parent with
    | none => rfl
    | some p =>
      simp only [Option.bind_some]
      have hparent : (tt.base[t]?).bind (·.parent) = some p := by simp [hb, hbp]
      unfold TT.finalFid
      cases hl : alookup tt.newId p with
      | some f' =>
        simp only
        by_cases heq : tt.treeFid p = some f'
        · exact heq.symm
        · exact (hkids p f' (mem_of_alookup hl) heq hparent hk htb).elim
      | none =>
        simp only
        split
        · -- the parent is unversioned while the child stays versioned
          rename_i hrem
          exfalso
          have := hh.parents
          simp only [TT.parentsVersioned, List.all_eq_true, TT.ids, List.mem_range, Bool.or_eq_true,
            Bool.not_eq_eq_eq_not, Bool.not_true] at this
          have hv : tt.finalVersioned t = true := by simp [TT.finalVersioned, hf]
          rcases this t ht with h1 | h1
          · simp [hv] at h1
          · simp only [hfp, hb, Option.map_some, hbp] at h1
            have hrem' : p ∈ tt.removedId := by simpa using hrem
            simp [TT.finalVersioned, TT.finalFid, hl, hrem'] at h1
        · rfl
  rw [hpar]
  cases hfk : tt.finalKind t with
  | none => simp [tidOfTreeFid_eq tt hh.baseFids t f htf, htk]
  | some k => simp [← htk, hK k hfk]

/-- **the delta is sound**: under `bzrHyps`, the delta `_generate_inventory_delta` builds, applied
to the base inventory, contains for a file id exactly the entry (final name, file id of the final
parent, final kind) of the trans-id that ends with that file id — and nothing for other ids. -/
theorem delta_sound_aux (fl : Flags) (tt : TT) (d : List DeltaItem) (hb : tt.bzrHyps = true)
    (hd : tt.generateDelta fl = .ok d) (f : String) (e : InvEntry) :
    (f, e) ∈ applyDelta tt.baseInv d ↔ ∃ t, t < tt.next ∧ tt.finalFid t = some f ∧ tt.deltaEntry t f = some e := by
  have hh := bzrHyps_unpack tt hb
  obtain ⟨_, hnb⟩ := wf_nbase_le tt hh.wf
  -- the shape of the delta
  unfold TT.generateDelta at hd
  cases hps : tt.deltaPuts with
  | error err => simp [hps] at hd
  | ok ps =>
    simp only [hps, Except.ok.injEq] at hd
    subst hd
    have hputs := mem_deltaPuts tt ps hps
    -- the items about a final file id
    have items_of_final : ∀ t, t < tt.next → tt.finalFid t = some f → ∀ x ∈ tt.deltaRemovals fl ++ ps, x.fid = f →
        ∃ e1, t ∈ tt.inventoryAltered ∧ tt.deltaEntry t f = some e1 ∧ x = .put f e1 := by
      intro t ht hf x hx hxf
      rcases List.mem_append.mp hx with h1 | h1
      · exact absurd hxf (no_removal_of_final fl tt hh t f hf x h1)
      · obtain ⟨t1, ht1, f1, e1, hf1, he1, rfl⟩ := (hputs x).mp h1
        have : f1 = f := hxf
        subst this
        have ht1lt : t1 < tt.next := by
          have := (List.mem_filter.mp ht1).1
          simpa [TT.ids] using this
        have := finalFids_unique tt hh.finalFids t1 t f1 ht1lt ht hf1 hf
        subst this
        exact ⟨e1, ht1, he1, rfl⟩
    constructor
    · intro hmem
      by_cases hex : ∃ t, t < tt.next ∧ tt.finalFid t = some f
      · obtain ⟨t, ht, hf⟩ := hex
        obtain ⟨e0, he0⟩ := deltaEntry_isSome tt hh.wf t ht f
        refine ⟨t, ht, hf, ?_⟩
        by_cases halt : t ∈ tt.inventoryAltered
        · have hall : ∀ x ∈ tt.deltaRemovals fl ++ ps, x.fid = f → x = .put f e0 := by
            intro x hx hxf
            obtain ⟨e1, _, he1, rfl⟩ := items_of_final t ht hf x hx hxf
            rw [he0] at he1; cases he1; rfl
          have hexi : ∃ x ∈ tt.deltaRemovals fl ++ ps, x.fid = f :=
            ⟨.put f e0, List.mem_append_right _ ((hputs _).mpr ⟨t, halt, f, e0, hf, he0, rfl⟩), rfl⟩
          have := (mem_applyDelta_put f e e0 _ tt.baseInv hall hexi).mp hmem
          rw [this, he0]
        · have hnone : ∀ x ∈ tt.deltaRemovals fl ++ ps, x.fid ≠ f := by
            intro x hx hxf
            obtain ⟨_, h1, _, _⟩ := items_of_final t ht hf x hx hxf
            exact halt h1
          have hbase := (mem_applyDelta_none f e _ tt.baseInv hnone).mp hmem
          obtain ⟨t', b', ht', hb', hbf', rfl⟩ := (mem_baseInv tt f e).mp hbase
          obtain ⟨_, b, hbt, hbf, hde⟩ := unaltered_base_entry tt hh t ht halt f hf
          have htf : tt.treeFid t = some f := by simp [TT.treeFid, hbt, hbf]
          have htf' : tt.treeFid t' = some f := by simp [TT.treeFid, hb', hbf']
          have := baseFids_unique tt hh.baseFids t t' f htf htf'
          subst this
          rw [hbt] at hb'; cases hb'
          exact hde
      · -- no trans-id ends with `f`: the delta removes it if it was there
        exfalso
        have hnoput : ∀ x ∈ tt.deltaRemovals fl ++ ps, x.fid = f → x = .remove f := by
          intro x hx hxf
          rcases List.mem_append.mp hx with h1 | h1
          · obtain ⟨t1, _, g, _, _, rfl⟩ := (mem_deltaRemovals fl tt hh.noRev x).mp h1
            have : g = f := hxf
            rw [this]
          · obtain ⟨t1, ht1, f1, e1, hf1, _, rfl⟩ := (hputs x).mp h1
            have : f1 = f := hxf
            subst this
            have ht1lt : t1 < tt.next := by
              have := (List.mem_filter.mp ht1).1
              simpa [TT.ids] using this
            exact (hex ⟨t1, ht1lt, hf1⟩).elim
        by_cases hrem : ∃ x ∈ tt.deltaRemovals fl ++ ps, x.fid = f
        · exact not_mem_applyDelta_remove f e _ tt.baseInv hnoput hrem hmem
        · have hnone : ∀ x ∈ tt.deltaRemovals fl ++ ps, x.fid ≠ f := fun x hx hxf => hrem ⟨x, hx, hxf⟩
          have hbase := (mem_applyDelta_none f e _ tt.baseInv hnone).mp hmem
          obtain ⟨t0, b0, ht0, hb0, hbf0, _⟩ := (mem_baseInv tt f e).mp hbase
          have htf0 : tt.treeFid t0 = some f := by simp [TT.treeFid, hb0, hbf0]
          have ht0lt : t0 < tt.next := Nat.lt_of_lt_of_le ht0 hnb
          -- a removal item for `f` must exist
          have hnewid : tt.newId.any (fun e => e.2 == f) = false := by
            rw [List.any_eq_false]
            intro x hx hxf
            obtain ⟨t2, f2⟩ := x
            have : f2 = f := by simpa using hxf
            subst this
            obtain ⟨h1, h2⟩ := finalFid_of_newId tt hh.newIdFun t2 f2 hx
            exact hex ⟨t2, h1, h2⟩
          have hremoved : t0 ∈ tt.removedId := by
            by_cases hr : t0 ∈ tt.removedId
            · exact hr
            · exfalso
              cases hl : alookup tt.newId t0 with
              | some f' =>
                -- re-versioned without `unversion_file`
                have hne : f' ≠ f := by
                  intro heq
                  subst heq
                  exact hex ⟨t0, ht0lt, by simp [TT.finalFid, hl]⟩
                have : t0 ∈ tt.reversioned := by
                  unfold TT.reversioned
                  refine List.mem_filter.mpr ⟨by simpa [TT.ids] using ht0lt, ?_⟩
                  simp [hl, htf0, hne, hr]
                rw [hh.noRev] at this
                cases this
              | none =>
                exact hex ⟨t0, ht0lt, by simp [TT.finalFid, hl, hr, htf0]⟩
          apply hrem
          refine ⟨.remove f, List.mem_append_left _ ?_, rfl⟩
          exact (mem_deltaRemovals fl tt hh.noRev _).mpr ⟨t0, hremoved, f, htf0, hnewid, rfl⟩
    · rintro ⟨t, ht, hf, he⟩
      by_cases halt : t ∈ tt.inventoryAltered
      · have hall : ∀ x ∈ tt.deltaRemovals fl ++ ps, x.fid = f → x = .put f e := by
          intro x hx hxf
          obtain ⟨e1, _, he1, rfl⟩ := items_of_final t ht hf x hx hxf
          rw [he] at he1; cases he1; rfl
        have hexi : ∃ x ∈ tt.deltaRemovals fl ++ ps, x.fid = f :=
          ⟨.put f e, List.mem_append_right _ ((hputs _).mpr ⟨t, halt, f, e, hf, he, rfl⟩), rfl⟩
        exact (mem_applyDelta_put f e e _ tt.baseInv hall hexi).mpr rfl
      · have hnone : ∀ x ∈ tt.deltaRemovals fl ++ ps, x.fid ≠ f := by
          intro x hx hxf
          obtain ⟨_, h1, _, _⟩ := items_of_final t ht hf x hx hxf
          exact halt h1
        rw [mem_applyDelta_none f e _ tt.baseInv hnone]
        obtain ⟨htb, b, hbt, hbf, hde⟩ := unaltered_base_entry tt hh t ht halt f hf
        rw [he] at hde; cases hde
        exact (mem_baseInv tt f _).mpr ⟨t, b, htb, hbt, hbf, rfl⟩

/-- looking a file id up in the applied inventory (what `invPath` does) finds the final entry -/
theorem applied_lookup (fl : Flags) (tt : TT) (d : List DeltaItem) (hb : tt.bzrHyps = true)
    (hd : tt.generateDelta fl = .ok d) (t : Tid) (ht : t < tt.next) (f : String) (hf : tt.finalFid t = some f) :
    ((applyDelta tt.baseInv d).find? (fun x => x.1 == f)).map (·.2) = tt.deltaEntry t f := by
  have hh := bzrHyps_unpack tt hb
  obtain ⟨e0, he0⟩ := deltaEntry_isSome tt hh.wf t ht f
  have hmem : (f, e0) ∈ applyDelta tt.baseInv d := (delta_sound_aux fl tt d hb hd f e0).mpr ⟨t, ht, hf, he0⟩
  cases hfind : (applyDelta tt.baseInv d).find? (fun x => x.1 == f) with
  | none =>
    rw [List.find?_eq_none] at hfind
    exact absurd (by simp) (hfind (f, e0) hmem)
  | some x =>
    obtain ⟨f', e'⟩ := x
    have hk : f' = f := by simpa using List.find?_some hfind
    subst hk
    have hm := List.mem_of_find?_eq_some hfind
    obtain ⟨t', ht', hf', he'⟩ := (delta_sound_aux fl tt d hb hd f' e').mp hm
    have := finalFids_unique tt hh.finalFids t t' f' ht ht' hf hf'
    subst this
    simp [he']

/-- **inventory paths are final paths**: in the applied inventory, walking the parent file ids from
the file id of a trans-id spells exactly the path `FinalPaths` computes for it — for every fuel. -/
theorem applied_inv_path_aux (fl : Flags) (tt : TT) (d : List DeltaItem) (hb : tt.bzrHyps = true) (hr : tt.rootHyps = true)
    (hd : tt.generateDelta fl = .ok d) :
    ∀ (fuel : Nat) (t : Tid) (f : String), t < tt.next → tt.finalFid t = some f →
      invPath (applyDelta tt.baseInv d) fuel f = tt.finalPath fuel t := by
  have hh := bzrHyps_unpack tt hb
  simp only [TT.rootHyps, Bool.and_eq_true, beq_iff_eq, List.all_eq_true, TT.ids, List.mem_range, Bool.or_eq_true,
    bne_iff_ne] at hr
  obtain ⟨⟨hrp, hrn⟩, hpl⟩ := hr
  intro fuel
  induction fuel with
  | zero => intro t f _ _; rfl
  | succ n ih =>
    intro t f ht hf
    obtain ⟨pp, nm, hp, hn⟩ := final_dirent_exists tt hh.wf t ht
    have hlk := applied_lookup fl tt d hb hd t ht f hf
    obtain ⟨k, hde⟩ : ∃ k, tt.deltaEntry t f = some { parentFid := pp.bind tt.finalFid, name := nm, kind := k } := by
      unfold TT.deltaEntry; simp [hp, hn]
    unfold invPath TT.finalPath
    rw [hlk, hde]
    by_cases hroot : t = TT.root
    · subst hroot
      rw [hrp] at hp; cases hp
      rw [hrn] at hn; cases hn
      simp
    · simp only [hroot, if_false, hp, hn]
      cases pp with
      | none =>
        exfalso
        rcases hpl t ht with h1 | h1
        · exact hroot h1
        · exact h1 hp
      | some p =>
        -- the parent is versioned
        have hv : tt.finalVersioned t = true := by simp [TT.finalVersioned, hf]
        have hpv : tt.finalVersioned p = true := by
          have := hh.parents
          simp only [TT.parentsVersioned, List.all_eq_true, TT.ids, List.mem_range, Bool.or_eq_true,
            Bool.not_eq_eq_eq_not, Bool.not_true] at this
          rcases this t ht with h1 | h1
          · simp [hv] at h1
          · simpa [hp] using h1
        obtain ⟨pf, hpf⟩ : ∃ pf, tt.finalFid p = some pf := by
          cases hx : tt.finalFid p with
          | none => simp [TT.finalVersioned, hx] at hpv
          | some pf => exact ⟨pf, rfl⟩
        have hplt : p < tt.next := by
          unfold TT.finalFid at hpf
          cases hl : alookup tt.newId p with
          | some f' => exact (finalFid_of_newId tt hh.newIdFun p f' (mem_of_alookup hl)).1
          | none =>
            simp only [hl] at hpf
            split at hpf
            · cases hpf
            · exact Nat.lt_of_lt_of_le (treeFid_some tt p pf hpf).1 (wf_nbase_le tt hh.wf).2
        simp only [Option.bind_some, hpf]
        rw [ih p pf hplt hpf]

end BreezyVerif.C14
