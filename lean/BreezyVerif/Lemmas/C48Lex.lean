import BreezyVerif.Model.C48
/-! C48 — lexer composition (`/**/` in the middle of a pattern) and idempotence
of `normalize`. -/
namespace BreezyVerif.C48

/-! ### running the lexer over a prefix -/

/-- the lexer state and the tokens emitted after reading `a` -/
def lexSteps (full : Bool) (st : LexSt) : List Char → Option (LexSt × List Tok)
  | [] => some (st, [])
  | c :: s =>
    match step full st c with
    | none => none
    | some (st', ts) =>
      match lexSteps full st' s with
      | none => none
      | some (st'', r) => some (st'', ts ++ r)

theorem lexRun_append (full : Bool) (a b : List Char) :
    ∀ (st st' : LexSt) (ta : List Tok), lexSteps full st a = some (st', ta) →
      lexRun full st (a ++ b) = (lexRun full st' b).map (ta ++ ·) := by
  induction a with
  | nil =>
    intro st st' ta h
    simp only [lexSteps, Option.some.injEq, Prod.mk.injEq] at h
    obtain ⟨rfl, rfl⟩ := h
    simp only [List.nil_append]
    cases lexRun full st b <;> rfl
  | cons c a ih =>
    intro st st' ta h
    simp only [lexSteps] at h
    simp only [List.cons_append, lexRun]
    cases hs : step full st c with
    | none => simp [hs] at h
    | some r =>
      obtain ⟨st1, ts⟩ := r
      simp only [hs] at h
      cases hr : lexSteps full st1 a with
      | none => simp [hr] at h
      | some r2 =>
        obtain ⟨st2, tr⟩ := r2
        simp only [hr, Option.some.injEq, Prod.mk.injEq] at h
        obtain ⟨rfl, rfl⟩ := h
        simp only []
        rw [ih st1 st2 tr hr]
        cases lexRun full st2 b <;> simp

/-- at a segment start, `k` stars already read: `m` more stars and a `/` -/
theorem segStars_run (p : List Char) : ∀ (m k : Nat),
    lexRun true (.segStars k) (List.replicate m '*' ++ '/' :: p) =
      (lexRun true .seg p).map ((if k + m ≥ 1 then [Tok.starstar] else [Tok.star, Tok.lit '/']) ++ ·) := by
  intro m
  induction m with
  | zero =>
    intro k
    have e : step true (.segStars k) '/' =
        (if k ≥ 1 then some (.seg, [Tok.starstar]) else some (.seg, [Tok.star, Tok.lit '/'])) := by
      simp [step]
    simp only [List.replicate_zero, List.nil_append, lexRun, e, Nat.add_zero]
    by_cases hk : k ≥ 1
    · simp only [hk, if_true]; cases lexRun true .seg p <;> rfl
    · simp only [hk, if_false]; cases lexRun true .seg p <;> rfl
  | succ m ih =>
    intro k
    have e : step true (.segStars k) '*' = some (.segStars (k + 1), []) := by simp [step]
    simp only [List.replicate_succ, List.cons_append, lexRun, e]
    rw [ih (k + 1)]
    have : (k + 1 + m ≥ 1) = (k + (m + 1) ≥ 1) := by simp; omega
    simp only [this]
    cases lexRun true LexSt.seg p <;> simp

/-! ### normalize is idempotent -/

/-- no backslash and no two adjacent `/`; `prev` = the previous character was a `/` -/
def cleanFrom (prev : Bool) : List Char → Bool
  | [] => true
  | c :: s => if c == '\\' then false else if c == '/' then (!prev && cleanFrom true s) else cleanFrom false s

theorem clean_collapseAux (s : List Char) : ∀ prev, cleanFrom prev (collapseAux prev s) = true := by
  induction s with
  | nil => intro prev; simp [collapseAux, cleanFrom]
  | cons c s ih =>
    intro prev
    unfold collapseAux
    by_cases hc : isSlash c = true
    · simp only [hc, if_true]
      cases prev with
      | true => simpa using ih true
      | false => simp [cleanFrom, ih true]
    · have hc' : isSlash c = false := by simpa using hc
      simp only [hc', Bool.false_eq_true, if_false]
      have h1 : (c == '\\') = false := by
        simp only [isSlash, Bool.or_eq_false_iff] at hc'; exact hc'.2
      have h2 : (c == '/') = false := by
        simp only [isSlash, Bool.or_eq_false_iff] at hc'; exact hc'.1
      simp [cleanFrom, h1, h2, ih false]

theorem collapseAux_of_clean (s : List Char) : ∀ prev, cleanFrom prev s = true → collapseAux prev s = s := by
  induction s with
  | nil => intro prev _; rfl
  | cons c s ih =>
    intro prev h
    unfold cleanFrom at h
    by_cases h1 : (c == '\\') = true
    · simp [h1] at h
    · have h1' : (c == '\\') = false := by simpa using h1
      simp only [h1', Bool.false_eq_true, if_false] at h
      by_cases h2 : (c == '/') = true
      · simp only [h2, if_true, Bool.and_eq_true, Bool.not_eq_true'] at h
        obtain ⟨hp, hs⟩ := h
        subst hp
        have hc : c = '/' := by simpa using h2
        subst hc
        unfold collapseAux
        simp [isSlash, ih true hs]
      · have h2' : (c == '/') = false := by simpa using h2
        simp only [h2', Bool.false_eq_true, if_false] at h
        unfold collapseAux
        simp [isSlash, h1', h2', ih false h]

theorem clean_prefix (a b : List Char) : ∀ prev, cleanFrom prev (a ++ b) = true → cleanFrom prev a = true := by
  induction a with
  | nil => intro prev _; rfl
  | cons c a ih =>
    intro prev h
    simp only [List.cons_append, cleanFrom] at h ⊢
    by_cases h1 : (c == '\\') = true
    · simp [h1] at h
    · have h1' : (c == '\\') = false := by simpa using h1
      simp only [h1', Bool.false_eq_true, if_false] at h ⊢
      by_cases h2 : (c == '/') = true
      · simp only [h2, if_true, Bool.and_eq_true] at h ⊢
        exact ⟨h.1, ih true h.2⟩
      · have h2' : (c == '/') = false := by simpa using h2
        simp only [h2', Bool.false_eq_true, if_false] at h ⊢
        exact ih false h

theorem rstripSlash_prefix (s : List Char) : rstripSlash s <+: s := by
  unfold rstripSlash
  have := List.dropWhile_suffix (l := s.reverse) (· == '/')
  have h2 := List.reverse_prefix.mpr this
  simpa using h2

theorem clean_rstrip (s : List Char) (h : cleanFrom false s = true) : cleanFrom false (rstripSlash s) = true := by
  obtain ⟨t, ht⟩ := rstripSlash_prefix s
  rw [← ht] at h
  exact clean_prefix _ t false h

theorem dropWhile_idem {α : Type} (p : α → Bool) (l : List α) : (l.dropWhile p).dropWhile p = l.dropWhile p := by
  induction l with
  | nil => rfl
  | cons a l ih =>
    by_cases h : p a = true
    · simp [List.dropWhile_cons, h, ih]
    · simp [List.dropWhile_cons, h]

theorem rstripSlash_idem (s : List Char) : rstripSlash (rstripSlash s) = rstripSlash s := by
  unfold rstripSlash
  rw [List.reverse_reverse, dropWhile_idem]

/-- a slash-free prefix is neither created nor destroyed by `collapse` -/
theorem isPrefixOf_collapse (pre : List Char) (hpre : ∀ c ∈ pre, isSlash c = false) :
    ∀ s : List Char, pre.isPrefixOf (collapseAux false s) = pre.isPrefixOf s := by
  induction pre with
  | nil => intro s; simp
  | cons a pre ih =>
    intro s
    have ha : isSlash a = false := hpre a (by simp)
    have ha1 : (a == '/') = false := by
      simp only [isSlash, Bool.or_eq_false_iff] at ha; exact ha.1
    cases s with
    | nil => simp [collapseAux]
    | cons c s =>
      unfold collapseAux
      by_cases hc : isSlash c = true
      · have hac : (a == c) = false := by
          apply Bool.eq_false_iff.mpr
          intro e
          have e' : a = c := by simpa using e
          rw [e', hc] at ha
          exact absurd ha (by simp)
        simp [hc, List.isPrefixOf, ha1, hac]
      · have hc' : isSlash c = false := by simpa using hc
        simp only [hc', Bool.false_eq_true, if_false, List.isPrefixOf]
        rw [ih (fun x hx => hpre x (by simp [hx])) s]

theorem isPrefixOf_of_rstrip (pre s : List Char) (h : pre.isPrefixOf (rstripSlash s) = true) :
    pre.isPrefixOf s = true := by
  rw [List.isPrefixOf_iff_prefix] at h ⊢
  exact h.trans (rstripSlash_prefix s)

/-- a prefix that ends in a non-slash survives `rstripSlash` -/
theorem rstrip_keeps (pre x : List Char) (l : Char) (hl : pre.getLast? = some l) (hns : (l == '/') = false) :
    pre.isPrefixOf (rstripSlash (pre ++ x)) = true := by
  rw [List.isPrefixOf_iff_prefix]
  unfold rstripSlash
  rw [List.reverse_append, List.dropWhile_append]
  have hhead : pre.reverse.head? = some l := by simpa [List.head?_reverse] using hl
  have hkeep : pre.reverse.dropWhile (· == '/') = pre.reverse := by
    cases hr : pre.reverse with
    | nil => rfl
    | cons y ys =>
      rw [hr] at hhead
      simp only [List.head?_cons, Option.some.injEq] at hhead
      subst hhead
      simp [List.dropWhile_cons, hns]
  split
  · rw [hkeep, List.reverse_reverse]; exact List.prefix_refl _
  · rw [List.reverse_append, List.reverse_reverse]; exact List.prefix_append _ _

def isRe (p : List Char) : Bool := startsWith reP p || startsWith nreP p

theorem rstrip_short (r : List Char) (h : ¬ r.length > 1) : (if r.length > 1 then rstripSlash r else r) = r := by
  simp [h]

theorem rstrip_fix (q : List Char) :
    let r := if q.length > 1 then rstripSlash q else q
    (if r.length > 1 then rstripSlash r else r) = r := by
  simp only []
  by_cases hq : q.length > 1
  · simp only [hq, if_true]
    by_cases hr : (rstripSlash q).length > 1
    · simp only [hr, if_true, rstripSlash_idem]
    · simp [hr]
  · simp [hq]

theorem isRe_rstrip (p : List Char) (h : isRe p = true) : isRe (rstripSlash p) = true := by
  unfold isRe startsWith at h ⊢
  rw [Bool.or_eq_true] at h ⊢
  rcases h with h | h
  · left
    obtain ⟨x, rfl⟩ := List.isPrefixOf_iff_prefix.mp h
    exact rstrip_keeps reP x ':' (by decide) (by decide)
  · right
    obtain ⟨x, rfl⟩ := List.isPrefixOf_iff_prefix.mp h
    exact rstrip_keeps nreP x ':' (by decide) (by decide)

theorem normalize_re (x : List Char) (h : isRe x = true) :
    normalize x = if x.length > 1 then rstripSlash x else x := by
  unfold normalize; unfold isRe at h; simp only [h, if_true]

theorem normalize_nonre (x : List Char) (h : (startsWith reP x || startsWith nreP x) = false) :
    normalize x = if (collapse x).length > 1 then rstripSlash (collapse x) else collapse x := by
  unfold normalize; simp only [h, Bool.false_eq_true, if_false]

/-- `normalize_pattern` is idempotent -/
theorem normalize_idem (p : List Char) : normalize (normalize p) = normalize p := by
  by_cases hre : isRe p = true
  · -- `RE:` / `!RE:` patterns: only trailing slashes are stripped
    have h1 := normalize_re p hre
    have hre2 : isRe (normalize p) = true := by
      rw [h1]; split
      · exact isRe_rstrip p hre
      · exact hre
    rw [normalize_re (normalize p) hre2, h1]
    exact rstrip_fix p
  · have hre' : (startsWith reP p || startsWith nreP p) = false := by
      unfold isRe at hre; simpa using hre
    have h1 := normalize_nonre p hre'
    have hclean : cleanFrom false (normalize p) = true := by
      rw [h1]; split
      · exact clean_rstrip _ (clean_collapseAux p false)
      · exact clean_collapseAux p false
    have hq : (startsWith reP (collapse p) || startsWith nreP (collapse p)) = false := by
      unfold startsWith collapse at *
      rw [isPrefixOf_collapse reP (by decide), isPrefixOf_collapse nreP (by decide)]
      exact hre'
    have hre2 : (startsWith reP (normalize p) || startsWith nreP (normalize p)) = false := by
      rw [h1]; split
      · rw [Bool.or_eq_false_iff] at hq ⊢
        constructor
        · apply Bool.eq_false_iff.mpr; intro h
          have := isPrefixOf_of_rstrip reP _ h
          unfold startsWith at hq; rw [hq.1] at this; exact absurd this (by simp)
        · apply Bool.eq_false_iff.mpr; intro h
          have := isPrefixOf_of_rstrip nreP _ h
          unfold startsWith at hq; rw [hq.2] at this; exact absurd this (by simp)
      · exact hq
    rw [normalize_nonre (normalize p) hre2,
      show collapse (normalize p) = normalize p from collapseAux_of_clean _ false hclean, h1]
    exact rstrip_fix (collapse p)

end BreezyVerif.C48
