"""C43 finding: BzrUploader.upload_symlink passes unescaped paths to Transport.symlink.
Every other remote operation goes through urlutils.escape; a symlink whose path (or whose directory) needs
escaping - a space, a non-ASCII letter, a percent sign - cannot be uploaded (InvalidURL), or lands elsewhere.
Run:  cd /verif && /venv/bin/python /var/tmp/imp-C43C44/c43/repro_symlink_escape.py   (exit 1 = defect present)"""
import io, os, sys
sys.path.insert(0, "/verif/harness")
from vlib import env
env.boot()
from breezy import transport as T
from breezy.plugins.upload.cmds import BzrUploader

bad = 0
for d, l in (("g h", "l"), ("", "ü"), ("", "i%2Fj"), ("d", "x%41")):
    wt = env.make_tree("2a"); r = wt.basedir
    if d:
        os.mkdir(os.path.join(r, d))
    p = os.path.join(d, l) if d else l
    os.symlink("t1", os.path.join(r, p))
    wt.smart_add([r]); rid = wt.commit("1")
    remote = env.fresh_dir("p"); t = T.get_transport(remote)
    u = BzrUploader(wt.branch, t, io.StringIO(), wt.branch.repository.revision_tree(rid), rid, quiet=True)
    try:
        u.upload_full_tree(); res = "ok"
    except Exception as e:
        res = type(e).__name__
    full = os.path.join(remote, p)
    got = os.readlink(full) if os.path.islink(full) else None
    listing = sorted(os.path.relpath(os.path.join(dp, n), remote) for dp, dn, fn in os.walk(remote) for n in dn + fn)
    okay = res == "ok" and got is not None
    print("%-10r upload: %-12s remote link: %-8r listing: %s" % (p, res, got, listing))
    bad += not okay
sys.exit(1 if bad else 0)
