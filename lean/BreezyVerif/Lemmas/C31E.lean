import BreezyVerif.Model.C31
/-! the per-thread jail state: what other threads do never reaches this thread's slot -/
namespace BreezyVerif.C31

theorem JailTL.step_other (st : JailTL) (op : JOp) (t : Tid) (h : op.tid ≠ t) :
    (st.step op) t = st t := by
  cases op with
  | setup u r =>
    simp only [JOp.tid] at h
    simp only [JailTL.step, JailTL.set]
    split
    · rename_i e; exact absurd e.symm h
    · rfl
  | teardown u =>
    simp only [JOp.tid] at h
    simp only [JailTL.step, JailTL.set]
    split
    · rename_i e; exact absurd e.symm h
    · rfl
  | open_ u url => rfl

/-- two states that agree on thread `t` still do after the same step by anybody -/
theorem JailTL.step_congr (st st' : JailTL) (op : JOp) (t : Tid) (h : st t = st' t) :
    (st.step op) t = (st'.step op) t := by
  cases op with
  | setup u r => simp only [JailTL.step, JailTL.set]; split <;> simp [h]
  | teardown u => simp only [JailTL.step, JailTL.set]; split <;> simp [h]
  | open_ u url => exact h

theorem JailTL.final_append (st : JailTL) (a b : List JOp) :
    JailTL.final st (a ++ b) = JailTL.final (JailTL.final st a) b := by
  induction a generalizing st with
  | nil => rfl
  | cons op ops ih => exact ih _

theorem JailTL.final_other (st : JailTL) (ops : List JOp) (t : Tid)
    (h : ∀ op ∈ ops, op.tid ≠ t) : (JailTL.final st ops) t = st t := by
  induction ops generalizing st with
  | nil => rfl
  | cons op ops ih =>
    simp only [JailTL.final]
    rw [ih _ (fun o ho => h o (List.mem_cons_of_mem _ ho))]
    exact JailTL.step_other st op t (h op List.mem_cons_self)

/-- ops that leave thread `t`'s slot alone: anything by another thread, and `t`'s own opens -/
theorem JailTL.final_nowrite (st : JailTL) (ops : List JOp) (t : Tid)
    (h : ∀ op ∈ ops, op.tid ≠ t ∨ op.writes = false) : (JailTL.final st ops) t = st t := by
  induction ops generalizing st with
  | nil => rfl
  | cons op ops ih =>
    simp only [JailTL.final]
    rw [ih _ (fun o ho => h o (List.mem_cons_of_mem _ ho))]
    rcases h op List.mem_cons_self with h1 | h1
    · exact JailTL.step_other st op t h1
    · cases op <;> simp [JOp.writes] at h1
      rfl

theorem runTL_append (st : JailTL) (a b : List JOp) :
    runTL st (a ++ b) = runTL st a ++ runTL (JailTL.final st a) b := by
  induction a generalizing st with
  | nil => rfl
  | cons op ops ih =>
    cases op with
    | open_ t url => simp only [List.cons_append, runTL, JailTL.final, JailTL.step, ih, List.cons_append]
    | setup t r => simp only [List.cons_append, runTL, JailTL.final, ih]
    | teardown t => simp only [List.cons_append, runTL, JailTL.final, ih]

/-- what thread `t` observes in an interleaved trace is what it observes running alone -/
theorem runTL_projection (st st' : JailTL) (ops : List JOp) (t : Tid) (h : st t = st' t) :
    (runTL st ops).filter (fun r => r.1 == t) = runTL st' (ops.filter (fun o => o.tid == t)) := by
  induction ops generalizing st st' with
  | nil => rfl
  | cons op ops ih =>
    by_cases ht : op.tid = t
    · have hf : (op :: ops).filter (fun o => o.tid == t) = op :: ops.filter (fun o => o.tid == t) := by
        simp [ht]
      rw [hf]
      cases op with
      | open_ u url =>
        simp only [JOp.tid] at ht
        subst ht
        simp only [runTL, List.filter_cons, beq_self_eq_true, if_true, h]
        rw [ih st st' h]
      | setup u r =>
        simp only [runTL]
        exact ih _ _ (JailTL.step_congr st st' _ t h)
      | teardown u =>
        simp only [runTL]
        exact ih _ _ (JailTL.step_congr st st' _ t h)
    · have hf : (op :: ops).filter (fun o => o.tid == t) = ops.filter (fun o => o.tid == t) := by
        simp [ht]
      rw [hf]
      cases op with
      | open_ u url =>
        simp only [JOp.tid] at ht
        have : ((u, jailAllows (st u) url) :: runTL st ops).filter (fun r => r.1 == t)
            = (runTL st ops).filter (fun r => r.1 == t) := by simp [ht]
        simp only [runTL, this]
        exact ih st st' h
      | setup u r =>
        simp only [runTL]
        exact ih _ _ ((JailTL.step_other st _ t ht).trans h)
      | teardown u =>
        simp only [runTL]
        exact ih _ _ ((JailTL.step_other st _ t ht).trans h)

end BreezyVerif.C31
