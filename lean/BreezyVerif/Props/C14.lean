import BreezyVerif.Model.C14
import BreezyVerif.Lemmas.C14
import BreezyVerif.Lemmas.C14Git
import BreezyVerif.Lemmas.C14DeltaSound
import BreezyVerif.Lemmas.C14Fuel
/-!
C14 — transform previews match their applied result; conflict resolution ends
clean or with MalformedTransform; nothing is applied otherwise.

All statements are about the executable model `Model/C14.lean`, for every base
tree, every transform state (any maps over any trans-ids) and every fuel.
-/
namespace BreezyVerif.C14

/-! ### code variants -/

/-- the code variant of the pinned source (before any `fix:` commit) for bzr trees -/
def pinnedBzr : Flags := { git := false, dataByTreePath := false, execByTreePath := false, childrenGet := false, cancelGuarded := false, loopGuarded := false }
def pinnedGit : Flags := { git := true, dataByTreePath := true, execByTreePath := false, childrenGet := false, cancelGuarded := false, loopGuarded := false }

/-- the code variant of /repo now (what T1 extracts; `source_flags_fixed` in Props/C14T1 proves the
extracted records have `previewFixed` and `resolversFixed`) -/
def currentBzr : Flags := { git := false, dataByTreePath := true, execByTreePath := true, childrenGet := true, cancelGuarded := true, loopGuarded := true }
def currentGit : Flags := { currentBzr with git := true }

/-- the code variant with the four repairs proposed for the defects reported by this check -/
def repairedBzr : Flags := { currentBzr with upSkipsIdless := true, npReleasesId := true, unversionTolerant := true, deltaDropsOldId := true }

/-- non-vacuity of the hypotheses `previewFixed` / `resolversFixed` -/
example : currentBzr.previewFixed = true ∧ currentGit.previewFixed = true ∧ currentBzr.resolversFixed = true := by decide

/-! ### the resolution loop -/

/-- `resolve_conflicts` returns only from a state in which `find_raw_conflicts()`
is empty — for every number of passes, every transform, every code variant. -/
theorem resolve_clean_or_error (fl : Flags) (fuel : Nat) (tt : TT) (last : List Conflict) (tt' : TT)
    (h : TT.resolve fl fuel tt last = .clean tt') : tt'.findRawConflicts fl = [] := by
  induction fuel generalizing tt last with
  | zero => simp [TT.resolve] at h
  | succ n ih =>
    unfold TT.resolve at h
    simp only at h
    split at h
    · rename_i hc
      cases h
      simpa using hc
    · split at h
      · exact ih _ _ h
      · cases h

/-- a conflict-free transform is returned as it is (no resolver runs) -/
theorem resolve_clean_reached (fl : Flags) (fuel : Nat) (tt : TT) (last : List Conflict)
    (h : tt.findRawConflicts fl = []) : TT.resolve fl (fuel + 1) tt last = .clean tt := by
  simp [TT.resolve, h]

/-- when the passes are used up the loop raises MalformedTransform with the
conflicts of the last pass; they are not empty -/
theorem resolve_zero_malformed (fl : Flags) (fuel : Nat) (tt : TT) (last cs : List Conflict)
    (hl : fuel = 0 → last ≠ []) (h : TT.resolve fl fuel tt last = .malformed cs) : cs ≠ [] := by
  induction fuel generalizing tt last with
  | zero =>
    simp [TT.resolve] at h
    subst h
    exact hl rfl
  | succ n ih =>
    unfold TT.resolve at h
    simp only at h
    split at h
    · cases h
    · rename_i hc
      split at h
      · apply ih _ _ _ h
        intro _
        intro hnil
        simp [hnil] at hc
      · cases h

example : TT.resolve pinnedBzr 0 { base := [], next := 0 } [.parentLoop 1] = .malformed [.parentLoop 1] := rfl

/-- **all or nothing, except for a refused delta**: whatever `resolve_conflicts(tt); tt.apply()`
raises — MalformedTransform, a resolver's own exception, NoFinalPath from the delta generation, a
failed rename (rolled back) — the disk it leaves behind is exactly the disk before, *unless* the
exception is the inventory layer refusing the delta: that happens after the file phases and
outside their rollback.  (`inconsistent_delta_partial_witness` shows that case is real.) -/
theorem run_raise_keeps_disk_partial (fl : Flags) (tt : TT) (e : Err) (d : Disk)
    (h : tt.resolveAndApply fl = .raised e d) (he : e ≠ .inconsistentDelta) : d = tt.baseDisk := by
  unfold TT.resolveAndApply at h
  split at h
  · rename_i tt' _
    unfold TT.apply at h
    split at h
    · cases h; rfl
    · split at h
      · cases h; rfl
      · split at h
        · cases h; rfl
        · split at h
          · cases h; exact absurd rfl he
          · cases h
  · cases h; rfl
  · cases h; rfl

/-- **all or nothing**: `resolve_conflicts(tt); tt.apply()` either raises, or it has applied —
completely: the disk is `applyDisk` of — a transform `tt'` that `resolve_conflicts` returned, that
has no raw conflicts, whose inventory delta exists and is consistent (bzr), and that renames
nothing onto a file. -/
theorem run_all_or_nothing (fl : Flags) (tt tt' : TT) (d : Disk) (h : tt.resolveAndApply fl = .applied tt' d) :
    tt.resolveConflicts fl = .clean tt' ∧ tt'.findRawConflicts fl = [] ∧ d = tt'.applyDisk ∧ tt'.dangling = [] ∧
    (fl.git = false → ∃ dl, tt'.generateDelta fl = .ok dl ∧ invConsistent (applyDelta tt'.baseInv dl) = true) := by
  unfold TT.resolveAndApply at h
  split at h
  · rename_i tt1 hr
    have hc := resolve_clean_or_error fl passCount tt [] tt1 hr
    unfold TT.apply at h
    simp only [hc, List.isEmpty_nil, Bool.not_true, Bool.false_eq_true, if_false] at h
    split at h
    · cases h
    · rename_i dl hd
      split at h
      · cases h
      · rename_i hdang
        split at h
        · cases h
        · rename_i hcons
          cases h
          refine ⟨hr, hc, rfl, by simpa using hdang, ?_⟩
          intro hg
          simp only [hg, Bool.false_eq_true, if_false] at hd
          refine ⟨dl, hd, ?_⟩
          simpa [hg] using hcons
  · cases h
  · cases h

/-! ### the third outcome: a resolver raises -/

def Resolved.isCrashed : Resolved → Err → Bool
  | .crashed e, e' => e == e'
  | _, _ => false

def Resolved.malformedWith : Resolved → List Conflict → Bool
  | .malformed cs, cs' => cs == cs'
  | _, _ => false

def Resolved.isClean : Resolved → Bool
  | .clean _ => true
  | _ => false

/-- `resolve_conflicts` ends with an exception other than MalformedTransform only when a
resolver raised it: there is a pass that started from a transform with raw conflicts and whose
`conflict_pass` failed with exactly that error.  (It never comes from the loop itself.) -/
theorem resolve_crashed_from_resolver (fl : Flags) (fuel : Nat) (tt : TT) (last : List Conflict) (e : Err)
    (h : TT.resolve fl fuel tt last = .crashed e) :
    ∃ tt' : TT, tt'.findRawConflicts fl ≠ [] ∧ tt'.conflictPass fl (tt'.findRawConflicts fl) = Except.error e := by
  induction fuel generalizing tt last with
  | zero => simp [TT.resolve] at h
  | succ n ih =>
    unfold TT.resolve at h
    simp only at h
    split at h
    · cases h
    · rename_i hc
      split at h
      · exact ih _ _ h
      · rename_i e' he
        cases h
        exact ⟨tt, by simpa using hc, he⟩

/-- a pass over conflicts that have no resolver changes nothing and cannot raise -/
theorem conflictPass_unresolvable (fl : Flags) (tt : TT) (cs : List Conflict)
    (h : ∀ c ∈ cs, c.hasResolver = false) : tt.conflictPass fl cs = .ok tt := by
  unfold TT.conflictPass
  induction cs with
  | nil => rfl
  | cons c rest ih =>
    have hc : tt.resolveOne fl c = .ok tt := by
      have := h c (by simp)
      cases c <;> simp_all [Conflict.hasResolver, TT.resolveOne]
    simp only [List.foldlM_cons, hc, bind, Except.bind]
    exact ih (fun c' hc' => h c' (by simp [hc']))

/-- a transform all of whose raw conflicts are of the kinds nobody resolves (executability of an
unversioned entry / of a non-file, overwrite) is reported as malformed with exactly those
conflicts, for every positive number of passes: no crash, no change -/
theorem resolve_unresolvable_malformed (fl : Flags) (fuel : Nat) (tt : TT) (last : List Conflict)
    (hne : tt.findRawConflicts fl ≠ []) (h : ∀ c ∈ tt.findRawConflicts fl, c.hasResolver = false) :
    TT.resolve fl (fuel + 1) tt last = .malformed (tt.findRawConflicts fl) := by
  induction fuel generalizing last with
  | zero =>
    unfold TT.resolve
    have : (tt.findRawConflicts fl).isEmpty = false := by
      cases hcs : tt.findRawConflicts fl with
      | nil => exact absurd hcs hne
      | cons _ _ => rfl
    simp only [this, Bool.false_eq_true, if_false, conflictPass_unresolvable fl tt _ h]
    rfl
  | succ n ih =>
    unfold TT.resolve
    have : (tt.findRawConflicts fl).isEmpty = false := by
      cases hcs : tt.findRawConflicts fl with
      | nil => exact absurd hcs hne
      | cons _ _ => rfl
    simp only [this, Bool.false_eq_true, if_false, conflictPass_unresolvable fl tt _ h]
    exact ih _

/-- root, a versioned directory `b`, a registered path `y` that does not exist -/
def crashBase1 : TT :=
  { base := [⟨none, "", some .dir, "", false, some "r"⟩, ⟨some 0, "b", some .dir, "", false, some "fb"⟩,
             ⟨some 0, "y", none, "", false, none⟩], next := 3 }

/-- **witness (crash, bzr)**: `adjust_path("b", y, b)` moves the versioned directory `b` below a
path that does not exist.  Raw conflicts: unversioned parent `y`, missing parent `y`.
`resolve_unversioned_parent` calls `version_file(y, file_id=None)`: `resolve_conflicts` ends with
ValueError — neither clean nor MalformedTransform.  With the proposed repair (the resolver leaves
a parent without an inactive file id alone) the run ends with MalformedTransform. -/
theorem unversioned_parent_crash_witness :
    let tt := (crashBase1.steps currentBzr [.adjustPath "b" 2 1]).1
    tt.findRawConflicts currentBzr = [.unversionedParent 2, .missingParent 2] ∧
    (tt.resolveConflicts currentBzr).isCrashed .valueError = true ∧
    (tt.resolveConflicts repairedBzr).malformedWith [.unversionedParent 2] = true := by
  decide +kernel

/-- root and an unversioned symlink `a` -/
def crashBase2 : TT :=
  { base := [⟨none, "", some .dir, "", false, some "r"⟩, ⟨some 0, "a", some .symlink, "t1", false, none⟩], next := 2 }

/-- **witness (crash, bzr)**: `version_file(a, "fid1")`, `new_file("d", a, …, "fid2")`: the symlink
`a` gets a file id in this transform and a child.  `resolve_non_directory_parent` creates `a.new`
with `final_file_id(a)` = "fid1" while `a` still holds it in `_new_id`: DuplicateKey.  With the
proposed repair (release the id first) the run ends clean. -/
theorem non_dir_parent_duplicate_key_witness :
    let tt := (crashBase2.steps currentBzr [.versionFile 1 "fid1", .newFile "d" 1 "N9" (some "fid2") none]).1
    tt.findRawConflicts currentBzr = [.nonDirParent 1] ∧
    (tt.resolveConflicts currentBzr).isCrashed .duplicateKey = true ∧
    (tt.resolveConflicts repairedBzr).isClean = true := by
  decide +kernel

/-- **witness (bzr)**: `unversion_file` of a tree path that is not versioned makes
`find_raw_conflicts` itself raise NoSuchFile (`_add_tree_children` → `stored_kind`); with the
proposed repair it is a no-op and the transform is conflict-free. -/
theorem unversion_unversioned_raises_witness :
    let tt := (crashBase2.steps currentBzr [.unversionFile 1]).1
    tt.addTreeChildrenRaises currentBzr = true ∧ tt.addTreeChildrenRaises currentGit = false ∧
    tt.addTreeChildrenRaises repairedBzr = false ∧ tt.findRawConflicts repairedBzr = [] := by
  decide +kernel

/-- **a clean transform applies** — under exactly these conditions: no raw conflicts, nothing
without contents to rename onto a file, and (bzr) a delta that exists and is consistent.  Then
`apply()` returns and the disk is `applyDisk`. -/
theorem apply_clean_applies (fl : Flags) (tt : TT) (d0 : Disk) (hc : tt.findRawConflicts fl = [])
    (hd : tt.dangling = [])
    (hm : fl.git = true ∨ ∃ dl, tt.generateDelta fl = .ok dl ∧ invConsistent (applyDelta tt.baseInv dl) = true) :
    tt.apply fl d0 = .applied tt tt.applyDisk := by
  unfold TT.apply
  simp only [hc, hd, List.isEmpty_nil, Bool.not_true, Bool.false_eq_true, if_false]
  rcases hm with hg | ⟨dl, h1, h2⟩
  · simp [hg]
  · cases hgit : fl.git with
    | true => simp
    | false => simp [h1, h2]

/-- **Never a partially applied tree when the file system fails**: whatever the transform,
`resolve_conflicts; apply` with a failure in the mover phases raises and leaves the disk it
started from (the mover's rollback — property C13 — is part of the definition of
`applyFaulted`; the real code is compared with it for every failing `os.rename`). -/
theorem faulted_run_keeps_disk (fl : Flags) (tt : TT) :
    ∃ e, tt.resolveAndApplyFaulted fl = .raised e tt.baseDisk := by
  unfold TT.resolveAndApplyFaulted
  split
  · unfold TT.applyFaulted
    split
    · exact ⟨_, rfl⟩
    · split
      · exact ⟨_, rfl⟩
      · exact ⟨_, rfl⟩
  · exact ⟨_, rfl⟩
  · exact ⟨_, rfl⟩

/-- a conflict-free transform whose delta can be generated gets as far as the mover phases:
the failure it reports is the rename failure, not a refusal -/
theorem faulted_apply_of_clean (fl : Flags) (tt : TT) (d0 : Disk) (hc : tt.findRawConflicts fl = [])
    (hm : fl.git = true ∨ ∃ dl, tt.generateDelta fl = .ok dl) :
    tt.applyFaulted fl d0 = .raised .renameFailed d0 := by
  unfold TT.applyFaulted
  simp only [hc, List.isEmpty_nil, Bool.not_true, Bool.false_eq_true, if_false]
  rcases hm with hg | ⟨dl, h1⟩
  · simp [hg]
  · cases hgit : fl.git with
    | true => simp
    | false => simp [h1]

def Outcome.raisedWith : Outcome → Err → Bool
  | .raised e _, e' => e == e'
  | _, _ => false

def Outcome.isApplied : Outcome → Bool
  | .applied _ _ => true
  | _ => false

/-- root and a versioned file `b` -/
def crashBase3 : TT :=
  { base := [⟨none, "", some .dir, "", false, some "r"⟩, ⟨some 0, "b", some .file, "B", false, some "fb"⟩], next := 2 }

/-- **witness (partially applied tree, bzr)**: `version_file(b, "fid1")` on the versioned file `b`
(no `unversion_file`), plus a new file `d`.  No raw conflicts, so `resolve_conflicts` returns at
once; the delta adds "fid1" at `b` while "fb" still occupies it, `apply_inventory_delta` refuses
it — after the files were moved and outside the rollback: the run raises and the disk is *not*
the disk before.  With the proposed repair (the delta drops the old id) the run applies. -/
theorem inconsistent_delta_partial_witness :
    let tt := (crashBase3.steps currentBzr [.versionFile 1 "fid1", .newFile "d" 0 "N6" (some "fid2") (some false)]).1
    tt.findRawConflicts currentBzr = [] ∧ tt.reversioned = [1] ∧
    (tt.resolveAndApply currentBzr).raisedWith .inconsistentDelta = true ∧
    diskSame (tt.diskAfter currentBzr) tt.baseDisk = false ∧
    (tt.resolveAndApply repairedBzr).isApplied = true := by
  decide +kernel

/-- root, a versioned file `c`, a registered path `y` that does not exist -/
def crashBase4 : TT :=
  { base := [⟨none, "", some .dir, "", false, some "r"⟩, ⟨some 0, "c", some .file, "C", false, some "fc"⟩,
             ⟨some 0, "y", none, "", false, none⟩], next := 3 }

/-- **witness (a conflict-free transform that does not apply, bzr and git)**:
`adjust_path("f", c, y)` moves the path `y`, which has no contents, below the file `c`.
`_parent_type_conflicts` ignores children without contents: no raw conflicts; the rename from limbo
fails with ENOTDIR (rolled back: the disk is the disk before). -/
theorem dangling_rename_failed_witness :
    let tt := (crashBase4.steps currentBzr [.adjustPath "f" 1 2]).1
    tt.findRawConflicts currentBzr = [] ∧ tt.findRawConflicts currentGit = [] ∧ tt.dangling = [2] ∧
    (tt.resolveAndApply currentBzr).raisedWith .renameFailed = true ∧
    (tt.resolveAndApply currentGit).raisedWith .renameFailed = true ∧
    diskSame (tt.diskAfter currentBzr) tt.baseDisk = true := by
  decide +kernel

/-- conflict types without a resolver are skipped by `conflict_pass` -/
theorem resolveOne_no_resolver (fl : Flags) (tt : TT) (c : Conflict) (h : c.hasResolver = false) :
    tt.resolveOne fl c = .ok tt := by
  cases c <;> simp_all [Conflict.hasResolver, TT.resolveOne]

/-! ### apply (disk) against the `final_*` functions -/

/-- the removal phase, per trans-id -/
theorem applyRemovals_get (tt : TT) (d : Disk) (t : Tid) :
    (tt.applyRemovals d)[t]? = (d[t]?).map (tt.removalStep t) := by
  simp [TT.applyRemovals]

/-- hypotheses under which the entry is meaningful: the id is known, a tree id
has a name and a parent, contents are only deleted where there are contents
(`delete_contents` checks `tree_kind`) and new ids carry no tree data -/
def TT.okId (tt : TT) (t : Tid) : Bool :=
  decide (t < tt.next) && decide (t ≠ TT.root) &&
  (decide (t < tt.nbase) || (ahas tt.newName t && ahas tt.newParent t))

/-- the node of a trans-id after the removal phase -/
theorem removal_fields (tt : TT) (t : Tid) (hroot : t ≠ TT.root) :
    let i1 := tt.removalStep t (tt.baseInode t)
    i1.kind = (if tt.removedContents.contains t then none else tt.treeKind t) ∧
    (i1.attached = true → i1.kind = tt.treeKind t ∧ tt.pathChanged t = false ∧ tt.removedContents.contains t = false) ∧
    (tt.pathChanged t = false → tt.removedContents.contains t = false → i1.attached = (tt.treeKind t).isSome) ∧
    i1.data = tt.treeData t ∧ i1.exec = tt.treeExec t := by
  unfold TT.removalStep TT.baseInode TT.treeKind TT.treeData TT.treeExec TT.nbase
  by_cases hb : t < tt.base.length
  · have hget : tt.base[t]? = some tt.base[t] := by simp [hb]
    simp only [hget, hroot, Nat.not_le.mpr hb, false_or, if_false]
    by_cases hr : t ∈ tt.removedContents
    · simp [hr]
    · by_cases hp : tt.pathChanged t = true
      · simp [hr, hp]
      · simp [hr, hp]
  · have hget : tt.base[t]? = none := List.getElem?_eq_none (Nat.le_of_not_lt hb)
    simp [hget, Nat.le_of_not_lt hb, Inode.empty]

theorem ahas_of_alookup_some {β : Type} {l : List (Tid × β)} {k : Tid} {v : β} (h : alookup l k = some v) : ahas l k = true := by
  unfold ahas; unfold alookup at h
  cases hf : l.find? (fun e => e.1 == k) with
  | none => simp [hf] at h
  | some e => exact List.any_eq_true.mpr ⟨e, List.mem_of_find?_eq_some hf, by simpa using List.find?_some hf⟩

theorem ahas_of_alookup_none {β : Type} {l : List (Tid × β)} {k : Tid} (h : alookup l k = none) : ahas l k = false := by
  unfold ahas; unfold alookup at h
  cases hf : l.find? (fun e => e.1 == k) with
  | none => rw [List.find?_eq_none] at hf; exact List.any_eq_false.mpr hf
  | some e => simp [hf] at h

theorem alookup_isSome_of_ahas {β : Type} {l : List (Tid × β)} {k : Tid} (h : ahas l k = true) : (alookup l k).isSome = true := by
  cases hl : alookup l k with
  | none => have := ahas_of_alookup_none hl; simp_all
  | some v => rfl

/-- **apply = final (disk)**: after the removal, insertion and chmod phases the
inode of every trans-id shows exactly the kind, contents and executable bit that
`final_kind`, the new / tree contents and `_new_executability` / the tree mode
describe.  Holds for every transform state, clean or not. -/
theorem applied_disk_eq_final (fl : Flags) (tt : TT) (t : Tid) (p : List String) (h : tt.okId t = true) :
    let a := tt.appliedEntry fl t p
    let f := tt.finalEntry t
    a.kind = f.kind ∧ a.data = f.data ∧ a.exec = f.exec := by
  simp only [TT.okId, Bool.and_eq_true, Bool.or_eq_true, decide_eq_true_eq] at h
  obtain ⟨⟨hlt, hroot⟩, hknown⟩ := h
  obtain ⟨hk1, hatt1, hatt1', hd1, hx1⟩ := removal_fields tt t hroot
  simp only [TT.appliedEntry, applyDisk_get tt t hlt, TT.finalEntry]
  generalize tt.removalStep t (tt.baseInode t) = i1 at *
  -- names and parents exist for the ids we look at
  have hfp : tt.pathChanged t = true ∨ ahas tt.newContents t = true → ∃ pp n, tt.finalParent t = some pp ∧ tt.finalName t = some n := by
    intro _
    unfold TT.finalParent TT.finalName
    rcases hknown with hb | ⟨hn, hp⟩
    · have hget : tt.base[t]? = some tt.base[t] := by simp [TT.nbase] at hb; simp [hb]
      cases alookup tt.newParent t <;> cases alookup tt.newName t <;> simp [hget]
    · have h1 := alookup_isSome_of_ahas hn
      have h2 := alookup_isSome_of_ahas hp
      cases hA : alookup tt.newParent t <;> cases hB : alookup tt.newName t <;> simp_all
  unfold TT.chmodStep TT.insertionStep TT.limboInode TT.finalKind
  cases hnc : alookup tt.newContents t with
  | some kd =>
    obtain ⟨k, d⟩ := kd
    have hh := ahas_of_alookup_some hnc
    obtain ⟨pp, n, hpp, hn⟩ := hfp (Or.inr hh)
    simp only [hh, Bool.true_or, if_true, hpp, hn]
    cases hx : alookup tt.newExec t <;> cases k <;> simp
  | none =>
    have hh := ahas_of_alookup_none hnc
    simp only [hh, Bool.false_or]
    by_cases hpc : tt.pathChanged t = true
    · obtain ⟨pp, n, hpp, hn⟩ := hfp (Or.inl hpc)
      simp only [hpc, if_true, hpp, hn]
      rw [hk1]
      cases hx : alookup tt.newExec t <;> cases hr : tt.removedContents.contains t <;>
        cases hk : tt.treeKind t <;> simp_all <;> (rename_i k; cases k <;> simp_all)
    · have hpc' : tt.pathChanged t = false := by simpa using hpc
      simp only [hpc', Bool.false_eq_true, if_false]
      by_cases hr : tt.removedContents.contains t = true
      · have : i1.attached = false := by
          cases ha : i1.attached with
          | false => rfl
          | true => have := (hatt1 ha).2.2; simp_all
        have hr2 : t ∈ tt.removedContents := by simpa using hr
        cases hx : alookup tt.newExec t <;> simp [this, hr2]
      · have hr' : tt.removedContents.contains t = false := by simpa using hr
        have ha := hatt1' hpc' hr'
        rw [hr'] at hk1
        simp only [hr']
        cases hx : alookup tt.newExec t <;> cases hk : tt.treeKind t <;> simp_all <;>
          (rename_i k; cases k <;> simp_all)

example : ({ base := [⟨none, "", some .dir, "", false, some "r"⟩, ⟨some 0, "x", some .file, "X", true, some "fx"⟩], next := 2,
             newName := [(1, "y")], newParent := [(1, some 0)] } : TT).okId 1 = true := by decide

/-! ### paths: the directory entries of the applied disk spell the final paths -/

/-- non-vacuity of `wf`: a renamed tree file and a new directory -/
example : ({ base := [⟨none, "", some .dir, "", false, some "r"⟩, ⟨some 0, "x", some .file, "X", true, some "fx"⟩], next := 3,
             newName := [(1, "y"), (2, "n")], newParent := [(1, some 2), (2, some 0)], newContents := [(2, (.dir, ""))] } : TT).wf = true := by
  decide

theorem okId_of_wf (tt : TT) (h : tt.wf = true) (t : Tid) (ht : t < tt.next) (hr : t ≠ TT.root) : tt.okId t = true := by
  simp only [TT.wf, Bool.and_eq_true, decide_eq_true_eq, List.all_eq_true, TT.ids, List.mem_range, Bool.or_eq_true] at h
  obtain ⟨_, hall⟩ := h
  simp only [TT.okId, Bool.and_eq_true, decide_eq_true_eq, Bool.or_eq_true]
  exact ⟨⟨ht, hr⟩, hall t ht⟩

/-- **the applied directory entry is the final one**: after apply, the inode of every trans-id sits
under the parent `final_parent` names, with the name `final_name` gives. -/
theorem applied_dirent_eq_final (tt : TT) (t : Tid) (h : tt.okId t = true) :
    ∃ i, tt.applyDisk[t]? = some i ∧ tt.finalParent t = some i.parent ∧ tt.finalName t = some i.name := by
  simp only [TT.okId, Bool.and_eq_true, Bool.or_eq_true, decide_eq_true_eq] at h
  obtain ⟨⟨hlt, hroot⟩, hknown⟩ := h
  refine ⟨_, applyDisk_get tt t hlt, ?_⟩
  have hchmod : ∀ i : Inode, (tt.chmodStep t i).parent = i.parent ∧ (tt.chmodStep t i).name = i.name := by
    intro i; unfold TT.chmodStep; cases alookup tt.newExec t <;> simp
  have hrem : (tt.removalStep t (tt.baseInode t)).parent = (tt.baseInode t).parent ∧
      (tt.removalStep t (tt.baseInode t)).name = (tt.baseInode t).name := by
    unfold TT.removalStep
    split
    · exact ⟨rfl, rfl⟩
    · split
      · exact ⟨rfl, rfl⟩
      · split <;> exact ⟨rfl, rfl⟩
  rw [(hchmod _).1, (hchmod _).2]
  by_cases hc : (ahas tt.newContents t || tt.pathChanged t) = true
  · -- the insertion phase writes the final directory entry
    have hfp : ∃ pp n, tt.finalParent t = some pp ∧ tt.finalName t = some n := by
      unfold TT.finalParent TT.finalName
      rcases hknown with hb | ⟨hn, hp⟩
      · have hget : tt.base[t]? = some tt.base[t] := by simp [TT.nbase] at hb; simp [hb]
        cases alookup tt.newParent t <;> cases alookup tt.newName t <;> simp [hget]
      · have h1 := alookup_isSome_of_ahas hn
        have h2 := alookup_isSome_of_ahas hp
        cases hA : alookup tt.newParent t <;> cases hB : alookup tt.newName t <;> simp_all
    obtain ⟨pp, n, hpp, hn⟩ := hfp
    unfold TT.insertionStep
    simp [hc, hpp, hn]
  · -- untouched: the tree's directory entry, which is what `final_*` fall back to
    have hc' : ahas tt.newContents t = false ∧ tt.pathChanged t = false := by
      simpa [Bool.or_eq_false_iff] using hc
    have hb : t < tt.nbase := by
      rcases hknown with hb | ⟨hn, _⟩
      · exact hb
      · simp [TT.pathChanged, hn] at hc'
    have hget : tt.base[t]? = some tt.base[t] := by simp [TT.nbase] at hb; simp [hb]
    have hnn : alookup tt.newName t = none ∧ alookup tt.newParent t = none := by
      have := hc'.2
      simp only [TT.pathChanged, Bool.or_eq_false_iff] at this
      constructor
      · cases hl : alookup tt.newName t with
        | none => rfl
        | some v => have := ahas_of_alookup_some hl; simp_all
      · cases hl : alookup tt.newParent t with
        | none => rfl
        | some v => have := ahas_of_alookup_some hl; simp_all
    have hnc : alookup tt.newContents t = none := by
      cases hl : alookup tt.newContents t with
      | none => rfl
      | some v => have := ahas_of_alookup_some hl; simp_all
    unfold TT.insertionStep
    simp only [hnc, hc, Bool.false_eq_true, if_false]
    rw [hrem.1, hrem.2]
    simp [TT.finalParent, TT.finalName, hnn.1, hnn.2, TT.baseInode, hget]

/-- **paths**: for a well-formed transform state, walking the directory entries of the applied
disk from any trans-id spells exactly the path `FinalPaths` computes — for every fuel. -/
theorem diskPath_applyDisk_eq_finalPath (tt : TT) (hwf : tt.wf = true) (fuel : Nat) (t : Tid) :
    diskPath tt.applyDisk fuel t = tt.finalPath fuel t := by
  induction fuel generalizing t with
  | zero => rfl
  | succ n ih =>
    unfold diskPath TT.finalPath
    by_cases hr : t = TT.root
    · simp [hr]
    · simp only [hr, if_false]
      by_cases hlt : t < tt.next
      · obtain ⟨i, hi, hp, hn⟩ := applied_dirent_eq_final tt t (okId_of_wf tt hwf t hlt hr)
        simp only [hi, hp, hn]
        cases hpp : i.parent with
        | none => rfl
        | some p => simp [ih p]
      · -- unknown id: no inode, no final parent
        have hge : tt.next ≤ t := Nat.le_of_not_lt hlt
        have hlen : tt.applyDisk.length = tt.next := by
          simp [TT.applyDisk, TT.applyInsertions, TT.applyRemovals, TT.baseDisk, TT.ids]
        have hnone : tt.applyDisk[t]? = none := List.getElem?_eq_none (by omega)
        simp only [TT.wf, Bool.and_eq_true, decide_eq_true_eq, List.all_eq_true] at hwf
        obtain ⟨⟨⟨⟨_, hnb⟩, _⟩, hnp⟩, _⟩ := hwf
        have hfp : tt.finalParent t = none := by
          unfold TT.finalParent
          have h1 : alookup tt.newParent t = none := by
            unfold alookup
            have : tt.newParent.find? (fun e => e.1 == t) = none := by
              rw [List.find?_eq_none]
              intro x hx
              have := hnp x hx
              have hlt' : x.1 < tt.next := by simpa using this
              have hne : x.1 ≠ t := Nat.ne_of_lt (Nat.lt_of_lt_of_le hlt' hge)
              simpa using hne
            simp [this]
          have hnb' : tt.base.length ≤ tt.next := hnb
          have h2 : tt.base[t]? = none := List.getElem?_eq_none (by omega)
          simp [h1, h2]
        simp [hnone, hfp]

/-! ### the preview tree against the `final_*` functions -/

/-- **preview = final**: with the preview accessors reading an unmodified entry at its
*tree* path, `kind`, `get_file_text` / `get_symlink_target`, `is_executable` and
`is_versioned` of the preview tree are exactly the final entry — for every
transform state, every trans-id and whatever path it is found at. -/
theorem preview_entry_eq_final (fl : Flags) (tt : TT) (t : Tid) (p : List String) (hf : fl.previewFixed = true) :
    let v := tt.previewEntry fl t p
    let f := tt.finalEntry t
    v.kind = f.kind ∧ v.data = some f.data ∧ v.exec = f.exec ∧ v.versioned = f.versioned := by
  simp only [Flags.previewFixed, Bool.and_eq_true] at hf
  obtain ⟨hd, hx⟩ := hf
  simp only [TT.previewEntry, TT.finalEntry, hd, hx, if_true]
  refine ⟨trivial, ?_, ?_, trivial⟩
  · unfold TT.finalKind
    cases hnc : alookup tt.newContents t with
    | some kd => obtain ⟨k, d⟩ := kd; cases k <;> simp
    | none =>
      by_cases hr : t ∈ tt.removedContents
      · simp [hr]
      · cases hk : tt.treeKind t with
        | none => simp [hr, hk]
        | some k => cases k <;> simp [hr, hk]
  · cases hk : tt.finalKind t with
    | none => simp
    | some k => cases k <;> cases alookup tt.newExec t <;> simp

/-- **preview = apply** on kind, contents and executable bit, for the fixed preview
accessors: both equal the final entry. -/
theorem preview_eq_apply_disk (fl : Flags) (tt : TT) (t : Tid) (p : List String)
    (hf : fl.previewFixed = true) (h : tt.okId t = true) :
    let v := tt.previewEntry fl t p
    let a := tt.appliedEntry fl t p
    v.kind = a.kind ∧ v.data = some a.data ∧ v.exec = a.exec := by
  obtain ⟨a1, a2, a3⟩ := applied_disk_eq_final fl tt t p h
  obtain ⟨p1, p2, p3, _⟩ := preview_entry_eq_final fl tt t p hf
  simp only at a1 a2 a3 p1 p2 p3 ⊢
  exact ⟨by rw [p1, a1], by rw [p2, a2], by rw [p3, a3]⟩

/-- the paths `FinalPaths` gives to the trans-ids that end with contents -/
def TT.finalContentPaths (tt : TT) : List (Tid × List String) :=
  tt.ids.filterMap fun t =>
    if t = TT.root then none
    else if (tt.finalKind t).isSome then (tt.pathOf t).map (fun p => (t, p)) else none

/-- **the applied disk has exactly the final paths**: enumerating the inodes that have a directory
entry, at the path their directory entries spell, gives exactly the trans-ids with final contents
at their `FinalPaths` path. -/
theorem appliedPaths_eq_final (tt : TT) (hwf : tt.wf = true) : tt.appliedPaths = tt.finalContentPaths := by
  unfold TT.appliedPaths TT.finalContentPaths
  apply filterMap_congr'
  intro t ht
  have hlt : t < tt.next := by simpa [TT.ids] using ht
  by_cases hr : t = TT.root
  · simp [hr]
  · simp only [hr, if_false]
    have hok := okId_of_wf tt hwf t hlt hr
    have hk := (applied_disk_eq_final currentBzr tt t [] hok).1
    simp only [TT.appliedEntry, applyDisk_get tt t hlt, TT.finalEntry] at hk
    rw [applyDisk_get tt t hlt]
    simp only
    generalize tt.chmodStep t (tt.insertionStep t (tt.removalStep t (tt.baseInode t))) = i at hk
    have hkk : (i.attached && i.kind.isSome) = (tt.finalKind t).isSome := by
      rw [← hk]; cases i.attached <;> simp
    rw [hkk, diskPath_applyDisk_eq_finalPath tt hwf]
    rfl

/-- **preview = apply, per path** (kind, contents, executable bit): every path found on the
applied disk is a path of the preview tree, bound to the same trans-id, and the two trees show the
same kind, the same text / link target and the same executable bit there. -/
theorem preview_eq_apply_per_path (fl : Flags) (tt : TT) (hf : fl.previewFixed = true) (hwf : tt.wf = true)
    (t : Tid) (p : List String) (h : (t, p) ∈ tt.appliedPaths) :
    (t, p) ∈ tt.livePaths ∧
    (tt.previewEntry fl t p).kind = (tt.appliedEntry fl t p).kind ∧
    (tt.previewEntry fl t p).data = some (tt.appliedEntry fl t p).data ∧
    (tt.previewEntry fl t p).exec = (tt.appliedEntry fl t p).exec := by
  rw [appliedPaths_eq_final tt hwf] at h
  simp only [TT.finalContentPaths, List.mem_filterMap] at h
  obtain ⟨t', ht', hx⟩ := h
  have hlt : t' < tt.next := by simpa [TT.ids] using ht'
  split at hx
  · cases hx
  · rename_i hr
    split at hx
    · rename_i hk
      cases hp : tt.pathOf t' with
      | none => simp [hp] at hx
      | some q =>
        simp only [hp, Option.map_some, Option.some.injEq, Prod.mk.injEq] at hx
        obtain ⟨rfl, rfl⟩ := hx
        refine ⟨?_, preview_eq_apply_disk fl tt t' q hf (okId_of_wf tt hwf t' hlt hr)⟩
        simp only [TT.livePaths, List.mem_filterMap]
        exact ⟨t', ht', by simp [hr, TT.live, hk, hp]⟩
    · cases hx

/-- … and conversely every path of the preview tree whose entry has contents is found on the
applied disk, under the same trans-id. -/
theorem preview_paths_on_applied_disk (tt : TT) (hwf : tt.wf = true) (t : Tid) (p : List String)
    (h : (t, p) ∈ tt.livePaths) (hk : (tt.finalKind t).isSome = true) : (t, p) ∈ tt.appliedPaths := by
  rw [appliedPaths_eq_final tt hwf]
  simp only [TT.livePaths, List.mem_filterMap] at h
  obtain ⟨t', ht', hx⟩ := h
  simp only [TT.finalContentPaths, List.mem_filterMap]
  refine ⟨t', ht', ?_⟩
  split at hx
  · cases hx
  · rename_i hr
    split at hx
    · cases hp : tt.pathOf t' with
      | none => simp [hp] at hx
      | some q =>
        simp only [hp, Option.map_some, Option.some.injEq, Prod.mk.injEq] at hx
        obtain ⟨rfl, rfl⟩ := hx
        simp [hr, hk, hp]
    · cases hx

/-- hypothesis of the partial theorem: the base tree has this very entry at the path
the preview shows it at (it was not moved), and contents are only replaced on
versioned entries -/
def TT.unmovedAt (tt : TT) (t : Tid) (p : List String) : Bool :=
  tt.tidOfTreePath p == some t && (!(ahas tt.newContents t) || tt.finalVersioned t)

/-- **preview = final, partial**: for the accessors as they are in the pinned source
(an unmodified entry is read from the base tree at the *preview* path) the
statement holds for entries that the base tree has at that same path.  For moved
entries it is false: `preview_path_lookup_witness`. -/
theorem preview_entry_partial (fl : Flags) (tt : TT) (t : Tid) (p : List String) (hu : tt.unmovedAt t p = true) :
    let v := tt.previewEntry fl t p
    let f := tt.finalEntry t
    v.kind = f.kind ∧ v.data = some f.data ∧ v.exec = f.exec ∧ v.versioned = f.versioned := by
  simp only [TT.unmovedAt, Bool.and_eq_true, Bool.or_eq_true, beq_iff_eq, Bool.not_eq_eq_eq_not, Bool.not_true] at hu
  obtain ⟨hp, hv⟩ := hu
  simp only [TT.previewEntry, TT.finalEntry, TT.baseDataAt, TT.baseExecAt, hp]
  refine ⟨trivial, ?_, ?_, trivial⟩
  · unfold TT.finalKind
    cases hnc : alookup tt.newContents t with
    | some kd =>
      obtain ⟨k, d⟩ := kd
      have hh := ahas_of_alookup_some hnc
      have hv' : tt.finalVersioned t = true := by simpa [hh] using hv
      cases k <;> simp [hv']
    | none =>
      by_cases hr : t ∈ tt.removedContents
      · simp [hr]
      · cases hk : tt.treeKind t with
        | none => simp [hr, hk]
        | some k => cases k <;> simp [hr, hk]
  · cases hk : tt.finalKind t with
    | none => simp
    | some k => cases k <;> cases alookup tt.newExec t <;> simp


/-- base tree `x` (an executable file) and a directory `d` with a file `d/g` -/
def witnessTT : TT :=
  { base := [⟨none, "", some .dir, "", false, some "r"⟩, ⟨some 0, "x", some .file, "X", true, some "fx"⟩,
             ⟨some 0, "d", some .dir, "", false, some "fd"⟩, ⟨some 2, "g", some .file, "G", false, some "fg"⟩],
    next := 4 }

/-- `adjust_path("y", root, trans_id_tree_path("x"))` -/
def renamedFile : TT := { witnessTT with newName := [(1, "y")], newParent := [(1, some 0)] }
/-- `adjust_path("e", root, trans_id_tree_path("d"))` -/
def renamedDir : TT := { witnessTT with newName := [(2, "e")], newParent := [(2, some 0)] }

/-- **witness (bzr preview)**: rename an unmodified executable file `x` to `y`.  The
transform has no raw conflicts, the applied tree has `y` with the text and the
executable bit of `x`, but the preview tree (as in the pinned source) cannot
read `y` (`data = none`: NoSuchFile) and says it is not executable. -/
theorem preview_path_lookup_witness :
    renamedFile.findRawConflicts pinnedBzr = [] ∧
    renamedFile.pathOf 1 = some ["y"] ∧
    (renamedFile.appliedEntry pinnedBzr 1 ["y"]).data = "X" ∧
    (renamedFile.appliedEntry pinnedBzr 1 ["y"]).exec = true ∧
    (renamedFile.previewEntry pinnedBzr 1 ["y"]).data = none ∧
    (renamedFile.previewEntry pinnedBzr 1 ["y"]).exec = false := by
  decide +kernel

/-- **witness (git apply, before fix a33311f)**: rename a directory `d` with a versioned file `d/g`
to `e`.  No raw conflicts; the preview tree says `e/g` is versioned; the index written by
`_generate_index_changes` as it was still has `d/g` and not `e/g`.  The repaired
`_generate_index_changes` (`TT.gitIndex`, what /repo has now) re-keys the entry. -/
theorem git_index_dir_rename_witness :
    renamedDir.findRawConflicts pinnedGit = [] ∧
    renamedDir.pathOf 3 = some ["e", "g"] ∧
    (renamedDir.previewEntry pinnedGit 3 ["e", "g"]).versioned = true ∧
    renamedDir.gitIndexPinned = [["x"], ["d", "g"]] ∧
    renamedDir.gitIndex = [["x"], ["e", "g"]] ∧
    (renamedDir.appliedEntry currentGit 3 ["e", "g"]).versioned = true := by
  decide +kernel

/-! ### fuel -/

/-- **fuel (paths)**: a `FinalPaths` walk that has ended keeps its answer with any amount of
additional fuel; so the fuel `next + 1` of `pathOf` can only ever be *too small* (answer `none`),
never give a wrong path — and `TT.fuelOk`, evaluated by the driver on every reached state,
checks that doubling it changes nothing. -/
theorem finalPath_fuel_mono (tt : TT) (fuel k : Nat) (t : Tid) (p : List String)
    (h : tt.finalPath fuel t = some p) : tt.finalPath (fuel + k) t = some p :=
  finalPath_mono tt fuel k t p h

/-- the same for the registered tree paths and for inventory paths -/
theorem treePath_invPath_fuel_mono (tt : TT) (inv : Inv) (fuel : Nat) :
    (∀ t p, tt.treePath fuel t = some p → tt.treePath (fuel + 1) t = some p) ∧
    (∀ f p, invPath inv fuel f = some p → invPath inv (fuel + 1) f = some p) :=
  ⟨treePath_succ tt fuel, invPath_succ inv fuel⟩

/-- **fuel (loops)**: a `_parent_loops` walk that found the loop, and a `resolve_parent_loop` walk
that found the changed entry, keep their answer with more fuel -/
theorem loopWalk_findChanged_fuel_mono (tt : TT) (fuel : Nat) :
    (∀ t cur seen, tt.loopWalk t fuel cur seen = true → tt.loopWalk t (fuel + 1) cur seen = true) ∧
    (∀ cur r, tt.findChanged fuel cur = .ok r → tt.findChanged (fuel + 1) cur = .ok r) :=
  ⟨fun t => loopWalk_succ tt t fuel, findChanged_succ tt fuel⟩

/-- non-vacuity: the walks of the witness states end within their fuel -/
example : renamedDir.fuelOk = true ∧ renamedDir.pathOf 3 = some ["e", "g"] := by decide +kernel

/-! ### the git index -/

/-- what `_apply_index_changes` adds -/
theorem gitAdded_mem_iff (tt : TT) (p : List String) :
    p ∈ tt.gitAdded ↔ ∃ t, t ∈ tt.gitChanged ∧ (tt.finalKind t = some .file ∨ tt.finalKind t = some .symlink) ∧
      tt.finalVersioned t = true ∧ tt.pathOf t = some p := by
  unfold TT.gitAdded
  rw [List.mem_filterMap]
  constructor
  · rintro ⟨t, ht, hx⟩
    refine ⟨t, ht, ?_⟩
    cases hk : tt.finalKind t with
    | none => simp [hk] at hx
    | some k =>
      cases k <;> simp only [hk] at hx
      · split at hx
        · rename_i hv; exact ⟨Or.inl rfl, hv, hx⟩
        · cases hx
      · cases hx
      · split at hx
        · rename_i hv; exact ⟨Or.inr rfl, hv, hx⟩
        · cases hx
  · rintro ⟨t, ht, hk, hv, hp⟩
    refine ⟨t, ht, ?_⟩
    rcases hk with hk | hk <;> simp [hk, hv, hp]

/-- the index after apply: what was added, and what was there and was not deleted -/
theorem gitIndex_mem_iff (tt : TT) (p : List String) :
    p ∈ tt.gitIndex ↔ p ∈ tt.gitAdded ∨ (p ∈ tt.gitBaseIndex ∧ p ∉ tt.gitDeleted) := by
  unfold TT.gitIndex
  simp only [List.mem_append, List.mem_filter, Bool.and_eq_true, Bool.not_eq_eq_eq_not, Bool.not_true,
    List.contains_eq_mem, decide_eq_false_iff_not]
  by_cases ha : p ∈ tt.gitAdded <;> simp [ha]

/-- non-vacuity of `gitHyps`: the base tree of the witnesses with a directory renamed -/
example : renamedDir.gitHyps = true := by decide +kernel

/-- **the git index agrees with `final_is_versioned`**: after `_generate_index_changes` +
`_apply_index_changes` (as /repo has them now: entries that only become versioned and the
children of moved directories are re-keyed) the index holds exactly the final paths of the
trans-ids that end as a versioned file or symlink — for every transform state that satisfies
`gitHyps` (well-formed state and base tree, distinct tree paths, no two live ids at one final
path; the driver evaluates `gitHyps` on every conflict-free transform the harness reaches). -/
theorem gitIndex_eq_final (tt : TT) (h : tt.gitHyps = true) (p : List String) :
    p ∈ tt.gitIndex ↔ ∃ t, (t, p) ∈ tt.livePaths ∧ (tt.finalKind t = some .file ∨ tt.finalKind t = some .symlink) ∧
      tt.finalVersioned t = true := by
  simp only [TT.gitHyps, Bool.and_eq_true, beq_iff_eq] at h
  obtain ⟨⟨⟨⟨⟨⟨hwf, hbw⟩, hbd⟩, hve⟩, htp⟩, hlp⟩, hroot⟩ := h
  have hnb : tt.nbase ≤ tt.next := by
    simp only [TT.wf, Bool.and_eq_true, decide_eq_true_eq] at hwf
    exact hwf.1.1.1.2
  -- facts about an id that is in none of the sets `_generate_index_changes` looks at
  have untouched : ∀ t : Nat, t < tt.nbase → t ∉ tt.gitRemoved → (tt.treeFid t).isSome = true →
      tt.treeKind t ≠ some .dir → tt.pathOf t = tt.treePath (tt.nbase + 1) t ∧ tt.finalVersioned t = true ∧
      tt.removedContents.contains t = false := by
    intro t htb hnr hfid hnd
    have hids : t ∈ tt.ids := by simp only [TT.ids, List.mem_range]; exact Nat.lt_of_lt_of_le htb hnb
    have hpred := hnr
    simp only [TT.gitRemoved, List.mem_filter, hids, true_and, Bool.or_eq_true, not_or, Bool.not_eq_true] at hpred
    obtain ⟨⟨⟨⟨hri, hrc⟩, hnn⟩, hnp⟩, hre⟩ := hpred
    have hk : (tt.treeKind t).isSome = true := by
      simp only [TT.versionedExist, List.all_eq_true, List.mem_range, Bool.or_eq_true, Bool.not_eq_eq_eq_not,
        Bool.not_true] at hve
      rcases hve t htb with h1 | h1
      · simp [hfid] at h1
      · exact h1
    have hbm : tt.belowMovedDir (tt.nbase + 1) t = false := by
      have hre' : t ∉ tt.reindexed := by simpa using hre
      simp only [TT.reindexed, List.mem_filter, List.mem_range, htb, true_and, Bool.and_eq_true, hfid, hk] at hre'
      have hnd' : (tt.treeKind t != some .dir) = true := by simpa using hnd
      simpa [hnd'] using hre'
    have hpc : tt.pathChanged t = false := by simp [TT.pathChanged, hnn, hnp]
    refine ⟨pathOf_eq_treePath tt hbw hbd hnb t htb hk hpc hbm, ?_, hrc⟩
    unfold TT.finalVersioned TT.finalFid
    have hri' : t ∉ tt.removedId := by simpa using hri
    cases alookup tt.newId t with
    | some f => rfl
    | none => simp [hri', hfid]
  have root_dir : ∀ t, (tt.finalKind t = some .file ∨ tt.finalKind t = some .symlink) → t ≠ TT.root := by
    intro t hk hr
    subst hr
    rcases hk with hk | hk <;> simp [hroot] at hk
  constructor
  · intro hp
    rcases (gitIndex_mem_iff tt p).mp hp with ha | ⟨hb, hnd⟩
    · obtain ⟨t, htc, hk, hv, hpath⟩ := (gitAdded_mem_iff tt p).mp ha
      refine ⟨t, ?_, hk, hv⟩
      have hlt : t < tt.next := by
        have := (List.mem_filter.mp htc).1
        simpa [TT.ids] using this
      refine (mem_livePaths_iff tt t p).mpr ⟨hlt, root_dir t hk, ?_, hpath⟩
      rcases hk with hk | hk <;> simp [TT.live, hk]
    · simp only [TT.gitBaseIndex, List.mem_filterMap, List.mem_range] at hb
      obtain ⟨t, htb, hx⟩ := hb
      split at hx
      · rename_i hcond
        simp only [Bool.and_eq_true, decide_eq_true_eq] at hcond
        obtain ⟨hfid, hndir⟩ := hcond
        have hnr : t ∉ tt.gitRemoved := by
          intro hmem
          apply hnd
          unfold TT.gitDeleted
          exact List.mem_append_left _ (List.mem_filterMap.mpr ⟨t, hmem, hx⟩)
        obtain ⟨hpath, hv, hrc⟩ := untouched t htb hnr hfid hndir
        have hlt : t < tt.next := Nat.lt_of_lt_of_le htb hnb
        have hids : t ∈ tt.ids := by simp only [TT.ids, List.mem_range]; exact hlt
        -- its final kind is not none (contents are not removed) and not a directory (else deleted)
        have hkind : tt.finalKind t = some .file ∨ tt.finalKind t = some .symlink := by
          cases hk : tt.finalKind t with
          | none =>
            exfalso
            unfold TT.finalKind at hk
            cases hnc : alookup tt.newContents t with
            | some kd => simp [hnc] at hk
            | none =>
              simp only [hnc, hrc, Bool.false_eq_true, if_false] at hk
              simp only [TT.versionedExist, List.all_eq_true, List.mem_range, Bool.or_eq_true, Bool.not_eq_eq_eq_not,
                Bool.not_true] at hve
              rcases hve t htb with h1 | h1
              · simp [hfid] at h1
              · simp [hk] at h1
          | some k =>
            cases k with
            | file => exact Or.inl rfl
            | symlink => exact Or.inr rfl
            | dir =>
              exfalso
              -- a directory now: then the id is in `changed_ids` (new contents) and its path is deleted
              have hnc : ahas tt.newContents t = true := by
                cases hl : alookup tt.newContents t with
                | some kd => exact ahas_of_alookup_some hl
                | none =>
                  unfold TT.finalKind at hk
                  simp only [hl, hrc, Bool.false_eq_true, if_false] at hk
                  exact absurd hk hndir
              apply hnd
              unfold TT.gitDeleted
              apply List.mem_append_right
              refine List.mem_filterMap.mpr ⟨t, ?_, ?_⟩
              · simp [TT.gitChanged, hids, hnc]
              · simp [hk, hv, hpath, hx]
        refine ⟨t, (mem_livePaths_iff tt t p).mpr ⟨hlt, root_dir t hkind, ?_, by rw [hpath, hx]⟩, hkind, hv⟩
        simp [TT.live, hv]
      · cases hx
  · rintro ⟨t, hl, hk, hv⟩
    obtain ⟨hlt, hr, _, hpath⟩ := (mem_livePaths_iff tt t p).mp hl
    have hids : t ∈ tt.ids := by simp [TT.ids, hlt]
    rw [gitIndex_mem_iff]
    by_cases hc : t ∈ tt.gitChanged
    · exact Or.inl ((gitAdded_mem_iff tt p).mpr ⟨t, hc, hk, hv, hpath⟩)
    · right
      simp only [TT.gitChanged, List.mem_filter, hids, true_and, Bool.or_eq_true, not_or, Bool.not_eq_true] at hc
      obtain ⟨⟨⟨⟨⟨hnn, hnp⟩, hne⟩, hnc⟩, hni⟩, hre⟩ := hc
      -- a tree id
      have hok := okId_of_wf tt hwf t hlt hr
      have htb : t < tt.nbase := by
        simp only [TT.okId, Bool.and_eq_true, Bool.or_eq_true, decide_eq_true_eq] at hok
        rcases hok.2 with h1 | h1
        · exact h1
        · simp [hnn] at h1
      have hncl : alookup tt.newContents t = none := alookup_none_of_ahas_false hnc
      have hnil : alookup tt.newId t = none := alookup_none_of_ahas_false hni
      have hrc : tt.removedContents.contains t = false := by
        cases hx : tt.removedContents.contains t with
        | false => rfl
        | true =>
          exfalso
          have hx' : t ∈ tt.removedContents := by simpa using hx
          unfold TT.finalKind at hk
          simp [hncl, hx'] at hk
      have hrc' : t ∉ tt.removedContents := by simpa using hrc
      have hkt : tt.finalKind t = tt.treeKind t := by
        unfold TT.finalKind
        simp [hncl, hrc']
      have hri : tt.removedId.contains t = false ∧ (tt.treeFid t).isSome = true := by
        unfold TT.finalVersioned TT.finalFid at hv
        simp only [hnil] at hv
        cases hx : tt.removedId.contains t with
        | false =>
          have hx' : t ∉ tt.removedId := by simpa using hx
          simpa [hx'] using hv
        | true =>
          have hx' : t ∈ tt.removedId := by simpa using hx
          simp [hx'] at hv
      have hndir : tt.treeKind t ≠ some .dir := by
        rw [← hkt]; rcases hk with hk | hk <;> simp [hk]
      have hri' : t ∉ tt.removedId := by simpa using hri.1
      have hre' : t ∉ tt.reindexed := by simpa using hre
      have hnr : t ∉ tt.gitRemoved := by
        simp [TT.gitRemoved, hids, hri', hrc', hnn, hnp, hre']
      obtain ⟨hpt, _, _⟩ := untouched t htb hnr hri.2 hndir
      have htree : tt.treePath (tt.nbase + 1) t = some p := by rw [← hpt, hpath]
      refine ⟨?_, ?_⟩
      · simp only [TT.gitBaseIndex, List.mem_filterMap, List.mem_range]
        exact ⟨t, htb, by simp [hri.2, hndir, htree]⟩
      · intro hdel
        unfold TT.gitDeleted at hdel
        rcases List.mem_append.mp hdel with hd | hd
        · -- the tree path of a removed id: that id is `t` itself
          obtain ⟨t', ht', hx⟩ := List.mem_filterMap.mp hd
          have hr' : t' ≠ TT.root := by
            intro h0
            subst h0
            have : tt.treePath (tt.nbase + 1) TT.root = some [] := by simp [TT.treePath]
            rw [this] at hx
            cases hx
            exact hr (finalPath_nil tt _ t hpath)
          have htb' := treePath_some_lt tt _ t' p hx hr'
          simp only [TT.treePathsInj, List.all_eq_true, List.mem_range, Bool.or_eq_true, beq_iff_eq] at htp
          rcases htp t htb t' htb' with (h1 | h1) | h1
          · subst h1; exact hnr ht'
          · simp [htree] at h1
          · simp [htree, hx] at h1
        · -- the final path of a versioned directory: two live ids at one path
          obtain ⟨t', ht', hx⟩ := List.mem_filterMap.mp hd
          split at hx
          · rename_i hcond
            simp only [Bool.and_eq_true, decide_eq_true_eq] at hcond
            have hlt' : t' < tt.next := by
              have := (List.mem_filter.mp ht').1
              simpa [TT.ids] using this
            have hr' : t' ≠ TT.root := by
              intro h0
              subst h0
              have : tt.pathOf TT.root = some [] := by simp [TT.pathOf, TT.finalPath]
              rw [this] at hx
              cases hx
              exact hr (finalPath_nil tt _ t hpath)
            have hl' : (t', p) ∈ tt.livePaths :=
              (mem_livePaths_iff tt t' p).mpr ⟨hlt', hr', by simp [TT.live, hcond.1], hx⟩
            simp only [TT.livePathsInj, List.all_eq_true, Bool.or_eq_true, beq_iff_eq, bne_iff_ne] at hlp
            rcases hlp (t, p) hl (t', p) hl' with h1 | h1
            · simp only at h1
              subst h1
              rcases hk with hk | hk <;> simp [hk] at hcond
            · exact h1 rfl
          · cases hx

/-! ### the inventory delta -/

/-- every trans-id whose name, parent, file id or executable bit is set by the
transform is in `_inventory_altered` -/
theorem inventoryAltered_covers (tt : TT) (t : Tid) (h : t < tt.next)
    (hc : ahas tt.newName t = true ∨ ahas tt.newParent t = true ∨ ahas tt.newExec t = true) :
    t ∈ tt.inventoryAltered := by
  unfold TT.inventoryAltered
  simp only [List.mem_filter, TT.ids, List.mem_range]
  refine ⟨h, ?_⟩
  rcases hc with h1 | h1 | h1 <;> simp [h1]

/-- non-vacuity of `bzrHyps`: the renamed file / renamed directory of the witnesses -/
example : renamedFile.bzrHyps = true ∧ renamedDir.bzrHyps = true := by decide +kernel

/-- **delta soundness**: for a bzr transform state that satisfies `bzrHyps` (well-formed state,
distinct file ids in the tree and in the result, versioned entries below versioned parents, no
overwrite, no file id given to an entry that keeps its old one; the driver evaluates `bzrHyps`
on every conflict-free transform the harness reaches), the inventory after
`apply_inventory_delta(_generate_inventory_delta())` has for a file id `f` exactly one kind of
entry: the final name, the file id of the *final* parent and the final kind (the stored kind for
an entry without contents) of the trans-id whose final file id is `f` — and no entry for a file id
no trans-id ends with.  If the delta cannot be generated (NoFinalPath) nothing is applied. -/
theorem delta_sound (fl : Flags) (tt : TT) (hb : tt.bzrHyps = true) (d : List DeltaItem)
    (hd : tt.generateDelta fl = .ok d) (f : String) (e : InvEntry) :
    (f, e) ∈ tt.appliedInv fl ↔ ∃ t, t < tt.next ∧ tt.finalFid t = some f ∧ tt.deltaEntry t f = some e := by
  unfold TT.appliedInv
  rw [hd]
  exact delta_sound_aux fl tt d hb hd f e

/-- … in particular the applied inventory is a function of the file id -/
theorem applied_inv_functional (fl : Flags) (tt : TT) (hb : tt.bzrHyps = true) (d : List DeltaItem)
    (hd : tt.generateDelta fl = .ok d) (f : String) (e e' : InvEntry)
    (h : (f, e) ∈ tt.appliedInv fl) (h' : (f, e') ∈ tt.appliedInv fl) : e = e' := by
  obtain ⟨t, ht, hf, he⟩ := (delta_sound fl tt hb d hd f e).mp h
  obtain ⟨t', ht', hf', he'⟩ := (delta_sound fl tt hb d hd f e').mp h'
  have := finalFids_unique tt (bzrHyps_unpack tt hb).finalFids t t' f ht ht' hf hf'
  subst this
  rw [he] at he'
  exact Option.some.inj he'

/-- non-vacuity of `rootHyps` -/
example : renamedFile.rootHyps = true ∧ renamedDir.rootHyps = true := by decide +kernel

/-- **inventory paths are final paths**: under `bzrHyps` and `rootHyps` (the root keeps its empty
name and is the only parentless id), in the inventory after apply, walking the parent file ids
from the final file id of a trans-id spells exactly the path `FinalPaths` computes for that
trans-id — for every fuel.  With `delta_sound`: a path is versioned in the applied tree exactly
when it is the final path of a trans-id that ends versioned. -/
theorem applied_inv_path_eq_final (fl : Flags) (tt : TT) (hb : tt.bzrHyps = true) (hr : tt.rootHyps = true)
    (d : List DeltaItem) (hd : tt.generateDelta fl = .ok d) (fuel : Nat) (t : Tid) (f : String)
    (ht : t < tt.next) (hf : tt.finalFid t = some f) :
    invPath (tt.appliedInv fl) fuel f = tt.finalPath fuel t := by
  unfold TT.appliedInv
  rw [hd]
  exact applied_inv_path_aux fl tt d hb hr hd fuel t f ht hf

/-- **witness: the hypothesis "no re-versioning" is needed.**  `version_file(x, "new")` on the
versioned file `x` together with a rename: no raw conflicts, but the applied inventory keeps the
old id "fx" (an entry no trans-id ends with) next to the new one.  The repaired delta drops it. -/
theorem delta_reversion_stale_witness :
    let tt : TT := { renamedFile with newId := [(1, "new")] }
    tt.findRawConflicts currentBzr = [] ∧ tt.reversioned = [1] ∧ tt.bzrHyps = false ∧
    (tt.appliedInv currentBzr).map (·.1) = ["r", "fx", "fd", "fg", "new"] ∧
    (tt.ids.filterMap tt.finalFid) = ["r", "new", "fd", "fg"] ∧
    (tt.appliedInv repairedBzr).map (·.1) = ["r", "fd", "fg", "new"] := by
  decide +kernel

/-! ### resolvers -/

/-- "versioning no contents": after `cancel_versioning` the id is no longer in
`_new_id`, so the conflict is not reported again -/
theorem resolve_versioning_no_contents_sound (tt tt' : TT) (t : Tid) (h : tt.cancelVersioning t = .ok tt') :
    ahas tt'.newId t = false ∧ Conflict.versioningNoContents t ∉ tt'.improperVersioning := by
  unfold TT.cancelVersioning at h
  split at h
  · cases h
    have h1 : ahas (aerase tt.newId t) t = false := ahas_aerase_self _ _
    refine ⟨h1, ?_⟩
    unfold TT.improperVersioning
    rw [List.mem_filterMap]
    rintro ⟨e, he, hx⟩
    split at hx
    · simp only [Option.some.injEq, Conflict.versioningNoContents.injEq] at hx
      have : ahas (aerase tt.newId t) t = true := by
        unfold ahas
        exact List.any_eq_true.mpr ⟨e, he, by simp [hx]⟩
      simp [h1] at this
    · cases hx
  · cases h

/-- "missing parent", parent not scheduled for deletion: it becomes a directory -/
theorem resolve_missing_parent_sound (fl : Flags) (tt tt' : TT) (t : Tid)
    (hr : tt.removedContents.contains t = false) (h : tt.resolveMissingParent fl t = .ok tt') :
    tt'.finalKind t = some .dir := by
  unfold TT.resolveMissingParent at h
  simp only [hr, Bool.false_eq_true, if_false] at h
  split at h
  · cases h
  · unfold TT.createContents at h
    split at h
    · cases h
    · rename_i hn
      cases h
      have hn' : ahas tt.newContents t = false := by simpa using hn
      simp [TT.finalKind, alookup_append_new _ _ _ hn']

/-- "missing parent", parent scheduled for deletion: the deletion is cancelled -/
theorem resolve_missing_parent_cancels (fl : Flags) (tt tt' : TT) (t : Tid)
    (hr : tt.removedContents.contains t = true) (h : tt.resolveMissingParent fl t = .ok tt') :
    tt'.removedContents.contains t = false := by
  unfold TT.resolveMissingParent at h
  simp only [hr, if_true] at h
  cases hc : tt.childrenOf fl t with
  | error e => simp [hc, bind, Except.bind] at h
  | ok cs =>
    simp only [hc, bind, Except.bind, pure, Except.pure] at h
    cases h
    simp

/-- "duplicate" (the `.moved` branch): one of the two entries keeps its parent and
gets the suffix `.moved` — the entry that was *not* renamed by the transform if
exactly one of them was -/
theorem resolve_duplicate_renames (fl : Flags) (tt tt' : TT) (last cur : Tid)
    (hb : (fl.git && tt.finalKind cur = some .dir && tt.finalKind last = some .dir) = false)
    (h : tt.resolveDuplicate fl last cur = .ok tt') :
    ∃ fp n, tt.finalParent last = some (some fp) ∧
      let existing := if tt.pathChanged last then cur else last
      tt.finalName existing = some n ∧ tt'.finalName existing = some (n ++ ".moved") ∧
      tt'.finalParent existing = some (some fp) := by
  unfold TT.resolveDuplicate at h
  split at h
  · cases h
  · cases h
  · rename_i fp hfp
    refine ⟨fp, ?_⟩
    simp only at h
    have hb' : ¬ ((fl.git && decide (tt.finalKind cur = some .dir) && decide (tt.finalKind last = some .dir)) = true) := by
      simpa using hb
    by_cases hpc : tt.pathChanged last = true
    · simp only [hpc, if_true] at h ⊢
      rw [if_neg hb'] at h
      cases hn : tt.finalName cur with
      | none => simp [hn] at h
      | some n =>
        simp only [hn] at h
        unfold TT.adjustPath at h
        split at h
        · cases h
        · cases h
          exact ⟨n, hfp, rfl, by simp [TT.finalName, alookup_aset_self], by simp [TT.finalParent, alookup_aset_self]⟩
    · have hpc' : tt.pathChanged last = false := by simpa using hpc
      simp only [hpc', Bool.false_eq_true, if_false] at h ⊢
      rw [if_neg hb'] at h
      cases hn : tt.finalName last with
      | none => simp [hn] at h
      | some n =>
        simp only [hn] at h
        unfold TT.adjustPath at h
        split at h
        · cases h
        · cases h
          exact ⟨n, hfp, rfl, by simp [TT.finalName, alookup_aset_self], by simp [TT.finalParent, alookup_aset_self]⟩

/-- "duplicate id": the tree entry that carries the file id is unversioned -/
theorem resolve_duplicate_id_sound (tt tt' : TT) (old : Tid) (h : tt.resolveDuplicateId old = .ok tt') :
    tt'.removedId.contains old = true := by
  unfold TT.resolveDuplicateId TT.unversionFile at h
  cases h
  exact sadd_contains _ _

end BreezyVerif.C14
