import BreezyVerif.Model.C24
import BreezyVerif.Generated.C24
/-! C24 — T1 tie: the branch structure of the loop body of `_reconcile_tags`,
regenerated from the current source, equals the model's `stepKind`. -/
namespace BreezyVerif.C24

/-- `same` is `result.get(name) == target` and `present` is `name in result`:
`same` implies `present` (values are never `None`). -/
theorem stepKind_gen_eq (hasSel selOk same present overwrite : Bool)
    (h : same = true → present = true) :
    stepKindGen hasSel selOk same present overwrite
      = stepKind hasSel selOk same present overwrite := by
  unfold stepKindGen stepKind
  cases hasSel <;> cases selOk <;> cases same <;> cases present <;> cases overwrite <;> simp_all

end BreezyVerif.C24
