import BreezyVerif.Lemmas.C10Sel
import BreezyVerif.Lemmas.C10Gen
/-!
C10 — applying an ancestor-closed list of true records to a well-formed source
gives a well-formed tree, when no reported id moves onto a (parent, name) slot
held in the source by another id.
-/
namespace BreezyVerif.C10

theorem wf_nodup {t : Tree} (hw : wf t = true) : (ids t).Nodup := by
  unfold wf at hw
  simp only [Bool.and_eq_true, decide_eq_true_eq] at hw
  exact hw.1.1.1.2

theorem wf_roots {t : Tree} (hw : wf t = true) : ∃ r, rootsOf t = [r] := by
  unfold wf at hw
  simp only [Bool.and_eq_true, beq_iff_eq] at hw
  exact List.length_eq_one_iff.mp hw.1.1.1.1

theorem wf_root_dir {t : Tree} (hw : wf t = true) {i : Id} {e : Entry} (hg : get t i = some e)
    (hp : e.parent = none) : e.node.kind = .dir := by
  unfold wf at hw
  simp only [Bool.and_eq_true] at hw
  obtain ⟨⟨⟨_, h3⟩, _⟩, _⟩ := hw
  rw [List.all_eq_true] at h3
  have := h3 _ (get_mem hg)
  simpa [hp] using this

theorem mem_rootsOf {t : Tree} {i : Id} : i ∈ rootsOf t ↔ ∃ e, (i, e) ∈ t ∧ e.parent = none := by
  unfold rootsOf
  rw [List.mem_map]
  constructor
  · rintro ⟨⟨k, e⟩, hx, hk⟩
    simp only at hk; subst hk
    rw [List.mem_filter] at hx
    exact ⟨e, hx.1, by simpa using hx.2⟩
  · rintro ⟨e, he, hp⟩
    exact ⟨(i, e), List.mem_filter.mpr ⟨he, by simp [hp]⟩, rfl⟩

theorem mem_childrenOf {t : Tree} {p c : Id} {e : Entry} (hg : get t c = some e) (hp : e.parent = some p) :
    c ∈ childrenOf t p := by
  unfold childrenOf
  rw [List.mem_map]
  exact ⟨(c, e), List.mem_filter.mpr ⟨get_mem hg, by simp [hp]⟩, rfl⟩

theorem stoppedDir_of {src tgt : Tree} {p : Id} {c : Change} {sp : Entry} (hc : change src tgt p = some c)
    (hsp : get src p = some sp) (hd : sp.node.kind = .dir)
    (ht : get tgt p = none ∨ ∃ pe, get tgt p = some pe ∧ pe.node.kind ≠ .dir) : stoppedDir c = true := by
  unfold change at hc
  rw [hsp] at hc
  rcases ht with ht | ⟨pe, ht, hk⟩
  · rw [ht] at hc
    simp at hc; subst hc
    simp [stoppedDir, Entry.meta, hd]
  · rw [ht] at hc
    simp at hc; subst hc
    simp [stoppedDir, Entry.meta, hd, hk]

theorem notChange_get {src tgt : Tree} {k : Id} (h : NotChange src tgt k) : get src k = get tgt k := by
  cases hc : change src tgt k with
  | none => obtain ⟨a, b⟩ := change_none_iff.mp hc; rw [a, b]
  | some r => exact unchanged_noop' hc (h r hc)

theorem pathFuel_root {t : Tree} {n : Nat} {i : Id} {e : Entry} (hg : get t i = some e) (hp : e.parent = none) :
    pathFuel t (n + 1) i = some [] := by
  unfold pathFuel; simp [hg, hp]

theorem pathFuel_child {t : Tree} {n : Nat} {i p : Id} {e : Entry} {pp : Path} (hg : get t i = some e)
    (hp : e.parent = some p) (hpp : pathFuel t n p = some pp) : pathFuel t (n + 1) i = some (pp ++ [e.name]) := by
  unfold pathFuel; simp [hg, hp, hpp]

theorem wf_apply_of_closed (src tgt : Tree) (cs : List Change) (K : List Id)
    (hs : wf src = true) (ht : wf tgt = true) (hr : sameRoot src tgt = true) (hn : noSlotOccupant src tgt = true)
    (htrue : ∀ c ∈ cs, change src tgt c.id = some c)
    (hK1 : ∀ c ∈ cs, c.id ∈ K)
    (hK2 : ∀ k ∈ K, (∃ c ∈ cs, c.id = k) ∨ NotChange src tgt k)
    (hK3 : ∀ k ∈ K, ∀ p, tgtPar tgt k = some p → p ∈ K)
    (hkids : ∀ c ∈ cs, stoppedDir c = true → ∀ ch ∈ childrenOf src c.id,
      (∃ c' ∈ cs, c'.id = ch) ∨ NotChange src tgt ch) :
    ∃ t', applyChanges src tgt cs = some t' ∧ wf t' = true := by
  obtain ⟨t', happ, hget⟩ := applyList_true (src := src) (tgt := tgt) cs htrue src
  refine ⟨t', happ, ?_⟩
  -- "reported"
  have hR : ∀ i, (cs.any (fun c => c.id == i) = true) ↔ ∃ c ∈ cs, c.id = i := by
    intro i; simp [List.any_eq_true]
  have getR : ∀ i, (∃ c ∈ cs, c.id = i) → get t' i = get tgt i := by
    intro i h; rw [hget i, (hR i).mpr h]; simp
  have getN : ∀ i, ¬ (∃ c ∈ cs, c.id = i) → get t' i = get src i := by
    intro i h
    have : cs.any (fun c => c.id == i) = false := by
      cases hb : cs.any (fun c => c.id == i) with
      | false => rfl
      | true => exact absurd ((hR i).mp hb) h
    rw [hget i, this]; simp
  -- ids of K look like the target
  have F1 : ∀ k ∈ K, get t' k = get tgt k := by
    intro k hk
    by_cases hrk : ∃ c ∈ cs, c.id = k
    · exact getR k hrk
    · rw [getN k hrk]
      rcases hK2 k hk with h | h
      · exact absurd h hrk
      · exact notChange_get h
  have F2 : ∀ (n : Nat) (k : Id) (path : Path), k ∈ K → pathFuel tgt n k = some path → pathFuel t' n k = some path := by
    intro n
    induction n with
    | zero => intro k path _ h; simp [pathFuel] at h
    | succ n ih =>
      intro k path hk h
      obtain ⟨e, ge, c⟩ := pathFuel_cases h
      have ge' : get t' k = some e := by rw [F1 k hk]; exact ge
      rcases c with ⟨hnone, hnil⟩ | ⟨q, pp, hq, fq, hpath⟩
      · subst hnil; exact pathFuel_root ge' hnone
      · subst hpath
        have hqK : q ∈ K := hK3 k hk q (by unfold tgtPar; simp [ge, hq])
        exact pathFuel_child ge' hq (ih q pp hqK fq)
  -- an unreported child of a reported id: the id is still a directory of the target
  have F3 : ∀ (j : Id) (e : Entry) (p : Id), ¬ (∃ c ∈ cs, c.id = j) → get src j = some e → e.parent = some p →
      (∃ c ∈ cs, c.id = p) → ∃ pe, get tgt p = some pe ∧ pe.node.kind = .dir := by
    intro j e p hnj gj hp hrp
    obtain ⟨c, hc, hcp⟩ := hrp
    obtain ⟨sp, gsp, hspd⟩ := wf_parent hs gj hp
    have hcc : change src tgt p = some c := by rw [← hcp]; exact htrue c hc
    by_cases hgood : ∃ pe, get tgt p = some pe ∧ pe.node.kind = .dir
    · exact hgood
    · exfalso
      have hbad : get tgt p = none ∨ ∃ pe, get tgt p = some pe ∧ pe.node.kind ≠ .dir := by
        cases hg : get tgt p with
        | none => exact Or.inl rfl
        | some pe =>
          right
          refine ⟨pe, rfl, ?_⟩
          intro hk; exact hgood ⟨pe, hg, hk⟩
      have hsd := stoppedDir_of hcc gsp hspd hbad
      have hch : j ∈ childrenOf src c.id := by rw [hcp]; exact mem_childrenOf gj hp
      rcases hkids c hc hsd j hch with h | h
      · exact hnj h
      · have hgj : get tgt j = some e := by rw [← notChange_get h]; exact gj
        exact hgood (wf_parent ht hgj hp)
  have F4 : ∀ (n : Nat) (j : Id) (path : Path), ¬ (∃ c ∈ cs, c.id = j) → pathFuel src n j = some path →
      ∃ m path', pathFuel t' m j = some path' := by
    intro n
    induction n with
    | zero => intro j path _ h; simp [pathFuel] at h
    | succ n ih =>
      intro j path hnj h
      obtain ⟨e, ge, c⟩ := pathFuel_cases h
      have ge' : get t' j = some e := by rw [getN j hnj]; exact ge
      rcases c with ⟨hnone, _⟩ | ⟨q, pp, hq, fq, _⟩
      · exact ⟨1, [], pathFuel_root ge' hnone⟩
      · by_cases hrq : ∃ c ∈ cs, c.id = q
        · obtain ⟨pe, gpe, _⟩ := F3 j e q hnj ge hq hrq
          obtain ⟨tp, htp⟩ := wf_hasPath ht gpe
          have hqK : q ∈ K := by obtain ⟨c, hc, hcq⟩ := hrq; rw [← hcq]; exact hK1 c hc
          exact ⟨_, _, pathFuel_child ge' hq (F2 _ q tp hqK htp)⟩
        · obtain ⟨m, pp', hm⟩ := ih q pp hrq fq
          exact ⟨_, _, pathFuel_child ge' hq hm⟩
  -- the common root
  obtain ⟨r, hrs⟩ := wf_roots hs
  have hrt : rootsOf tgt = [r] := by
    unfold sameRoot at hr
    rw [← beq_iff_eq.mp hr]; exact hrs
  have rootS : ∀ i e, get src i = some e → e.parent = none → i = r := by
    intro i e hg hp
    have : i ∈ rootsOf src := mem_rootsOf.mpr ⟨e, get_mem hg, hp⟩
    rw [hrs] at this; simpa using this
  have rootT : ∀ i e, get tgt i = some e → e.parent = none → i = r := by
    intro i e hg hp
    have : i ∈ rootsOf tgt := mem_rootsOf.mpr ⟨e, get_mem hg, hp⟩
    rw [hrt] at this; simpa using this
  have hnds := wf_nodup hs
  have hndt := wf_nodup ht
  apply wf_of_spec t' r
  · exact applyList_nodup cs src t' hnds happ
  · by_cases hrr : ∃ c ∈ cs, c.id = r
    · have : r ∈ rootsOf tgt := by rw [hrt]; simp
      obtain ⟨e, he, hp⟩ := mem_rootsOf.mp this
      exact ⟨e, by rw [getR r hrr]; exact get_of_mem hndt he, hp⟩
    · have : r ∈ rootsOf src := by rw [hrs]; simp
      obtain ⟨e, he, hp⟩ := mem_rootsOf.mp this
      exact ⟨e, by rw [getN r hrr]; exact get_of_mem hnds he, hp⟩
  · intro i e hg hp
    by_cases hri : ∃ c ∈ cs, c.id = i
    · rw [getR i hri] at hg
      exact ⟨rootT i e hg hp, wf_root_dir ht hg hp⟩
    · rw [getN i hri] at hg
      exact ⟨rootS i e hg hp, wf_root_dir hs hg hp⟩
  · intro i e p hg hp
    by_cases hri : ∃ c ∈ cs, c.id = i
    · rw [getR i hri] at hg
      have hiK : i ∈ K := by obtain ⟨c, hc, hci⟩ := hri; rw [← hci]; exact hK1 c hc
      have hpK : p ∈ K := hK3 i hiK p (by unfold tgtPar; simp [hg, hp])
      rw [F1 p hpK]
      exact wf_parent ht hg hp
    · rw [getN i hri] at hg
      by_cases hrp : ∃ c ∈ cs, c.id = p
      · rw [getR p hrp]
        exact F3 i e p hri hg hp hrp
      · rw [getN p hrp]
        exact wf_parent hs hg hp
  · intro i j ei ej hgi hgj hp hnm
    by_cases hri : ∃ c ∈ cs, c.id = i <;> by_cases hrj : ∃ c ∈ cs, c.id = j
    · rw [getR i hri] at hgi; rw [getR j hrj] at hgj
      exact wf_sib ht (get_mem hgi) (get_mem hgj) hp hnm
    · rw [getR i hri] at hgi; rw [getN j hrj] at hgj
      unfold noSlotOccupant at hn
      rw [List.all_eq_true] at hn
      have h1 := hn _ (get_mem hgi)
      rw [List.all_eq_true] at h1
      have h2 := h1 _ (get_mem hgj)
      simp only [Bool.or_eq_true, beq_iff_eq, Bool.not_eq_true', Bool.and_eq_false_iff] at h2
      rcases h2 with h2 | h2 | h2
      · exact h2
      · simp [hp] at h2
      · simp [hnm] at h2
    · rw [getN i hri] at hgi; rw [getR j hrj] at hgj
      unfold noSlotOccupant at hn
      rw [List.all_eq_true] at hn
      have h1 := hn _ (get_mem hgj)
      rw [List.all_eq_true] at h1
      have h2 := h1 _ (get_mem hgi)
      simp only [Bool.or_eq_true, beq_iff_eq, Bool.not_eq_true', Bool.and_eq_false_iff] at h2
      rcases h2 with h2 | h2 | h2
      · exact h2.symm
      · simp [hp] at h2
      · simp [hnm] at h2
    · rw [getN i hri] at hgi; rw [getN j hrj] at hgj
      exact wf_sib hs (get_mem hgi) (get_mem hgj) hp hnm
  · intro i e hg
    by_cases hri : ∃ c ∈ cs, c.id = i
    · rw [getR i hri] at hg
      have hiK : i ∈ K := by obtain ⟨c, hc, hci⟩ := hri; rw [← hci]; exact hK1 c hc
      obtain ⟨tp, htp⟩ := wf_hasPath ht hg
      exact ⟨_, tp, F2 _ i tp hiK htp⟩
    · rw [getN i hri] at hg
      obtain ⟨sp, hsp⟩ := wf_hasPath hs hg
      exact F4 _ i sp hri hsp

end BreezyVerif.C10
