import BreezyVerif.Common
/-
C02 — per-file last-changed revisions and per-file parents.  Executable model of

* `breezy/bzr/vf_repository.py: VersionedFileCommitBuilder.record_iter_changes`
  (head candidates = the last-changed revision of the file id in every parent
  inventory, basis first; `_heads`; carry-over test on kind / parent_id / name
  and then, per kind, executable + sha1, symlink target, or nothing),
* `breezy/bzr/pack_repo.py: PackCommitBuilder._heads` (heads in the *per-file*
  graph `repository.texts`; `heads` below is the specification of the external
  `vcsgraph.Graph.heads`, compared per case by the harness),
* `VersionedFileRepository._do_generate_text_key_index` +
  `_VersionedFileChecker._check_file_version_parents` (`expIndex`,
  `wrongParents`, `unreferenced`, `invalidRefs`).

A *history* is a list of commits `(id, parents, tree)`, **newest first**; the
tree is what the working tree contains when `commit` runs (id ↦ attributes).
`build h` is the repository obtained by recording the commits oldest to newest:
per revision its inventory (id ↦ attributes + last-changed revision) and the new
text keys `(file id, revision)` with their per-file parents.

Revisions, file ids, names and contents are naturals (the harness numbers the
real ones); the root directory is an ordinary file id (rich-root formats; for
the non-rich-root formats the harness leaves the root out, it is not a text key
there).  A parent that is not recorded is a *ghost*.

`codeRecordOne` / `mkRecB` model the `merged_ids` / `parent_entries` /
`changes` / `unchanged_merged` bookkeeping of `record_iter_changes` literally
(only ids that `iter_changes` reports or whose entry in a later parent differs
from the basis entry are processed; everything else keeps the basis entry);
`Props/C02.lean` proves it equal to `recordOne` / `mkRec`.
Core Lean only.
-/
namespace BreezyVerif.C02

abbrev Rev := Nat
abbrev FileId := Nat

/-- the kind-specific part of an inventory entry that the carry-over test reads -/
inductive Content where
  /-- `InventoryFile`: executable bit and text sha1 -/
  | file (exec : Bool) (sha : Nat)
  /-- `InventoryLink`: symlink target -/
  | link (target : Nat)
  /-- `InventoryDirectory` -/
  | dir
  deriving DecidableEq, Repr

/-- `entry.kind` as a number: 0 file, 1 symlink, 2 directory -/
def Content.kind : Content → Nat
  | .file _ _ => 0
  | .link _ => 1
  | .dir => 2

structure Attr where
  /-- `parent_id` (numbered; 0 for the root's `None`) -/
  parent : Nat
  name : Nat
  content : Content
  deriving DecidableEq, Repr

/-- an inventory entry: attributes + `entry.revision` (last-changed) -/
structure Entry where
  attr : Attr
  rev : Rev
  deriving DecidableEq, Repr

abbrev Inv := List (FileId × Entry)
abbrev Tree := List (FileId × Attr)

structure Commit where
  id : Rev
  parents : List Rev
  tree : Tree
  deriving Repr

/-- one recorded revision -/
structure Rec where
  id : Rev
  parents : List Rev
  inv : Inv
  /-- new text keys `(f, id)` added by this commit, with their per-file parent revisions -/
  texts : List (FileId × List Rev)
  deriving Repr

/-- the repository: recorded revisions, newest first -/
abbrev State := List Rec

def ids (st : State) : List Rev := st.map (·.id)

/-- `repository.revision_tree(p).root_inventory`; `none` = ghost (the code then
uses the empty NULL tree) -/
def invOf : State → Rev → Option Inv
  | [], _ => none
  | r :: older, p => if r.id = p then some r.inv else invOf older p

/-- the entry of file id `f` in the inventory of revision `p` -/
def entryIn (st : State) (f : FileId) (p : Rev) : Option Entry :=
  match invOf st p with
  | some i => i.lookup f
  | none => none

/-- set-ification keeping the first occurrence (the `# Preserve ordering` loop) -/
def dedup : List Nat → List Nat
  | [] => []
  | x :: xs => x :: (dedup xs).filter (· != x)

/-- the entries of `f` in the parent inventories, basis first -/
def candEntries (st : State) (ps : List Rev) (f : FileId) : List Entry :=
  ps.filterMap (entryIn st f)

/-- `head_candidates`: last-changed revision of `f` in every parent, basis first -/
def candidates (st : State) (ps : List Rev) (f : FileId) : List Rev :=
  dedup ((candEntries st ps f).map (·.rev))

/-- the per-file graph `repository.texts`: text key ↦ per-file parent revisions,
newest first -/
abbrev TGraph := List ((FileId × Rev) × List Rev)

def textsOf (st : State) : TGraph :=
  st.flatMap fun r => r.texts.map fun t => ((t.1, r.id), t.2)

/-- strict per-file ancestors of the text key `(f, r)` -/
def fanc : TGraph → FileId → Rev → List Rev
  | [], _, _ => []
  | (k, ps) :: older, f, r =>
    if k = (f, r) then ps ++ ps.flatMap (fun p => fanc older f p) else fanc older f r

/-- `h` is not a per-file ancestor of another candidate -/
def isHead (g : TGraph) (f : FileId) (cands : List Rev) (h : Rev) : Bool :=
  !(cands.any fun c => c != h && (fanc g f c).contains h)

/-- specification of `Graph.heads` on the per-file graph, in candidate order -/
def heads (g : TGraph) (f : FileId) (cands : List Rev) : List Rev :=
  cands.filter (isHead g f cands)

/-- `parent_entries[file_id].get(heads[0])` -/
def entryWithRev (st : State) (ps : List Rev) (f : FileId) (h : Rev) : Option Entry :=
  (candEntries st ps f).find? (·.rev == h)

/-- the carry-over test: `kind`, `parent_id`, `name` first, then per kind
executable + sha1 (`nostore_sha` → `ExistingContent`), symlink target, nothing -/
def carryTest (pe a : Attr) : Bool :=
  if pe.content.kind != a.content.kind || pe.parent != a.parent || pe.name != a.name then false
  else match a.content, pe.content with
    | .file x s, .file px ps => px == x && ps == s
    | .link t, .link pt => pt == t
    | .dir, .dir => true
    | _, _ => false

/-- the new inventory entry of `f` and, when a new text is stored, its parents -/
def recordOne (st : State) (c : Commit) (f : FileId) (a : Attr) : Entry × Option (List Rev) :=
  let hs := heads (textsOf st) f (candidates st c.parents f)
  match hs with
  | [h] =>
    match entryWithRev st c.parents f h with
    | some pe => if carryTest pe.attr a then (pe, none) else (⟨a, c.id⟩, some hs)
    | none => (⟨a, c.id⟩, some hs)
  | _ => (⟨a, c.id⟩, some hs)

def mkRec (st : State) (c : Commit) : Rec :=
  { id := c.id, parents := c.parents,
    inv := c.tree.map fun t => (t.1, (recordOne st c t.1 t.2).1),
    texts := c.tree.filterMap fun t => (recordOne st c t.1 t.2).2.map fun ps => (t.1, ps) }

def record (st : State) (c : Commit) : State := mkRec st c :: st

/-- the repository after the history `h` (newest commit first) -/
def build : List Commit → State
  | [] => []
  | c :: older => record (build older) c

/-! ### the bookkeeping of `record_iter_changes`, literally -/

/-- the basis entry of `f`: `basis_inv.get_entry(f)` (`none`: no parents, ghost
basis, or `f` not in the basis) -/
def basisEntry (st : State) (ps : List Rev) (f : FileId) : Option Entry :=
  match ps with
  | [] => none
  | b :: _ => entryIn st f b

/-- the items of `make_inventory_delta(revtree.root_inventory, basis_inv)` for
`f` over `revtrees[1:]`, in parent order: the entry of `f` in a later parent
when it exists there (`change[1] is None` → skipped) and is not identical to
the basis entry (identical entries — same attributes *and* same last-changed
revision — produce no delta item) -/
def laterDiffs (st : State) (ps : List Rev) (f : FileId) : List Entry :=
  match ps with
  | [] => []
  | b :: others =>
    others.filterMap fun q =>
      match entryIn st f q with
      | some e => if some e = entryIn st f b then none else some e
      | none => none

/-- `parent_entries[f]` in insertion order (`merged_ids[f]` is its `rev`s):
empty when no later parent differs (`f not in merged_ids`), else the basis
entry (when `change[0] is not None`) followed by the differing entries -/
def mergedEntries (st : State) (ps : List Rev) (f : FileId) : List Entry :=
  match laterDiffs st ps f with
  | [] => []
  | d :: ds => (basisEntry st ps f).toList ++ d :: ds

/-- `dict.get(h)` on a dictionary filled in list order: the **last** entry
stored under revision `h` -/
def lastWithRev : List Entry → Rev → Option Entry
  | [], _ => none
  | e :: es, h =>
    match lastWithRev es h with
    | some x => some x
    | none => if e.rev == h then some e else none

/-- the body of `for change, head_candidates in changes.values()` for an id
versioned in the target: `_heads` of the candidate *set*, put back in candidate
order, then the carry-over test against `parent_entries[f].get(heads[0])` -/
def processChange (st : State) (c : Commit) (f : FileId) (a : Attr) (pes : List Entry)
    (cands : List Rev) : Entry × Option (List Rev) :=
  let hs := heads (textsOf st) f (dedup cands)
  match hs with
  | [h] =>
    match lastWithRev pes h with
    | some pe => if carryTest pe.attr a then (pe, none) else (⟨a, c.id⟩, some hs)
    | none => (⟨a, c.id⟩, some hs)
  | _ => (⟨a, c.id⟩, some hs)

/-- the synthetic change of `unchanged_merged`: parent, name, kind and
executable bit are the *basis entry's*, the content (sha1 / symlink target) is
read from the tree.  `none` when the tree's kind is not the basis kind (then
`iter_changes` should have reported the id; the code's behaviour there is not
modelled). -/
def synthAttr (be a : Attr) : Option Attr :=
  match be.content, a.content with
  | .file bx _, .file _ s => some ⟨be.parent, be.name, .file bx s⟩
  | .link _, .link t => some ⟨be.parent, be.name, .link t⟩
  | .dir, .dir => some ⟨be.parent, be.name, .dir⟩
  | _, _ => none

/-- outcome of `record_iter_changes` for one file id of the committed tree -/
inductive Outcome where
  /-- the new inventory entry and, when a text is stored, its parents -/
  | entry (e : Entry) (texts : Option (List Rev))
  /-- no entry in the new inventory (the `NoSuchId` branch of `unchanged_merged`,
  or not in `changes` and not in the basis) -/
  | absent
  /-- outside the model (`synthAttr = none`) -/
  | undefined
  deriving DecidableEq, Repr

def Outcome.invItem (o : Outcome) (f : FileId) : Option (FileId × Entry) :=
  match o with
  | .entry e _ => some (f, e)
  | _ => none

def Outcome.textItem (o : Outcome) (f : FileId) : Option (FileId × List Rev) :=
  match o with
  | .entry _ (some ps) => some (f, ps)
  | _ => none

/-- what `record_iter_changes` does for a file id `f` that the committed tree
holds with attributes `a`; `reported` = `iter_changes` yields a change for `f`.

* reported: `changes[f] = (change, merged_ids.get(f, [basis revision] or []))`;
* not reported but in `merged_ids` (`unchanged_merged`): the synthetic change
  built from the basis entry, or nothing when `f` is not in the basis;
* neither: `f` is not in `changes`, the delta leaves the basis entry alone. -/
def codeRecordOne (st : State) (c : Commit) (f : FileId) (a : Attr) (reported : Bool) : Outcome :=
  let be := basisEntry st c.parents f
  let me := mergedEntries st c.parents f
  let res (r : Entry × Option (List Rev)) : Outcome := .entry r.1 r.2
  if reported then
    match me with
    | [] => res (processChange st c f a [] (be.toList.map (·.rev)))
    | _ :: _ => res (processChange st c f a me (me.map (·.rev)))
  else
    match me, be with
    | [], some e => .entry e none
    | [], none => .absent
    | _ :: _, none => .absent
    | _ :: _, some e =>
      match synthAttr e.attr a with
      | some a' => res (processChange st c f a' me (me.map (·.rev)))
      | none => .undefined

/-- `iter_changes` reports `f` exactly when its attributes differ from the
basis entry's (or it is not in the basis) -/
def differs (st : State) (c : Commit) (f : FileId) (a : Attr) : Bool :=
  (basisEntry st c.parents f).map (·.attr) != some a

/-- the revision recorded through the literal bookkeeping, given the set `rep`
of file ids that `iter_changes` reported; `none` when an outcome is `undefined` -/
def mkRecB (st : State) (c : Commit) (rep : List FileId) : Option Rec :=
  let outs := c.tree.map fun t => (t.1, codeRecordOne st c t.1 t.2 (rep.contains t.1))
  if outs.any (fun o => o.2 == .undefined) then none else
  some { id := c.id, parents := c.parents,
         inv := outs.filterMap fun o => o.2.invItem o.1,
         texts := outs.filterMap fun o => o.2.textItem o.1 }

/-- the repository built through the literal bookkeeping; `reps` = per commit
(newest first) the reported ids -/
def buildB : List (Commit × List FileId) → Option State
  | [] => some []
  | (c, rep) :: older =>
    match buildB older with
    | some st => (mkRecB st c rep).map (· :: st)
    | none => none

/-- per commit (newest first) the reported ids are exactly those whose
attributes differ from the basis entry's -/
def repsOk : List (Commit × List FileId) → Bool
  | [] => true
  | (c, rep) :: older =>
    repsOk older &&
      c.tree.all fun t => rep.contains t.1 == differs (build (older.map (·.1))) c t.1 t.2

/-- strict ancestors of a revision in the revision graph -/
def ranc : State → Rev → List Rev
  | [], _ => []
  | r :: older, x =>
    if r.id = x then r.parents ++ r.parents.flatMap (fun p => ranc older p) else ranc older x

/-- every revision id the repository knows or names: the recorded revisions and
all their parents, ghosts included -/
def mentioned (st : State) : List Rev := ids st ++ st.flatMap (·.parents)

/-- a commit the front end can make on `st`: a revision id that is neither
recorded nor named as a parent by any recorded revision (a ghost stays a ghost)
nor by the commit itself, and one entry per file id.  Parents need **not** be
present: an absent parent is a ghost (`invOf … = none`, the code uses the empty
NULL tree for it). -/
def okCommit (st : State) (c : Commit) : Prop :=
  c.id ∉ mentioned st ∧ c.id ∉ c.parents ∧ (c.tree.map (·.1)).Nodup

instance (st : State) (c : Commit) : Decidable (okCommit st c) := by
  unfold okCommit; infer_instance

/-- well-formed history (newest first) -/
def hist : List Commit → Prop
  | [] => True
  | c :: older => hist older ∧ okCommit (build older) c

instance instDecidableHist : (h : List Commit) → Decidable (hist h)
  | [] => isTrue trivial
  | c :: older =>
    match instDecidableHist older with
    | isTrue h1 =>
      if h2 : okCommit (build older) c then isTrue ⟨h1, h2⟩ else isFalse fun h => h2 h.2
    | isFalse h1 => isFalse fun h => h1 h.1

/-! ### the consistency checker -/

/-- `_do_generate_text_key_index`: revisions in topological order (oldest
first = the recursion below), for every *valid* text key `(f, r)` (an entry of
inventory `r` whose revision is `r`) the heads — in the index built so far — of
the versions of `f` in `r`'s parents, in parent order.  Inventories are looked
up in the whole repository `full`. -/
def expIndexAux (full : State) : State → TGraph
  | [] => []
  | r :: older =>
    let idx := expIndexAux full older
    ((r.inv.filter fun t => t.2.rev == r.id).map fun t =>
      ((t.1, r.id), heads idx t.1 (candidates full r.parents t.1))) ++ idx

def expIndex (st : State) : TGraph := expIndexAux st st

/-- `wrong_parents` of `_check_file_version_parents`: keys of the index whose
stored parents differ from the expected ones (or whose text is missing) -/
def wrongParents (st : State) : List (FileId × Rev) :=
  ((expIndex st).filter fun k => (textsOf st).lookup k.1 != some k.2).map (·.1)

/-- `unused_keys`: stored text versions no inventory refers to -/
def unreferenced (st : State) : List (FileId × Rev) :=
  ((textsOf st).map (·.1)).filter fun k => !((expIndex st).map (·.1)).contains k

/-- text key references `(f, e.rev)` that are never *valid*: no inventory
`e.rev` holds `f` with that revision (`invalid_keys`) -/
def invalidRefs (st : State) : List (FileId × Rev) :=
  (st.flatMap fun r => r.inv.map fun t => (t.1, t.2.rev)).filter fun k =>
    match entryIn st k.1 k.2 with
    | some e => e.rev != k.2
    | none => true

/-! ### linear histories -/

/-- first-parent chain: every commit has exactly the previous one as parent -/
def linear : List Commit → Bool
  | [] => true
  | [c] => c.parents == []
  | c :: p :: rest => c.parents == [p.id] && linear (p :: rest)

/-- the latest revision of a linear history (newest first) in which `f`'s
attributes differ from the previous revision's (or `f` appeared) -/
def linLast : List Commit → FileId → Option Rev
  | [], _ => none
  | c :: older, f =>
    match c.tree.lookup f with
    | none => none
    | some a =>
      match older with
      | [] => some c.id
      | p :: _ => if p.tree.lookup f = some a then linLast older f else some c.id

end BreezyVerif.C02
