"""C36 family parent-unnamed-branch-drops-ref: on a git branch without a name (detached HEAD) set_parent keeps the
location but not the branch/ref of the URL; get_parent returns a URL that designates another ref (HEAD).
Exit 1 when the round trip fails."""
import os, sys
sys.path.insert(0, os.path.dirname(os.path.abspath(__file__)))
from _boot import git_tree, ControlDir
wt = git_tree()
g = wt.branch.repository._git
head = g.refs[b"refs/heads/master"]
open(os.path.join(wt.basedir, ".git", "HEAD"), "wb").write(head + b"\n")      # detach HEAD
br = ControlDir.open(wt.basedir).open_branch()
print("branch name %r ref %r" % (br.name, br.ref))
bad = 0
for u in ("https://h/r,branch=foo", "https://h/r,ref=refs%2Ftags%2Fv1"):
    br.set_parent(u)
    got = ControlDir.open(wt.basedir).open_branch().get_parent()
    print("set_parent(%r) -> get_parent() = %r" % (u, got))
    bad += got != u
sys.exit(1 if bad else 0)
