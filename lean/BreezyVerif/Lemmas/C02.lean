import BreezyVerif.Model.C02
/-
C02 helper lemmas: stability of lookups, candidates, per-file ancestry and heads
when newer revisions are put in front of a repository.
-/
namespace BreezyVerif.C02

theorem mem_dedup {a : Nat} {l : List Nat} : a ∈ dedup l ↔ a ∈ l := by
  induction l with
  | nil => simp [dedup]
  | cons x xs ih =>
    simp only [dedup, List.mem_cons, List.mem_filter, ih]
    by_cases h : a = x <;> simp [h]

theorem carryTest_iff (pe a : Attr) : carryTest pe a = true ↔ pe = a := by
  obtain ⟨pp, pn, pc⟩ := pe
  obtain ⟨ap, an, ac⟩ := a
  cases pc <;> cases ac <;> simp [carryTest, Content.kind] <;> grind

/-! ### lookups under a prefix of newer revisions -/

theorem invOf_append (pre st : State) (p : Rev) (h : p ∉ ids pre) :
    invOf (pre ++ st) p = invOf st p := by
  induction pre with
  | nil => rfl
  | cons r pre ih =>
    simp only [ids, List.map_cons, List.mem_cons, not_or] at h
    have h1 : ¬ r.id = p := fun e => h.1 e.symm
    simp only [List.cons_append, invOf, h1, if_false]
    exact ih h.2

theorem invOf_mem {st : State} {p : Rev} {i : Inv} (h : invOf st p = some i) :
    ∃ r ∈ st, r.id = p ∧ r.inv = i := by
  induction st with
  | nil => simp [invOf] at h
  | cons r st ih =>
    simp only [invOf] at h
    by_cases e : r.id = p
    · simp only [e, if_true, Option.some.injEq] at h
      exact ⟨r, List.mem_cons_self, e, h⟩
    · simp only [e, if_false] at h
      obtain ⟨r', hr, h1, h2⟩ := ih h
      exact ⟨r', List.mem_cons_of_mem _ hr, h1, h2⟩

theorem invOf_isSome_of_mem {st : State} {p : Rev} (h : p ∈ ids st) : (invOf st p).isSome := by
  induction st with
  | nil => simp [ids] at h
  | cons r st ih =>
    simp only [invOf]
    by_cases e : r.id = p
    · simp [e]
    · simp only [e, if_false]
      simp only [ids, List.map_cons, List.mem_cons] at h
      rcases h with h | h
      · exact absurd h.symm e
      · exact ih h

theorem entryIn_append (pre st : State) (f : FileId) (p : Rev) (h : p ∉ ids pre) :
    entryIn (pre ++ st) f p = entryIn st f p := by
  simp only [entryIn, invOf_append pre st p h]

theorem candEntries_append (pre st : State) (ps : List Rev) (f : FileId)
    (h : ∀ p ∈ ps, p ∉ ids pre) : candEntries (pre ++ st) ps f = candEntries st ps f := by
  induction ps with
  | nil => rfl
  | cons p ps ih =>
    have hp := h p List.mem_cons_self
    have ih' := ih fun q hq => h q (List.mem_cons_of_mem _ hq)
    simp only [candEntries] at ih' ⊢
    simp only [List.filterMap_cons, entryIn_append pre st f p hp, ih']

theorem candidates_append (pre st : State) (ps : List Rev) (f : FileId)
    (h : ∀ p ∈ ps, p ∉ ids pre) : candidates (pre ++ st) ps f = candidates st ps f := by
  simp only [candidates, candEntries_append pre st ps f h]

theorem entryWithRev_append (pre st : State) (ps : List Rev) (f : FileId) (x : Rev)
    (h : ∀ p ∈ ps, p ∉ ids pre) : entryWithRev (pre ++ st) ps f x = entryWithRev st ps f x := by
  simp only [entryWithRev, candEntries_append pre st ps f h]

/-! ### the per-file graph -/

theorem textsOf_append (pre st : State) : textsOf (pre ++ st) = textsOf pre ++ textsOf st := by
  simp [textsOf, List.flatMap_append]

theorem textsOf_cons (r : Rec) (st : State) :
    textsOf (r :: st) = (r.texts.map fun t => ((t.1, r.id), t.2)) ++ textsOf st := by
  simp [textsOf, List.flatMap_cons]

theorem textsOf_key_mem {st : State} {k : FileId × Rev} {ps : List Rev}
    (h : (k, ps) ∈ textsOf st) : k.2 ∈ ids st := by
  simp only [textsOf, List.mem_flatMap, List.mem_map] at h
  obtain ⟨r, hr, t, _, ht⟩ := h
  have : k = (t.1, r.id) := by
    have := congrArg Prod.fst ht
    simpa using this.symm
  simp only [this, ids, List.mem_map]
  exact ⟨r, hr, rfl⟩

theorem fanc_append (pre g : TGraph) (f : FileId) (c : Rev)
    (h : ∀ k ∈ pre, k.1 ≠ (f, c)) : fanc (pre ++ g) f c = fanc g f c := by
  induction pre with
  | nil => rfl
  | cons k pre ih =>
    obtain ⟨k1, ps⟩ := k
    have h1 : ¬ k1 = (f, c) := h (k1, ps) List.mem_cons_self
    simp only [List.cons_append, fanc, h1, if_false]
    exact ih fun k hk => h k (List.mem_cons_of_mem _ hk)

/-- ancestry of a key of the older repository is not affected by newer revisions -/
theorem fanc_textsOf_append (pre st : State) (f : FileId) (c : Rev) (h : c ∉ ids pre) :
    fanc (textsOf (pre ++ st)) f c = fanc (textsOf st) f c := by
  rw [textsOf_append]
  apply fanc_append
  intro k hk e
  obtain ⟨k1, ps⟩ := k
  have := textsOf_key_mem hk
  simp only at e
  rw [e] at this
  exact h this

theorem any_congr_mem {α : Type} {l : List α} {p q : α → Bool} (h : ∀ a ∈ l, p a = q a) :
    l.any p = l.any q := by
  induction l with
  | nil => rfl
  | cons a l ih =>
    simp only [List.any_cons, h a List.mem_cons_self,
      ih fun b hb => h b (List.mem_cons_of_mem _ hb)]

theorem filter_congr_mem {α : Type} {l : List α} {p q : α → Bool} (h : ∀ a ∈ l, p a = q a) :
    l.filter p = l.filter q := by
  induction l with
  | nil => rfl
  | cons a l ih =>
    simp only [List.filter_cons, h a List.mem_cons_self,
      ih fun b hb => h b (List.mem_cons_of_mem _ hb)]

theorem isHead_congr (g g' : TGraph) (f : FileId) (cands : List Rev) (x : Rev)
    (h : ∀ c ∈ cands, fanc g f c = fanc g' f c) : isHead g f cands x = isHead g' f cands x := by
  simp only [isHead]
  congr 1
  apply any_congr_mem
  intro c hc
  rw [h c hc]

theorem heads_congr (g g' : TGraph) (f : FileId) (cands : List Rev)
    (h : ∀ c ∈ cands, fanc g f c = fanc g' f c) : heads g f cands = heads g' f cands := by
  simp only [heads]
  apply filter_congr_mem
  intro x _
  exact isHead_congr g g' f cands x h

theorem heads_subset {g : TGraph} {f : FileId} {cands : List Rev} {x : Rev}
    (h : x ∈ heads g f cands) : x ∈ cands := by
  simp only [heads, List.mem_filter] at h
  exact h.1

/-- a recorded parent is not a per-file ancestor of another candidate -/
theorem heads_not_anc {g : TGraph} {f : FileId} {cands : List Rev} {x c : Rev}
    (h : x ∈ heads g f cands) (hc : c ∈ cands) (hne : c ≠ x) : x ∉ fanc g f c := by
  simp only [heads, List.mem_filter, isHead, Bool.not_eq_true', List.any_eq_false] at h
  have := h.2 c hc
  intro hx
  apply this
  simp [hne, hx]

theorem mem_heads_iff {g : TGraph} {f : FileId} {cands : List Rev} {x : Rev} :
    x ∈ heads g f cands ↔ x ∈ cands ∧ ∀ c ∈ cands, c ≠ x → x ∉ fanc g f c := by
  simp only [heads, List.mem_filter, isHead, Bool.not_eq_true', List.any_eq_false]
  constructor
  · rintro ⟨h1, h2⟩
    refine ⟨h1, fun c hc hne hx => h2 c hc ?_⟩
    simp [hne, hx]
  · rintro ⟨h1, h2⟩
    refine ⟨h1, fun c hc hh => ?_⟩
    simp only [Bool.and_eq_true, bne_iff_ne, ne_eq, List.contains_iff_mem] at hh
    exact h2 c hc hh.1 hh.2

end BreezyVerif.C02
