import BreezyVerif.Lemmas.C03
/-
C03 — theorems.  All repositories, histories (any DAG or even cyclic parent
map, any number of ghosts), requested revisions and flags are universally
quantified; nothing is bounded.  `x` = which parents the stream source leaves
out (as found / repaired), `ext` = the target stores parent inventories,
`fg` = `find_ghosts`.
-/
namespace BreezyVerif.C03

open BreezyVerif.C33 (PMap parentsOf bfs Reach)

/-- the ancestry walk always terminates within its fuel -/
theorem anc_total (g : PMap) (start : List Rev) : (bfs g start []).isSome = true := anc_total' g start

/-- `anc` is exactly: reachable from `rev` through parents of revisions the source has, and present in the source -/
theorem anc_spec (src : Repo) (rev k : Rev) :
    k ∈ anc src rev ↔ Reach (graph src) [] [rev] k ∧ hasRev src k = true := mem_anc src rev k

/-- what the revision search returns: the source ancestry minus everything that
is (in the source) an ancestor-or-self of a revision the target has;
with `find_ghosts`: the source ancestry the target lacks -/
theorem missing_spec (src tgt : Repo) (rev k : Rev) :
    (k ∈ missing false src tgt rev ↔
      k ∈ anc src rev ∧ ¬ Reach (graph src) [] ((anc src rev).filter (hasRev tgt)) k) ∧
    (k ∈ missing true src tgt rev ↔ k ∈ anc src rev ∧ hasRev tgt k = false) :=
  ⟨mem_missing_false .., mem_missing_true ..⟩

/-- for an ancestry-closed target the search returns exactly the source ancestry the target lacks -/
theorem missing_closed (src tgt : Repo) (hc : closed tgt src = true) (fg : Bool) (rev k : Rev) :
    k ∈ missing fg src tgt rev ↔ k ∈ anc src rev ∧ hasRev tgt k = false :=
  mem_missing_closed hc fg rev k

/-- fetch never removes or changes anything the target had -/
theorem fetch_monotone (x : Exclusion) (ext fg : Bool) (src tgt t' : Repo) (rev : Rev)
    (h : fetch x ext fg src tgt rev = .ok t') :
    (∀ k v, get tgt.revs k = some v → get t'.revs k = some v) ∧
    (∀ k v, get tgt.invs k = some v → get t'.invs k = some v) ∧
    (∀ k v, get tgt.texts k = some v → get t'.texts k = some v) := by
  refine ⟨fun k v hv => ?_, fun k v hv => fetch_invs_old h hv, fun k v hv => ?_⟩
  · rw [fetch_revs_get h, hv]
  · rw [fetch_texts_get h, hv]

/-- completeness: after fetching `rev` into an ancestry-closed target, the target
holds `rev` and every ancestor the source holds (ghosts of the source excepted) -/
theorem fetch_complete (x : Exclusion) (ext fg : Bool) (src tgt t' : Repo) (rev : Rev)
    (hc : fg = true ∨ closed tgt src = true)
    (h : fetch x ext fg src tgt rev = .ok t') :
    (hasRev src rev = true → hasRev t' rev = true) ∧ ∀ k ∈ anc src rev, hasRev t' k = true := by
  have key : ∀ k ∈ anc src rev, hasRev t' k = true := by
    intro k hk
    rw [hasRev_iff]
    obtain ⟨rec, hrec⟩ := (hasRev_iff ..).mp ((mem_anc ..).mp hk).2
    rcases anc_cases_closed hc hk with hm | ht
    · refine ⟨rec, ?_⟩
      rw [fetch_revs_get h]
      have := missing_not_in_target hm
      unfold hasRev at this
      cases hg : get tgt.revs k with
      | some v => simp [hg] at this
      | none => simp [hm, hrec]
    · obtain ⟨v, hv⟩ := (hasRev_iff ..).mp ht
      exact ⟨v, (fetch_monotone x ext fg src tgt t' rev h).1 k v hv⟩
  exact ⟨fun hs => key rev (rev_mem_anc hs), key⟩

/-- `find_ghosts=True` is complete for every target -/
theorem fetch_find_ghosts_complete (x : Exclusion) (ext : Bool) (src tgt t' : Repo) (rev : Rev)
    (h : fetch x ext true src tgt rev = .ok t') : ∀ k ∈ anc src rev, hasRev t' k = true :=
  (fetch_complete x ext true src tgt t' rev (Or.inl rfl) h).2

/-- faithfulness of records: every revision of the source ancestry that the
target holds afterwards has the source's revision record and the source's inventory -/
theorem fetch_faithful (x : Exclusion) (ext fg : Bool) (src tgt t' : Repo) (rev : Rev)
    (ha : agree src tgt = true) (hcomp : complete tgt = true)
    (h : fetch x ext fg src tgt rev = .ok t') (k : Rev) (hk : k ∈ anc src rev)
    (hkt : hasRev t' k = true) :
    get t'.revs k = get src.revs k ∧ ∀ i, get src.invs k = some i → get t'.invs k = some i := by
  obtain ⟨rec, hrec⟩ := (hasRev_iff ..).mp ((mem_anc ..).mp hk).2
  cases hg : get tgt.revs k with
  | some w =>
    have hw : rec = w := agreeOn_eq (agree_revs ha) hg hrec
    subst hw
    refine ⟨by rw [fetch_revs_get h, hg, hrec], fun i hi => ?_⟩
    obtain ⟨i', hi', _⟩ := complete_inv hcomp hg
    have : i = i' := agreeOn_eq (agree_invs ha) hi' hi
    subst this
    exact fetch_invs_old h hi'
  | none =>
    have hm : k ∈ missing fg src tgt rev := by
      have := (hasRev_iff ..).mp hkt
      rw [fetch_revs_get h, hg] at this
      by_cases hm : k ∈ missing fg src tgt rev
      · exact hm
      · simp [hm] at this
    refine ⟨by rw [fetch_revs_get h, hg]; simp [hm], fun i hi => ?_⟩
    cases hti : get tgt.invs k with
    | some i' =>
      have : i = i' := agreeOn_eq (agree_invs ha) hti hi
      subst this
      exact fetch_invs_old h hti
    | none => exact fetch_invs_new h hti hm hi

/-- … hence equal testaments (byte-identical testament text is a function of this data, C41) -/
theorem fetch_testament (x : Exclusion) (ext fg : Bool) (src tgt t' : Repo) (rev : Rev)
    (ha : agree src tgt = true) (hcomp : complete tgt = true)
    (h : fetch x ext fg src tgt rev = .ok t') (k : Rev) (hk : k ∈ anc src rev)
    (hkt : hasRev t' k = true) (hsi : (get src.invs k).isSome = true) :
    testament t' k = testament src k := by
  obtain ⟨h1, h2⟩ := fetch_faithful x ext fg src tgt t' rev ha hcomp h k hk hkt
  cases hi : get src.invs k with
  | none => simp [hi] at hsi
  | some i =>
    unfold testament
    rw [h1, h2 i hi, hi]

/-- faithfulness of tree content: for every revision of the source ancestry now
in the target, every entry of its inventory has its text in the target, equal
to the source's text -/
theorem fetch_texts_faithful (x : Exclusion) (ext fg : Bool) (src tgt t' : Repo) (rev : Rev)
    (hc : fg = true ∨ closed tgt src = true) (ha : agree src tgt = true) (hcomp : complete tgt = true)
    (hx : x = .revisionPresent ∨ noOrphanInv src = true)
    (h : fetch x ext fg src tgt rev = .ok t') (k : Rev) (hk : k ∈ anc src rev)
    (i : Inv) (hi : get src.invs k = some i) (e : Entry) (he : e ∈ i) :
    ∃ c, get t'.texts e.key = some c ∧ ∀ c', get src.texts e.key = some c' → c' = c := by
  rcases anc_cases_closed hc hk with hm | ht
  · exact entry_text h hc ha hcomp hx hm hi he
  · obtain ⟨rec, hrec⟩ := (hasRev_iff ..).mp ht
    obtain ⟨i', hi', htexts⟩ := complete_inv hcomp hrec
    have : i = i' := agreeOn_eq (agree_invs ha) hi' hi
    subst this
    obtain ⟨c, hc0⟩ := htexts e he
    exact ⟨c, (fetch_monotone x ext fg src tgt t' rev h).2.2 _ _ hc0,
      fun c' hc' => agreeOn_eq (agree_texts ha) hc0 hc'⟩

/-- fetching the same revision again finds nothing missing and changes nothing -/
theorem fetch_idempotent (x : Exclusion) (ext fg : Bool) (src tgt t' : Repo) (rev : Rev)
    (h : fetch x ext fg src tgt rev = .ok t') :
    missing fg src t' rev = [] ∧ fetch x ext fg src t' rev = .ok t' := by
  have hmono := fetch_monotone x ext fg src tgt t' rev h
  have hrevmono : ∀ k, hasRev tgt k = true → hasRev t' k = true := by
    intro k hk
    obtain ⟨v, hv⟩ := (hasRev_iff ..).mp hk
    exact (hasRev_iff ..).mpr ⟨v, hmono.1 k v hv⟩
  have hsent : ∀ k ∈ missing fg src tgt rev, hasRev t' k = true := by
    intro k hk
    obtain ⟨rec, hrec⟩ := (hasRev_iff ..).mp ((mem_anc ..).mp (missing_sub_anc hk)).2
    rw [hasRev_iff, fetch_revs_get h]
    cases hg : get tgt.revs k with
    | some v => exact ⟨v, rfl⟩
    | none => exact ⟨rec, by simp [hk, hrec]⟩
  have hempty : missing fg src t' rev = [] := by
    apply List.eq_nil_iff_forall_not_mem.mpr
    intro k hk
    have hka := missing_sub_anc hk
    have hnt := missing_not_in_target hk
    rcases anc_cases (fg := fg) (tgt := tgt) hka with hm | ⟨_, ht⟩ | ⟨hfg, hr⟩
    · rw [hsent k hm] at hnt; cases hnt
    · rw [hrevmono k ht] at hnt; cases hnt
    · subst hfg
      have := ((mem_missing_false ..).mp hk).2
      apply this
      refine reach_mono (fun j hj => ?_) hr
      rw [List.mem_filter] at hj ⊢
      exact ⟨hj.1, hrevmono j hj.2⟩
  refine ⟨hempty, ?_⟩
  have hguard := (fetch_ok h).1
  unfold fetch
  rw [hempty]
  have h1 : (!hasRev src rev && (fg || !hasRev t' rev)) = false := by
    rcases hguard with hs | ⟨hfg, ht⟩
    · simp [hs]
    · simp [hfg, hrevmono rev ht]
  have h2 : streamable x src [] = true := by simp [streamable, streamEntries]
  simp only [h1, h2, Bool.false_eq_true, if_false, Bool.not_true]
  cases ext
  · simp [copy, streamEntries]
  · simp [copy, streamEntries, withParentInvs, parentInvFill]

/-- consistency: a complete (checkable) closed target stays complete — every
revision has its inventory and every text the inventory names -/
theorem fetch_consistent (x : Exclusion) (ext fg : Bool) (src tgt t' : Repo) (rev : Rev)
    (hc : fg = true ∨ closed tgt src = true) (ha : agree src tgt = true) (hcomp : complete tgt = true)
    (hx : x = .revisionPresent ∨ noOrphanInv src = true)
    (h : fetch x ext fg src tgt rev = .ok t') : complete t' = true := by
  have hmono := fetch_monotone x ext fg src tgt t' rev h
  unfold complete
  rw [List.all_eq_true]
  rintro ⟨k, rec⟩ hmem
  rw [(fetch_ok h).2.2.1] at hmem
  simp only [copy, List.mem_append, List.mem_filterMap] at hmem
  rcases hmem with hmem | ⟨m, hm, hmrec⟩
  · -- a revision the target had
    obtain ⟨v, hv⟩ : ∃ v, get tgt.revs k = some v := by
      have := get_isSome_of_mem hmem
      cases hg : get tgt.revs k with
      | none => simp [hg] at this
      | some v => exact ⟨v, rfl⟩
    obtain ⟨i, hi, htexts⟩ := complete_inv hcomp hv
    simp only [hmono.2.1 k i hi, List.all_eq_true]
    intro e he
    obtain ⟨c, hc0⟩ := htexts e he
    simp [hmono.2.2 _ _ hc0]
  · -- a revision that was sent
    cases hsr : get src.revs m with
    | none => simp [hsr] at hmrec
    | some r =>
      simp only [hsr, Option.map_some, Option.some.injEq, Prod.mk.injEq] at hmrec
      obtain ⟨hmk, _⟩ := hmrec
      subst hmk
      obtain ⟨i, hi⟩ := streamable_inv (fetch_ok h).2.1 hm
      have hinv : get t'.invs m = some i := by
        cases hti : get tgt.invs m with
        | some i' =>
          have : i = i' := agreeOn_eq (agree_invs ha) hti hi
          subst this
          exact fetch_invs_old h hti
        | none => exact fetch_invs_new h hti hm hi
      simp only [hinv, List.all_eq_true]
      intro e he
      obtain ⟨c, hc0, _⟩ := entry_text h hc ha hcomp hx hm hi he
      simp [hc0]

/-! ### why the hypotheses are needed: witnesses on concrete repositories -/

/-- source: 1 ← 2 ← 3, and 3 also has parent 2; target holds 3 with 2 as a ghost
… built so that the target is not closed -/
def wSrc : Repo :=
  { revs := [(1, ⟨[], 10⟩), (2, ⟨[1], 20⟩), (3, ⟨[2], 30⟩), (4, ⟨[3, 2], 40⟩)]
    invs := [(1, [⟨1, 1, 1, 100⟩]), (2, [⟨1, 1, 2, 200⟩]), (3, [⟨1, 1, 1, 100⟩]), (4, [⟨1, 1, 2, 200⟩])]
    texts := [((1, 1), 100), ((1, 2), 200)] }

/-- the target has 3 and 1; revision 2 (a parent of 3 … no: of 4) is absent -/
def wTgt : Repo :=
  { revs := [(1, ⟨[], 10⟩), (3, ⟨[2], 30⟩)]
    invs := [(1, [⟨1, 1, 1, 100⟩]), (3, [⟨1, 1, 1, 100⟩])]
    texts := [((1, 1), 100)] }

/-- Without closure (the target holds 3 whose parent 2 is a ghost there, the
source has 2) a plain fetch of 4 does not fill 2, and — because the stream leaves
out what parent 2's inventory has — the copied revision 4 lacks its text
`(1, 2)`: neither completeness nor consistency holds.  `find_ghosts` repairs it. -/
theorem fetch_ghost_not_filled_witness :
    closed wTgt wSrc = false ∧ agree wSrc wTgt = true ∧ complete wTgt = true ∧ noOrphanInv wSrc = true ∧
    (fetchResult .revisionPresent false false wSrc wTgt 4).map
        (fun t' => (hasRev t' 4, hasRev t' 2, get t'.texts (1, 2), complete t')) = some (true, false, none, false) ∧
    (fetchResult .revisionPresent false true wSrc wTgt 4).map
        (fun t' => (hasRev t' 2, complete t')) = some (true, true) := by
  decide +kernel

/-- source with a stored parent inventory of a ghost: revision 3 is absent, its inventory present -/
def oSrc : Repo :=
  { revs := [(1, ⟨[], 10⟩), (4, ⟨[1, 3], 40⟩)]
    invs := [(1, [⟨1, 1, 1, 100⟩, ⟨2, 2, 1, 300⟩]), (3, [⟨1, 1, 3, 500⟩, ⟨2, 2, 1, 300⟩]),
             (4, [⟨1, 1, 4, 400⟩, ⟨2, 2, 1, 300⟩])]
    texts := [((1, 1), 100), ((2, 1), 300), ((1, 4), 400)] }

def emptyRepo : Repo := ⟨[], [], []⟩

/-- The defect found at the pinned commit (`Exclusion.asFound`): fetching into an
EMPTY (hence closed, complete) target from a source that holds the inventory of
a ghost parent gives revisions without their texts; with the repaired exclusion
the same fetch is complete. -/
theorem fetch_orphan_inventory_witness :
    closed emptyRepo oSrc = true ∧ agree oSrc emptyRepo = true ∧ complete emptyRepo = true ∧
    noOrphanInv oSrc = false ∧
    (fetchResult .asFound true false oSrc emptyRepo 4).map
        (fun t' => (hasRev t' 1, get t'.texts (2, 1), complete t')) = some (true, none, false) ∧
    (fetchResult .revisionPresent true false oSrc emptyRepo 4).map complete = some true := by
  decide +kernel

/-! ### non-vacuity: the hypotheses hold on a non-trivial case and the fetch copies something -/

/-- a merge history with a ghost (9), a target that already holds part of it -/
def eSrc : Repo :=
  { revs := [(1, ⟨[], 10⟩), (2, ⟨[1], 20⟩), (3, ⟨[1, 9], 30⟩), (4, ⟨[2, 3], 40⟩)]
    invs := [(1, [⟨1, 1, 1, 100⟩]), (2, [⟨1, 1, 2, 200⟩]), (3, [⟨1, 1, 1, 100⟩, ⟨2, 2, 3, 300⟩]),
             (4, [⟨1, 1, 2, 200⟩, ⟨2, 2, 3, 300⟩])]
    texts := [((1, 1), 100), ((1, 2), 200), ((2, 3), 300)] }

def eTgt : Repo :=
  { revs := [(1, ⟨[], 10⟩), (2, ⟨[1], 20⟩)]
    invs := [(1, [⟨1, 1, 1, 100⟩]), (2, [⟨1, 1, 2, 200⟩])]
    texts := [((1, 1), 100), ((1, 2), 200)] }

example : closed eTgt eSrc = true ∧ agree eSrc eTgt = true ∧ complete eTgt = true ∧ noOrphanInv eSrc = true ∧
    missing false eSrc eTgt 4 = [4, 3] ∧ anc eSrc 4 = [4, 2, 3, 1] ∧
    (fetchResult .asFound true false eSrc eTgt 4).map (fun t' => (complete t', get t'.texts (2, 3))) =
      some (true, some 300) ∧
    (testament eSrc 4).isSome = true := by
  decide +kernel

example : (fetchResult .asFound true false eSrc eTgt 4).bind (fun t' => testament t' 4) = testament eSrc 4 := by
  rfl

example : fetchError .asFound true false eSrc eTgt 9 = some .noSuchRevision := by decide +kernel

end BreezyVerif.C03
