import BreezyVerif.Common
import BreezyVerif.Model.C24
/-
C24 driver.  Encodings: a byte string is lowercase hex, `.` when empty; a dict
is `k:v,k:v,…` in insertion order, `-` when empty; a conflict is `k:v:w`;
a selector is `~` (None) or the list of accepted names (`-` = accepts nothing).

* `rec OW SEL SRC DST` → `RESULT|UPDATES|CONFLICTS` (all in order)
* `merge SAME SUPPORTS OW IGNOREMASTER SEL SRC TGT MASTER` (MASTER = `~` or a
  dict) → `TARGET|MASTER|UPDATES|CONFLICTS` (conflicts de-duplicated and sorted)
* `ser DICT` → hex of the serialised tag file
* `deser HEX` → `ok DICT` | `E:ValueError` | `unsupported`
* `utf8 HEX` → `T`/`F`
* `gitmerge STRICT OW SEL COMMITS ABSENT REFS SRC` (COMMITS / ABSENT: lists of
  revision ids the destination git repository has / well-formed git revision ids
  it does not have; every other value is a ghost) →
  `READABLE|RAWREFS|UPDATES|CONFLICTS`
* `gitset STRICT COMMITS ABSENT REFS TO` → `READABLE|RAWREFS` after `_set_tag_dict(TO)`
* `g2g OW SEL COMMITS REFS SRC` (git → local git) → `READABLE|RAWREFS|UPDATES|CONFLICTS`
-/
namespace BreezyVerif.C24

def pBytes (s : String) : Option Bytes :=
  if s == "." then some [] else if s.isEmpty then none else fromHexChars s.toList

def sBytes (b : Bytes) : String :=
  if b.isEmpty then "." else String.ofList (b.flatMap fun x => [hexDigit (x.toNat / 16), hexDigit (x.toNat % 16)])

def pItem (s : String) : Option (Bytes × Bytes) :=
  match s.splitOn ":" with
  | [k, v] => do
    let k ← pBytes k
    let v ← pBytes v
    pure (k, v)
  | _ => none

def pDict (s : String) : Option (Dict Bytes Bytes) :=
  if s == "-" then some [] else (s.splitOn ",").mapM pItem

def sDict (d : Dict Bytes Bytes) : String :=
  if d.isEmpty then "-" else ",".intercalate (d.map fun e => sBytes e.1 ++ ":" ++ sBytes e.2)

def sConflicts (c : List (Bytes × Bytes × Bytes)) : List String :=
  c.map fun e => sBytes e.1 ++ ":" ++ sBytes e.2.1 ++ ":" ++ sBytes e.2.2

def sList (l : List String) : String := if l.isEmpty then "-" else ",".intercalate l

def pSel (s : String) : Option (Option (Bytes → Bool)) :=
  if s == "~" then some none
  else if s == "-" then some (some fun _ => false)
  else do
    let names ← (s.splitOn ",").mapM pBytes
    pure (some fun n => names.contains n)

def pBytesList (s : String) : Option (List Bytes) :=
  if s == "-" then some [] else (s.splitOn ",").mapM pBytes

def mkCls (commits absent : List Bytes) (v : Bytes) : RevClass :=
  if commits.contains v then .commit else if absent.contains v then .absent else .ghost

def sortStrings (l : List String) : List String := l.mergeSort (fun a b => a ≤ b)

def handle : List String → String
  | ["rec", ow, sel, src, dst] =>
    match parseBool ow, pSel sel, pDict src, pDict dst with
    | some ow, some sel, some src, some dst =>
      let r := reconcile src dst ow sel
      sDict r.result ++ "|" ++ sDict r.updates ++ "|" ++ sList (sConflicts r.conflicts)
    | _, _, _, _ => "bad-op"
  | ["merge", same, sup, ow, ign, sel, src, tgt, master] =>
    let m : Option (Option (Dict Bytes Bytes)) :=
      if master == "~" then some none else (pDict master).map some
    match parseBool same, parseBool sup, parseBool ow, parseBool ign, pSel sel, pDict src, pDict tgt, m with
    | some same, some sup, some ow, some ign, some sel, some src, some tgt, some m =>
      let r := merge same sup src tgt m ow ign sel
      sDict r.target ++ "|" ++ (match r.master with | none => "~" | some d => sDict d) ++ "|"
        ++ sDict r.updates ++ "|" ++ sList (sortStrings (sConflicts r.conflicts))
    | _, _, _, _, _, _, _, _ => "bad-op"
  | ["ser", d] =>
    match pDict d with
    | some d => sBytes (serialize d)
    | none => "bad-op"
  | ["deser", h] =>
    match pBytes h with
    | some b =>
      match deserialize b with
      | .ok d => "ok " ++ sDict d
      | .error .malformed => "E:ValueError"
      | .error .unsupported => "unsupported"
    | none => "bad-op"
  | ["utf8", h] =>
    match pBytes h with
    | some b => showBool (validUTF8 b)
    | none => "bad-op"
  | ["gitmerge", strict, ow, sel, commits, absent, refs, src] =>
    match parseBool strict, parseBool ow, pSel sel, pBytesList commits, pBytesList absent,
        pDict refs, pDict src with
    | some strict, some ow, some sel, some commits, some absent, some refs, some src =>
      let cls := mkCls commits absent
      let r := gitMergeTo strict cls refs src ow sel
      sDict (gitRead cls r.1) ++ "|" ++ sDict r.1 ++ "|" ++ sDict r.2.1 ++ "|"
        ++ sList (sConflicts r.2.2)
    | _, _, _, _, _, _, _ => "bad-op"
  | ["gitset", strict, commits, absent, refs, to] =>
    match parseBool strict, pBytesList commits, pBytesList absent, pDict refs, pDict to with
    | some strict, some commits, some absent, some refs, some to =>
      let cls := mkCls commits absent
      let r := gitSetTagDict strict cls refs to
      sDict (gitRead cls r) ++ "|" ++ sDict r
    | _, _, _, _, _ => "bad-op"
  | ["g2g", ow, sel, commits, refs, src] =>
    match parseBool ow, pSel sel, pBytesList commits, pDict refs, pDict src with
    | some ow, some sel, some commits, some refs, some src =>
      let cls := mkCls commits []
      let cls' : Bytes → RevClass := fun v => if (cls v).isCommit then .commit else .absent
      let r := gitToGit cls' refs src ow sel
      sDict (gitRead cls' r.refs) ++ "|" ++ sDict r.refs ++ "|" ++ sDict r.updates ++ "|"
        ++ sList (sConflicts r.conflicts)
    | _, _, _, _, _ => "bad-op"
  | _ => "bad-op"

end BreezyVerif.C24

def main : IO Unit := BreezyVerif.runDriver BreezyVerif.C24.handle
