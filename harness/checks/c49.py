"""C49 — configuration values resolve by location and round-trip through files
(breezy/config.py: _iter_for_location_by_parts, LocationMatcher,
StartingPathMatcher, LocationSection.get, Stack.get/set, IniFileStore, and the
configobj quoting / parsing layer underneath).

T2 (location resolution): generated stores (optional no-name section, 1..6
named sections whose ids are paths over a small component alphabet with `*`,
`?`, `[..]`, trailing slashes, relative and absolute, plus `ignore_parents`,
`opt:policy = appendpath|norecurse|none`, values with `{relpath}`,
`{basename}`, `{branchname}` references and quotes) are parsed by the REAL
configobj-backed IniFileStore; the parsed sections are handed to the Lean
model, and for several locations the model is compared with the real
  * Stack([LocationMatcher(store, loc).get_sections]).get(name)
  * Stack([StartingPathMatcher(store, loc).get_sections]).get(name)
  * the (id, extra_path) lists both matchers yield, in order
  * _iter_for_location_by_parts(ids, loc)
  * IniFileStore.unquote.
Section ids outside the modelled glob grammar / values with non-local option
references: the model says so ('G' / 'R') and only the oracle runs.
Locations (and section ids) also carry segment parameters (`,branch=x`, `/,branch=feat`,
`,q=1`, malformed ones) on plain paths and on http:// / bzr+ssh:// / sftp:// URLs: the
matcher keeps them in the location it matches against (theorems
location_keeps_segment_parameters, own_section_matches_completely,
stripped_section_does_not_match), reads {branchname} from `branch` (model segBranch /
branchOf, op `br` against LocationMatcher.branch_name) and refuses a parameter without
'='.  The real LocationStack round trip also runs at such locations.

T2 (store round trip; the quoting layer is MODELLED, not abstract):
  * IniFileStore.quote (what Stack.set stores) and ConfigObj._quote with
    list_values on / off (what ConfigObj.write applies to the stored string),
    incl. breezy's _get_triple_quote override — on raw and on quoted values
  * the reader: generated ini texts (hostile value texts, single- and multi-line
    triple-quoted values, inline comments, blank/comment lines, plain section
    markers, duplicates, every str.splitlines boundary, indentation, Unicode
    blanks around `=`) loaded by the real IniFileStore against the model's
    splitLines / classifyLine / parseOptValue / parseLines (model answers
    'O' = outside the fragment for quoted keys, nested markers, ...)
  * ConfigObj._handle_value / _multiline called directly
  * the blank table (str.isspace = re's \\s = str.strip) and the line-boundary
    table (str.splitlines) on every code point
  * the WHOLE round trip, two generations: Stack.set of several options on a
    real TransportIniFileStore -> save -> fresh store -> Stack.get of every
    option; then Stack.set on the LOADED store -> save -> fresh store -> get.
    The outcome (values, set/save error, load error) is compared with the
    model's, for every generated case, including the damaged ones.

Oracle, independent of the model (documented semantics written here with
Python's own fnmatch and dromedary's join/basename as specifications):
component-wise glob prefix match, most specific first (more components, then
id), a section with ignore_parents=true is the last one consulted, appendpath
joins the unmatched part of the location, {relpath}/{basename} expand to it
(skipped only when the value FOUND still holds a stack-level reference).
Round trip: every option reads back as it was set, in both generations, for
values over a grammar with quotes, triple quotes, commas, '#', '=', '[', ';',
backslashes, leading/trailing blanks (ASCII and Unicode), all line boundaries
and non-ASCII text; also through the real LocationStack/LocationStore (set at
a location, re-load, get at the location and below it).

FINDINGS on the unchanged code (each has its own family classifier; a family is
accepted only if the value is in the input family AND the damage observed is
exactly the one the Lean model derives — anything else is reported as new;
collateral damage to other options is attributed by re-running the real round
trip without the family values):
  roundtrip-line-break   a value containing a line boundary is read back wrapped in
      two extra quote characters (triple-quoted by Stack.set, quoted again by
      ConfigObj.write, un-quoted once) or the file does not load       [known, F18]
  roundtrip-both-quote-kinds  a value with both ' and " loses/gains quotes, at the
      first read-back or when the loaded file is saved again           [known, F19]
  roundtrip-unicode-blank-at-end  NEW: a value whose first/last character is a
      Unicode blank other than space/tab (U+00A0, U+3000, U+001F, U+2000.., ...)
      and that configobj writes without quotes loses that character (the parser's
      \\s* strips it).  Repro + tested patch: /var/tmp/imp-C49C50/.
  (ignore-parents-own-section-dropped was fixed in /repo by 5b060e5; the classifier
  stays so that a regression is named.)

Model variants selected by probing the live code once: the ignore_parents cut
('incl' = the code as it is, 'excl' = the loop before 5b060e5) and
IniFileStore.quote ('s' = as it is, 'sfix' = with the patch proposed for
roundtrip-unicode-blank-at-end; store_roundtrip_partial is proved for both).

Mutants this was built against (scratch worktree; each caught with a concrete input):
  M1  _iter_for_location_by_parts: `len(section_parts) > len(location_parts)` -> `>=`
  M2  extra_path from `location_parts[len(section_parts) - 1:]`
  M3  LocationMatcher.get_sections sort key `(match[0], id)` -> `(id,)` (alphabetical, not by depth)
  M4  `reverse=True` dropped (least specific first)
  M5  LocationSection.get: appendpath test `== POLICY_APPENDPATH` -> `== POLICY_NORECURSE`
  M6  LocationSection locals: relpath <- basename
  M7  StartingPathMatcher: `reversed(` dropped
  M8  Stack.set stores the raw value (no store.quote)
  M9  IniFileStore.unquote never unquotes
  M10 fnmatch(name[0], name[1]) arguments swapped
  M11 ignore_parents: `if ignore: break` -> `if ignore is not None: break`
  M11b the loop before 5b060e5 (break before yield)
  M12 StartingPathMatcher: `self.location.startswith(section_path)` operands swapped
  M13 MutableSection.set returns early when overwriting an option of the loaded file
  M14 breezy's _get_triple_quote override switched off (`if False:`)
  M15 IniFileStore.unquote strips double quotes only
  M16 IniFileStore.quote runs _quote with list_values off
  M18 _load_from_string parses with list_values=True
  M19 (seed C49b) LocationMatcher.__init__ matches against the location with its segment
      parameters stripped: own-section lookups, relpath/appendpath and LocationStack set/get
      at `…,branch=x` locations break — caught by the location oracle and the LocationStack oracle
  H1  harmless: `matched` computed with all(...) instead of the loop — clean.
  H2  harmless: quote() via a local variable and an explicit multiline=True — clean
      (apart from the new family above).
  FIX the patch for roundtrip-unicode-blank-at-end: that family disappears, variant 'sfix'
      is selected, 0 mismatches; breezy.tests.test_config (717 tests) same with/without.
"""
import fnmatch
import os

from vlib import env

THEOREMS = [
    "section_match_iff", "extra_is_unmatched_suffix", "iter_by_parts_spec",
    "most_specific_first", "sorted_is_permutation", "value_from_first_defining",
    "none_iff_no_section_defines", "matching_sections_mem", "most_specific_wins", "location_none_iff",
    "location_keeps_segment_parameters", "own_section_matches_completely", "stripped_section_does_not_match",
    "ignore_parents_cut", "ignore_parents_none", "ignore_parents_gap", "ignore_parents_own_section_example",
    "secGet_fuel", "secGet_mono", "secGet'_spec",
    "no_policy_plain_value", "appendpath_value", "relpath_basename_expansion",
    "starting_sections_spec",
    "quote_unquote_partial", "store_roundtrip_partial",
    "roundtrip_line_break_witness", "roundtrip_both_quote_kinds_witness", "roundtrip_unicode_blank_witness",
    "store_set_other_unchanged", "unquote_quoted",
]
RULE = ("location stream: one case = (store text, location, option name, matcher); non-trivial = at least one "
        "named section matches the location; round-trip stream: one case = (value, section, other options, second "
        "value); non-trivial = the value needs quoting (blank at an end, quote, comma, '#', '=', line break) or is "
        "non-ASCII; quoting-layer streams: one case = (value, list_values) / (ini text) / (value text, following "
        "lines); non-trivial = needs quoting / loads with at least one option / non-empty")
ASSUMPTIONS = [
    "locations have no file:// scheme; segment parameters (',k=v' on the last segment) are modelled for ASCII branch "
    "values without '%' and blanks other than ' ' (otherwise the model answers 'G' and only the oracle runs)",
    "option names are not registered options (Stack.get then applies only unquote)",
    "values in the location stream reference only {relpath}, {basename}, {branchname}; a value FOUND that still "
    "holds another reference is oracle-skipped (stack-level expansion is not modelled)",
    "round-trip values contain no '{' (option references are a documented feature of Stack.get)",
    "round trip: keys and section names are plain (letters, digits, '_', '.', '-', '/'); one section per file; "
    "values are Python str without lone surrogates",
]
TRUSTED = [
    "Python fnmatch, dromedary urlutils.join/basename are external: the model specifies them on a restricted "
    "grammar; the harness compares those specifications with the real functions on every generated case",
    "configobj's _quote / parser / writer and breezy's override are MODELLED (Lean: cquote, tripleQuote, "
    "splitLines, classifyLine, parseOptValue, parseLines, writeSection) and tied to the real code by T2 on every "
    "run; Python's re engine (lazy quantifier = first match) and str.splitlines / str.isspace are specified by "
    "those models and compared on generated inputs / all code points",
    "the location stream takes the parsed sections from the real parser",
]

NAMES = ["foo", "bar", "baz"]
LINEBREAKS = "\n\r\x0b\x0c\x1c\x1d\x1e\x85\u2028\u2029"


_FAMILY_SEEN = {}


def _violation(ctx, case, what, family=None):
    """record a property violation; a known input family is recorded a few times
    only (and counted), so that it cannot crowd out a NEW violation's replay"""
    if family is not None:
        ctx.count("finding:" + family)
        _FAMILY_SEEN[family] = _FAMILY_SEEN.get(family, 0) + 1
        if _FAMILY_SEEN[family] > 3:
            return
    ctx.violation(case, what, family=family)


# ----------------------------------------------------------------------
def enc(s):
    return ".".join(str(ord(c)) for c in s) or "e"


def dec(s):
    return "" if s == "e" else "".join(chr(int(x)) for x in s.split("."))


def enc_sections(secs):
    """secs: list of (id or None, [(k, v)...])"""
    out = []
    for sid, opts in secs:
        out.append(":".join(["~" if sid is None else enc(sid)] + ["%s=%s" % (enc(k), enc(v)) for k, v in opts]))
    return ",".join(out) or "-"


def show(v):
    return "N" if v is None else "S " + enc(v)


# ----------------------------------------------------------------------
# generators: stores and locations
COMP = ["a", "b", "c", "ab", "a.b", "é"]
GCOMP = ["*", "?", "a*", "*b", "?b", "[ab]", "[!a]", "[a-c]x", "a?"]
BAD_GLOB = ["[a", "a]", "[]", "[b-a]", "[!]"]


# segment parameters of the last path segment (`,k=v`): LocationMatcher keeps them in the
# location it matches against and reads the branch name from `branch`
SEG_PARAMS = [",branch=x", ",branch=feat", "/,branch=feat", ",branch=x,q=1", ",q=1", ",q=1,branch=y", ",branch=",
              ",branch=x,branch=z"]
SEG_PARAMS_ODD = [",nb", ",branch=a%20b", ", branch = x ", ",branch=é", ",=v", ",branch=x=y"]
URL_PREFIXES = [["http:", "", "h"], ["bzr+ssh:", "", "host"], ["sftp:", "", "u@h"]]


def g_section_id(rng, bad=False):
    n = rng.randint(1, 4)
    comps = []
    for _ in range(n):
        r = rng.random()
        if bad and r < 0.3:
            comps.append(rng.choice(BAD_GLOB))
        elif r < 0.7:
            comps.append(rng.choice(COMP))
        else:
            comps.append(rng.choice(GCOMP))
    s = "/".join(comps)
    if rng.random() < 0.8:
        s = "/" + s
    if rng.random() < 0.15:
        s += "/"
    if rng.random() < 0.03:
        s = rng.choice(["/", "*", "/*"])
    return s


def g_value(rng):
    r = rng.random()
    base = rng.choice(["v", "top", "x/y", "http://h/p", "a b", "", "/abs", "dir/"])
    if r < 0.45:
        return base + str(rng.randint(0, 9))
    if r < 0.75:
        ref = rng.choice(["{relpath}", "{basename}", "{branchname}", "{relpath}/{basename}"])
        return rng.choice([base, ""]) + rng.choice(["", "-", "/"]) + ref + rng.choice(["", ".x", "}"])
    if r < 0.85:
        return rng.choice(['"q %d"' % rng.randint(0, 9), "'s'", '"', "'a", '"a"b"', "{", "{1a}", "{a-}", "{}", "a{b"])
    if r < 0.93:
        return "{" + rng.choice(["foo", "bar", "nope", "a.b", "x-y"]) + "}"     # non-local reference
    return rng.choice(["true", "True", "yes", "1", "on", "false", "0", "maybe"])


def g_options(rng):
    lines = []
    used = set()
    for name in rng.sample(NAMES, rng.randint(0, 3)):
        lines.append((name, g_value(rng)))
        used.add(name)
        r = rng.random()
        if r < 0.35:
            lines.append((name + ":policy", rng.choice(["appendpath", "appendpath", "norecurse", "none", "bogus"])))
        if r < 0.03:
            lines.append((name + ":policy:policy", "appendpath"))
    r = rng.random()
    if r < 0.25:
        lines.append(("ignore_parents", rng.choice(["true", "True", "yes", "1", "on", "false", "no", "0", "maybe", "", "TRUE"])))
        if rng.random() < 0.1:
            lines.append(("ignore_parents:policy", "appendpath"))
    rng.shuffle(lines)
    return lines


def ini_line(k, v):
    return "%s = %s" % (k, v)


def globbed(rng, comp):
    """a glob that matches the component"""
    r = rng.random()
    if r < 0.5 or not comp:
        return comp
    if r < 0.65:
        return "*"
    if r < 0.75:
        return comp[0] + "*"
    if r < 0.85:
        return "?" * len(comp) if len(comp) <= 2 else "*" + comp[-1]
    if comp[0].isascii() and comp[0].isalnum():
        return "[%sz]" % comp[0] + comp[1:]
    return comp


def g_store(rng, bad=False):
    lines = []
    if rng.random() < 0.3:
        for k, v in g_options(rng):
            lines.append(ini_line(k, v))
    ids = []
    chain = None
    if rng.random() < 0.55:
        # sections along ONE path: several of them match the same location
        head = rng.choice(URL_PREFIXES) if rng.random() < 0.2 else [""]
        chain = head + [rng.choice(COMP) for _ in range(rng.randint(2, 5))]
    for _ in range(rng.randint(1, 6)):
        if chain and rng.random() < 0.8:
            k = rng.randint(min(len(chain), 2 if chain[0] == "" else 4), len(chain))
            sid = "/".join([chain[0]] + [(c if c in ("", "h", "host", "u@h") else globbed(rng, c)) for c in chain[1:k]])
            if rng.random() < 0.1:
                sid += "/"
            if rng.random() < 0.25:
                sid = sid.rstrip("/") + rng.choice(SEG_PARAMS)       # a section for ONE colocated branch
        else:
            sid = g_section_id(rng, bad=bad)
        if sid in ids:
            continue
        ids.append(sid)
        lines.append("[%s]" % sid)
        for k, v in g_options(rng):
            lines.append(ini_line(k, v))
    return "\n".join(lines) + "\n", ids


def g_location(rng, ids):
    r = rng.random()
    if ids and r < 0.75:
        # instantiate a section id and extend / cut it
        sid = rng.choice(ids)
        comps = sid.rstrip("/").split("/")
        out = []
        for c in comps:
            if c in COMP or c == "" or c.endswith(":") or c in ("h", "host", "u@h") or ("," in c and rng.random() < 0.7):
                out.append(c)
            else:
                out.append(rng.choice(["a", "b", "ab", "bx", "cb", "c", "ax"]))
        r2 = rng.random()
        if r2 < 0.5:
            out += [rng.choice(COMP) for _ in range(rng.randint(1, 3))]
        elif r2 < 0.6 and len(out) > 1:
            out = out[:-1]
        loc = "/".join(out)
    else:
        loc = "/".join(rng.choice(COMP) for _ in range(rng.randint(1, 4)))
        if rng.random() < 0.8:
            loc = "/" + loc
    if rng.random() < 0.1:
        loc += "/"
    r = rng.random()
    if r < 0.3 and "," not in loc.rsplit("/", 1)[-1]:
        loc = loc.rstrip("/") + rng.choice(SEG_PARAMS)
    elif r < 0.36:
        loc = loc.rstrip("/") + rng.choice(SEG_PARAMS_ODD)
    if rng.random() < 0.03:
        loc += "/"
    return loc or "/"


# ----------------------------------------------------------------------
# real code
_CUT = [None]


def cut_variant():
    """which cut LocationMatcher.get_sections implements, probed on the live code:
    'excl' = the section saying ignore_parents=true is itself not consulted (the
    code as found), 'incl' = it is the last one consulted (documented; the patch
    proposed with finding ignore-parents-own-section-dropped)"""
    if _CUT[0] is None:
        from breezy import config
        store = load_store("[/p]\nignore_parents = true\nfoo = x\n")
        ids = [s.id for _, s in config.LocationMatcher(store, "/p").get_sections()]
        _CUT[0] = "incl" if ids == ["/p"] else "excl"
    return _CUT[0]


_SQ = [None]


def quote_variant():
    """which IniFileStore.quote the live code implements, probed once: 's' = configobj's
    _quote with list_values on (the code as found), 'sfix' = with the fix proposed for finding
    roundtrip-unicode-blank-at-end (a value with a blank at an end is always quoted)"""
    if _SQ[0] is None:
        _SQ[0] = "sfix" if load_store("").quote("\xa0a") != "\xa0a" else "s"
    return _SQ[0]


def load_store(text):
    from breezy import config
    store = config.IniFileStore()
    store._load_from_string(text.encode("utf-8"))
    return store


def parsed_sections(store):
    """the sections as the real parser produced them: [(id|None, [(k, raw)...])]"""
    out = []
    cobj = store._config_obj
    if cobj.scalars:
        out.append((None, [(k, cobj[k]) for k in cobj.scalars]))
    for name in cobj.sections:
        sec = cobj[name]
        out.append((name, [(k, sec[k]) for k in sec.scalars]))
    return out


def exc_name(e):
    return "E:" + type(e).__name__


def real_get(store, matcher, loc, name):
    from breezy import config
    try:
        m = {"lm": config.LocationMatcher, "sp": config.StartingPathMatcher}[matcher](store, loc)
        st = config.Stack([m.get_sections], store)
        return show(st.get(name))
    except (config.ExpandingUnknownOption, config.OptionExpansionLoop) as e:
        return exc_name(e)
    except Exception as e:
        return exc_name(e)


def real_sections(store, matcher, loc):
    from breezy import config
    try:
        m = {"ms": config.LocationMatcher, "ss": config.StartingPathMatcher}[matcher](store, loc)
        return ",".join(("~" if s.id is None else enc(s.id)) + ">" + enc(s.extra_path) for _, s in m.get_sections()) or "-"
    except Exception as e:
        return exc_name(e)


# ----------------------------------------------------------------------
# oracle: the documented semantics, written independently of the model
def o_parts(s):
    return s.rstrip("/").split("/")


def o_matches(sid, loc):
    sp, lp = o_parts(sid), o_parts(loc)
    return len(sp) <= len(lp) and all(fnmatch.fnmatchcase(l, s) for l, s in zip(lp, sp))


def o_truth(v):
    return isinstance(v, str) and v.lower() in ("yes", "y", "on", "true", "1")


def o_expand(value, extra, branch):
    from breezy import urlutils
    return (value.replace("{relpath}", extra).replace("{basename}", urlutils.basename(extra))
            .replace("{branchname}", branch))


def o_section_value(opts, name, extra, branch, depth=0):
    """value of option `name` in a location section (None if absent); the policy
    of an option is itself the section value of `name:policy`"""
    from breezy import urlutils
    d = dict(opts)
    if name not in d or depth > len(d) + 1:
        return None
    v = d[name]
    pol = o_section_value(opts, name + ":policy", extra, branch, depth + 1)
    if pol == "appendpath":
        v = urlutils.join(v, extra)
    return o_expand(v, extra, branch)


def o_unquote(v):
    if v and v[0] == v[-1] and v[0] in "'\"":
        return v[1:-1]
    return v


class OInvalidURL(Exception):
    pass


def o_branch(loc):
    """the branch name of a location, written from the documentation of segment
    parameters: `,k=v` items after the last path segment (one trailing slash aside);
    `branch` names the colocated branch, otherwise the last path segment does"""
    import urllib.parse
    from breezy import urlutils
    u = loc
    if u.endswith("/") and not (u.count("/") == 3 and "://" in u):
        u = u[:-1]
    seg = u.rsplit("/", 1)[-1]
    params = {}
    for sub in seg.split(",")[1:]:
        if "=" not in sub:
            raise OInvalidURL(sub)
        k, v = sub.strip().split("=", 1)
        params[k.strip()] = v.strip()
    if "branch" not in params:
        return urlutils.basename(loc)
    if not params["branch"].isascii():
        raise ValueError("not a URL")
    return urllib.parse.unquote(params["branch"])


def o_location_expected(secs, loc, name):
    """-> (documented value, value if the ignoring section itself is dropped, ignoring section consulted?)"""
    lp = o_parts(loc)
    branch_name = o_branch(loc)        # the matcher refuses a malformed location before anything else
    cands = []
    for sid, opts in secs:
        if sid is None:
            cands.append((0, "", sid, opts, loc, ""))
        elif o_matches(sid, loc):
            n = len(o_parts(sid))
            cands.append((n, sid, sid, opts, "/".join(lp[n:]), branch_name))
    cands.sort(key=lambda c: (c[0], c[1]), reverse=True)
    documented = None      # first defined value among the sections consulted (the ignoring one included)
    dropped = None         # … if the ignoring section itself were skipped
    from_ignoring = False
    for n, _, sid, opts, extra, branch in cands:
        ign = o_truth(o_section_value(opts, "ignore_parents", extra, branch))
        v = o_section_value(opts, name, extra, branch)
        if documented is None and v is not None:
            documented = v
            from_ignoring = ign
        if ign:
            break
        if dropped is None and v is not None:
            dropped = v
    return documented, dropped, from_ignoring


def has_nonlocal_ref(secs):
    import re
    ref = re.compile(r"{[^\d\W](?:\.\w|-\w|\w)*}")
    for _, opts in secs:
        for _, v in opts:
            for m in ref.findall(v):
                if m not in ("{relpath}", "{basename}", "{branchname}"):
                    return True
    return False


def glob_in_grammar(sid):
    i = 0
    n = len(sid)
    while i < n:
        c = sid[i]
        if c == "]":
            return False
        if c == "[":
            j = sid.find("]", i + 1)
            if j < 0:
                return False
            body = sid[i + 1:j]
            if body.startswith("!"):
                body = body[1:]
            if not body:
                return False
            k = 0
            while k < len(body):
                a = body[k]
                if not (a.isascii() and a.isalnum()):
                    return False
                if k + 1 < len(body) and body[k + 1] == "-":
                    if k + 2 >= len(body):
                        return False
                    b = body[k + 2]
                    if not (b.isascii() and b.isalnum()) or b < a:
                        return False
                    k += 3
                else:
                    k += 1
            i = j + 1
            continue
        i += 1
    return True


# ----------------------------------------------------------------------
def run_locations(ctx, n_stores, bad_ratio=0.06):
    from breezy import config, urlutils
    rng = ctx.rng
    cases, lines, outs = [], [], []
    for _ in range(n_stores):
        bad = rng.random() < bad_ratio
        text, ids = g_store(rng, bad=bad)
        try:
            store = load_store(text)
        except Exception as e:
            ctx.count("store:parse-error:" + type(e).__name__)
            continue
        secs = parsed_sections(store)
        named = [sid for sid, _ in secs if sid is not None]
        grammar = all(glob_in_grammar(s) for s in named)
        nonlocal_ref = has_nonlocal_ref(secs)
        esecs = enc_sections(secs)
        for _ in range(ctx.pick(3, 4)):
            loc = g_location(rng, named)
            # specification checks of the external helpers on this very case
            lp = o_parts(loc)
            anymatch = False
            for sid in named:
                try:
                    if o_matches(sid, loc):
                        anymatch = True
                except Exception:
                    pass
            # ---- _iter_for_location_by_parts
            case = dict(op="it", loc=loc, ids=named)
            try:
                got = ",".join("%s>%s>%d" % (enc(s), enc(x), n) for s, x, n in config._iter_for_location_by_parts(named, loc)) or "-"
            except Exception as e:
                got = exc_name(e)
            want = ",".join("%s>%s>%d" % (enc(s), enc("/".join(lp[len(o_parts(s)):])), len(o_parts(s)))
                            for s in named if o_matches(s, loc)) or "-"
            if got != want:
                _violation(ctx, case, "_iter_for_location_by_parts(%r, %r): got %s, documented %s" % (
                    named, loc, _pp_list(got), _pp_list(want)))
            ctx.case(case, nontrivial=anymatch)
            ctx.count("op:it")
            cases.append(case)
            lines.append("it %s %s" % (enc(loc), ",".join(enc(s) for s in named) or "-"))
            outs.append(got if grammar else "G")
            # ---- section lists
            for op in ("ms", "ss"):
                case = dict(op=op, loc=loc, text=text)
                got = real_sections(store, op, loc)
                if op == "ss":
                    oracle_starting(ctx, case, secs, loc, got)
                else:
                    oracle_matching(ctx, case, secs, loc, got)
                ctx.case(case, nontrivial=anymatch)
                ctx.count("op:" + op)
                cases.append(case)
                lines.append(("ms %s %s %s" % (cut_variant(), enc(loc), esecs)) if op == "ms"
                             else "ss %s %s" % (enc(loc), esecs))
                outs.append(got if grammar or got == "E:InvalidURL" else "G")
            # ---- values
            for name in NAMES:
                for op in ("lm", "sp"):
                    case = dict(op=op, loc=loc, name=name, text=text)
                    got = real_get(store, op, loc, name)
                    ctx.count("op:" + op)
                    ctx.count("result:" + ("none" if got == "N" else "error" if got.startswith("E:") else "some"))
                    if op == "lm":
                        oracle_location(ctx, case, secs, loc, name, got, nonlocal_ref)
                    else:
                        oracle_starting_value(ctx, case, secs, loc, name, got)
                    ctx.case(case, nontrivial=anymatch)
                    cases.append(case)
                    lines.append(_vline(op, loc, name, esecs))
                    if not grammar:
                        outs.append(got if got == "E:InvalidURL" else "G")
                    elif nonlocal_ref and (got.startswith("E:Expanding") or got.startswith("E:OptionExpansionLoop")):
                        outs.append("R")
                    else:
                        outs.append(got)
    # the model answers R only when a reference survives in the value it found;
    # with non-local references elsewhere in the store the real value may be a plain one
    replies = ctx.model(lines)
    for c, l, i, m in zip(cases, lines, outs, replies):
        ctx.traces += 1
        if i == m:
            continue
        if m == "G" and c["op"] in ("lm", "ms") and "," in c["loc"]:
            ctx.count("segment-parameter-outside-model")       # '%', non-ASCII or odd blanks in the parameters
            continue
        if m == "R" and c["op"] in ("lm", "sp") and has_nonlocal_ref(parsed_sections(load_store(c["text"]))):
            ctx.count("unmodelled-ref")
            continue
        ctx.mismatch(c, i, m, line=l)


def _vline(op, loc, name, esecs):
    if op == "lm":
        return "lm %s %s %s %s" % (cut_variant(), enc(loc), enc(name), esecs)
    return "sp %s %s %s" % (enc(loc), enc(name), esecs)


def _pp_list(s):
    if s == "-" or s.startswith("E:"):
        return s
    out = []
    for item in s.split(","):
        f = item.split(">")
        out.append("(" + ", ".join([repr(dec(f[0])) if f[0] != "~" else "None", repr(dec(f[1]))] + f[2:]) + ")")
    return "[" + ", ".join(out) + "]"


import re as _re
_REF = _re.compile(r"{[^\d\W](?:\.\w|-\w|\w)*}")


def oracle_location(ctx, case, secs, loc, name, got, nonlocal_ref):
    try:
        documented, dropped, from_ignoring = o_location_expected(secs, loc, name)
    except OInvalidURL:
        if got != "E:InvalidURL":
            _violation(ctx, case, "location %r: a segment parameter without '=' must be refused, got %s" % (loc, _pp(got)))
        return
    except Exception:
        return        # section id outside fnmatch's domain etc.
    if documented is not None and _REF.search(documented):
        # the value FOUND still holds an option reference: Stack.get expands it against the
        # whole stack (not modelled, not part of the property).  References elsewhere in
        # the store do not matter: sections only expand their own locals.
        ctx.count("oracle:lm-skipped-stack-level-reference")
        return
    if nonlocal_ref:
        ctx.count("oracle:lm-checked-despite-reference-elsewhere")
    want = show(None if documented is None else o_unquote(documented))
    if got == want:
        return
    fam = None
    alt = show(None if dropped is None else o_unquote(dropped))
    if from_ignoring and got == alt:
        fam = "ignore-parents-own-section-dropped"
    _violation(ctx, case, "location %r option %r: got %s, documented semantics give %s" % (
        loc, name, _pp(got), _pp(want)), family=fam)


def oracle_starting(ctx, case, secs, loc, got):
    """StartingPathMatcher: later sections of the file are more specific and come
    first; a section applies when its id is a string prefix of the location or
    globs it as a whole; the no-name section comes last"""
    lp = o_parts(loc)
    want = []
    try:
        for sid, _ in reversed(secs):
            if sid is not None and (loc.startswith(sid) or fnmatch.fnmatchcase(loc, sid)):
                want.append(enc(sid) + ">" + enc("/".join(lp[len(o_parts(sid)):])))
    except Exception:
        return
    if secs and secs[0][0] is None:
        want.append("~>" + enc(loc))
    want = ",".join(want) or "-"
    if got != want:
        _violation(ctx, case, "StartingPathMatcher(%r) yields %s, documented order %s" % (loc, _pp_list(got), _pp_list(want)))


def oracle_matching(ctx, case, secs, loc, got):
    """LocationMatcher: the candidates (no-name section, sections whose components
    glob-match a prefix of the location's), most specific first (more components, then
    larger id), cut after the first one whose ignore_parents is true"""
    from breezy import urlutils
    lp = o_parts(loc)
    try:
        branch_name = o_branch(loc)
        cands = []
        for sid, opts in secs:
            if sid is None:
                cands.append((0, "", None, opts, loc, ""))
            elif o_matches(sid, loc):
                n = len(o_parts(sid))
                cands.append((n, sid, sid, opts, "/".join(lp[n:]), branch_name))
    except OInvalidURL:
        if got != "E:InvalidURL":
            _violation(ctx, case, "LocationMatcher(%r): a segment parameter without '=' must be refused, got %s" % (
                loc, _pp_list(got)))
        return
    except Exception:
        return
    cands.sort(key=lambda c: (c[0], c[1]), reverse=True)
    want = []
    for _, _, sid, opts, extra, branch in cands:
        want.append(("~" if sid is None else enc(sid)) + ">" + enc(extra))
        if o_truth(o_section_value(opts, "ignore_parents", extra, branch)):
            break
    want = ",".join(want) or "-"
    if got != want:
        fam = None
        if cut_variant() == "excl" and want.startswith(got) and want[len(got):].count(",") <= 1:
            fam = "ignore-parents-own-section-dropped"
        _violation(ctx, case, "LocationMatcher(%r) yields %s, documented order %s" % (loc, _pp_list(got), _pp_list(want)),
                   family=fam)


def oracle_starting_value(ctx, case, secs, loc, name, got):
    """Stack.get through a StartingPathMatcher: the first section, in the matcher's
    order, that defines the option; the branch name is empty there"""
    lp = o_parts(loc)
    try:
        order = [(opts, "/".join(lp[len(o_parts(sid)):])) for sid, opts in reversed(secs)
                 if sid is not None and (loc.startswith(sid) or fnmatch.fnmatchcase(loc, sid))]
    except Exception:
        return
    if secs and secs[0][0] is None:
        order.append((secs[0][1], loc))
    want = None
    for opts, extra in order:
        want = o_section_value(opts, name, extra, "")
        if want is not None:
            break
    if want is not None and _REF.search(want):
        ctx.count("oracle:sp-skipped-stack-level-reference")
        return
    want = show(None if want is None else o_unquote(want))
    if got != want:
        _violation(ctx, case, "StartingPathMatcher location %r option %r: got %s, documented semantics give %s" % (
            loc, name, _pp(got), _pp(want)))


def _pp(s):
    return "None" if s == "N" else (repr(dec(s[2:])) if s.startswith("S ") else s)


# ----------------------------------------------------------------------
# round trip
VAL_ALPHA = ["a", "b", "z", "0", " ", " ", '"', "'", ",", "#", "=", "\n", "é", "日", "\\", "[", "]", "\t", ";",
             "%", "$", "!", ":", "(", "/", "*", "\r", "}"]


VAL_ALPHA_1LINE = [c for c in VAL_ALPHA if c not in "\n\r"]
# blanks for str.isspace() / re's \s that are neither line boundaries nor in configobj's wspace_plus
UNI_BLANKS = ["\x1f", "\xa0", "\u1680", "\u2000", "\u2003", "\u200a", "\u202f", "\u205f", "\u3000"]
VAL_ALPHA_BLANKS = VAL_ALPHA_1LINE + UNI_BLANKS[:4] + ["\x0c", "\x1c", "\x85", "\u2028", "\u200b", "\u00ad"]


def g_rt_value(rng):
    r = rng.random()
    if r < 0.08:
        return rng.choice(["", " ", "a", "#", '"', "'", "''", '""', ",", "a,b", " a", "a ", "=", "[x]", "a#b", "é"])
    if r < 0.14:
        # the boundaries the quoting layer looks at: triple quotes, quote + '#', blanks at the ends
        core = rng.choice(["a", "a b", "x,y", "p#q", ""])
        pre = rng.choice(["", "", " ", "\t", "'", '"', "'''", '"""', "#", rng.choice(UNI_BLANKS)])
        post = rng.choice(["", "", " ", "\t", "'", '"', "'''", '"""', "''' #c", '""" #c', "#", rng.choice(UNI_BLANKS)])
        return pre + core + post
    n = rng.randint(1, 12)
    r = rng.random()
    alpha = VAL_ALPHA if r < 0.2 else VAL_ALPHA_BLANKS if r < 0.3 else VAL_ALPHA_1LINE
    return "".join(rng.choice(alpha) for _ in range(n))


WSPACE_PLUS = " \r\n\x0b\t'\""          # configobj.wspace_plus
FAMILY_PRIORITY = ["roundtrip-line-break", "roundtrip-both-quote-kinds", "roundtrip-unicode-blank-at-end"]


def rt_family(v):
    """classifier of the round-trip failure families, by the input value (exact on the
    explored grammar).  judge_roundtrip() accepts a family only when, in addition, the
    damage observed is exactly the one the Lean model of the quoting layer derives."""
    if any(c in LINEBREAKS for c in v):
        return "roundtrip-line-break"
    if "'" in v and '"' in v:
        # damaged at the first read-back when it also has '#' or starts and ends with the
        # same quote character, otherwise when the loaded file is saved again
        return "roundtrip-both-quote-kinds"
    if (quote_variant() == "s"
            and v and (v[0].isspace() or v[-1].isspace()) and v[0] not in WSPACE_PLUS and v[-1] not in WSPACE_PLUS
            and "," not in v and "#" not in v):
        # only while the live IniFileStore.quote is the unfixed one (probe 's'): with the fix
        # (6ddbb70, probe 'sfix') this family is never assigned, a return of the defect is a
        # plain VIOLATION
        # written without quotes (configobj only quotes for ITS blanks: space, tab, CR, LF, VT),
        # and the parser's \s* strips every Unicode blank
        return "roundtrip-unicode-blank-at-end"
    return None


def needs_quoting(v):
    return (v != v.strip() or any(c in v for c in "\"',#=\n\r") or not v.isascii() or v == "")


def _stack_for(config, store, section):
    if section is None:
        return config.Stack([store.get_sections], store)
    return config.Stack([config.NameMatcher(store, section).get_sections], store)


def roundtrip_case(args):
    """set -> save -> fresh store -> get, on a real TransportIniFileStore; then set
    value2 on the LOADED store -> save -> fresh store -> get.
    -> dict(g1=..., g2=...): a generation is "SE" (Stack.set / save raised), "LE" (the
    saved file does not load) or the list of values read back for `keys`"""
    d, section, others, name, value, value2 = args
    from breezy import config, transport
    if d is None:
        from dromedary.memory import MemoryTransport     # same store code, bytes kept in memory
        t = MemoryTransport()
    else:
        t = transport.get_transport_from_path(d)
    try:
        t.delete("rt.conf")
    except Exception:
        pass
    keys = [k for k, _ in others] + [name]
    res = dict(keys=keys, g1="SE", g2=None, file1=None)
    store = config.TransportIniFileStore(t, "rt.conf")
    st = config.Stack([store.get_sections], store, mutable_section_id=section)
    try:
        for k, v in others:
            st.set(k, v)
        st.set(name, "overwritten " + value2)      # an earlier value of the same option must not survive
        st.set(name, value)
        store.save()
    except Exception as e:
        res["error"] = type(e).__name__
        return res
    try:
        res["file1"] = t.get_bytes("rt.conf").decode("utf-8")
    except Exception:
        pass
    store2 = config.TransportIniFileStore(t, "rt.conf")
    try:
        st2 = _stack_for(config, store2, section)
        res["g1"] = [st2.get(k) for k in keys]
    except Exception as e:
        res["g1"] = "LE"
        res["error"] = type(e).__name__
        return res
    # second generation: overwrite on the loaded store, save, load again
    res["g2"] = "SE"
    try:
        st3 = config.Stack([store2.get_sections], store2, mutable_section_id=section)
        st3.set(name, value2)
        store2.save()
    except Exception as e:
        res["error"] = type(e).__name__
        return res
    store4 = config.TransportIniFileStore(t, "rt.conf")
    try:
        st4 = _stack_for(config, store4, section)
        res["g2"] = [st4.get(k) for k in keys]
    except Exception as e:
        res["g2"] = "LE"
        res["error"] = type(e).__name__
    return res


def _canon_gen(g):
    if g is None:
        return "-"
    if isinstance(g, str):
        return g
    return ",".join((show(v) if v is None or isinstance(v, str) else "not-a-string:%r" % (v,)) for v in g) or "-"


def rt_line(section, others, name, value, value2):
    opts = list(others) + [(name, value)]
    return "rt %s %s %s %s %s" % (quote_variant(), "~" if section is None else enc(section), enc(name), enc(value2),
                               ",".join("%s=%s" % (enc(k), enc(v)) for k, v in opts))


def _first_failure(keys, expected, got, what):
    """-> (key or None for the whole generation, text) of the first difference"""
    if got == "SE":
        return None, "%s: Stack.set / save raised" % what
    if got == "LE":
        return None, "%s: the saved file does not load" % what
    for k, e, g in zip(keys, expected, got):
        if e != g:
            return k, "%s: option %s=%r read back as %r" % (what, k, e, g)
    return False, None


def _rt_rerun_without_families(section, others, name, value, value2):
    """the same round trip with every option whose value is in a failure family left
    out: does it still fail?  (attribution of collateral damage)"""
    keep = [(k, v) for k, v in others if rt_family(v) is None]
    v1 = value if rt_family(value) is None else "plain"
    res = roundtrip_case((None, section, keep, name, v1, value2))
    return res["g1"] != [v for _, v in keep] + [v1] or res["g2"] != [v for _, v in keep] + [value2]


def run_roundtrip(ctx, n):
    rng = ctx.rng
    d = env.fresh_dir("rt")
    todo, lines = [], []
    for _ in range(n):
        value = g_rt_value(rng)
        section = rng.choice([None, None, "sec", "/a/b", "DEFAULT"])
        others = []
        clean_others = rng.random() < 0.85
        for k in rng.sample(["o1", "o2", "o3"], rng.randint(0, 2)):
            v = g_rt_value(rng)
            while clean_others and rt_family(v):
                v = g_rt_value(rng)
            others.append((k, v))
        name = "opt"
        case = dict(op="rt", value=value, section=section, others=others)
        value2 = g_rt_value(rng)
        while rt_family(value2):
            value2 = g_rt_value(rng)
        case["value2"] = value2
        res = roundtrip_case((d if rng.random() < 0.1 else None, section, others, name, value, value2))
        ctx.case(case, nontrivial=needs_quoting(value))
        ctx.count("op:rt")
        ctx.count("rt:len%d" % min(len(value), 12))
        todo.append((case, res))
        lines.append(rt_line(section, others, name, value, value2))
    replies = ctx.model(lines)
    for (case, res), line, m in zip(todo, lines, replies):
        judge_roundtrip(ctx, case, res, line, m)


def judge_roundtrip(ctx, case, res, line, m):
    """T2: the two-generation outcome against the Lean model of quote / write / parse /
    unquote; oracle: every option reads back as it was set, in both generations"""
    section, others, value, value2 = case["section"], [tuple(x) for x in case["others"]], case["value"], case["value2"]
    name = "opt"
    rg1, rg2 = _canon_gen(res["g1"]), _canon_gen(res["g2"])
    real = rg1 + ";" + rg2
    mg1, _, mg2 = m.partition(";")
    ctx.traces += 1
    if "O" in (mg1, mg2):
        ctx.count("rt:model-outside")       # the damaged file left the modelled fragment
    agrees1 = mg1 != "O" and rg1 == mg1
    agrees2 = agrees1 and mg2 != "O" and rg2 == mg2
    if (mg1 != "O" and rg1 != mg1) or (agrees1 and mg2 != "O" and rg2 != mg2):
        ctx.mismatch(case, real, m, line=line)
    # ---- oracle
    keys = res["keys"]
    inputs = dict(others)
    inputs[name] = value
    exp1 = [inputs[k] for k in keys]
    exp2 = [value2 if k == name else inputs[k] for k in keys]
    agrees = agrees1
    key, what = _first_failure(keys, exp1, res["g1"], "first read-back")
    if key is False and res["g2"] is not None:
        agrees = agrees2
        key, what = _first_failure(keys, exp2, res["g2"], "after setting %r on the loaded store and saving again" % value2)
    if key is False:
        ctx.count("rt:ok")
        return
    ctx.count("rt:differs")
    fams = {k: rt_family(v) for k, v in inputs.items()}
    if key is not None and fams[key]:
        fam = fams[key]                        # the option's own value is in a family …
    else:
        # … otherwise the damage must come from ANOTHER option of the file that is
        # (whole-file errors, swallowed lines, inherited inline comments)
        # … the most destructive family present first: a line boundary breaks the file for all
        present = [f for k, f in fams.items() if f and k != key]
        fam = next((f for f in FAMILY_PRIORITY if f in present), None)
        if fam and _rt_rerun_without_families(section, others, name, value, value2):
            fam = None
    unchecked = mg1 == "O" or (agrees1 and mg2 == "O" and agrees is agrees2 and res["g2"] is not None and key is not False
                               and _first_failure(keys, exp1, res["g1"], "")[0] is False)
    if fam and unchecked:
        ctx.count("rt:family-by-input-only")       # the damaged file is outside the model: no shape check possible
    elif fam and not agrees:
        what += " [an input of family %s is present, but the outcome %s is not the damage the model derives for it: %s]" % (
            fam, real, m)
        fam = None
    _violation(ctx, case, "value %r, other options %r, section %r: %s" % (value, others, section, what), family=fam)


# ----------------------------------------------------------------------
# the pieces of the quoting layer, one by one (T2 for the Lean model of configobj)
def real_cquote(cobj, list_values, v):
    import configobj
    try:
        cobj.list_values = list_values
        return "S " + enc(cobj._quote(v))
    except configobj.ConfigObjError:
        return "E"
    finally:
        cobj.list_values = False


def run_quote(ctx, n):
    """IniFileStore.quote (= _quote with list_values on, what Stack.set stores) and
    ConfigObj._quote with list_values off (what ConfigObj.write applies to the stored
    string) against the model's cquote — on raw values and on already quoted ones"""
    rng = ctx.rng
    store = load_store("")
    cobj = store._config_obj
    cases, lines, outs = [], [], []
    for _ in range(n):
        v = g_rt_value(rng)
        try:
            q1 = store.quote(v)
            got1 = "S " + enc(q1)
        except Exception as e:
            q1 = None
            got1 = "E" if type(e).__name__ == "ConfigObjError" else exc_name(e)
        todo = [("cqs", "cq %s %s" % (quote_variant(), enc(v)), v, got1),
                ("cq1", "cq 1 " + enc(v), v, real_cquote(cobj, True, v))]
        for x in [v] + ([q1] if q1 is not None else []):
            todo.append(("cq0", "cq 0 " + enc(x), x, real_cquote(cobj, False, x)))
        if q1 is not None and rng.random() < 0.3:
            todo.append(("cq1", "cq 1 " + enc(q1), q1, real_cquote(cobj, True, q1)))
        for op, line, x, got in todo:
            case = dict(op=op, value=x)
            ctx.case(case, nontrivial=needs_quoting(x))
            ctx.count("op:" + op)
            ctx.count("quote:" + ("error" if got == "E" else "plain" if got == "S " + enc(x) else
                                  "triple" if dec(got[2:])[:3] in ("'''", '"""') else "single"))
            cases.append(case)
            lines.append(line)
            outs.append(got)
    ctx.diff(cases, lines, outs)


def run_tables(ctx):
    """the model's blank table against str.isspace / re's \\s and its line-boundary table
    against str.splitlines, on every code point"""
    import re
    ws = re.compile(r"\s")
    sp, lb = [], []
    for n in range(0x110000):
        if 0xd800 <= n <= 0xdfff:
            continue
        c = chr(n)
        if c.isspace() != bool(ws.match(c)) or (c.strip() == "") != c.isspace():
            ctx.violation(dict(op="wt", cp=n), "str.isspace, str.strip and re \\s disagree on U+%04X" % n)
        if c.isspace():
            sp.append(n)
        if len(("a" + c + "b").splitlines()) == 2:
            lb.append(n)
    case = dict(op="wt")
    ctx.case(case)
    ctx.diff([case], ["wt"], [(",".join(map(str, sp)) or "-") + ";" + (",".join(map(str, lb)) or "-")])


LINE_ALPHA = ["a", "b", "1", " ", " ", "=", "#", '"', "'", ",", "\t", "\xa0", "é", "[", "]", ";", "\\", ".", "-"]
VALUE_PIECES = ["a", "b c", '"', "'", '"""', "'''", "#", " #c", " ", "  ", "\t", ",", "=", "x", "\xa0", "\u3000",
                "\x1f", "é", '""', "''", "[", "]", "日"]
LINE_ENDS = ["\n"] * 12 + ["\r\n", "\r", "\x0b", "\x0c", "\x1c", "\x1e", "\x85", "\u2028", "\u2029", "\n\n", "\r\r\n"]


def g_value_text(rng):
    return "".join(rng.choice(VALUE_PIECES) for _ in range(rng.randint(0, 6)))


def g_content(rng):
    """a small ini file: option lines with hostile value texts, single- and multi-line
    triple-quoted values, blank and comment lines, plain section markers, junk"""
    out = []
    keys = ["opt", "o1", "o2", "a.b", "x-y", "k k", "_u"]
    for _ in range(rng.randint(1, 5)):
        r = rng.random()
        if r < 0.55:
            k = rng.choice(keys)
            sep = rng.choice([" = ", " = ", "=", " =", "= ", "  =\t", " = \xa0", " =\u3000"])
            line = k + sep + g_value_text(rng)
        elif r < 0.67:
            q = rng.choice(['"""', "'''"])
            k = rng.choice(keys)
            body = [g_value_text(rng) for _ in range(rng.randint(1, 3))]
            line = k + " = " + q + rng.choice(LINE_ENDS).join(body) + rng.choice([q, q, q + " # c", q + "x", ""])
        elif r < 0.75:
            line = rng.choice(["", " ", "# c", "  # c", "\xa0", "#"])
        elif r < 0.87:
            line = rng.choice(["[sec]", "[/a/b]", "[DEFAULT]", "[opt]", "[sec]", "[s] ", "[[n]]", "[a b]", '["q"]', "[x] # c", "[]"])
        else:
            line = "".join(rng.choice(LINE_ALPHA) for _ in range(rng.randint(1, 8)))
        out.append(line + rng.choice(LINE_ENDS))
    text = "".join(out)
    if rng.random() < 0.1:
        text = text.rstrip("\n")
    return text


def real_load(text):
    from breezy import config
    try:
        store = load_store(text)
    except config.ParseConfigError:
        return "E"
    except Exception as e:
        return exc_name(e)
    cobj = store._config_obj
    out = []
    for sec in [cobj] + [cobj[n] for n in cobj.sections]:
        for k in sec.scalars:
            if not isinstance(sec[k], str):
                return "not-a-string:%r" % (sec[k],)
    for k in cobj.scalars:
        out.append("~>%s>%s>%s" % (enc(k), enc(cobj[k]), enc(cobj.inline_comments.get(k) or "")))
    for name in cobj.sections:
        sec = cobj[name]
        if sec.sections:
            return "nested"
        for k in sec.scalars:
            out.append("%s>%s>%s>%s" % (enc(name), enc(k), enc(sec[k]), enc(sec.inline_comments.get(k) or "")))
    return ",".join(out) or "-"


def run_load(ctx, n):
    """the reader: str.splitlines + rstrip, blank/comment lines, plain section markers,
    the _keyword split, _nolistvalue, single- and multi-line triple-quoted values, inline
    comments, duplicate detection — real IniFileStore._load_from_string against the model"""
    rng = ctx.rng
    cases, lines, outs = [], [], []
    for _ in range(n):
        text = g_content(rng)
        case = dict(op="ld", text=text)
        got = real_load(text)
        ctx.case(case, nontrivial=got not in ("E", "-"))
        ctx.count("op:ld")
        ctx.count("load:" + ("error" if got == "E" else "empty" if got == "-" else "other" if got[:2] == "E:" else "options"))
        cases.append(case)
        lines.append("ld " + enc(text))
        outs.append(got)
        # the line splitting on its own
        case = dict(op="sl", text=text)
        cases.append(case)
        lines.append("sl " + enc(text))
        outs.append(",".join(enc(l.rstrip("\r\n")) for l in text.splitlines(True)) or "-")
    replies = ctx.model(lines)
    for c, l, i, m in zip(cases, lines, outs, replies):
        ctx.traces += 1
        if m == "O" and c["op"] == "ld":
            ctx.count("load:model-outside")
            continue
        if i != m:
            ctx.mismatch(c, i, m, line=l)


def real_parse_value(cobj, x, rest):
    """what _parse does with the value part of a keyword line"""
    infile = ["k = " + x] + list(rest)
    try:
        if x[:3] in ('"""', "'''"):
            value, comment, idx = cobj._multiline(x, infile, 0, len(infile) - 1)
        else:
            value, comment = cobj._handle_value(x)
            idx = 0
    except SyntaxError:
        return "E"
    if not isinstance(value, str):
        return "not-a-string:%r" % (value,)
    return "%s>%d>%s" % (enc(value), idx, enc(comment or ""))


def run_parse_value(ctx, n):
    """ConfigObj._handle_value / _multiline called directly, also on texts a file line
    cannot start with (leading blanks), against parseOptValue"""
    rng = ctx.rng
    cobj = load_store("")._config_obj
    cases, lines, outs = [], [], []
    for _ in range(n):
        r = rng.random()
        if r < 0.5:
            x = g_value_text(rng)
        elif r < 0.8:
            try:
                x = cobj._quote(load_store("").quote(g_rt_value(rng)))      # what a save really writes
            except Exception:
                x = g_value_text(rng)
            x = x.split("\n")[0]
        else:
            x = rng.choice(['"""', "'''"]) + g_value_text(rng)
        rest = [g_value_text(rng) + rng.choice(["", '"""', "'''", "''' # c"]) for _ in range(rng.randint(0, 3))]
        if "\n" in x + "".join(rest):
            continue            # a line never contains LF
        case = dict(op="pv", x=x, rest=rest)
        ctx.case(case, nontrivial=bool(x))
        ctx.count("op:pv")
        cases.append(case)
        lines.append("pv %s %s" % (enc(x), ",".join(enc(l) for l in rest) or "-"))
        outs.append(real_parse_value(cobj, x, rest))
    ctx.diff(cases, lines, outs)


def run_location_stack(ctx, n):
    """the real LocationStack over locations.conf in the isolated HOME:
    set at a location, save, unload, get at the location and below it"""
    from breezy import config
    rng = ctx.rng
    for i in range(n):
        loc = "/rt%d/" % i + "/".join(rng.choice(COMP) for _ in range(rng.randint(1, 3)))
        r = rng.random()
        if r < 0.25:
            loc = rng.choice(["bzr+ssh://host", "http://h", "sftp://u@h"]) + loc
        stripped = None
        if rng.random() < 0.5:
            # a colocated branch: the location carries segment parameters
            stripped = loc
            loc += rng.choice([",branch=x", "/,branch=feature", ",branch=x,q=1", ",q=1"])
        value = g_rt_value(rng)
        while rt_family(value):
            value = g_rt_value(rng)
        name = "verif_opt_%d" % rng.randint(0, 3)
        case = dict(op="locstack", loc=loc, name=name, value=value)
        try:
            st = config.LocationStack(loc)
            st.set(name, value)
            st.store.save()
            st.store.unload()
            got_here = config.LocationStack(loc).get(name)
            below = loc + "/" + rng.choice(COMP)
            got_below = config.LocationStack(below).get(name)
            other = config.LocationStack("/elsewhere%d" % i).get(name)
            at_stripped = None if stripped is None or loc.startswith(stripped + "/") else config.LocationStack(stripped).get(name)
        except Exception as e:
            _violation(ctx, case, "LocationStack set/get raised %s" % type(e).__name__)
            continue
        ctx.case(case, nontrivial=needs_quoting(value))
        ctx.count("op:locstack")
        if got_here != value or got_below != value:
            _violation(ctx, case, "LocationStack(%r).set(%r): read back %r at the location, %r below it" % (
                loc, value, got_here, got_below))
        if other is not None:
            _violation(ctx, case, "value set for %r is visible at an unrelated location: %r" % (loc, other))
        if at_stripped is not None:
            _violation(ctx, case, "value set for the colocated branch %r is visible at %r (its last component differs): %r" % (
                loc, stripped, at_stripped))


def run_unquote(ctx, n):
    from breezy import config
    rng = ctx.rng
    store = config.IniFileStore()
    store._load_from_string(b"")
    cases, lines, outs = [], [], []
    for _ in range(n):
        v = g_rt_value(rng)
        if rng.random() < 0.4:
            q = rng.choice(["'", '"'])
            v = q + v + rng.choice([q, q, ""])
        try:
            got = enc(store.unquote(v))
        except Exception as e:
            got = exc_name(e)
        cases.append(dict(op="uq", value=v))
        lines.append("uq " + enc(v))
        outs.append(got)
        ctx.case(cases[-1], nontrivial=bool(v) and v[0] in "'\"")
    ctx.diff(cases, lines, outs)


def run_helpers(ctx, n):
    """the specifications of dromedary's join / basename used by the model"""
    from breezy import urlutils
    rng = ctx.rng
    cases, lines, outs = [], [], []
    for _ in range(n):
        base = rng.choice(["v", "x/y", "http://h/p", "a b", "/abs", "dir/", "é", "a.b/c"]) + rng.choice(["", "1", "/"])
        extra = "/".join(rng.choice(COMP) for _ in range(rng.randint(0, 3)))
        if rng.random() < 0.3:
            extra = "/" + extra + rng.choice(["", "/"])      # the no-name section's extra path is the location
            if rng.random() < 0.3:
                extra = rng.choice(["http://h", "bzr+ssh://host", "sftp://u@h"]) + extra + rng.choice(["", ",branch=x"])
        cases.append(dict(op="jn", base=base, extra=extra))
        lines.append("jn %s %s" % (enc(base), enc(extra)))
        outs.append(enc(urlutils.join(base, extra)))
        p = rng.choice(["", "/"]) + extra.split("://")[-1] + rng.choice(["", "/"])       # basename spec: plain paths
        cases.append(dict(op="bn", path=p))
        lines.append("bn " + enc(p))
        outs.append(enc(urlutils.basename(p)))
    ctx.diff(cases, lines, outs, tie="T2-spec-of-external-helper")
    # the branch name LocationMatcher derives from the location's segment parameters
    from breezy import config
    store = load_store("")
    cases, lines, outs = [], [], []
    for _ in range(n):
        loc = g_location(rng, [])
        if rng.random() < 0.3:
            loc = rng.choice(["http://h", "bzr+ssh://host", "http://h,b=1"]) + rng.choice(["", "/", loc])
        try:
            got = enc(config.LocationMatcher(store, loc).branch_name)
        except Exception as e:
            got = exc_name(e)
        try:
            want = enc(o_branch(loc))
        except OInvalidURL:
            want = "E:InvalidURL"
        except Exception:
            want = None
        if "," in loc.rstrip("/").rsplit("/", 1)[-1] and "branch" not in loc:
            want = None        # other parameters only: what the basename should then be is not documented (T2 only)
        case = dict(op="br", loc=loc)
        if want is not None and got != want:
            _violation(ctx, case, "LocationMatcher(%r).branch_name: got %s, documented %s (the branch name is the `branch` "
                       "segment parameter, else the last segment of the location as given)" % (
                           loc, *[x if x.startswith("E:") else repr(dec(x)) for x in (got, want)]))
        ctx.case(case, nontrivial="," in loc)
        ctx.count("op:br")
        cases.append(case)
        lines.append("br " + enc(loc))
        outs.append(got)
    replies = ctx.model(lines)
    for c, l, i, m in zip(cases, lines, outs, replies):
        ctx.traces += 1
        if m != "G" and i != m:
            ctx.mismatch(c, i, m, line=l)


def run(ctx):
    import json
    import logging
    logging.getLogger("brz").setLevel(logging.ERROR)
    cdir = os.path.join(env.VERIF, "corpus", "C49")
    if os.path.isdir(cdir):
        for fn in sorted(os.listdir(cdir)):
            if fn.endswith(".json"):
                case = json.load(open(os.path.join(cdir, fn)))
                r = _replay_one(ctx, case)
                ctx.case(case)
                ctx.count("op:corpus")
                if case["op"] != "rt":          # rt is judged (T2 + oracle) inside _replay_one
                    ctx.traces += 1
                    if r["model"] != "O" and r["impl"] != r["model"]:
                        ctx.mismatch(case, r["impl"], r["model"])
    ctx.extra["ignore_parents_cut_variant"] = cut_variant()
    ctx.extra["store_quote_variant"] = quote_variant()
    run_tables(ctx)
    run_helpers(ctx, ctx.pick(500, 5000))
    run_unquote(ctx, ctx.pick(2000, 20000))
    run_quote(ctx, ctx.pick(3000, 40000))
    run_parse_value(ctx, ctx.pick(4000, 50000))
    run_load(ctx, ctx.pick(4000, 50000))
    run_locations(ctx, ctx.pick(1500, 20000))
    run_roundtrip(ctx, ctx.pick(6000, 80000))
    run_location_stack(ctx, ctx.pick(60, 600))


def _replay_one(ctx, case):
    op = case["op"]
    if op == "rt":
        d = env.fresh_dir("rt")
        others = [tuple(x) for x in case["others"]]
        value2 = case.get("value2", "second")
        case = dict(case, value2=value2)
        res = roundtrip_case((d, case["section"], others, "opt", case["value"], value2))
        line = rt_line(case["section"], others, "opt", case["value"], value2)
        m = ctx.model([line])[0]
        judge_roundtrip(ctx, case, res, line, m)
        return dict(impl=_canon_gen(res["g1"]) + ";" + _canon_gen(res["g2"]), model=m, file_after_first_save=res.get("file1"),
                    read_back=res["g1"], read_back_second_generation=res["g2"])
    if op in ("cq0", "cq1"):
        cobj = load_store("")._config_obj
        lv = op == "cq1"
        return dict(impl=real_cquote(cobj, lv, case["value"]), model=ctx.model(["cq %d %s" % (lv, enc(case["value"]))])[0])
    if op == "cqs":
        try:
            impl = "S " + enc(load_store("").quote(case["value"]))
        except Exception as e:
            impl = "E" if type(e).__name__ == "ConfigObjError" else exc_name(e)
        return dict(impl=impl, model=ctx.model(["cq %s %s" % (quote_variant(), enc(case["value"]))])[0])
    if op == "ld":
        return dict(impl=real_load(case["text"]), model=ctx.model(["ld " + enc(case["text"])])[0])
    if op == "sl":
        return dict(impl=",".join(enc(l.rstrip("\r\n")) for l in case["text"].splitlines(True)) or "-",
                    model=ctx.model(["sl " + enc(case["text"])])[0])
    if op == "pv":
        cobj = load_store("")._config_obj
        return dict(impl=real_parse_value(cobj, case["x"], case["rest"]),
                    model=ctx.model(["pv %s %s" % (enc(case["x"]), ",".join(enc(l) for l in case["rest"]) or "-")])[0])
    if op == "wt":
        return dict(impl="tables", model="tables")
    if op == "uq":
        from breezy import config
        store = config.IniFileStore()
        store._load_from_string(b"")
        impl = enc(store.unquote(case["value"]))
        return dict(impl=impl, model=ctx.model(["uq " + enc(case["value"])])[0])
    if op == "locstack":
        from breezy import config
        st = config.LocationStack(case["loc"])
        st.set(case["name"], case["value"])
        st.store.save()
        st.store.unload()
        got = config.LocationStack(case["loc"]).get(case["name"])
        if got != case["value"]:
            _violation(ctx, case, "LocationStack: %r read back as %r" % (case["value"], got))
        return dict(impl=got, model="identity")
    if op in ("jn", "bn"):
        from breezy import urlutils
        if op == "jn":
            return dict(impl=enc(urlutils.join(case["base"], case["extra"])),
                        model=ctx.model(["jn %s %s" % (enc(case["base"]), enc(case["extra"]))])[0])
        return dict(impl=enc(urlutils.basename(case["path"])), model=ctx.model(["bn " + enc(case["path"])])[0])
    if op == "it":
        from breezy import config
        got = ",".join("%s>%s>%d" % (enc(s), enc(x), n)
                       for s, x, n in config._iter_for_location_by_parts(case["ids"], case["loc"])) or "-"
        lp = o_parts(case["loc"])
        want = ",".join("%s>%s>%d" % (enc(s), enc("/".join(lp[len(o_parts(s)):])), len(o_parts(s)))
                        for s in case["ids"] if o_matches(s, case["loc"])) or "-"
        if got != want:
            _violation(ctx, case, "_iter_for_location_by_parts: got %s, documented %s" % (_pp_list(got), _pp_list(want)))
        return dict(impl=_pp_list(got),
                    model=ctx.model(["it %s %s" % (enc(case["loc"]), ",".join(enc(s) for s in case["ids"]) or "-")])[0])
    store = load_store(case["text"])
    secs = parsed_sections(store)
    esecs = enc_sections(secs)
    if op in ("ms", "ss"):
        got = real_sections(store, op, case["loc"])
        if op == "ss":
            oracle_starting(ctx, case, secs, case["loc"], got)
        else:
            oracle_matching(ctx, case, secs, case["loc"], got)
        line = ("ms %s %s %s" % (cut_variant(), enc(case["loc"]), esecs)) if op == "ms" else "ss %s %s" % (enc(case["loc"]), esecs)
        return dict(impl=_pp_list(got), model=_pp_list(ctx.model([line])[0]))
    got = real_get(store, op, case["loc"], case["name"])
    if op == "lm":
        oracle_location(ctx, case, secs, case["loc"], case["name"], got, has_nonlocal_ref(secs))
    else:
        oracle_starting_value(ctx, case, secs, case["loc"], case["name"], got)
    model = ctx.model([_vline(op, case["loc"], case["name"], esecs)])[0]
    return dict(impl=_pp(got), model=_pp(model), sections=secs)


def widen(ctx):
    run_locations(ctx, 3000)
    run_roundtrip(ctx, 10000)


def replay(ctx, case):
    r = _replay_one(ctx, case)
    r["oracle_failures"] = [v["what"] for v in ctx.violations]
    return r
