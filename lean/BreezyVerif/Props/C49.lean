import BreezyVerif.Lemmas.C49
import BreezyVerif.Lemmas.C49F
/-!
C49 — theorems.  Quantified over all locations, all lists of sections (any
number, any glob token lists), all option lists and all values.
-/
namespace BreezyVerif.C49

/-! ### section matching -/

/-- component-wise glob prefix match, as a specification -/
inductive PrefixMatch : List Str → List (List GTok) → Prop where
  | nil (loc : List Str) : PrefixMatch loc []
  | cons {l : Str} {s : List GTok} {ls : List Str} {ss : List (List GTok)} :
      gmatch s l = true → PrefixMatch ls ss → PrefixMatch (l :: ls) (s :: ss)

/-- a section matches a location iff its components are a glob-wise prefix of
the location's components -/
theorem section_match_iff (loc : List Str) (sec : List (List GTok)) :
    compsMatch loc sec = true ↔ PrefixMatch loc sec := by
  induction sec generalizing loc with
  | nil =>
    constructor
    · intro _; exact PrefixMatch.nil loc
    · intro _; simp [compsMatch]
  | cons s ss ih =>
    cases loc with
    | nil =>
      constructor
      · intro h; simp [compsMatch] at h
      · intro h; cases h
    | cons l ls =>
      have hstep : compsMatch (l :: ls) (s :: ss) = (gmatch s l && compsMatch ls ss) := by
        simp only [compsMatch, List.length_cons, List.zip_cons_cons, List.all_cons]
        by_cases hlen : ss.length ≤ ls.length
        · have h1 : ss.length + 1 ≤ ls.length + 1 := by omega
          simp [hlen, h1]
        · have h1 : ¬ ss.length + 1 ≤ ls.length + 1 := by omega
          simp [hlen, h1]
      rw [hstep, Bool.and_eq_true, ih]
      constructor
      · rintro ⟨h1, h2⟩; exact PrefixMatch.cons h1 h2
      · intro h; cases h with
        | cons h1 h2 => exact ⟨h1, h2⟩

theorem PrefixMatch.length_le {loc : List Str} {sec : List (List GTok)} (h : PrefixMatch loc sec) :
    sec.length ≤ loc.length := by
  induction h with
  | nil => simp
  | cons _ _ ih => simp only [List.length_cons]; omega

/-- the extra path is exactly the unmatched suffix: the (right-stripped)
location is the matched components, a `/`, and the extra path — or the
matched components alone when nothing is left (then the extra path is empty) -/
theorem extra_is_unmatched_suffix (location : Str) (sec : List (List GTok))
    (hm : compsMatch (parts location) sec = true) (hs : sec ≠ []) :
    (sec.length < (parts location).length →
      rstripSlash location = joinSlash ((parts location).take sec.length) ++ '/' :: extraPath (parts location) sec.length) ∧
    (sec.length = (parts location).length →
      extraPath (parts location) sec.length = [] ∧ rstripSlash location = joinSlash ((parts location).take sec.length)) := by
  have hle := ((section_match_iff _ _).mp hm).length_le
  have hj : joinSlash (parts location) = rstripSlash location := joinSlash_splitSlash _
  have hpos : 0 < sec.length := List.length_pos_iff.mpr hs
  constructor
  · intro hlt
    rw [← hj]
    conv => lhs; rw [← List.take_append_drop sec.length (parts location)]
    unfold extraPath
    apply joinSlash_append
    · intro h
      have h2 : ((parts location).take sec.length).length = 0 := by rw [h]; rfl
      rw [List.length_take] at h2; omega
    · intro h
      have h2 : ((parts location).drop sec.length).length = 0 := by rw [h]; rfl
      rw [List.length_drop] at h2; omega
  · intro heq
    unfold extraPath
    rw [heq, List.drop_length, List.take_length, hj]
    exact ⟨rfl, rfl⟩

/-- `_iter_for_location_by_parts` yields exactly the matching sections, each
with its unmatched suffix and its number of components, in the given order -/
theorem iter_by_parts_spec (secs : List PSec) (location : Str) :
    iterByParts secs location =
      (secs.filter fun s => compsMatch (parts location) s.comps).map fun s =>
        (s, extraPath (parts location) s.comps.length, s.comps.length) := by
  unfold iterByParts
  induction secs with
  | nil => rfl
  | cons s r ih =>
    simp only [List.filterMap_cons, List.filter_cons]
    by_cases h : compsMatch (parts location) s.comps = true
    · simp [h, ih]
    · simp [h, ih]

/-! ### order -/

/-- the candidates are consulted in order of decreasing number of matched
components (ties: decreasing id) — for every pair of positions -/
theorem most_specific_first (noName : Option (List (Str × Str))) (secs : List PSec) (location : Str) :
    ((matchingSections noName secs location).mergeSort keyGe).Pairwise
      (fun a b => b.1 < a.1 ∨ (a.1 = b.1 ∧ strLe b.2.1 a.2.1 = true)) := by
  have h := List.pairwise_mergeSort (le := keyGe) keyGe_trans keyGe_total (matchingSections noName secs location)
  refine h.imp ?_
  intro a b hab
  simpa [keyGe] using hab

/-- sorting neither loses nor invents a section -/
theorem sorted_is_permutation (noName : Option (List (Str × Str))) (secs : List PSec) (location : Str) :
    ((matchingSections noName secs location).mergeSort keyGe).Perm (matchingSections noName secs location) :=
  List.mergeSort_perm _ _

/-- `Stack.get` returns the (unquoted) value of the FIRST section, in the order
they are consulted, that defines the option -/
theorem value_from_first_defining (secs : List LocSection) (name v : Str)
    (h : stackGet secs name = .val v) :
    ∃ l₁ s l₂ raw, secs = l₁ ++ s :: l₂ ∧ (∀ x ∈ l₁, secGet' x name = none) ∧
      secGet' s name = some raw ∧ v = unquote raw := by
  unfold stackGet at h
  cases hf : secs.findSome? (fun s => secGet' s name) with
  | none => rw [hf] at h; simp at h
  | some raw =>
    rw [hf] at h
    simp only at h
    split at h
    · simp at h
    · obtain ⟨l₁, s, l₂, hsecs, hs, hbefore⟩ := List.findSome?_eq_some_iff.mp hf
      refine ⟨l₁, s, l₂, raw, hsecs, hbefore, hs, ?_⟩
      cases h; rfl

/-- and it is `None` exactly when no consulted section defines it -/
theorem none_iff_no_section_defines (secs : List LocSection) (name : Str) :
    stackGet secs name = .none ↔ ∀ s ∈ secs, secGet' s name = none := by
  unfold stackGet
  cases hf : secs.findSome? (fun s => secGet' s name) with
  | none =>
    constructor
    · intro _; exact List.findSome?_eq_none_iff.mp hf
    · intro _; rfl
  | some raw =>
    have : ¬ ∀ s ∈ secs, secGet' s name = none := by
      intro hall
      have := List.findSome?_eq_none_iff.mpr hall
      rw [hf] at this; simp at this
    simp only [this, iff_false]
    split <;> simp

/-! ### matching uses the FULL location string (segment parameters included) -/

/-- the components a `LocationMatcher` matches against are those of the location
as given: for a location `pre/seg` the last component is the WHOLE last segment
`seg` — with any `,branch=…` / `,k=v` parameters it carries -/
theorem location_keeps_segment_parameters (pre seg : Str) (hne : seg ≠ []) (hns : '/' ∉ seg) :
    parts (pre ++ '/' :: seg) = splitSlash pre ++ [seg] := by
  unfold parts
  rcases List.eq_nil_or_concat seg with h | ⟨init, l, h⟩
  · exact absurd h hne
  · rw [List.concat_eq_append] at h
    have hl : l ≠ '/' := fun e => hns (by rw [h, e]; simp)
    have e : pre ++ '/' :: seg = (pre ++ '/' :: init) ++ [l] := by rw [h]; simp
    rw [e, rstripSlash_concat _ l hl, ← e, splitSlash_append, splitSlash_noslash seg hns]

/-- a section named exactly like the location (parameters included, no glob
characters) matches it completely: all components, empty extra path — so it is
the most specific candidate there can be -/
theorem own_section_matches_completely (location : Str) :
    compsMatch (parts location) ((parts location).map litToks) = true ∧
    extraPath (parts location) ((parts location).map litToks).length = [] := by
  refine ⟨(compsMatch_lits _ _).mpr (List.prefix_refl _), ?_⟩
  simp [extraPath, joinSlash]

/-- … while a section named like the location WITHOUT its parameters does not
match it component-wise (its last component `base` is not the location's last
component `base,params`): stripping the parameters before matching would change
which sections apply -/
theorem stripped_section_does_not_match (pre base params : Str) :
    compsMatch (splitSlash pre ++ [base ++ ',' :: params]) ((splitSlash pre ++ [base]).map litToks) = false := by
  cases h : compsMatch (splitSlash pre ++ [base ++ ',' :: params]) ((splitSlash pre ++ [base]).map litToks) with
  | false => rfl
  | true =>
    have hp := (compsMatch_lits _ _).mp h
    have hlen : (splitSlash pre ++ [base]).length = (splitSlash pre ++ [base ++ ',' :: params]).length := by simp
    have heq := hp.eq_of_length hlen
    have := List.append_cancel_left heq
    simp only [List.cons.injEq, and_true] at this
    have hl := congrArg List.length this
    simp at hl

/-! ### ignore_parents -/

/-- `LocationMatcher.get_sections`: the search goes from the most specific
candidate down and stops AFTER the first section whose `ignore_parents` is true:
what is consulted is a prefix of the sorted candidates, no consulted section but
the last is ignoring, and candidates are dropped only behind an ignoring section -/
theorem ignore_parents_cut (noName : Option (List (Str × Str))) (secs : List PSec) (location : Str) :
    ∃ rest, sortedSections noName secs location = locationSections noName secs location ++ rest ∧
      (∀ a s b, locationSections noName secs location = a ++ s :: b →
        (∀ x ∈ a, ignoring x = false) ∧ (b ≠ [] → ignoring s = false)) ∧
      (rest ≠ [] → ∃ s, (locationSections noName secs location).getLast? = some s ∧ ignoring s = true) :=
  cut_spec _

/-- without any ignoring candidate every candidate is consulted -/
theorem ignore_parents_none (noName : Option (List (Str × Str))) (secs : List PSec) (location : Str)
    (h : ∀ s ∈ sortedSections noName secs location, ignoring s = false) :
    locationSections noName secs location = sortedSections noName secs location := by
  unfold locationSections
  generalize sortedSections noName secs location = l at h
  induction l with
  | nil => rfl
  | cons a r ih =>
    have ha := h a (by simp)
    simp only [cutAfterIgnoring, ha, Bool.false_eq_true, if_false]
    rw [ih (fun s hs => h s (by simp [hs]))]

/-- HISTORICAL: the loop before fix 5b060e5 (`locationSectionsExcl`) consulted
exactly one section less — the first ignoring one -/
theorem ignore_parents_gap (l : List LocSection) :
    cutAfterIgnoring l = l.takeWhile (fun s => !ignoring s) ++ ((l.dropWhile fun s => !ignoring s).head?).toList := by
  induction l with
  | nil => rfl
  | cons s r ih =>
    unfold cutAfterIgnoring
    by_cases h : ignoring s = true
    · simp [h]
    · have h' : ignoring s = false := by simpa using h
      simp [h', ih]

def wSec : PSec := ⟨['/', 'a'], [(ignoreParentsN, ['t', 'r', 'u', 'e']), (['f', 'o', 'o'], ['m', 'i', 'd'])],
  [[], [.lit 'a']], [.lit '/', .lit 'a']⟩

/-- the regression the fix removed, as a machine-checked example: a section `[/a]`
with `ignore_parents = true` and `foo = mid`; at location `/a` the code answers
`mid` (the old loop answered `None`) -/
theorem ignore_parents_own_section_example :
    prepare ['/', 'a'] wSec.opts = some wSec ∧
    stackGet (locationSections none [wSec] ['/', 'a']) ['f', 'o', 'o'] = .val ['m', 'i', 'd'] ∧
    stackGet (locationSectionsExcl none [wSec] ['/', 'a']) ['f', 'o', 'o'] = .none := by
  have hs : sortedSections none [wSec] ['/', 'a'] =
      [⟨some ['/', 'a'], wSec.opts, [], ['a']⟩] := by
    unfold sortedSections
    have : matchingSections none [wSec] ['/', 'a'] =
        [(2, ['/', 'a'], (⟨some ['/', 'a'], wSec.opts, [], ['a']⟩ : LocSection))] := by decide
    rw [this, List.mergeSort_singleton]; rfl
  refine ⟨by decide, ?_, ?_⟩
  · unfold locationSections; rw [hs]; decide
  · unfold locationSectionsExcl; rw [hs]; decide

/-! ### most specific wins (composition) -/

/-- the candidates: the no-name section with key 0, and one entry per named
section that matches, carrying its number of components, its id, the unmatched
suffix of the location and the branch name -/
theorem matching_sections_mem (noName : Option (List (Str × Str))) (secs : List PSec) (location : Str)
    (m : Nat × Str × LocSection) :
    m ∈ matchingSections noName secs location ↔
      (∃ o, noName = some o ∧ m = (0, [], (⟨none, o, location, []⟩ : LocSection))) ∨
      (∃ p ∈ secs, compsMatch (parts location) p.comps = true ∧
        m = (p.comps.length, p.id,
          (⟨some p.id, p.opts, extraPath (parts location) p.comps.length, branchOf location⟩ : LocSection))) := by
  unfold matchingSections
  rw [List.mem_append, iter_by_parts_spec]
  constructor
  · rintro (h | h)
    · left
      cases noName with
      | none => simp at h
      | some o => exact ⟨o, rfl, by simpa using h⟩
    · right
      simp only [List.map_map, List.mem_map, List.mem_filter, Function.comp] at h
      obtain ⟨p, ⟨hp, hm⟩, rfl⟩ := h
      exact ⟨p, hp, hm, rfl⟩
  · rintro (⟨o, rfl, rfl⟩ | ⟨p, hp, hm, rfl⟩)
    · left; simp
    · right
      simp only [List.map_map, List.mem_map, List.mem_filter, Function.comp]
      exact ⟨p, ⟨hp, hm⟩, rfl⟩

/-- MOST SPECIFIC WINS.  If `Stack.get` through a `LocationMatcher` answers `v`,
then `v` is the unquoted value of a candidate `t` (a matching section or the
no-name section) that defines the option, and EVERY candidate that is strictly
more specific than `t` (more matched components, or as many and a larger id)
neither defines the option nor sets `ignore_parents`. -/
theorem most_specific_wins (noName : Option (List (Str × Str))) (secs : List PSec) (location name v : Str)
    (h : stackGet (locationSections noName secs location) name = .val v) :
    ∃ t raw, t ∈ matchingSections noName secs location ∧ secGet' t.2.2 name = some raw ∧ v = unquote raw ∧
      ∀ m ∈ matchingSections noName secs location, keyGe t m = false →
        secGet' m.2.2 name = none ∧ ignoring m.2.2 = false := by
  obtain ⟨l₁, s, l₂, raw, hcut, hundef, hdef, hv⟩ := value_from_first_defining _ _ _ h
  unfold locationSections at hcut
  obtain ⟨hnoign, rest, hsorted⟩ := cut_split _ _ _ _ hcut
  unfold sortedSections at hsorted
  obtain ⟨L₁, L₂', hL, hL₁, hL₂'⟩ := List.map_eq_append_iff.mp hsorted
  obtain ⟨t, L₂, hL₂, hts, _⟩ := List.map_eq_cons_iff.mp hL₂'
  subst hL₂
  have hperm := sorted_is_permutation noName secs location
  have hpw := List.pairwise_mergeSort (le := keyGe) keyGe_trans keyGe_total (matchingSections noName secs location)
  rw [hL] at hperm hpw
  refine ⟨t, raw, ?_, by rw [hts]; exact hdef, hv, ?_⟩
  · exact hperm.subset (by simp)
  · intro m hm hlt
    have hmL : m ∈ L₁ ++ t :: L₂ := hperm.symm.subset hm
    rw [List.pairwise_append] at hpw
    rcases List.mem_append.mp hmL with h1 | h2
    · have hm1 : m.2.2 ∈ l₁ := by rw [← hL₁]; exact List.mem_map.mpr ⟨m, h1, rfl⟩
      exact ⟨hundef _ hm1, hnoign _ hm1⟩
    · rcases List.mem_cons.mp h2 with e | e
      · subst e
        have := keyGe_total m m
        simp only [Bool.or_self] at this
        rw [this] at hlt; cases hlt
      · have := (List.pairwise_cons.mp hpw.2.1).1 m e
        rw [this] at hlt; cases hlt

/-- … and `None` exactly when no consulted candidate defines the option -/
theorem location_none_iff (noName : Option (List (Str × Str))) (secs : List PSec) (location name : Str) :
    stackGet (locationSections noName secs location) name = .none ↔
      ∀ s ∈ locationSections noName secs location, secGet' s name = none :=
  none_iff_no_section_defines _ _

/-! ### LocationSection.get -/

/-- FUEL SUFFICIENCY: the `name:policy:policy…` recursion of `LocationSection.get`
needs one more existing, strictly longer key per level, so it ends within
(number of keys at least as long as `name`) + 1 levels -/
theorem secGet_fuel (s : LocSection) : ∀ (fuel : Nat) (name : Str), cntGe name.length s.opts < fuel →
    ∃ r, secGet fuel s name = some r
  | 0, _, h => absurd h (Nat.not_lt_zero _)
  | fuel + 1, name, h => by
    unfold secGet
    cases hl : lookup name s.opts with
    | none => exact ⟨none, rfl⟩
    | some v =>
      have hc := lookup_cnt hl
      have hlen : (name ++ policySuffix).length = name.length + 7 := by simp [policySuffix]
      obtain ⟨pol, hpol⟩ := secGet_fuel s fuel (name ++ policySuffix) (by rw [hlen]; omega)
      simp only [hpol]
      exact ⟨_, rfl⟩

/-- more fuel never changes an answer -/
theorem secGet_mono (s : LocSection) : ∀ (fuel : Nat) (name : Str) (r : Option Str),
    secGet fuel s name = some r → secGet (fuel + 1) s name = some r
  | 0, _, _, h => by simp [secGet] at h
  | fuel + 1, name, r, h => by
    rw [secGet] at h ⊢
    cases hl : lookup name s.opts with
    | none => rw [hl] at h; exact h
    | some v =>
      rw [hl] at h
      simp only at h ⊢
      cases hp : secGet fuel s (name ++ policySuffix) with
      | none => rw [hp] at h; cases h
      | some pol =>
        rw [hp] at h
        rw [secGet_mono s fuel _ pol hp]
        exact h

theorem secGet_mono_le (s : LocSection) (name : Str) (r : Option Str) (f : Nat) (h : secGet f s name = some r) :
    ∀ k, secGet (f + k) s name = some r
  | 0 => h
  | k + 1 => secGet_mono s (f + k) name r (secGet_mono_le s name r f h k)

/-- `secGet'` (the model of `LocationSection.get` the other theorems use) never
runs out of fuel: its answer is THE answer of the recursion at any sufficient depth -/
theorem secGet'_spec (s : LocSection) (name : Str) (r : Option Str) :
    secGet' s name = r ↔ ∃ fuel, secGet fuel s name = some r := by
  have hsuff : cntGe name.length s.opts < s.opts.length + 2 := by
    have := cntGe_le_length name.length s.opts; omega
  obtain ⟨r0, hr0⟩ := secGet_fuel s (s.opts.length + 2) name hsuff
  have h' : secGet' s name = r0 := by unfold secGet'; rw [hr0]
  constructor
  · intro h; exact ⟨s.opts.length + 2, by rw [hr0, ← h', h]⟩
  · rintro ⟨f, hf⟩
    have e1 := secGet_mono_le s name r f hf (s.opts.length + 2)
    have e2 := secGet_mono_le s name r0 (s.opts.length + 2) hr0 f
    rw [Nat.add_comm] at e2
    rw [e1] at e2
    rw [h']; cases e2; rfl



theorem expand_plain_appendpath (s : LocSection) : expandLocals s appendpathN = appendpathN := by
  rfl

theorem secGet'_unfold (s : LocSection) (name v : Str) (hv : lookup name s.opts = some v) :
    secGet' s name =
      match secGet (s.opts.length + 1) s (name ++ policySuffix) with
      | none => none
      | some pol => some (expandLocals s (if pol = some appendpathN then joinPath v s.extra else v)) := by
  unfold secGet'
  rw [show s.opts.length + 2 = (s.opts.length + 1) + 1 from rfl, secGet, hv]
  simp only
  cases secGet (s.opts.length + 1) s (name ++ policySuffix) with
  | none => rfl
  | some pol => rfl

/-- no policy: the stored value with the section-local references expanded -/
theorem no_policy_plain_value (s : LocSection) (name v : Str)
    (hv : lookup name s.opts = some v) (hp : lookup (name ++ policySuffix) s.opts = none) :
    secGet' s name = some (expandLocals s v) := by
  rw [secGet'_unfold s name v hv]
  have : secGet (s.opts.length + 1) s (name ++ policySuffix) = some none := by
    rw [secGet, hp]
  rw [this]; simp

/-- `opt:policy = appendpath`: the value is joined with the extra path — which
is exactly the unmatched part of the location (`extra_is_unmatched_suffix`) -/
theorem appendpath_value (s : LocSection) (name v : Str)
    (hv : lookup name s.opts = some v)
    (hp : lookup (name ++ policySuffix) s.opts = some appendpathN)
    (hpp : lookup (name ++ policySuffix ++ policySuffix) s.opts = none) :
    secGet' s name = some (expandLocals s (joinPath v s.extra)) := by
  rw [secGet'_unfold s name v hv]
  have hlen := lookup_some_length hv
  have : secGet (s.opts.length + 1) s (name ++ policySuffix) = some (some appendpathN) := by
    rw [secGet, hp]
    simp only
    obtain ⟨n, hn⟩ : ∃ n, s.opts.length = n + 1 := ⟨s.opts.length - 1, by omega⟩
    rw [hn, secGet, hpp]
    simp [expand_plain_appendpath]
  rw [this]; simp

def relpathRef : Str := '{' :: relpathN ++ ['}']
def basenameRef : Str := '{' :: basenameN ++ ['}']
def branchnameRef : Str := '{' :: branchnameN ++ ['}']

/-- `{relpath}` expands to the extra path, `{basename}` to its last component and
`{branchname}` to the branch name, wherever they occur after reference-free text
(`rest` is arbitrary, so this covers every reference of a value whose other text
has no `{`) -/
theorem relpath_basename_expansion (s : LocSection) (pre rest : Str) (hpre : '{' ∉ pre) :
    expandLocals s (pre ++ relpathRef ++ rest) = pre ++ s.extra ++ expandLocals s rest ∧
    expandLocals s (pre ++ basenameRef ++ rest) = pre ++ urlBasenameU s.extra ++ expandLocals s rest ∧
    expandLocals s (pre ++ branchnameRef ++ rest) = pre ++ s.branch ++ expandLocals s rest := by
  induction pre with
  | nil =>
    refine ⟨?_, ?_, ?_⟩
    · simp only [List.nil_append, expandLocals, relpathRef, relpathN, List.cons_append, scanRefs, refStep,
        refIdle, isWordStart, isWord]
      simp [expandChunk, localOf, relpathN]
    · simp only [List.nil_append, expandLocals, basenameRef, basenameN, List.cons_append, scanRefs, refStep,
        refIdle, isWordStart, isWord]
      simp [expandChunk, localOf, relpathN, basenameN]
    · simp only [List.nil_append, expandLocals, branchnameRef, branchnameN, List.cons_append, scanRefs, refStep,
        refIdle, isWordStart, isWord]
      simp [expandChunk, localOf, relpathN, basenameN, branchnameN]
  | cons c pre ih =>
    have hc : c ≠ '{' := fun e => hpre (by simp [e])
    have hpre' : '{' ∉ pre := fun h => hpre (by simp [h])
    obtain ⟨ih1, ih2, ih3⟩ := ih hpre'
    unfold expandLocals at ih1 ih2 ih3 ⊢
    refine ⟨?_, ?_, ?_⟩
    · simp only [List.cons_append]
      rw [scanRefs_idle_plain s c hc, ih1]
    · simp only [List.cons_append]
      rw [scanRefs_idle_plain s c hc, ih2]
    · simp only [List.cons_append]
      rw [scanRefs_idle_plain s c hc, ih3]

/-! ### StartingPathMatcher -/

/-- the sections a StartingPathMatcher yields: later sections of the file first,
a named section iff its id is a string prefix of the location or globs it as a
whole, the no-name section last -/
theorem starting_sections_spec (noName : Option (List (Str × Str))) (secs : List PSec) (location : Str) :
    startingSections noName secs location =
      ((secs.reverse.filter fun s => s.id.isPrefixOf location || gmatch s.whole location).map fun s =>
        (⟨some s.id, s.opts, extraPath (parts location) s.comps.length, []⟩ : LocSection)) ++
      (match noName with
        | some o => [(⟨none, o, location, []⟩ : LocSection)]
        | none => []) := by
  unfold startingSections
  congr 1
  generalize secs.reverse = l
  induction l with
  | nil => rfl
  | cons s r ih =>
    simp only [List.filterMap_cons, List.filter_cons]
    by_cases h : (s.id.isPrefixOf location || gmatch s.whole location) = true
    · simp only [h, if_true]; rw [ih]; rfl
    · simp only [h]; rw [ih]; rfl

/-! ### store round trip: Stack.set → save → load → Stack.get -/

/-- VALUE LEVEL.  For a value without line boundary, without both quote kinds and
without a Unicode blank at an unquoted end (`okValue`): `Stack.set` stores a string
`q1` that `IniFileStore.unquote` maps back to the value, `ConfigObj.write` turns
`q1` into a text `q2` without line boundary, and the parser reads `q2` (after the
`=\s*` of the key line, whatever lines follow) back as exactly `q1`, on one line,
without inline comment — so the stored string is a fixed point of save + load. -/
theorem quote_unquote_partial (v : Str) (h : okValue v = true) :
    ∃ q1 q2, cquote true v = some q1 ∧ unquote q1 = v ∧ cquote false q1 = some q2 ∧
      (∀ c ∈ q2, isLineBreak c = false) ∧
      ∀ rest, parseOptValue (q2.dropWhile isSpace) rest = some (q1, 0, []) := by
  obtain ⟨q1, h1, h2, q2, h3, h4, h5⟩ := quote_reloadable v h
  exact ⟨q1, q2, h1, h2, h3, h4, h5⟩

/-- FILE LEVEL, any number of options.  Options with plain, pairwise different keys
and `okValue` values are set on an empty section (the no-name section or a plainly
named one), the store is saved and loaded again: the load succeeds and yields
exactly these options, in order, in that section, without inline comments, each
un-quoting to the value that was set; and saving the loaded store again writes the
very same file (so every later generation reads the same values).
`fix = false` is the code as it is (hypothesis `okValue`); `fix = true` is the code
with the fix proposed for roundtrip-unicode-blank-at-end, where the hypothesis on the
ends of the value is not needed (`okValueFix`). -/
theorem store_roundtrip_partial (fix : Bool) (sec : Option Str) (hsec : sec.all plainSec = true)
    (opts : List (Str × Str))
    (hk : ∀ o ∈ opts, plainKey o.1 = true) (hnd : (opts.map (·.1)).Nodup)
    (hv : ∀ o ∈ opts, okFor fix o.2 = true) :
    ∃ stored content loaded, quoteAll fix opts = some stored ∧ writeSection sec stored = some content ∧
      loadContent content = .opts loaded ∧
      loaded.map (fun e => (e.sec, e.key, unquote e.raw, e.comment)) = opts.map (fun o => (sec, o.1, o.2, [])) ∧
      writeSection sec (loaded.map fun e => (e.key, e.raw, e.comment)) = some content := by
  obtain ⟨stored, hst, hkeys, hrel, hvals⟩ := quoteAll_ok fix opts hv
  have hall : ∀ s ∈ stored, plainKey s.1 = true ∧ Reloadable s.2.1 ∧ s.2.2 = [] := by
    intro s hs
    have hm : s.1 ∈ opts.map (·.1) := by rw [← hkeys]; exact List.mem_map.mpr ⟨s, hs, rfl⟩
    obtain ⟨o, ho, he⟩ := List.mem_map.mp hm
    exact ⟨by rw [← he]; exact hk o ho, hrel s hs⟩
  have hnd' : (stored.map (·.1)).Nodup := by rw [hkeys]; exact hnd
  have hloaded : ∀ (sec' : Option Str),
      (stored.map fun s => (⟨sec', s.1, s.2.1, []⟩ : Entry)).map (fun e => (e.key, e.raw, e.comment)) = stored := by
    intro sec'
    rw [List.map_map]
    conv => rhs; rw [← List.map_id stored]
    apply List.map_congr_left
    intro s hs
    have := (hall s hs).2.2
    obtain ⟨k, raw, c⟩ := s
    simp only at this; subst this; rfl
  have hvals' : ∀ (sec' : Option Str),
      (stored.map fun s => (⟨sec', s.1, s.2.1, []⟩ : Entry)).map (fun e => (e.sec, e.key, unquote e.raw, e.comment)) =
        opts.map (fun o => (sec', o.1, o.2, [])) := by
    intro sec'
    rw [List.map_map]
    apply List.ext_getElem
    · have := congrArg List.length hkeys; simpa using this
    · intro i h1 h2
      have e1 := congrArg (fun l => l[i]?) hkeys
      have e2 := congrArg (fun l => l[i]?) hvals
      simp only [List.getElem?_map] at e1 e2
      have hi1 : i < stored.length := by simpa using h1
      have hi2 : i < opts.length := by simpa using h2
      rw [List.getElem?_eq_getElem hi1, List.getElem?_eq_getElem hi2] at e1 e2
      simp only [Option.map_some, Option.some.injEq] at e1 e2
      simp [e1, e2]
  cases sec with
  | none =>
    obtain ⟨body, hbody, hparse⟩ := write_parse_opts none [] stored [] hall hnd' (by simp)
    refine ⟨stored, body, _, hst, hbody, ?_, hvals' none, ?_⟩
    · unfold loadContent splitLines; rw [hparse]; rfl
    · rw [hloaded none]; exact hbody
  | some n =>
    have hn : plainSec n = true := by simpa using hsec
    obtain ⟨body, hbody, hparse⟩ := write_parse_opts (some n) [n] stored [] hall hnd' (by simp)
    obtain ⟨ht, hcl, hlb⟩ := classify_header_line hn
    refine ⟨stored, '[' :: n ++ ']' :: '\n' :: body, _, hst, by simp [writeSection, hn, hbody], ?_, hvals' (some n), ?_⟩
    · unfold loadContent splitLines
      have e : '[' :: n ++ ']' :: '\n' :: body = ('[' :: n ++ [']']) ++ '\n' :: body := by simp
      rw [e, splitLinesAux_line _ [] body hlb]
      simp only [List.reverse_nil, List.nil_append]
      simp only [parseLines, ht, Bool.false_eq_true, if_false, hcl]
      simp only [List.contains_nil, List.any_nil, Bool.or_self, Bool.false_eq_true, if_false]
      rw [hparse]; rfl
    · rw [hloaded (some n)]; simp [writeSection, hn, hbody]

/-! the three input families on which the real round trip FAILS, reproduced by the
model (each is also reproduced on the real code by the harness on every run) -/

def optK : Str := ['o', 'p', 't']

/-- the whole round trip of one option in the no-name section: value read back, or `none` -/
def readBack1 (v : Str) (fix : Bool := false) : Option Str :=
  match quoteAll fix [(optK, v)] with
  | none => none
  | some stored =>
    match writeSection none stored with
    | none => none
    | some content =>
      match loadContent content with
      | .opts [e] => some (unquote e.raw)
      | _ => none

/-- WITNESS roundtrip-line-break: the value a-newline-b is stored inside three double
quotes, written inside three single quotes around that, parsed back with the three
double quotes, and un-quoting removes only ONE quote of the three on each side -/
theorem roundtrip_line_break_witness :
    okValue ['a', '\n', 'b'] = false ∧
    readBack1 ['a', '\n', 'b'] = some ['"', '"', 'a', '\n', 'b', '"', '"'] := by decide

/-- WITNESS roundtrip-both-quote-kinds: a value that starts and ends with a single
quote and has a double quote inside comes back without its own quotes; one with both
kinds and a `#` comes back with two extra double quotes on each side -/
theorem roundtrip_both_quote_kinds_witness :
    okValue ['\'', 'a', '"', '\''] = false ∧ readBack1 ['\'', 'a', '"', '\''] = some ['a', '"'] ∧
    readBack1 ['x', '\'', '"', '#'] = some ['"', '"', 'x', '\'', '"', '#', '"', '"'] := by decide

/-- WITNESS roundtrip-unicode-blank-at-end: a no-break space (or U+3000) at an end of
an otherwise unquoted value is not a reason to quote for configobj (wspace_plus),
but the parser's `\s*` strips it -/
theorem roundtrip_unicode_blank_witness :
    okValue ['a', Char.ofNat 0xa0] = false ∧ readBack1 ['a', Char.ofNat 0xa0] = some ['a'] ∧
    okValue [Char.ofNat 0x3000, 'a'] = false ∧ readBack1 [Char.ofNat 0x3000, 'a'] = some ['a'] ∧
    -- … and with the proposed fix both survive
    readBack1 ['a', Char.ofNat 0xa0] true = some ['a', Char.ofNat 0xa0] ∧
    readBack1 [Char.ofNat 0x3000, 'a'] true = some [Char.ofNat 0x3000, 'a'] := by decide

theorem store_set_other_unchanged (opts : List (Str × Str)) (k k' w : Str) (hne : k' ≠ k) :
    lookup k' (setOpt k w opts) = lookup k' opts :=
  lookup_setOpt_other k k' w hne opts

/-- the model of configobj's `_unquote` removes one pair of matching quotes and
leaves text that does not start with a quote alone -/
theorem unquote_quoted (v : Str) :
    unquote ('"' :: v ++ ['"']) = v ∧ unquote ('\'' :: v ++ ['\'']) = v ∧
    (∀ c r, c ≠ '"' → c ≠ '\'' → unquote (c :: r) = c :: r) := by
  refine ⟨?_, ?_, ?_⟩
  · have hl : ('"' :: (v ++ ['"'])).getLast? = some '"' := by
      rw [← List.cons_append]; exact List.getLast?_concat
    simp [unquote, hl]
  · have hl : ('\'' :: (v ++ ['\''])).getLast? = some '\'' := by
      rw [← List.cons_append]; exact List.getLast?_concat
    simp [unquote, hl]
  · intro c r h1 h2
    simp [unquote, h1, h2]

/-! ### non-vacuity -/

-- a matching section with glob components, and its extra path
example : prepare ['/', 'a', '*', '/', '?'] [] =
    some ⟨['/', 'a', '*', '/', '?'], [], [[], [.lit 'a', .star], [.any1]], [.lit '/', .lit 'a', .star, .lit '/', .any1]⟩ := by
  decide
example : compsMatch (parts ['/', 'a', 'b', '/', 'c', '/', 'd', '/']) [[], [.lit 'a', .star], [.any1]] = true ∧
    extraPath (parts ['/', 'a', 'b', '/', 'c', '/', 'd', '/']) 3 = ['d'] ∧
    (3 < (parts ['/', 'a', 'b', '/', 'c', '/', 'd', '/']).length) := by decide
-- hypotheses of appendpath_value
example : let s : LocSection := ⟨some ['/', 'a'], [(['f'], ['v']), (['f'] ++ policySuffix, appendpathN)], ['x', '/', 'y'], []⟩
    lookup ['f'] s.opts = some ['v'] ∧ lookup (['f'] ++ policySuffix) s.opts = some appendpathN ∧
    lookup (['f'] ++ policySuffix ++ policySuffix) s.opts = none ∧
    secGet' s ['f'] = some ['v', '/', 'x', '/', 'y'] := by decide
-- hypothesis of ignore_parents_none holds for a store without ignore_parents …
example : ∀ s ∈ [(⟨some ['/', 'a'], [(['f'], ['v'])], [], []⟩ : LocSection)], ignoring s = false := by decide
-- most_specific_wins: `[/a]` and `[/a/b]` both define `f`; at `/a/b/c` the deeper one answers
def exP1 : PSec := ⟨['/', 'a'], [(['f'], ['1'])], [[], [.lit 'a']], [.lit '/', .lit 'a']⟩
def exP2 : PSec := ⟨['/', 'a', '/', 'b'], [(['f'], ['2'])], [[], [.lit 'a'], [.lit 'b']], [.lit '/', .lit 'a', .lit '/', .lit 'b']⟩
example : prepare ['/', 'a'] [(['f'], ['1'])] = some exP1 ∧ prepare ['/', 'a', '/', 'b'] [(['f'], ['2'])] = some exP2 := by
  decide
example : stackGet (locationSections none [exP2, exP1] ['/', 'a', '/', 'b', '/', 'c']) ['f'] = .val ['2'] := by
  have hm : matchingSections none [exP2, exP1] ['/', 'a', '/', 'b', '/', 'c'] =
      [(3, exP2.id, ⟨some exP2.id, exP2.opts, ['c'], ['c']⟩), (2, exP1.id, ⟨some exP1.id, exP1.opts, ['b', '/', 'c'], ['c']⟩)] := by
    decide
  have hs : sortedSections none [exP2, exP1] ['/', 'a', '/', 'b', '/', 'c'] =
      [⟨some exP2.id, exP2.opts, ['c'], ['c']⟩, ⟨some exP1.id, exP1.opts, ['b', '/', 'c'], ['c']⟩] := by
    unfold sortedSections
    rw [hm, List.mergeSort_of_pairwise (by decide)]; rfl
  unfold locationSections; rw [hs]; decide
-- okValue: a value that needs every kind of care (blank at an end, comma, `#`, one quote kind) …
example : okValue [' ', 'a', ',', '#', '\''] = true ∧ readBack1 [' ', 'a', ',', '#', '\''] = some [' ', 'a', ',', '#', '\''] := by
  decide
-- … and the hypotheses of store_roundtrip_partial for a named section with two options
example : (some ['/', 'a', '/', 'b'] : Option Str).all plainSec = true ∧
    (∀ o ∈ [(optK, [' ', 'x', '#', '"']), (['o', '1'], ([] : Str))], plainKey o.1 = true ∧ okFor false o.2 = true) ∧
    okFor true [Char.ofNat 0xa0, 'a'] = true ∧
    ([(optK, [' ', 'x', '#', '"']), (['o', '1'], ([] : Str))].map (·.1)).Nodup := by decide
-- … and expansion
example : expandLocals ⟨none, [], ['x', '/', 'y'], ['b']⟩ (['p', '-'] ++ relpathRef ++ ['.'] ++ basenameRef)
    = ['p', '-', 'x', '/', 'y', '.', 'y'] := by decide

-- segment parameters: the branch name comes from `,branch=…`, else from the basename;
-- a sub-segment without `=` is an InvalidURL
example : segBranch ['/', 'r', '/', ',', 'b', 'r', 'a', 'n', 'c', 'h', '=', 'f'] = .fromParam ['f'] ∧
    branchOf ['/', 'r', '/', 'b', ',', 'q', '=', '1'] = ['b', ',', 'q', '=', '1'] ∧
    segBranch ['/', 'a', ',', 'b'] = .invalid ∧
    segBranch ['/', 'a', ',', 'b', 'r', 'a', 'n', 'c', 'h', '=', 'x', '/', 'c'] = .noParam := by decide
-- hypotheses of location_keeps_segment_parameters for `/r/b,branch=f`
example : (['b', ',', 'b', 'r', 'a', 'n', 'c', 'h', '=', 'f'] : Str) ≠ [] ∧ '/' ∉ (['b', ',', 'b', 'r', 'a', 'n', 'c', 'h', '=', 'f'] : Str) := by
  decide

end BreezyVerif.C49
