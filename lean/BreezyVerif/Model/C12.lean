/-
C12 — tree-changing commands never silently discard uncommitted work.

Per-file decision functions of
* `breezy/transform.py:_alter_files` (the `keep_content` decision of revert and
  what is done with the working file),
* `osutils.available_backup_name` (crates/osutils/src/path.rs) as used by
  `TreeTransform._available_backup_name` and `BzrDir._available_backup_name`,
* `InventoryWorkingTree.remove` / `GitWorkingTree.remove` (what happens to a
  file when its path, or a directory above it, is removed),
* the content decision of `Merge3Merger` for a file both sides may have changed,
* one directory listing and what the backup action (rename to the first free
  `name.~k~`, create the new contents under the old name) does to it.
`uncommit` is not modelled: that it writes nothing below the tree root is checked
on the real command only (read-only guard of harness/checks/c12.py).
-/
namespace BreezyVerif.C12

inductive Kind where
  | file | dir | symlink
  deriving DecidableEq, Repr

/-- what can happen to the bytes of a working file -/
inductive Fate where
  | kept        -- still in a file of the tree (possibly unversioned, possibly moved)
  | backup      -- moved to a numbered backup file `name.~N~`
  | helper      -- written to a conflict helper file (`name.THIS`)
  | merged      -- the file holds the clean three-way merge of the local and the incoming change
  | gone        -- exist nowhere below the tree root any more
  deriving DecidableEq, Repr

/-! ### revert -/

/-- the attributes of one changed entry that `_alter_files` reads -/
structure RevertIn where
  changedContent : Bool          -- `change.changed_content`
  wtKind : Option Kind           -- `change.kind[1]`
  backups : Bool
  targetKind : Option Kind       -- `change.kind[0]`
  targetVersioned : Bool         -- `change.versioned[0]`
  mergeModifiedIsWt : Bool       -- `merge_modified.get(wt_path) == wt_sha1`
  basisPresent : Bool            -- `basis_inter.find_source_path(wt_path) is not None`
  basisIsWt : Bool               -- `wt_sha1 == basis_tree.get_file_sha1(basis_path)`
  deriving DecidableEq, Repr

/-- code variant: what `_alter_files` does when the working file's id is absent
from the basis: `true` = keep the content whenever a backup / keep was possible
(proposed fix), `false` = only when the target has nothing there (pinned source) -/
structure Flags where
  keepWhenNoBasis : Bool
  deriving DecidableEq, Repr

/-- the `keep_content` decision -/
def keepContent (fl : Flags) (i : RevertIn) : Bool :=
  if i.wtKind = some .file && (i.backups || i.targetKind.isNone) then
    if !i.mergeModifiedIsWt then
      if !i.basisPresent then
        (if fl.keepWhenNoBasis then true else i.targetKind.isNone && !i.targetVersioned)
      else !i.basisIsWt
    else false
  else false

inductive RevertAction where
  | nothing             -- content not touched
  | deleteContents      -- `tt.delete_contents(trans_id)`
  | backupAndReplace    -- renamed to an available backup name, new contents created under the old name
  | keepInPlace         -- left where it is (it only becomes unversioned)
  deriving DecidableEq, Repr

def revertAction (fl : Flags) (i : RevertIn) : RevertAction :=
  if !i.changedContent then .nothing
  else if i.wtKind.isNone then .nothing
  else if !keepContent fl i then .deleteContents
  else if i.targetKind.isSome then .backupAndReplace
  else .keepInPlace

def revertFate (fl : Flags) (i : RevertIn) : Fate :=
  match revertAction fl i with
  | .nothing => .kept
  | .deleteContents => .gone
  | .backupAndReplace => .backup
  | .keepInPlace => .kept

/-- the working file holds something that exists nowhere else: it is a file, it
differs from the basis (or the basis does not have it) and it was not written by
a merge -/
def userEdited (i : RevertIn) : Bool :=
  i.wtKind = some .file && !i.mergeModifiedIsWt && (!i.basisPresent || !i.basisIsWt)

/-! ### backup names -/

/-- `available_backup_name(base, exists)`: `base.~1~`, `base.~2~`, … until one does
not exist.  `cand k` is the k-th candidate, `taken` what exists; `fuel` bounds the
loop (the real loop is unbounded; `taken.length + 1` steps always suffice). -/
def firstFree {α : Type} [DecidableEq α] (cand : Nat → α) (taken : List α) : Nat → Nat → Option Nat
  | 0, _ => none
  | fuel + 1, k => if taken.contains (cand k) then firstFree cand taken fuel (k + 1) else some k

def backupCand (base : String) (k : Nat) : String := base ++ ".~" ++ toString k ++ "~"

def availableBackupName (base : String) (taken : List String) : Option String :=
  (firstFree (backupCand base) taken (taken.length + 1) 1).map (backupCand base)

/-! ### remove -/

inductive Role where
  | selected            -- the path was given (or is a versioned path below a given directory)
  | nestedUnversioned   -- an unversioned file below a given directory
  deriving DecidableEq, Repr

structure RemoveIn where
  keep : Bool
  force : Bool
  role : Role
  wtVersioned : Bool      -- `self.path2id(f)` is not None: the path is versioned in the working tree
  inBasis : Bool          -- `change.versioned[0]` of the record that names the working path (true if no record does)
  changedContent : Bool   -- `change.changed_content and change.kind[1] is not None`
  deriving DecidableEq, Repr

/-- code variant of `InventoryWorkingTree.remove`: does the deletion step itself refuse to delete a
path that is not versioned in the working tree (`f in files_to_backup or (not fid and not force)`,
proposed fix), or does it rely on the `iter_changes` records alone (`false`, the source as it is) -/
structure RemoveFlags where
  backupUnversioned : Bool
  deriving DecidableEq, Repr

/-- is the file in `files_to_backup`? -/
def toBackup (i : RemoveIn) : Bool := !i.keep && !i.force && (!i.inBasis || i.changedContent)

/-- the fate of an existing regular file -/
def removeFateV (fl : RemoveFlags) (i : RemoveIn) : Fate :=
  if i.keep then .kept
  else match i.role with
    | .selected =>
      if toBackup i || (fl.backupUnversioned && !i.wtVersioned && !i.force) then .backup else .gone
    | .nestedUnversioned =>
      -- it stays in its directory; the non-empty directory is renamed to a backup name,
      -- or removed recursively with `force`
      if i.force then .gone else .backup

/-- the source as it is: the `iter_changes` records alone decide -/
def removeFate (i : RemoveIn) : Fate := removeFateV { backupUnversioned := false } i

/-! ### merge -/

structure MergeIn where
  thisChanged : Bool      -- THIS differs from BASE
  otherChanged : Bool     -- OTHER differs from BASE (and still exists)
  otherDeleted : Bool
  sameChange : Bool       -- THIS = OTHER
  textConflict : Bool     -- merge3 reports overlapping changes
  deriving DecidableEq, Repr

/-- the fate of the THIS text -/
def mergeFate (i : MergeIn) : Fate :=
  if !i.thisChanged then (if i.otherChanged || i.otherDeleted then .gone else .kept)
  else if i.otherDeleted then .kept               -- contents conflict: THIS stays (as `name.THIS`)
  else if !i.otherChanged || i.sameChange then .kept
  else if i.textConflict then .helper
  else .merged

/-! ### merge hashes (`merge_modified`) -/

/-- what an incoming revision does to one file, as far as `Merge3Merger.write_modified` is concerned -/
structure RecordIn where
  otherChangedContent : Bool   -- the text differs between BASE and OTHER: the merge writes a text
  otherAdded : Bool            -- the file is new in OTHER: the merge writes it
  onlyMoved : Bool             -- OTHER only renames / moves the file
  deriving DecidableEq, Repr

/-- is the path recorded in `merge-hashes` ("written by merge") after the merge?  Only paths
whose *contents* the transform created (`apply().modified_paths`) -/
def mergeRecords (i : RecordIn) : Bool := i.otherChangedContent || i.otherAdded

/-- the inputs of a later revert for a file that went through a merge-like command: the
`merge_modified` test of `_alter_files` succeeds only for a recorded path that was not edited since -/
def afterMerge (r : RecordIn) (editedSince : Bool) (i : RevertIn) : RevertIn :=
  { i with mergeModifiedIsWt := mergeRecords r && !editedSince }

/-! ### one directory of the tree: what the backup action does to it -/

/-- the entries of one directory: names with what is stored under them (bytes; any payload) -/
abbrev Listing (β : Type) := List (String × β)

def names {β : Type} (d : Listing β) : List String := d.map Prod.fst

def contents {β : Type} (d : Listing β) : List β := d.map Prod.snd

/-- rename the entry `name` to the first free `name.~k~`, looking at every name of the directory
(`tt.adjust_path(tt._available_backup_name(name, parent), parent, trans_id)` in `_alter_files`;
`osutils.rename(path, controldir._available_backup_name(path))` in `WorkingTree.remove`).
Returns the chosen name and the new listing. -/
def renameToBackup {β : Type} (d : Listing β) (name : String) : Option (String × Listing β) :=
  match availableBackupName name (names d) with
  | none => none
  | some b => some (b, d.map (fun e => if e.1 = name then (b, e.2) else e))

/-- the `backupAndReplace` action of revert: the working file is renamed to the backup name and the
target's contents `new` are created under the old name -/
def backupAndReplace {β : Type} (d : Listing β) (name : String) (new : β) : Option (Listing β) :=
  (renameToBackup d name).map (fun r => (name, new) :: r.2)

/-- the effect of one changed entry of `_alter_files` on the directory that holds the working file
`name`; `new` is what the target has for it (used only when `targetKind` is some kind) -/
def revertDir {β : Type} (fl : Flags) (i : RevertIn) (d : Listing β) (name : String) (new : β) : Option (Listing β) :=
  match revertAction fl i with
  | .nothing => some d
  | .keepInPlace => some d
  | .deleteContents =>
    let d' := d.filter (fun e => e.1 ≠ name)
    some (if i.targetKind.isSome then (name, new) :: d' else d')
  | .backupAndReplace => backupAndReplace d name new

/-- the effect of `WorkingTree.remove` on the directory that holds the selected file `name` -/
def removeDir {β : Type} (i : RemoveIn) (d : Listing β) (name : String) : Option (Listing β) :=
  if i.keep then some d
  else if toBackup i then (renameToBackup d name).map (·.2)
  else some (d.filter (fun e => e.1 ≠ name))

end BreezyVerif.C12
