"""C05 — concurrent pack writers and packers never lose committed data.

Mechanism (breezy/bzr/pack_repo.py): _diff_pack_names / _save_pack_names (three-way
merge of pack-names under the names lock), reload_pack_names /
_syncronize_pack_names_from_disk_nodes (memory resynchronisation), _restart_autopack /
_restart_pack_operations with RetryAutopack / RetryPackOperations (retry on vanished
packs), _execute_pack_operations / _obsolete_packs (obsolete strictly after the save),
_clear_obsolete_packs(preserve).

T2: two or three real Repository objects are opened on the same directory in this
    process, one thread each, each running a short program (fetch k revisions of its
    own history = a write group | pack() | read everything).  The phase boundaries
    reload_pack_names, GCPack.finish, _save_pack_names and _obsolete_packs block on a
    baton: exactly one thread runs at a time and the harness decides who runs next, so
    the real code executes exactly the schedule under test.  Every phase the real code
    performs is logged as an action of the Lean model (reload | finish revs | repack
    packs | save clear | obsolete) and after every action pack-names, the listings of
    packs/ indices/ obsolete_packs/ and every process' in-memory _names and
    _packs_at_load are compared with the model state (`exec`).  ALL schedules of
    several 2-actor program pairs are enumerated (stateless depth-first search over
    the baton choices, `exhaustive`); 3-actor programs are sampled.
Oracle (independent of the model): no operation may fail; a reader must see every
    revision whose write group had committed before the reader started and nothing
    that was never committed, with every text readable (reload-and-retry inside the
    real code); at the end of every schedule a fresh Repository.open must list exactly
    the initial revisions plus those of every completed fetch, all trees and texts
    readable and equal to the source of truth, check() clean, every listed pack's
    files present.

Excluded input of the model, still run under the oracle: two processes writing byte-identical packs
(two packers combining the same packs: same content hash = same pack name); counted as
`excluded:same-pack-name-written-twice`.

Mutants this was built against (scratch worktrees):
 A  _diff_pack_names: disk_nodes = set(current_nodes) (plain overwrite, no merge)       -> oracle: a concurrent commit is lost (schedule [0,1,1,0,0,0,1,1] of fetch||fetch)
 B  _save_pack_names: _packs_at_load not updated after the save                          -> T2 only (in-memory state; healed by the reload at the next lock)
 C  reload_pack_names: _packs_at_load = disk_nodes (pending names counted as loaded)     -> oracle: the save after an autopack retry drops the process' own new pack
 D  _execute_pack_operations: _obsolete_packs before _save_pack_names                    -> oracle: a concurrent fetch finds listed packs gone (NoSuchFile)
 E  _restart_autopack/_restart_pack_operations: retry signal dropped (reload; raise)     -> oracle: autopack fails when another process obsoleted its sources
 F  _syncronize_pack_names_from_disk_nodes: removed packs kept in memory                 -> T2 + oracle (autopack retry sees "nothing changed" and fails)
 G  _clear_obsolete_packs: `preserve` ignored                                            -> T2 only (listing of obsolete_packs/; not observable by readers)
 harmless: set comprehensions / set algebra in _diff_pack_names, renamed locals -> clean.
"""
import os
import shutil
import threading

from vlib import env
from checks import c04

THEOREMS = [
    "save_is_threeway_merge", "save_synchronises", "committed_data_kept", "listed_data_kept",
    "listed_pack_findable", "reload_finds_data", "mem_run_deletes", "clear_preserves_just_obsoleted",
    "save_skips_already_obsolete", "overwrite_loses_witness",
]
RULE = ("case = (initial collection: chunk sizes, programs of 2 or 3 actors out of fetch k | pack | read, one complete "
        "schedule = the sequence of baton choices); all schedules of the 2-actor program pairs are enumerated, 3-actor "
        "schedules are sampled; non-trivial = at least two actors performed a phase between another actor's load and "
        "save; distinct by (initial collection, programs, schedule)")
ASSUMPTIONS = [
    "interleaving granularity is the phase (reload, finish, save, obsolete); _save_pack_names up to the unlock is atomic "
    "because it runs under the names lock (LockDir, property C26)",
    "pack names of different processes' new packs differ (content hashes of different content); identical concurrent "
    "fetches are outside the model",
]
TRUSTED = [
    "threads of one process stand for separate processes (each has its own Repository object, transports and pack "
    "collection; nothing is shared but the directory)",
    "the control flow between phases (which phase comes next, retries) is taken from the real execution; the model "
    "checks the state effect of every phase and the theorems cover every phase sequence",
]

FMT = "2a"
_tls = threading.local()


class Abort(BaseException):
    pass


# --------------------------------------------------------------------------
# the world: one execution of one schedule

class World:
    def __init__(self, path, nactors):
        self.path = path
        self.repo_dir = os.path.join(path, ".bzr", "repository")
        self.actors = []
        self.cv = threading.Condition()
        self.running = None          # the actor allowed to run
        self.actions = []            # (actor, kind, arg)   in global order
        self.states = []             # real state after each action
        self.pending = None          # an action whose post-state has not been captured yet
        self.names_seen = {}
        self.aborted = False

    # ---- state capture ---------------------------------------------------
    def disk_names(self):
        from bzrformats import btree_index
        from breezy import transport as _t
        t = _t.get_transport_from_path(self.repo_dir)
        idx = btree_index.BTreeGraphIndex(t, "pack-names", None)
        return sorted(k[0].decode("ascii") for (_i, k, _v) in idx.iter_all_entries())

    def capture(self):
        names = self.disk_names()
        lst = [e for e in c04.listing(self.path) if e[0] != "u"]
        procs = []
        for a in self.actors:
            pc = a.repo._pack_collection if a.repo is not None else None
            if pc is None or pc._names is None:
                procs.append((False, [], []))
            else:
                procs.append((True, sorted(pc._names.keys()), sorted(n for (n, _v) in (pc._packs_at_load or ()))))
        return (names, lst, procs)

    def flush(self):
        """capture the post-state of the last logged action (called by the running actor before it logs
        the next action, before it blocks at a gate, and when it finishes)"""
        if self.pending is not None:
            self.states.append(self.capture())
            self.pending = None

    def log(self, actor, kind, arg=None):
        self.flush()
        self.actions.append((actor.idx, kind, arg))
        self.pending = True


class Actor(threading.Thread):
    def __init__(self, world, idx, program, src):
        super().__init__(daemon=True)
        self.world, self.idx, self.program, self.src = world, idx, program, src
        self.repo = None
        self.gate = "start"          # where the actor is blocked; None = running; "done" = finished
        self.error = None
        self.results = []            # per command
        self.upto = -1
        self.packer = None
        self.in_save = False
        self.save_logged = False
        self.committed_revs = []     # revisions of completed fetches
        self.steps = 0

    # ---- baton -------------------------------------------------------------
    def wait_turn(self, kind):
        w = self.world
        with w.cv:
            w.flush()
            self.gate = kind
            w.running = None
            w.cv.notify_all()
            while w.running is not self and not w.aborted:
                w.cv.wait()
            if w.aborted:
                raise Abort()
            self.gate = None
            self.steps += 1

    def run(self):
        _tls.actor = self
        from breezy.repository import Repository
        w = self.world
        try:
            self.wait_turn("start")
            self.repo = Repository.open(w.path)
            for cmd in self.program:
                self.run_command(cmd)
        except Abort:
            pass
        except BaseException as e:       # noqa: an operation failed under this schedule
            import traceback
            self.error = "%s: %s | %s" % (type(e).__name__, str(e)[:160],
                                          " <- ".join(l.strip().split("\n")[0][-60:] for l in traceback.format_tb(e.__traceback__)[-4:]))
        finally:
            with w.cv:
                try:
                    w.flush()
                except Exception as e:
                    self.error = (self.error or "") + " capture failed: %r" % (e,)
                self.gate = "done"
                w.running = None
                w.cv.notify_all()
            _tls.actor = None

    def run_command(self, cmd):
        from breezy.repository import Repository
        w = self.world
        if cmd[0] == "fetch":
            s = Repository.open(self.src["root"])
            upto = self.upto + cmd[1]
            self.repo.fetch(s, revision_id=self.src["ids"][upto])
            self.committed_revs += self.src["ids"][self.upto + 1: upto + 1]
            self.upto = upto
            self.results.append(("fetch", cmd[1]))
        elif cmd[0] == "pack":
            self.repo.pack()
            self.results.append(("pack",))
        elif cmd[0] == "read":
            must = set(w.committed_now())
            with self.repo.lock_read():
                ids = sorted(self.repo.all_revision_ids())
                dg = c04.digest_all(self.repo, ids)
            self.results.append(("read", ids, sorted(must), dg))


def _world_committed_now(self):
    out = list(self.initial_revs)
    for a in self.actors:
        out += a.committed_revs
    return out


World.committed_now = _world_committed_now


# --------------------------------------------------------------------------
# gates: wrappers around the phase boundaries of the real code

_installed = False


def _actor_of(coll):
    """the running actor, if `coll` is the pack collection of ITS repository object (an actor also
    opens its own source repository, whose phases are not part of the schedule)"""
    a = getattr(_tls, "actor", None)
    if a is None or a.repo is None or coll is not a.repo._pack_collection:
        return None
    return a


def install():
    global _installed
    if _installed:
        return
    from breezy.bzr import pack_repo, groupcompress_repo
    RPC = pack_repo.RepositoryPackCollection

    o_reload = RPC.reload_pack_names

    def reload_pack_names(self):
        a = _actor_of(self)
        if a is None:
            return o_reload(self)
        a.wait_turn("reload")
        a.world.log(a, "r")
        return o_reload(self)
    RPC.reload_pack_names = reload_pack_names

    o_finish = groupcompress_repo.GCPack.finish

    def finish(self, *args, **kw):
        a = _actor_of(getattr(self, "_pack_collection", None))
        if a is None or kw.get("suspend") or (args and args[0]):
            return o_finish(self, *args, **kw)
        a.wait_turn("finish")
        return o_finish(self, *args, **kw)
    groupcompress_repo.GCPack.finish = finish

    o_allocate = RPC.allocate

    def allocate(self, a_new_pack):
        a = _actor_of(self)
        r = o_allocate(self, a_new_pack)
        if a is not None:
            if a.packer is not None:
                a.world.log(a, "k", (a_new_pack.name, [p.name for p in a.packer.packs]))
            else:
                revs = sorted(k[0] for (_i, k, _v, _r) in a_new_pack.revision_index.iter_all_entries())
                a.world.log(a, "f", (a_new_pack.name, revs))
        return r
    RPC.allocate = allocate

    o_pack = pack_repo.Packer.pack

    def pack(self, pb=None):
        a = _actor_of(self._pack_collection)
        if a is None:
            return o_pack(self, pb)
        a.packer = self
        try:
            return o_pack(self, pb)
        finally:
            a.packer = None
    pack_repo.Packer.pack = pack

    o_save = RPC._save_pack_names

    def _save_pack_names(self, clear_obsolete_packs=False, obsolete_packs=None):
        a = _actor_of(self)
        if a is None:
            return o_save(self, clear_obsolete_packs, obsolete_packs)
        a.wait_turn("save")
        a.in_save, a.save_logged, a.save_clear = True, False, bool(clear_obsolete_packs)
        try:
            r = o_save(self, clear_obsolete_packs, obsolete_packs)
        finally:
            a.in_save = False
        if not a.save_logged:
            a.world.log(a, "s", a.save_clear)
            a.save_logged = True
        return r
    RPC._save_pack_names = _save_pack_names

    o_obs = RPC._obsolete_packs

    def _obsolete_packs(self, packs):
        a = _actor_of(self)
        if a is None:
            return o_obs(self, packs)
        if a.in_save and not a.save_logged:
            a.world.log(a, "s", a.save_clear)
            a.save_logged = True
        a.wait_turn("obsolete")
        a.world.log(a, "o")
        return o_obs(self, packs)
    RPC._obsolete_packs = _obsolete_packs
    _installed = True


# --------------------------------------------------------------------------
# running one schedule

_sources = {}


def actor_source(i):
    """an own linear history per actor (disjoint revision ids and file contents)"""
    if i in _sources:
        return _sources[i]
    wt = env.make_tree(FMT)
    root = wt.basedir
    ids = []
    for k in range(14):
        fn = "a%d_%d" % (i, k % 2)
        new = not os.path.exists(os.path.join(root, fn))
        with open(os.path.join(root, fn), "a") as f:
            f.write("actor %d line %d\n" % (i, k))
        if new:
            wt.add([fn])
        ids.append(wt.commit("actor %d rev %d" % (i, k), rev_id=("a%d-r%02d" % (i, k)).encode()))
    repo = wt.branch.repository
    with repo.lock_read():
        truth = c04.digest_all(repo, ids)
    _sources[i] = dict(root=root, ids=ids, truth=truth)
    return _sources[i]


_bases = {}


def base_repo(chunks):
    """the initial repository: the base history fetched in the given chunks (one pack each)"""
    key = tuple(chunks)
    if key in _bases:
        return _bases[key]
    src = actor_source(99)
    from breezy.controldir import ControlDir, format_registry
    from breezy.repository import Repository
    path = env.fresh_dir("c05b")
    cd = ControlDir.create(path, format=format_registry.make_controldir(FMT))
    cd.create_repository()
    upto = -1
    for k in chunks:
        upto += k
        Repository.open(path).fetch(Repository.open(src["root"]), revision_id=src["ids"][upto])
    # no leftovers of the preparation in obsolete_packs/ (autopack while building)
    _bases[key] = (path, src["ids"][: upto + 1])
    return _bases[key]


def run_schedule(case, choices, timeout=60):
    """execute `case` (chunks, programs) following the baton choices; when the choices are used up the
    lowest runnable actor is taken.  Returns a dict with the decision trace and everything observed."""
    install()
    chunks, programs = case["chunks"], case["programs"]
    base, init_revs = base_repo(chunks)
    path = env.fresh_dir("c05w")
    os.rmdir(path)
    shutil.copytree(base, path)
    w = World(path, len(programs))
    w.initial_revs = list(init_revs)
    for i, prog in enumerate(programs):
        w.actors.append(Actor(w, i, prog, actor_source(i)))
    init_state = w.capture()
    for a in w.actors:
        a.start()
    decisions = []      # (chosen, runnable list)
    k = 0
    ok = True
    with w.cv:
        while True:
            # wait until nobody runs
            while w.running is not None:
                if not w.cv.wait(timeout):
                    ok = False
                    break
            if not ok:
                break
            runnable = [a.idx for a in w.actors if a.gate not in (None, "done")]
            if not runnable:
                break
            if k < len(choices) and choices[k] in runnable:
                ch = choices[k]
            else:
                ch = runnable[0]
            decisions.append((ch, runnable))
            k += 1
            w.running = w.actors[ch]
            w.cv.notify_all()
        if not ok:
            w.aborted = True
            w.cv.notify_all()
    for a in w.actors:
        a.join(5)
    res = dict(case=case, decisions=decisions, hung=not ok,
               errors=[(a.idx, a.error) for a in w.actors if a.error],
               actions=w.actions, states=w.states, init_state=init_state,
               results=[a.results for a in w.actors], steps=[a.steps for a in w.actors])
    # ---- final oracle ---------------------------------------------------------
    expected = set(init_revs)
    truth = dict(actor_source(99)["truth"])
    for a in w.actors:
        expected |= set(a.committed_revs)
        truth.update(a.src["truth"])
    fin = c04.inspect(path, truth)
    res["final"] = dict(revs=fin["revs"], problems=fin["problems"], names=fin["names"])
    res["expected"] = sorted(expected)
    # every listed pack has its files
    missing = []
    have = {(ch, st, ex) for (ch, st, ex) in c04.listing(path)}
    for n in fin["names"] or []:
        for ch, ex in (("p", "pack"), ("i", "rix"), ("i", "iix"), ("i", "tix"), ("i", "six"), ("i", "cix")):
            if (ch, n, ex) not in have:
                missing.append("%s.%s" % (n, ex))
    res["missing_files"] = missing
    res["all_truth_keys"] = None
    shutil.rmtree(path, ignore_errors=True)
    return res


# --------------------------------------------------------------------------
# canonicalisation and the model line

def model_io(res):
    """-> (request line, implementation string) for the Lean driver"""
    names0, lst0, _p = res["init_state"]
    num = {}
    for n in names0:
        num[n] = len(num)
    for (_c, st, _e) in sorted(lst0):
        if st not in num:
            num[st] = len(num)
    nxt = len(num) + 5
    revnum = {}

    def rn(r):
        if r not in revnum:
            revnum[r] = len(revnum)
        return revnum[r]
    # content of the initial packs: read from the base repository
    content = res["case"].get("_content") or {}
    sched = []
    k = 0
    allocated = [a[2][0] for a in res["actions"] if a[1] in ("f", "k")]
    res["same_name_twice"] = len(set(allocated)) != len(allocated) or any(n in num for n in allocated)
    for (idx, kind, arg) in res["actions"]:
        if kind == "r":
            sched.append("%d:r" % idx)
        elif kind == "f":
            name, revs = arg
            num[name] = nxt + 2 * k + 1
            k += 1
            sched.append("%d:f:%s" % (idx, ".".join(str(rn(r)) for r in revs) or "-"))
        elif kind == "k":
            name, sel = arg
            num[name] = nxt + 2 * k + 1
            k += 1
            sched.append("%d:k:%s" % (idx, ".".join(str(num.get(s, 9999)) for s in sel) or "-"))
        elif kind == "s":
            sched.append("%d:s:%s" % (idx, "T" if arg else "F"))
        elif kind == "o":
            sched.append("%d:o" % idx)

    def tok(e):
        ch, st, ex = e
        return "%s%d.%s" % (ch, num.get(st, 9998), ex)

    def fmt_state(st):
        names, lst, procs = st
        s = "%s|%s" % (",".join(map(str, sorted(num.get(n, 9997) for n in names))) or "-",
                       ",".join(sorted(tok(e) for e in lst)) or "-")
        for (loaded, ns, al) in procs:
            s += "#%s~%s~%s" % ("L" if loaded else "N",
                                ",".join(map(str, sorted(num.get(n, 9996) for n in ns))) or "-",
                                ",".join(map(str, sorted(num.get(n, 9996) for n in al))) or "-")
        return s
    files0 = ",".join(sorted(tok(e) for e in lst0)) or "-"
    cont = ";".join("%d:%s" % (num[n], ".".join(str(rn(r)) for r in revs))
                    for n, revs in sorted(content.items()) if n in num) or "-"
    line = "exec T %s %s %s %d %d %s" % (",".join(map(str, sorted(num[n] for n in names0))) or "-", files0, cont,
                                         nxt, len(res["case"]["programs"]), ";".join(sched) or "-")
    impl = "/".join(fmt_state(s) for s in [res["init_state"]] + res["states"])
    return line, impl


def canon_model_reply(m, nprocs):
    """drop what is not observable on the real side: upload files, torn list, lock flag, toObsolete"""
    states, _, _vis = m.rpartition(" ")
    out = []
    for st in states.split("/"):
        parts = st.split("#")
        d = parts[0].split("|")
        files = [t for t in d[1].split(",") if t != "-" and not t.startswith("u")]
        s = "%s|%s" % (d[0], ",".join(files) or "-")
        for p in parts[1:]:
            f = p.split("~")
            s += "#%s~%s~%s" % (f[0] if f[1] != "-" or f[2] != "-" or f[0] == "L" else "N", f[1], f[2])
        out.append(s)
    return "/".join(out)


def pack_content(chunks):
    """{pack name: [revision ids]} of the base repository"""
    from breezy.repository import Repository
    base, _revs = base_repo(chunks)
    r = Repository.open(base)
    out = {}
    with r.lock_read():
        for p in r._pack_collection.all_packs():
            out[p.name] = sorted(k[0] for (_i, k, _v, _r) in p.revision_index.iter_all_entries())
    return out


# --------------------------------------------------------------------------
# exploring schedules

def explore(case, limit, root=()):
    """depth-first enumeration of all baton choice sequences that start with `root` (stateless: every
    schedule is executed from a fresh copy); returns (list of results, complete?)"""
    results = []
    stack = [list(root)]
    seen = 0
    while stack and seen < limit:
        prefix = stack.pop()
        res = run_schedule(case, prefix)
        results.append(res)
        seen += 1
        dec = res["decisions"]
        # branch on every later decision point that had an alternative
        for j in range(len(dec) - 1, len(prefix) - 1, -1):
            ch, runnable = dec[j]
            for alt in runnable:
                if alt != ch and alt > ch:
                    stack.append([d[0] for d in dec[:j]] + [alt])
    return results, not stack


def sample(case, n, seed):
    """n random schedules (random baton choices; duplicates dropped)"""
    import random
    rng = random.Random(repr(seed))
    na = len(case["programs"])
    results, seen = [], set()
    for _ in range(n):
        # a random preference list; biased towards runs of the same actor so that both long and
        # fine-grained interleavings occur
        choices, cur = [], rng.randrange(na)
        sw = rng.choice([0.15, 0.35, 0.6])
        for _k in range(48):
            if rng.random() < sw:
                cur = rng.randrange(na)
            choices.append(cur)
        res = run_schedule(case, choices)
        key = tuple(d[0] for d in res["decisions"])
        if key in seen:
            continue
        seen.add(key)
        results.append(res)
    return results, False


def explore_task(task):
    case, limit, root = task
    env.boot()
    try:
        case = dict(case, _content=pack_content(case["chunks"]))
        if isinstance(root, tuple) and root and root[0] == "sample":
            results, complete = sample(case, limit, root[1])
        else:
            results, complete = explore(case, limit, root)
        slim = []
        for r in results:
            line, impl = model_io(r)
            slim.append(dict(case=dict(chunks=case["chunks"], programs=case["programs"]),
                             schedule=[d[0] for d in r["decisions"]], branching=sum(1 for d in r["decisions"] if len(d[1]) > 1),
                             hung=r["hung"], errors=r["errors"], final=r["final"], expected=r["expected"],
                             missing_files=r["missing_files"], line=line, impl=impl,
                             reads=[(i, c[1], c[2], [k.decode() for k, v in c[3].items()])
                                    for i, rs in enumerate(r["results"]) for c in rs if c[0] == "read"],
                             nactions=len(r["actions"]), kinds="".join(a[1] for a in r["actions"]),
                             same_name_twice=r["same_name_twice"]))
        return dict(results=slim, complete=complete, error=None)
    except Exception as e:
        import traceback
        return dict(results=[], complete=False, error="%s: %s\n%s" % (type(e).__name__, e, traceback.format_exc()[-1200:]))


# (chunks of the initial collection, programs)
PAIRS = [          # every schedule is enumerated in both tiers
    ([2, 1], [[("fetch", 1)], [("fetch", 1)]]),
    ([2, 1], [[("fetch", 1)], [("pack",)]]),
    ([2, 1], [[("pack",)], [("read",)]]),
    ([1, 1], [[("fetch", 2)], [("read",), ("read",)]]),
]
BIG_PAIRS = [      # sampled in the quick tier, enumerated in the thorough tier
    ([1, 1, 1], [[("pack",)], [("pack",)]]),                         # mostly the excluded same-name input
    ([3, 1, 1, 1, 1, 1, 1], [[("fetch", 1)], [("fetch", 1)]]),      # 9 revisions in 7 packs: the 10th triggers autopack
    ([3, 1, 1, 1, 1, 1, 1], [[("fetch", 1)], [("pack",)]]),
    ([2, 1], [[("fetch", 1), ("pack",)], [("fetch", 1)]]),
]
TRIPLES = [
    ([2, 1], [[("fetch", 1)], [("pack",)], [("read",)]]),
    ([1, 1, 1], [[("pack",)], [("pack",)], [("fetch", 1)]]),
    ([3, 1, 1, 1, 1, 1, 1], [[("fetch", 1)], [("fetch", 1)], [("pack",)]]),
]


def judge(ctx, r):
    case = dict(chunks=r["case"]["chunks"], programs=r["case"]["programs"], schedule=r["schedule"])
    ctx.case(case, nontrivial=r["branching"] >= 2)
    ctx.count("actions:%d" % (5 * (r["nactions"] // 5)))
    for ch in set(r["kinds"]):
        ctx.count("phase:" + dict(r="reload", f="finish", k="repack", s="save", o="obsolete").get(ch, ch), r["kinds"].count(ch))
    if r["hung"]:
        ctx.violation(case, "the schedule did not terminate (an actor is stuck)")
    for (i, e) in r["errors"]:
        ctx.violation(case, "operation of actor %d failed: %s" % (i, e))
    fin = r["final"]
    if fin["revs"] is None:
        ctx.violation(case, "final repository cannot be opened: %s" % "; ".join(fin["problems"][:2]))
    else:
        exp = [e.decode() if isinstance(e, bytes) else e for e in r["expected"]]
        got = [e.decode() if isinstance(e, bytes) else e for e in fin["revs"]]
        lost = sorted(set(exp) - set(got))
        extra = sorted(set(got) - set(exp))
        if lost and not r["errors"]:
            ctx.violation(case, "committed revisions are no longer listed: %s" % ",".join(lost[:4]))
        if extra and not r["errors"]:
            ctx.violation(case, "revisions listed that no completed write group committed: %s" % ",".join(extra[:4]))
        if fin["problems"]:
            ctx.violation(case, "final repository: %s" % "; ".join(fin["problems"][:3]))
    if r["missing_files"]:
        ctx.violation(case, "listed packs without their files: %s" % ",".join(r["missing_files"][:4]))
    for (i, ids, must, read_ok) in r["reads"]:
        ids_s = {x.decode() if isinstance(x, bytes) else x for x in ids}
        must_s = {x.decode() if isinstance(x, bytes) else x for x in must}
        if not must_s <= ids_s:
            ctx.violation(case, "reader %d did not see committed revisions %s" % (i, ",".join(sorted(must_s - ids_s)[:4])))
        if set(read_ok) != ids_s:
            ctx.violation(case, "reader %d could not read every listed revision" % i)


def run(ctx, limit=None):
    install()
    lim_big = limit or ctx.pick(44, 2000)
    lim3 = limit or ctx.pick(10, 300)
    for i in (0, 1, 2, 99):
        actor_source(i)
    for (chunks, _p) in PAIRS + BIG_PAIRS + TRIPLES:
        base_repo(chunks)

    def mk(c, p):
        return dict(chunks=c, programs=[[list(x) for x in prog] for prog in p])
    tasks = []
    for (c, p) in PAIRS:
        tasks += [(mk(c, p), 100000, [0], "all"), (mk(c, p), 100000, [1], "all")]
    for j, (c, p) in enumerate(BIG_PAIRS):
        if ctx.tier == "thorough" and limit is None:
            tasks += [(mk(c, p), lim_big // 2, [0], "big"), (mk(c, p), lim_big // 2, [1], "big")]
        else:
            tasks += [(mk(c, p), lim_big // 2, ("sample", (ctx.seed, j, h)), "big") for h in (0, 1)]
    for j, (c, p) in enumerate(TRIPLES):
        tasks += [(mk(c, p), lim3, ("sample", (ctx.seed, "t", j)), "3")]
    outs = ctx.pmap(explore_task, [t[:3] for t in tasks], chunksize=1)
    complete = True
    cases, lines, impls = [], [], []
    for (task, out) in zip(tasks, outs):
        if out["error"]:
            ctx.count("task-error")
            ctx.extra.setdefault("task_errors", []).append(out["error"][:400])
            complete = False
            continue
        if task[3] == "all" and not out["complete"]:
            complete = False
        ctx.count("schedules:%s" % dict(all="2-actors-exhaustive", big="2-actors-long", **{"3": "3-actors"})[task[3]],
                  len(out["results"]))
        for r in out["results"]:
            judge(ctx, r)
            if r["same_name_twice"]:
                # excluded input of the model (two processes wrote byte-identical packs, e.g. two packers
                # combining the same packs: same content hash = same name); the oracle above still applies
                ctx.count("excluded:same-pack-name-written-twice")
                continue
            cases.append(dict(chunks=r["case"]["chunks"], programs=r["case"]["programs"], schedule=r["schedule"]))
            lines.append(r["line"])
            impls.append(r["impl"])
    ctx.exhaustive = complete
    ctx.extra["exhaustive_pairs"] = [dict(chunks=c, programs=p) for (c, p) in PAIRS]
    if lines and ctx.model_available:
        outs = ctx.model(lines)
        for c, l, i, m in zip(cases, lines, impls, outs):
            ctx.traces += 1
            mm = canon_model_reply(m, len(c["programs"])) if m != "bad-op" else m
            if i != mm:
                a, b = i.split("/"), mm.split("/")
                j = next((k for k in range(max(len(a), len(b))) if k >= len(a) or k >= len(b) or a[k] != b[k]), 0)
                ctx.mismatch(c, "after action %d: impl=%s" % (j, a[j] if j < len(a) else None),
                             "model=%s" % (b[j] if j < len(b) else None), line=l[:600])


def widen(ctx):
    run(ctx, limit=100)


def replay(ctx, case):
    install()
    for i in (0, 1, 2, 99):
        actor_source(i)
    c = dict(chunks=case["chunks"], programs=[[tuple(x) for x in p] for p in case["programs"]])
    c["_content"] = pack_content(c["chunks"])
    r = run_schedule(c, case.get("schedule", []))
    line, impl = model_io(r)
    slim = dict(case=dict(chunks=c["chunks"], programs=case["programs"]), schedule=[d[0] for d in r["decisions"]],
                branching=2, hung=r["hung"], errors=r["errors"], final=r["final"], expected=r["expected"],
                missing_files=r["missing_files"], line=line, impl=impl,
                reads=[(i, cc[1], cc[2], [k.decode() for k, v in cc[3].items()])
                       for i, rs in enumerate(r["results"]) for cc in rs if cc[0] == "read"],
                nactions=len(r["actions"]), kinds="".join(a[1] for a in r["actions"]),
                same_name_twice=r["same_name_twice"])
    judge(ctx, slim)
    m = ctx.model([line])[0]
    mm = canon_model_reply(m, len(c["programs"])) if m != "bad-op" else m
    return dict(case=case, actions=[(a[0], a[1]) for a in r["actions"]], agree=(mm == impl),
                oracle_failures=[v["what"] for v in ctx.violations], final=str(r["final"])[:400])
