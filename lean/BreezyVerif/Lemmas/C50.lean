import BreezyVerif.Model.C50
/-! C50 — helper lemmas for `Props/C50.lean`. -/
namespace BreezyVerif.C50

/-! ### basic facts -/

@[simp] theorem isWs_dq : isWs '"' = false := by decide
@[simp] theorem isWs_sq : isWs '\'' = false := by decide
@[simp] theorem isWs_bs : isWs '\\' = false := by decide
@[simp] theorem isWs_sp : isWs ' ' = true := by decide
@[simp] theorem allowed_dq (sq : Bool) : allowed sq '"' = true := by simp [allowed]
@[simp] theorem allowed_bs (sq : Bool) : allowed sq '\\' = false := by
  cases sq <;> decide

theorem allowed_not_ws {sq : Bool} {c : Char} (h : allowed sq c = true) : isWs c = false := by
  unfold allowed at h
  simp only [Bool.or_eq_true, Bool.and_eq_true, decide_eq_true_eq] at h
  rcases h with h | ⟨_, h⟩ <;> subst h <;> decide

theorem allowed_ne_bs {sq : Bool} {c : Char} (h : allowed sq c = true) : c ≠ '\\' := by
  intro e; subst e; simp at h

@[simp] theorem app_app (x : Ctx) (p q : Str) : (x.app p).app q = x.app (p ++ q) := by
  simp [Ctx.app]

@[simp] theorem app_chars (x : Ctx) (p : Str) : (x.app p).chars = x.chars ++ p := rfl
@[simp] theorem app_quoted (x : Ctx) (p : Str) : (x.app p).quoted = x.quoted := rfl
@[simp] theorem app_touched (x : Ctx) (p : Str) : (x.app p).touched = true := rfl

theorem rep_succ (n : Nat) : rep (n + 1) = rep n ++ ['\\'] := by
  simp [rep, List.replicate_succ']

theorem rep_succ' (n : Nat) : rep (n + 1) = '\\' :: rep n := by
  simp [rep, List.replicate_succ]

@[simp] theorem rep_zero : rep 0 = [] := rfl

/-! ### one quoted argument is read back

`Q o` is the state inside a `"…"` section whose exit state is `o`. -/

abbrev Q (o : Outer) : State := .at (.quotes '"' o)

theorem run_bs_bs (sq : Bool) (e : Exit) (n : Nat) (x : Ctx) (cs : Str) :
    run sq (.bs e n) x ('\\' :: cs) = run sq (.bs e (n + 1)) x cs := by
  simp [run]

theorem run_Q_bs (sq : Bool) (o : Outer) (x : Ctx) (cs : Str) :
    run sq (Q o) x ('\\' :: cs) = run sq (.bs (.quotes '"' o) 1) x cs := by
  simp [run, procExit]

theorem run_Q_plain (sq : Bool) (o : Outer) (x : Ctx) (c : Char) (cs : Str)
    (h1 : c ≠ '\\') (h2 : c ≠ '"') :
    run sq (Q o) x (c :: cs) = run sq (Q o) (x.app [c]) cs := by
  simp [run, procExit, h1, h2]

theorem run_Q_close (sq : Bool) (o : Outer) (x : Ctx) (cs : Str) :
    run sq (Q o) x ('"' :: cs) = run sq (.at (.plain o)) (x.app []) cs := by
  simp [run, procExit]

/-- odd number of backslashes, then `"`: literal quote -/
theorem run_bsQ_odd_dq (sq : Bool) (o : Outer) (m : Nat) (x : Ctx) (cs : Str) :
    run sq (.bs (.quotes '"' o) (2 * m + 1)) x ('"' :: cs)
      = run sq (Q o) (x.app (rep m ++ ['"'])) cs := by
  have h1 : (2 * m + 1) % 2 = 1 := by omega
  have h2 : (2 * m + 1) / 2 = m := by omega
  simp [run, h1, h2]

/-- even number of backslashes, then `"`: the quote closes the section -/
theorem run_bsQ_even_dq (sq : Bool) (o : Outer) (m : Nat) (x : Ctx) (cs : Str) :
    run sq (.bs (.quotes '"' o) (2 * m)) x ('"' :: cs)
      = run sq (.at (.plain o)) (x.app (rep m)) cs := by
  have h1 : ¬ (2 * m) % 2 = 1 := by omega
  have h2 : (2 * m) / 2 = m := by omega
  simp [run, h2, procExit]

/-- even number of backslashes, then an allowed quote other than `"` (that is `'`) -/
theorem run_bsQ_even_other (sq : Bool) (o : Outer) (m : Nat) (x : Ctx) (c : Char) (cs : Str)
    (ha : allowed sq c = true) (hq : c ≠ '"') :
    run sq (.bs (.quotes '"' o) (2 * m)) x (c :: cs)
      = run sq (Q o) (x.app (rep m ++ [c])) cs := by
  have h1 : ¬ (2 * m) % 2 = 1 := by omega
  have h2 : (2 * m) / 2 = m := by omega
  have h3 : c ≠ '\\' := allowed_ne_bs ha
  simp [run, h2, h3, ha, hq, procExit]

/-- backslashes followed by an ordinary character are kept -/
theorem run_bsQ_plain (sq : Bool) (o : Outer) (n : Nat) (x : Ctx) (c : Char) (cs : Str)
    (hn : 0 < n) (ha : allowed sq c = false) (hb : c ≠ '\\') :
    run sq (.bs (.quotes '"' o) n) x (c :: cs)
      = run sq (Q o) (x.app (rep n ++ [c])) cs := by
  have hq : c ≠ '"' := by intro e; subst e; simp at ha
  simp [run, ha, hb, hq, hn, procExit]

theorem esc_bs_dbl (sq : Bool) (cs : Str) (h : dbl sq cs = true) :
    esc sq ('\\' :: cs) = '\\' :: '\\' :: esc sq cs := by simp [esc, h]

theorem esc_bs_nodbl (sq : Bool) (cs : Str) (h : dbl sq cs = false) :
    esc sq ('\\' :: cs) = '\\' :: esc sq cs := by simp [esc, h]

theorem esc_dq (sq : Bool) (cs : Str) : esc sq ('"' :: cs) = '\\' :: '"' :: esc sq cs := by
  simp [esc]

theorem esc_plain (sq : Bool) (c : Char) (cs : Str) (h1 : c ≠ '\\') (h2 : c ≠ '"') :
    esc sq (c :: cs) = c :: esc sq cs := by simp [esc, h1, h2]

/-- The three mutually dependent statements about reading `esc sq a ++ "\"" ++ rest`. -/
theorem esc_read (sq : Bool) (o : Outer) (rest : Str) (a : Str) :
    (∀ x, run sq (Q o) x (esc sq a ++ '"' :: rest)
        = run sq (.at (.plain o)) (x.app a) rest) ∧
    (∀ x m, dbl sq a = true →
      run sq (.bs (.quotes '"' o) (2 * m)) x (esc sq a ++ '"' :: rest)
        = run sq (.at (.plain o)) (x.app (rep m ++ a)) rest) ∧
    (∀ x m, 0 < m → dbl sq a = false →
      run sq (.bs (.quotes '"' o) m) x (esc sq a ++ '"' :: rest)
        = run sq (.at (.plain o)) (x.app (rep m ++ a)) rest) := by
  induction a with
  | nil =>
    refine ⟨?_, ?_, ?_⟩
    · intro x; simp [esc, run_Q_close]
    · intro x m _; simp [esc, run_bsQ_even_dq]
    · intro x m _ h; simp [dbl] at h
  | cons c cs ih =>
    obtain ⟨ihP, ihD, ihN⟩ := ih
    refine ⟨?_, ?_, ?_⟩
    · intro x
      by_cases hb : c = '\\'
      · subst hb
        by_cases hd : dbl sq cs = true
        · rw [esc_bs_dbl sq cs hd]; simp only [List.cons_append]
          rw [run_Q_bs, run_bs_bs]
          have := ihD x 1 hd
          simp only [Nat.mul_one] at this
          rw [this]; simp [rep]
        · have hd' : dbl sq cs = false := by simpa using hd
          rw [esc_bs_nodbl sq cs hd']; simp only [List.cons_append]
          rw [run_Q_bs, ihN x 1 (by omega) hd']; simp [rep]
      · by_cases hq : c = '"'
        · subst hq
          rw [esc_dq]; simp only [List.cons_append]
          rw [run_Q_bs]
          have := run_bsQ_odd_dq sq o 0 x (esc sq cs ++ '"' :: rest)
          simp only [Nat.mul_zero, Nat.zero_add] at this
          rw [this, ihP]; simp
        · rw [esc_plain sq c cs hb hq]; simp only [List.cons_append]
          rw [run_Q_plain sq o x c _ hb hq, ihP]; simp
    · intro x m hd
      by_cases hb : c = '\\'
      · subst hb
        have hd' : dbl sq cs = true := by simpa [dbl] using hd
        rw [esc_bs_dbl sq cs hd']; simp only [List.cons_append]
        rw [run_bs_bs, run_bs_bs]
        have := ihD x (m + 1) hd'
        have e : 2 * (m + 1) = 2 * m + 1 + 1 := by omega
        rw [e] at this
        rw [this, rep_succ]; simp
      · have ha : allowed sq c = true := by simpa [dbl, hb] using hd
        by_cases hq : c = '"'
        · subst hq
          rw [esc_dq]; simp only [List.cons_append]
          rw [run_bs_bs, run_bsQ_odd_dq, ihP]; simp
        · rw [esc_plain sq c cs hb hq]; simp only [List.cons_append]
          rw [run_bsQ_even_other sq o m x c _ ha hq, ihP]; simp
    · intro x m hm hd
      by_cases hb : c = '\\'
      · subst hb
        have hd' : dbl sq cs = false := by simpa [dbl] using hd
        rw [esc_bs_nodbl sq cs hd']; simp only [List.cons_append]
        rw [run_bs_bs, ihN x (m + 1) (by omega) hd', rep_succ]; simp
      · have ha : allowed sq c = false := by simpa [dbl, hb] using hd
        have hq : c ≠ '"' := by intro e; subst e; simp at ha
        rw [esc_plain sq c cs hb hq]; simp only [List.cons_append]
        rw [run_bsQ_plain sq o m x c _ hm ha hb, ihP]; simp

end BreezyVerif.C50

namespace BreezyVerif.C50

/-! ### one step of `run`, uniformly for all states -/

/-- what happens after one `process` call (and the re-processing of a pushed
back character) -/
def cont (sq : Bool) (r : Option State × Ctx) (cs : Str) : List (Bool × Str) :=
  match r with
  | (some st', x') => run sq st' x' cs
  | (none, x') => emit x' (run sq (.at (.plain .ws)) {} cs)

/-- `process` of the current state on `c`, including the hand-over of a pushed
back character to the exit state -/
def step1 (sq : Bool) : State → Ctx → Char → Option State × Ctx
  | .at e, x, c => procExit sq e x c
  | .bs e n, x, c =>
    if c = '\\' then (some (.bs e (n + 1)), x)
    else if allowed sq c then
      if n % 2 = 1 then (some (.at e), (x.app (rep (n / 2))).app [c])
      else procExit sq e (x.app (rep (n / 2))) c
    else procExit sq e (if n > 0 then x.app (rep n) else x) c

theorem run_cons (sq : Bool) (st : State) (x : Ctx) (c : Char) (cs : Str) :
    run sq st x (c :: cs) = cont sq (step1 sq st x c) cs := by
  cases st with
  | «at» e => simp only [run, step1, cont]; split <;> simp_all
  | bs e n =>
    simp only [run, step1]
    split
    · rfl
    · split
      · split
        · rfl
        · simp only [cont]; split <;> simp_all
      · simp only [cont]; split <;> simp_all

theorem run_nil (sq : Bool) (st : State) (x : Ctx) : run sq st x [] = emit (finish st x) [] := by
  cases st <;> simp [run]

/-- concatenation of the token texts -/
def flat (l : List (Bool × Str)) : Str := (l.map (·.2)).flatten

@[simp] theorem flat_nil : flat [] = [] := rfl
@[simp] theorem flat_cons (t : Bool × Str) (l : List (Bool × Str)) : flat (t :: l) = t.2 ++ flat l := by
  simp [flat]

/-- backslashes counted by a `_Backslash` state but not yet appended -/
def pend : State → Str
  | .at _ => []
  | .bs _ n => rep n

def pendO : Option State → Str
  | none => []
  | some st => pend st

theorem result_none_chars {x : Ctx} (h : result x = none) : x.chars = [] := by
  unfold result at h
  split at h
  · simp_all
  · simp at h

theorem flat_emit_some {x : Ctx} (rest : List (Bool × Str)) (h : result x ≠ none) :
    flat (emit x rest) = x.chars ++ flat rest := by
  unfold emit
  cases hr : result x with
  | none => exact absurd hr h
  | some t =>
    simp only [flat_cons]
    unfold result at hr
    split at hr
    · simp at hr
    · simp only [Option.some.injEq] at hr; subst hr; rfl

theorem flat_emit_none {x : Ctx} (rest : List (Bool × Str)) (h : result x = none) :
    flat (emit x rest) = [] := by
  simp [emit, h]

theorem flat_emit_sublist (x : Ctx) (rest : List (Bool × Str)) :
    (flat (emit x rest)).Sublist (x.chars ++ flat rest) := by
  by_cases h : result x = none
  · rw [flat_emit_none rest h]; exact List.nil_sublist _
  · rw [flat_emit_some rest h]; exact List.Sublist.refl _

theorem rep_sublist {k n : Nat} (h : k ≤ n) : (rep k).Sublist (rep n) := by
  unfold rep
  exact (List.replicate_sublist_replicate '\\').2 h

end BreezyVerif.C50

namespace BreezyVerif.C50

/-! ### step lemmas: nothing invented -/

theorem procExit_sublist (sq : Bool) (e : Exit) (x : Ctx) (c : Char) :
    ((procExit sq e x c).2.chars ++ pendO (procExit sq e x c).1).Sublist (x.chars ++ [c]) := by
  rcases e with (_ | _) | ⟨q, o⟩ <;> simp only [procExit] <;> (repeat' split) <;>
    simp_all [pendO, pend, rep]

theorem step1_sublist (sq : Bool) (st : State) (x : Ctx) (c : Char) :
    ((step1 sq st x c).2.chars ++ pendO (step1 sq st x c).1).Sublist (x.chars ++ pend st ++ [c]) := by
  cases st with
  | «at» e => simpa [step1, pend] using procExit_sublist sq e x c
  | bs e n =>
    simp only [step1, pend]
    split
    · subst_vars; simp [pendO, pend, rep_succ]
    · split
      · split
        · simp only [app_app, app_chars, pendO, pend, List.append_nil, List.append_assoc]
          exact (List.Sublist.refl _).append ((rep_sublist (Nat.div_le_self n 2)).append (List.Sublist.refl _))
        · refine (procExit_sublist sq e _ c).trans ?_
          simp only [app_chars, List.append_assoc]
          exact (List.Sublist.refl _).append ((rep_sublist (Nat.div_le_self n 2)).append (List.Sublist.refl _))
      · refine (procExit_sublist sq e _ c).trans ?_
        split
        · simp
        · have : n = 0 := by omega
          subst this; simp

/-- general form of `split_sublist` -/
theorem run_sublist (sq : Bool) (s : Str) : ∀ (st : State) (x : Ctx),
    (flat (run sq st x s)).Sublist (x.chars ++ pend st ++ s) := by
  induction s with
  | nil =>
    intro st x
    rw [run_nil]
    refine (flat_emit_sublist _ _).trans ?_
    cases st with
    | «at» e => simp [finish, pend]
    | bs e n =>
      simp only [finish, pend, flat_nil, List.append_nil]
      split
      · simp
      · have : n = 0 := by omega
        subst this; simp
  | cons c cs ih =>
    intro st x
    rw [run_cons]
    have hs := step1_sublist sq st x c
    generalize step1 sq st x c = r at hs
    obtain ⟨o, x'⟩ := r
    cases o with
    | some st' =>
      simp only [cont]
      refine (ih st' x').trans ?_
      simp only [pendO] at hs
      have := hs.append (List.Sublist.refl cs)
      simpa [List.append_assoc] using this
    | none =>
      simp only [cont]
      refine (flat_emit_sublist _ _).trans ?_
      simp only [pendO, List.append_nil] at hs
      have h2 := ih (.at (.plain .ws)) {}
      simp only [pend, List.append_nil] at h2
      have h2' : (flat (run sq (.at (.plain .ws)) {} cs)).Sublist cs := by simpa using h2
      have := hs.append h2'
      simpa [List.append_assoc] using this

end BreezyVerif.C50

namespace BreezyVerif.C50

/-! ### invariant of reachable (state, context) pairs; nothing lost -/

def good (x : Ctx) : Prop := x.quoted = true ∨ x.chars ≠ []

def Inv (sq : Bool) : State → Ctx → Prop
  | .at (.plain .ws), x => x.touched = true → good x
  | .at (.plain .word), x => good x
  | .at (.quotes q _), x => allowed sq q = true ∧ good x
  | .bs (.plain .ws) n, x => 0 < n ∧ (x.touched = true → good x)
  | .bs (.plain .word) _, x => good x
  | .bs (.quotes q _) _, x => allowed sq q = true ∧ good x

def InvO (sq : Bool) : Option State × Ctx → Prop
  | (some st, x) => Inv sq st x
  | (none, x) => good x

theorem good_app {x : Ctx} (p : Str) (h : good x) : good (x.app p) := by
  unfold good at *; rcases h with h | h
  · left; simpa using h
  · right; simp [h]

theorem good_app_ne (x : Ctx) {p : Str} (h : p ≠ []) : good (x.app p) := by
  right; simp [h]

theorem good_result {x : Ctx} (h : good x) : result x ≠ none := by
  unfold result good at *
  rcases h with h | h
  · simp [h]
  · cases hc : x.chars with
    | nil => exact absurd hc h
    | cons a l => simp

theorem plain_bs (sq : Bool) : plain sq '\\' = false := by simp [plain]

theorem filter_rep (sq : Bool) (n : Nat) : (rep n).filter (plain sq) = [] := by
  simp [rep, plain]

theorem not_plain_of_ws {sq : Bool} {c : Char} (h : isWs c = true) : plain sq c = false := by
  simp [plain, h]

theorem not_plain_of_allowed {sq : Bool} {c : Char} (h : allowed sq c = true) : plain sq c = false := by
  simp [plain, h]

theorem plain_of {sq : Bool} {c : Char} (h1 : isWs c = false) (h2 : allowed sq c = false) (h3 : c ≠ '\\') :
    plain sq c = true := by
  simp [plain, h1, h2, h3]

theorem procExit_inv (sq : Bool) (e : Exit) (x : Ctx) (c : Char) (h : Inv sq (.at e) x) :
    InvO sq (procExit sq e x c) := by
  rcases e with (_ | _) | ⟨q, o⟩
  · simp only [procExit]
    split
    · split
      · simp_all [InvO, Inv]
      · simpa [InvO, Inv] using h
    · split
      · rename_i hw ha
        simp [InvO, Inv, ha, good]
      · split
        · simpa [InvO, Inv] using h
        · simp only [InvO, Inv]; exact good_app_ne _ (by simp)
  · simp only [procExit]
    simp only [Inv] at h
    split
    · exact h
    · split
      · rename_i hw ha
        exact ⟨ha, h⟩
      · split
        · exact h
        · exact good_app _ h
  · simp only [procExit]
    simp only [Inv] at h
    split
    · exact h
    · split
      · cases o
        · intro _; exact good_app _ h.2
        · exact good_app _ h.2
      · exact ⟨h.1, good_app _ h.2⟩

/-- the quote character of a `_Quotes` state is an allowed quote character -/
def qok (sq : Bool) : Exit → Prop
  | .quotes q _ => allowed sq q = true
  | .plain _ => True

theorem qok_of_inv_at {sq : Bool} {e : Exit} {x : Ctx} (h : Inv sq (.at e) x) : qok sq e := by
  rcases e with (_ | _) | ⟨q, o⟩ <;> simp_all [qok, Inv]

theorem qok_of_inv_bs {sq : Bool} {e : Exit} {n : Nat} {x : Ctx} (h : Inv sq (.bs e n) x) : qok sq e := by
  rcases e with (_ | _) | ⟨q, o⟩ <;> simp_all [qok, Inv]

theorem procExit_plain (sq : Bool) (e : Exit) (x : Ctx) (c : Char) (h : qok sq e) :
    (procExit sq e x c).2.chars.filter (plain sq)
      = x.chars.filter (plain sq) ++ [c].filter (plain sq) := by
  rcases e with (_ | _) | ⟨q, o⟩
  · simp only [procExit]
    split
    · rename_i hw
      split <;> simp [not_plain_of_ws hw]
    · split
      · rename_i hw ha; simp [not_plain_of_allowed ha]
      · split
        · subst_vars; simp [plain_bs]
        · simp
  · simp only [procExit]
    split
    · rename_i hw; simp [not_plain_of_ws hw]
    · split
      · rename_i hw ha; simp [not_plain_of_allowed ha]
      · split
        · subst_vars; simp [plain_bs]
        · simp
  · simp only [procExit]
    simp only [qok] at h
    split
    · subst_vars; simp [plain_bs]
    · split
      · subst_vars; simp [not_plain_of_allowed h]
      · simp

/-- the invariant of a `_Backslash` state hands over to its exit state once
something non-empty has been appended -/
theorem inv_bs_exit (sq : Bool) (e : Exit) (n : Nat) (x : Ctx) (p : Str)
    (h : Inv sq (.bs e n) x) (hp : p ≠ [] ∨ e ≠ .plain .ws) : Inv sq (.at e) (x.app p) := by
  rcases e with (_ | _) | ⟨q, o⟩
  · intro _
    rcases hp with hp | hp
    · exact good_app_ne _ hp
    · exact absurd rfl hp
  · exact good_app _ h
  · exact ⟨h.1, good_app _ h.2⟩

theorem step1_inv (sq : Bool) (st : State) (x : Ctx) (c : Char) (h : Inv sq st x) :
    InvO sq (step1 sq st x c) := by
  cases st with
  | «at» e => exact procExit_inv sq e x c h
  | bs e n =>
    simp only [step1]
    split
    · rcases e with (_ | _) | ⟨q, o⟩
      · exact ⟨by omega, h.2⟩
      · exact h
      · exact h
    · split
      · split
        · rw [app_app]
          exact inv_bs_exit sq e n x _ h (Or.inl (by simp))
        · rename_i hb ha hodd
          by_cases he : e = .plain .ws
          · subst he
            -- even and positive: at least one backslash is appended
            have hn : 0 < n := h.1
            have : rep (n / 2) ≠ [] := by
              have : 0 < n / 2 := by omega
              simp [rep]; omega
            exact procExit_inv sq _ _ c (inv_bs_exit sq _ n x _ h (Or.inl this))
          · exact procExit_inv sq _ _ c (inv_bs_exit sq _ n x _ h (Or.inr he))
      · split
        · rename_i hn
          have : rep n ≠ [] := by simp [rep]; omega
          exact procExit_inv sq _ _ c (inv_bs_exit sq _ n x _ h (Or.inl this))
        · rename_i hn
          have hn0 : n = 0 := by omega
          subst hn0
          rcases e with (_ | _) | ⟨q, o⟩
          · exact absurd h.1 (by omega)
          · exact procExit_inv sq _ _ c h
          · exact procExit_inv sq _ _ c h

theorem step1_plain (sq : Bool) (st : State) (x : Ctx) (c : Char) (h : Inv sq st x) :
    (step1 sq st x c).2.chars.filter (plain sq)
      = x.chars.filter (plain sq) ++ [c].filter (plain sq) := by
  cases st with
  | «at» e => exact procExit_plain sq e x c (qok_of_inv_at h)
  | bs e n =>
    have hq := qok_of_inv_bs h
    simp only [step1]
    split
    · subst_vars; simp [plain_bs]
    · split
      · split
        · rename_i hb ha hodd
          simp [filter_rep, not_plain_of_allowed ha]
        · rw [procExit_plain sq e _ c hq]; simp [filter_rep]
      · split
        · rw [procExit_plain sq e _ c hq]; simp [filter_rep]
        · exact procExit_plain sq e _ c hq

theorem flat_emit_nil (x : Ctx) : flat (emit x []) = x.chars := by
  by_cases h : result x = none
  · rw [flat_emit_none [] h, result_none_chars h]
  · rw [flat_emit_some [] h]; simp

theorem inv_start (sq : Bool) : Inv sq (.at (.plain .ws)) {} := by
  intro h; simp at h

/-- general form of `split_keeps_plain` -/
theorem run_plain (sq : Bool) (s : Str) : ∀ (st : State) (x : Ctx), Inv sq st x →
    (flat (run sq st x s)).filter (plain sq) = x.chars.filter (plain sq) ++ s.filter (plain sq) := by
  induction s with
  | nil =>
    intro st x _
    rw [run_nil, flat_emit_nil]
    cases st with
    | «at» e => simp [finish]
    | bs e n => simp only [finish]; split <;> simp [filter_rep]
  | cons c cs ih =>
    intro st x h
    rw [run_cons]
    have hp := step1_plain sq st x c h
    have hi := step1_inv sq st x c h
    generalize step1 sq st x c = r at hp hi
    obtain ⟨o, x'⟩ := r
    cases o with
    | some st' =>
      simp only [cont]
      rw [ih st' x' hi, hp]
      simp [List.filter_cons]
      split <;> simp
    | none =>
      simp only [cont]
      rw [flat_emit_some _ (good_result hi), List.filter_append, ih _ _ (inv_start sq), hp]
      simp [List.filter_cons]
      split <;> simp

end BreezyVerif.C50
