"""C51 — rebase plans replay exactly the branch's own revisions onto the new base.

Real code exercised per case (breezy/plugins/rewrite/rebase.py):
  generate_simple_plan (todo set from graph.find_difference as the `rebase`
  command does; both skip_full_merged settings; start/stop given or None),
  rebase_todo, marshall_rebase_plan / unmarshall_rebase_plan (also through
  RebaseState1 on a real working tree), generate_transpose_plan.

T2: the replace map (in dict order), the todo set, the marshalled text, the
parsed plan / error kind, the rebase_todo list and the transpose plan are
compared with the Lean model (Model/C51.lean).  `topo_sort`'s output is
observed (hooked) and handed to the model; it is checked to be a topological
order of the present todo revisions on every case.
Oracle (independent of the model) on the real outputs:
  domain   = ancestors(stop) - ancestors(onto), present revisions only
             (skip: a subset whose complement consists of merges whose surviving
             parents collapse to one); with an explicit start / a stop below the
             tip: exactly the requested range of the topological order (skip:
             minus collapsed merges only);
  closure  = walking the plan in its own order every new parent is `onto`, the
             new id of an entry seen EARLIER, or a ghost PARENT OF THE OLD
             REVISION (an id that merely is absent from the graph, such as the
             new id of a later / of no entry, does not pass); for an explicit
             range: ... or a parent of the old revision outside the range that
             is not merged into `onto` (both skip settings);
  ids      = new ids pairwise distinct, different from every old id;
  persist  = unmarshal(marshal(info, plan)) == (info, plan);
  todo     = rebase_todo lists exactly the entries whose new id is absent;
  transpose= the plan rewrites exactly the descendants of the renamed revisions;
             no rewritten revision keeps as a parent an OLD revision that is itself
             replaced (renamed / rewritten) unless its replacement is a parent too,
             and positionally the new parents are the old ones with every replaced
             one substituted (claimed when no replacement revision lies inside the
             rewritten region).
Input families: triangle graphs for the transpose plan (D = merge(P, X), X a
descendant of P directly or through a chain, P renamed or rewritten, one or two
stacked triangles, a tail on top), and for the simple plan: random DAGs (two-lines / bushy / mixed) and a chain-heavy family
(short upstream line, long local line with merges of upstream, of earlier local
revisions and of ghosts, planned from its tip onto the upstream tip) so that
plans of 6+ entries are common (~15 %); `branch:*` counters (a re-computation
from the graph and the real plan, judged nowhere) show which branches of the loop
body the cases reach (left parent merged / rewritten / skipped merge / kept ghost
/ kept outside the range; additional parent not a head / merged / already a
parent via a skipped merge / replaces onto / appended / kept; merge skipped).

History: DESIGN §7-F12 (with skip_full_merged=True a child of a skipped merge got
the OLD merge revision as new parent) was found by this check and fixed in /repo
(eb8d299).  Nothing is suppressed: if it returns, the closure oracle reports it
as a plain violation.

Mutants tried (scratch worktree, VERIF_REPO):
  M1  left parent test `heads((p0, onto)) == {onto}` -> `p0 == onto`            -> oracle (closure)
  M3  additional parent already merged into onto not dropped                    -> oracle (closure)
  M4  todo slice `index(stop) + 1` -> `index(stop)` (tip not rewritten)          -> oracle (domain)
  M11 skip every merge instead of only fully merged ones                        -> oracle (domain: left out although two parents survive)
  R1  the F12 fix reverted (no `skipped` stand-in table)                         -> oracle (closure: child of a skipped merge planned onto the old merge)
  M5  marshall: parents joined without the leading space                        -> oracle (persist)
  M6  unmarshall: `split(b" ", 1)` -> `split(b" ")` (needs a revid with a space) -> oracle (persist)
  M8  rebase_todo tests the first new parent instead of the new revid            -> oracle (todo)
  M9  transpose: `if c in renames: continue` dropped (needs a renamed child of a renamed revision) -> oracle
  M10 transpose: children not queued (`not in processed` inverted)               -> oracle (descendants)
  M2  `parents[0] = newparent` replacement dropped (redundant `onto` parent kept) -> T2 only
  M12 heads() of the additional parents ignored (redundant/ghost parent kept)    -> T2 only
  H1  harmless: loop rewritten with indices / dict.get                           -> clean
Improvement round (audit): also
  M13 kept old left parent replaced by generate_revid(parent) when it is in the todo set (a new id of NO / a later
      entry, incl. the "new id" of a ghost)                                      -> oracle (closure; passed the old `p not in g` test)
  M14 with an explicit start every merge is skipped (skip_full_merged=True)      -> oracle (range domain; no oracle before)
  M11 re-run                                                                     -> oracle (domain)
Seeded change C51b (transpose: `c in processed` instead of `c in replace_map`: a merge reached a second time through
its second rewritten parent restarts from the original parents)                  -> oracle (transpose: old replaced parent kept)
"""
import itertools

from vlib import env

THEOREMS = [
    "anc_spec", "plan_domain", "plan_domain_todo", "plan_parents_closed", "plan_new_ids", "plan_ids_distinct",
    "plan_range_domain", "plan_range_closed", "plan_skip_exact", "plan_skip_fixed", "marshal_roundtrip",
    "todo_is_unrewritten", "transpose_excludes_renames_partial", "transpose_no_stale_parent", "transpose_triangle_witness",
]
RULE = ("case = (graph with ghosts, stop, onto, start, skip) / (plan text) / (ancestry, renames); "
        "non-trivial = plan has >= 2 entries or an error branch is taken; text cases: >= 1 entry or rejected")
ASSUMPTIONS = [
    "vcsgraph topo_sort returns a topological order of exactly the present todo revisions (checked per case)",
    "generate_revid is injective and produces ids outside the graph (the harness uses old id + 1000)",
    "revision ids contain no space/newline",
]
TRUSTED = [
    "vcsgraph heads / find_lca / find_difference / topo_sort are modelled by their specification (mergedInto, headsOf, unrelated, todoSet; order is an input) and compared per case",
    "int() leniencies for the revno field are not modelled; revno is a natural number",
]

NULL = b"null:"
OFF = 1000


def kid(n):
    return NULL if n == 0 else (b"r%d" % n)


def kn(b):
    return 0 if b == NULL else int(b[1:])


def sset(keys):
    return ",".join(map(str, sorted(kn(k) for k in keys))) or "-"


def slist(keys):
    return ",".join(str(kn(k)) for k in keys) or "-"


def spm(pm):
    if not pm:
        return "-"
    return ",".join("%d:%s" % (kn(k), ".".join(str(kn(p)) for p in ps)) for k, ps in sorted(pm.items(), key=lambda kv: kn(kv[0])))


def splan(plan):
    """replace map in dict order"""
    if not plan:
        return "-"
    return ",".join("%d>%d:%s" % (kn(o), kn(n), ".".join(str(kn(p)) for p in ps)) for o, (n, ps) in plan.items())


def hexb(b):
    return b.hex() or "-"


def swentries(items):
    if not items:
        return "-"
    return ",".join("%s:%s:%s" % (hexb(o), hexb(n), ".".join(hexb(p) for p in ps)) for o, (n, ps) in items)


ERR = {"AssertionError": "E:AssertionError", "IndexError": "E:IndexError", "ValueError": "E:ValueError",
       "KeyError": "E:KeyError", "UnrelatedBranches": "E:UnrelatedBranches", "UnknownFormatError": "E:UnknownFormatError"}


def ename(e):
    for c in type(e).__mro__:
        if c.__name__ in ERR:
            return ERR[c.__name__]
    return "E:" + type(e).__name__


# ---------------------------------------------------------------- generators
def gen_graph(rng, n, nghost):
    """repository view: NULL present, parentless revisions -> (NULL,), ghosts n+1..
    -> (graph, ghosts, hint): hint = (tip, onto) worth planning for the chain-heavy shape, else None"""
    g = {NULL: ()}
    ghosts = [kid(n + 1 + i) for i in range(nghost)]
    shape = rng.choice(("two-lines", "bushy", "mixed", "mixed", "chain", "chain", "chain"))
    if shape == "chain" and n >= 5:
        # a short upstream line 1..u and a LONG local line u+1..n forking off it, with a few merges of upstream
        # revisions (fully merged ones included), of earlier local revisions and of ghosts: plans of 6+ entries
        u = rng.randint(1, max(1, min(3, n - 4)))
        for i in range(1, u + 1):
            g[kid(i)] = (kid(i - 1),) if i > 1 else (NULL,)
        fork = rng.randint(1, u)
        for i in range(u + 1, n + 1):
            ps = [kid(fork) if i == u + 1 else kid(i - 1)]
            r = rng.random()
            if r < 0.22:
                ps.append(kid(rng.randint(1, u)))                       # merge of an upstream revision
            elif r < 0.32 and i - 2 > u:
                ps.append(kid(rng.randint(u + 1, i - 2)))               # merge of an earlier local revision
            elif r < 0.40 and ghosts:
                gh = rng.choice(ghosts)
                ps.insert(0, gh) if rng.random() < 0.3 else ps.append(gh)
            if len(ps) == 2 and rng.random() < 0.25:
                ps.append(kid(rng.randint(1, i - 1)))
            g[kid(i)] = tuple(dict.fromkeys(ps))          # (a revision never lists a parent twice)
        return g, ghosts, (kid(n), kid(u))
    for i in range(1, n + 1):
        cands = list(range(1, i))
        if shape == "two-lines" and cands:
            # upstream on odd, local on even numbers, merges across
            same = [c for c in cands if c % 2 == i % 2]
            ps = [same[-1] if same else cands[0]]
            if rng.random() < 0.3:
                other = [c for c in cands if c % 2 != i % 2]
                if other:
                    ps.append(rng.choice(other[-3:]))
        else:
            k = rng.choice((0, 1, 1, 1, 2, 2, 3)) if i > 1 else 0
            near = cands[-5:] if rng.random() < 0.7 else cands
            ps = []
            for _ in range(min(k, len(near))):
                p = rng.choice(near)
                if p not in ps:
                    ps.append(p)
            if i > 1 and not ps and rng.random() < 0.8:
                ps = [rng.choice(cands)]
        ps = [kid(p) for p in dict.fromkeys(ps)]          # (a revision never lists a parent twice)
        if ghosts and rng.random() < 0.12:
            gh = rng.choice(ghosts)
            if rng.random() < 0.25:
                ps.insert(0, gh)
            else:
                ps.append(gh)
        g[kid(i)] = tuple(ps) if ps else (NULL,)
    return g, ghosts, None


def ancestors(g, k):
    seen, todo = set(), [k]
    while todo:
        x = todo.pop()
        if x in seen:
            continue
        seen.add(x)
        todo.extend(g.get(x, ()))
    return seen


# ---------------------------------------------------------------- batches
class Batch:
    def __init__(self, ctx):
        self.ctx = ctx
        self.cases, self.lines, self.outs = [], [], []

    def add(self, case, line, out):
        self.cases.append(case)
        self.lines.append(line)
        self.outs.append(out)

    def flush(self):
        if self.lines:
            self.ctx.diff(self.cases, self.lines, self.outs)
        self.cases, self.lines, self.outs = [], [], []


# ---------------------------------------------------------------- simple plan
def gen_revid(revid, parents):
    return kid(kn(revid) + OFF)


def run_simple(g, todo_set, start, stop, onto, skip):
    """real generate_simple_plan; returns (plan | None, error | None, observed topo order | None)"""
    from vcsgraph.graph import DictParentsProvider, Graph
    from breezy.plugins.rewrite import rebase
    graph = Graph(DictParentsProvider(g))
    seen = []
    orig = rebase.topo_sort

    def hooked(pm):
        r = orig(pm)
        seen.append(list(r))
        return r

    rebase.topo_sort = hooked
    try:
        try:
            plan = rebase.generate_simple_plan(todo_set, start, stop, onto, graph, gen_revid, skip)
            return plan, None, (seen[0] if seen else None)
        except Exception as e:
            return None, ename(e), (seen[0] if seen else None)
    finally:
        rebase.topo_sort = orig


def surviving_parents(g, onto, order, plan):
    """For every revision of `order` (topological) the set of distinct parents
    that survive the rebase, computed from the old graph and from which
    revisions the plan rewrites: a parent merged into `onto` counts as the new
    base, a rewritten parent as itself, a left-out merge as whatever it
    collapsed to, anything else (a ghost) as an old parent that is kept.
    Additional parents that are ancestors of other additional parents do not
    count.  A merge may only be left out if at most one non-base parent
    survives and no old parent is kept."""
    aonto = ancestors(g, onto)
    rep = {}
    out = {}
    for k in order:
        left, addl = g[k][0], g[k][1:]
        cands = [left] + [q for q in addl if not any(q != r and q in ancestors(g, r) for r in addl)]
        reps = set()
        for q in cands:
            if q == NULL or q in aonto:
                reps.add("BASE")
            elif q in plan:
                reps.add(("new", q))
            elif q in rep:
                reps.add(rep[q])
            else:
                reps.add(("old", q))
        out[k] = reps
        if k not in plan:
            nb = reps - {"BASE"}
            rep[k] = next(iter(nb)) if len(nb) == 1 else "BASE"
    return out


def oracle_simple(ctx, case, g, todo_set, start, stop, onto, skip, plan, order, tip0=None):
    present = {k for k in todo_set if k in g}
    tip = stop if stop is not None else (order[-1] if order else None)
    command_like = start is None and (tip0 is None or tip == tip0)
    if order is not None:
        if set(order) != present or len(order) != len(present):
            ctx.violation(case, "assumption: topo_sort returned %s for the present todo revisions %s" % (slist(order), sset(present)))
        pos = {k: i for i, k in enumerate(order)}
        for k in order:
            for p in g[k]:
                if p in pos and pos[p] > pos[k]:
                    ctx.violation(case, "assumption: topo_sort puts %s before its parent %s" % (slist([k]), slist([p])))
    if plan is None:
        return
    # ids
    news = [v[0] for v in plan.values()]
    if len(set(news)) != len(news) or set(news) & set(plan) or set(news) & set(g):
        ctx.violation(case, "new revision ids are not fresh/distinct: %s" % splan(plan))
    for old, (new, parents) in plan.items():
        if len(set(parents)) != len(parents) or not parents or new in parents or old in parents:
            ctx.violation(case, "entry %s -> %s has malformed parents %s" % (slist([old]), slist([new]), slist(parents)))
    if command_like:
        # domain
        want = (ancestors(g, tip) - ancestors(g, onto)) & set(g) if tip is not None else set()
        want.discard(NULL)
        have = set(plan)
        if not skip:
            if have != want:
                ctx.violation(case, "plan rewrites %s, the branch's own revisions are %s" % (sset(have), sset(want)))
        else:
            extra = have - want
            surv = surviving_parents(g, onto, order, plan)
            bad = [k for k in want - have
                   if len(g[k]) < 2 or len(surv[k] - {"BASE"}) > 1 or any(r != "BASE" and r[0] == "old" for r in surv[k])]
            if extra or bad:
                ctx.violation(case, "skip plan rewrites %s; own revisions %s; left out although not a merge of already merged revisions: %s" % (sset(have), sset(want), sset(bad)))
        # closure / order
        earlier = set()
        for old, (new, parents) in plan.items():
            for p in parents:
                if p == onto or p in earlier or (p in g[old] and p not in g):
                    continue
                ctx.violation(case, "entry %s -> %s has new parent %s: not the new base %s, not the new id of an earlier entry, not a ghost (plan %s)" % (
                    slist([old]), slist([new]), slist([p]), slist([onto]), splan(plan)))
            earlier.add(new)
    else:
        # an explicit start (or a stop that is not the tip): the range of `order` asked for
        have = list(plan)
        i, j = (0 if start is None else order.index(start)), order.index(tip)
        want = [k for k in order[i:j + 1]]
        if not skip and have != want:
            ctx.violation(case, "plan rewrites %s, the requested range is %s" % (slist(have), slist(want)))
        if skip:
            surv = surviving_parents(g, onto, want, plan)
            bad = [k for k in want if k not in plan
                   and (len(g[k]) < 2 or len(surv[k] - {"BASE"}) > 1 or any(r != "BASE" and r[0] == "old" for r in surv[k]))]
            if [k for k in have if k not in want] or [k for k in want if k in plan] != have or bad:
                ctx.violation(case, "skip plan rewrites %s; requested range %s; left out although not a merge of already merged "
                                    "revisions: %s" % (slist(have), slist(want), sset(bad)))
        # closure for a range: the new base, the new id of an EARLIER entry, or a parent of the old revision that is
        # outside the range and not merged into the new base (references to revisions not rewritten are preserved)
        aonto = ancestors(g, onto)
        earlier = set()
        for old, (new, parents) in plan.items():
            for p in parents:
                if p == onto or p in earlier or (p in g[old] and p not in want and p != NULL and p not in aonto):
                    continue
                ctx.violation(case, "entry %s -> %s has new parent %s: not the new base %s, not the new id of an earlier entry, not "
                                    "an old parent outside the requested range %s (plan %s)" % (
                                        slist([old]), slist([new]), slist([p]), slist([onto]), slist(want), splan(plan)))
            earlier.add(new)


def count_branches(ctx, g, onto, todo, plan, skip):
    """which branches of the loop body a case reaches (a re-computation from the graph and the real plan; counters
    only, nothing is judged here)"""
    aonto = ancestors(g, onto)
    merged = lambda p: p == NULL or p in aonto                          # noqa
    skipped = {}
    for old in todo:
        ps = g[old]
        stand = lambda q: plan[q][0] if q in plan else skipped.get(q)   # noqa
        if merged(ps[0]):
            ctx.count("branch:left=merged-into-onto")
            parents = [onto]
        elif stand(ps[0]) is not None:
            ctx.count("branch:left=rewritten" if ps[0] in plan else "branch:left=skipped-merge")
            parents = [stand(ps[0])]
        else:
            ctx.count("branch:left=kept-%s" % ("ghost" if ps[0] not in g else "outside-range"))
            parents = [onto, ps[0]]
        addl = ps[1:]
        for q in addl:
            if any(q != r and q in ancestors(g, r) for r in addl):
                ctx.count("branch:additional=not-a-head")
            elif merged(q):
                ctx.count("branch:additional=merged-into-onto")
            elif stand(q) is not None:
                n = stand(q)
                if n in parents:
                    ctx.count("branch:additional=already-a-parent")
                elif parents[0] == onto:
                    ctx.count("branch:additional=replaces-onto")
                    parents[0] = n
                else:
                    ctx.count("branch:additional=appended-%s" % ("rewritten" if q in plan else "skipped-merge"))
                    parents.append(n)
            else:
                ctx.count("branch:additional=kept-%s" % ("ghost" if q not in g else "outside-range"))
                parents.append(q)
        if addl and len(parents) == 1 and skip:
            ctx.count("branch:merge-skipped")
            skipped[old] = parents[0]
        elif old in plan and tuple(parents) != plan[old][1]:
            ctx.count("branch:recomputation-differs")


def simple_cases(ctx, b, g, ghosts, n, hint=None):
    from vcsgraph.graph import DictParentsProvider, Graph
    from breezy.plugins.rewrite import rebase
    rng = ctx.rng
    graph = Graph(DictParentsProvider(g))
    nodes = [kid(i) for i in range(1, n + 1)]
    for it in range(3):
        tip = kid(max(rng.randint(1, n), rng.randint(1, n)))
        onto = rng.choice(nodes + (ghosts if rng.random() < 0.05 else []))
        if rng.random() < 0.85:
            # the command's situation: something to rebase
            cands = [k for k in nodes if tip not in ancestors(g, k)]
            if cands:
                onto = rng.choice(cands)
        if hint is not None and it < 2:
            # the long local line (or, second time, a prefix of it) onto the upstream tip
            tip, onto = hint if it == 0 else (kid(rng.randint(max(kn(hint[1]) + 1, n - 3), n)), hint[1])
        elif hint is None and it == 0 and rng.random() < 0.5:
            tip = kid(n)
        todo_set, _other = graph.find_difference(tip, onto)
        case0 = dict(kind="todo", g=spm(g), tip=kn(tip), onto=kn(onto))
        b.add(case0, "todo %s %d %d" % (spm(g), kn(tip), kn(onto)), sset(todo_set))
        want = ancestors(g, tip) - ancestors(g, onto)
        if set(todo_set) != want:
            ctx.violation(case0, "find_difference gives %s, ancestry difference is %s" % (sset(todo_set), sset(want)))
        r = rng.random()
        start, stop = None, tip
        if r < 0.12:
            stop = None
        elif r < 0.30 and todo_set:
            start = rng.choice(sorted(todo_set))
        elif r < 0.32:
            start = rng.choice(nodes)          # possibly outside the todo set
        elif r < 0.36:
            stop = rng.choice(nodes)
        for skip in (False, True):
            plan, err, order = run_simple(g, set(todo_set), start, stop, onto, skip)
            case = dict(kind="plan", g=spm(g), todo=sset(todo_set), start=None if start is None else kn(start),
                        stop=None if stop is None else kn(stop), onto=kn(onto), skip=skip, tip=kn(tip))
            line = "plan %s %s %s %s %s %d %s %d/" % (
                spm(g), sset(todo_set), slist(order or []), "~" if start is None else kn(start),
                "~" if stop is None else kn(stop), kn(onto), "T" if skip else "F", OFF)
            b.add(case, line, err if plan is None else splan(plan))
            oracle_simple(ctx, case, g, set(todo_set), start, stop, onto, skip, plan, order, tip)
            ctx.case(case, nontrivial=(plan is None) or len(plan) >= 2)
            ctx.count("plan:" + (err or ("skip" if skip else "full")))
            if plan is not None:
                ctx.count("plan-size:%d" % min(len(plan), 10))
                ctx.count("plan-kind:%s/%s" % ("command" if start is None and stop in (None, tip) else
                                               ("start" if start is not None else "stop"), "skip" if skip else "full"))
                if order:
                    i0 = 0 if start is None else order.index(start)
                    j0 = order.index(stop if stop is not None else order[-1])
                    count_branches(ctx, g, onto, order[i0:j0 + 1], plan, skip)
                if skip and len(plan) < len({k for k in todo_set if k in g and k != NULL}) and start is None:
                    ctx.count("plan:skipped-some")
                if plan and skip is False:
                    persist_and_todo(ctx, b, g, plan, rng)


def persist_and_todo(ctx, b, g, plan, rng):
    from breezy.plugins.rewrite import rebase
    info = (rng.randint(0, 40), rng.choice(list(plan)))
    text = rebase.marshall_rebase_plan(info, plan)
    case = dict(kind="persist", revno=info[0], revid=info[1].hex(), plan=swentries(list(plan.items())))
    b.add(case, "marshal %d %s %s" % (info[0], hexb(info[1]), swentries(list(plan.items()))), hexb(text))
    back = rebase.unmarshall_rebase_plan(text)
    if back != (info, plan) or list(back[1]) != list(plan):
        ctx.violation(case, "plan does not survive save/load: wrote %r, read %r" % ((info, plan), back))
    b.add(case, "unmarshal %s" % hexb(text), "%d %s %s" % (back[0][0], hexb(back[0][1]), swentries(list(back[1].items()))))
    # rebase_todo
    have = {v[0] for v in plan.values() if rng.random() < 0.4}

    class Repo:
        def has_revision(self, r):
            return r in have or r in g

    todo = list(rebase.rebase_todo(Repo(), plan))
    want = [o for o, (nw, _ps) in plan.items() if nw not in have]
    case2 = dict(kind="rtodo", have=sset(have), plan=splan(plan))
    if todo != want:
        ctx.violation(case2, "rebase_todo gives %s, entries whose new revision is absent: %s" % (slist(todo), slist(want)))
    b.add(case2, "rtodo %s %s" % (sset(set(g) | have), splan(plan)), slist(todo))
    ctx.case(case2, nontrivial=bool(have))
    ctx.count("rtodo")


# ---------------------------------------------------------------- plan text
ALPHA = [b"a", b"B", b"0", b"-", b":", b"#", b"\xc3\xa9", b"\t", b"."]


def rid(rng, bad=False):
    s = b"".join(rng.choice(ALPHA) for _ in range(rng.randint(1, 4)))
    if bad:
        s += rng.choice([b" ", b"\n", b" x", b""])
    return s


def text_cases(ctx, b, k):
    from breezy.plugins.rewrite import rebase
    rng = ctx.rng
    for _ in range(k):
        plan = {}
        for _ in range(rng.randint(0, 4)):
            plan[rid(rng)] = (rid(rng), tuple(rid(rng) for _ in range(rng.choice((0, 1, 1, 2, 3)))))
        info = (rng.choice((0, 1, 7, 10, 123, 99999)), rid(rng) + (b" x y" if rng.random() < 0.15 else b""))
        text = rebase.marshall_rebase_plan(info, plan)
        case = dict(kind="text", revno=info[0], revid=info[1].hex(), plan=swentries(list(plan.items())))
        b.add(case, "marshal %d %s %s" % (info[0], hexb(info[1]), swentries(list(plan.items()))), hexb(text))
        back = rebase.unmarshall_rebase_plan(text)
        if back != (info, plan) or list(back[1]) != list(plan):
            ctx.violation(case, "plan does not survive save/load: wrote %r, read %r" % ((info, plan), back))
        ctx.case(case, nontrivial=bool(plan))
        ctx.count("text:valid")
        # malformed / mutated text: accept/reject + parsed value
        if rng.random() < 0.5:
            t = bytearray(text)
            for _ in range(rng.randint(1, 3)):
                op = rng.random()
                pos = rng.randrange(len(t) + 1)
                if op < 0.4 and t:
                    del t[min(pos, len(t) - 1)]
                elif op < 0.8:
                    t[pos:pos] = rng.choice([b" ", b"\n", b"x", b"1", b"\n\n", b"  "])
                else:
                    t = t[:pos]
            t = bytes(t)
            if any(c in t.split(b"\n")[1].split(b" ")[0] for c in b"+-_\t\r\x0b\x0c") if t.count(b"\n") else False:
                continue                # int() leniencies are not modelled
            case = dict(kind="text-malformed", text=t.hex())
            try:
                back = rebase.unmarshall_rebase_plan(t)
                out = "%d %s %s" % (back[0][0], hexb(back[0][1]), swentries(list(back[1].items())))
            except Exception as e:
                out = ename(e)
            b.add(case, "unmarshal %s" % hexb(t), out)
            ctx.case(case, nontrivial=True)
            ctx.count("text:" + ("reject" if out.startswith("E:") else "accept"))


def state_cases(ctx, k):
    """RebaseState1 on a real working tree: write_plan / read_plan / remove_plan"""
    from breezy.plugins.rewrite import rebase
    rng = ctx.rng
    wt = env.make_tree("2a")
    wt.commit("one")
    state = rebase.RebaseState1(wt)
    for _ in range(k):
        plan = {}
        for _ in range(rng.randint(1, 4)):
            plan[rid(rng)] = (rid(rng), tuple(rid(rng) for _ in range(rng.choice((1, 1, 2, 3)))))
        case = dict(kind="state", plan=swentries(list(plan.items())))
        with wt.lock_write():
            state.write_plan(plan)
            ok = state.has_plan()
            back = state.read_plan()
            state.remove_plan()
            gone = not state.has_plan()
        if not ok or not gone or back != (wt.branch.last_revision_info(), plan):
            ctx.violation(case, "RebaseState1 round trip: wrote %r read %r has_plan=%r removed=%r" % (plan, back, ok, gone))
        ctx.case(case, nontrivial=True)
        ctx.count("state")


# ---------------------------------------------------------------- transpose
def triangle_graph(rng):
    """D = merge(P, X) with X a descendant of P (directly, or through a chain: long triangle), P renamed itself (triangle)
    or rewritten because one of its ancestors is renamed (deep triangle); optionally more revisions on top of D and a second,
    nested triangle -> (graph, tips, revision to rename, n)"""
    g = {NULL: ()}
    pre = rng.randint(1, 3)                      # chain 1..pre, P = pre
    for i in range(1, pre + 1):
        g[kid(i)] = (kid(i - 1),) if i > 1 else (NULL,)
    nxt = pre + 1
    P = kid(pre)
    top = P
    for _ in range(rng.randint(1, 2)):           # one or two stacked triangles
        chain = rng.randint(1, 3)
        x = top
        for _ in range(chain):
            g[kid(nxt)] = (x,)
            x = kid(nxt)
            nxt += 1
        g[kid(nxt)] = (top, x) if rng.random() < 0.7 else (x, top)      # the no-ff merge
        top = kid(nxt)
        nxt += 1
    for _ in range(rng.randint(0, 2)):
        g[kid(nxt)] = (top,)
        top = kid(nxt)
        nxt += 1
    rename = kid(rng.randint(1, pre))            # P itself or one of its ancestors
    return g, [top], rename, nxt - 1


def transpose_cases(ctx, b, g, ghosts, n, triangle=None):
    from vcsgraph.graph import DictParentsProvider, Graph
    from breezy.plugins.rewrite import rebase
    rng = ctx.rng
    graph = Graph(DictParentsProvider(g))
    nodes = [kid(i) for i in range(1, n + 1)]
    tips = triangle[0] if triangle else rng.sample(nodes, min(len(nodes), rng.randint(1, 2)))
    ancestry = [(k, ps) for k, ps in graph.iter_ancestry(tips)]
    in_anc = [k for k, ps in ancestry if ps is not None and k != NULL]
    if not in_anc:
        return
    renames = {}
    for r in ([triangle[1]] if triangle else rng.sample(in_anc, min(len(in_anc), rng.randint(1, 2)))):
        r2 = rng.random()
        if r2 < 0.7 or triangle:
            v = kid(kn(r) + 500)          # a fresh copy with other parents
            cands = [k for k in nodes if kn(k) < kn(r)]
            g[v] = tuple(rng.sample(cands, min(len(cands), rng.randint(1, 2)))) or (NULL,)
        elif r2 < 0.9:
            v = rng.choice(nodes)
        else:
            v = kid(kn(r) + 700)          # unknown to the graph
        renames[r] = v
    graph = Graph(DictParentsProvider(g))
    fixed = [k for k in in_anc if rng.random() < 0.05]

    def gen(revid, parents):
        return revid if revid in fixed else kid(kn(revid) + OFF)

    case = dict(kind="transpose", g=spm(g), ancestry=[(kn(k), None if ps is None else [kn(p) for p in ps]) for k, ps in ancestry],
                renames={str(kn(k)): kn(v) for k, v in renames.items()}, fixed=[kn(k) for k in fixed])
    try:
        plan = rebase.generate_transpose_plan(list(ancestry), dict(renames), graph, gen)
        out = splan(plan)
    except Exception as e:
        plan, out = None, ename(e)
    sanc = ",".join("%d:%s" % (kn(k), "~" if ps is None else ".".join(str(kn(p)) for p in ps)) for k, ps in ancestry)
    sren = ",".join("%d:%d" % (kn(k), kn(v)) for k, v in renames.items())
    b.add(case, "transpose %s %s %s %d/%s" % (sanc, sren, spm(g), OFF, ".".join(str(kn(k)) for k in fixed)), out)
    ctx.case(case, nontrivial=plan is None or len(plan) >= 1)
    ctx.count("transpose:" + (out if plan is None else "ok"))
    if plan is None:
        if all(v in g for v in renames.values()):
            ctx.violation(case, "generate_transpose_plan fails with %s although every replacement revision is known" % out)
        return
    if set(plan) & set(renames):
        ctx.violation(case, "transpose plan contains renamed revisions %s" % sset(set(plan) & set(renames)))
    amap = {k: ps for k, ps in ancestry if ps is not None}
    # descendants (inside the ancestry) of the renamed revisions must be rewritten
    desc = set()
    changed = True
    src = set(renames)
    while changed:
        changed = False
        for k, ps in amap.items():
            if k not in desc and k not in renames and k not in fixed and any(p in src or p in desc for p in ps):
                desc.add(k)
                changed = True
    if set(plan) != desc:
        ctx.violation(case, "transpose plan rewrites %s, descendants of the renamed revisions are %s" % (sset(plan), sset(desc)))
    # every new parent of a rewritten revision is a rename target, the new id of a rewritten revision, or an untouched old
    # revision - never an old revision that is itself replaced (renamed or rewritten); and positionally the new parents
    # are the old parents with every replaced one substituted
    img = lambda q: renames[q] if q in renames else (plan[q][0] if q in plan else q)       # noqa
    if any(v in renames or v in plan for v in renames.values()):
        # a replacement revision that is itself renamed / a descendant of a renamed revision: the request is circular,
        # nothing is claimed about it (model and code are still compared)
        ctx.count("transpose:replacement-inside-the-rewritten-region")
        return
    for old, (new, parents) in plan.items():
        ctx.count("transpose-entry:%d-parents" % min(len(parents), 3))
        for p in parents:
            if (p in renames or p in plan) and img(p) not in parents:
                ctx.violation(case, "transpose entry %s -> %s keeps the OLD revision %s as a parent although that revision is "
                                    "itself replaced by %s (plan %s)" % (slist([old]), slist([new]), slist([p]), slist([img(p)]), splan(plan)))
            elif p in renames or p in plan:
                ctx.count("transpose:replacement-already-a-parent")      # (`replace_map[r][0] in parents`: r is left alone)
        want = tuple(img(q) for q in amap[old])
        # (position by position: substituted, or left alone because its replacement is a parent already)
        if len(parents) != len(want) or any(p != w and not (p == q and w in parents)
                                            for p, w, q in zip(parents, want, amap[old])):
            ctx.violation(case, "transpose entry %s -> %s has parents %s, the old parents %s with every replaced one substituted "
                                "are %s" % (slist([old]), slist([new]), slist(parents), slist(amap[old]), slist(want)))
    if triangle:
        ctx.count("transpose:triangle")


# ---------------------------------------------------------------- run
def run(ctx, scale=1):
    rng = ctx.rng
    b = Batch(ctx)
    ngraphs = ctx.pick(2500, 25000) * scale
    nmax = ctx.pick(12, 15)
    for gi in range(ngraphs):
        r = rng.random()
        n = rng.randint(8, nmax) if r < 0.35 else (rng.randint(2, nmax) if r < 0.9 else rng.randint(1, 4))
        g, ghosts, hint = gen_graph(rng, n, rng.randint(0, 2))
        simple_cases(ctx, b, g, ghosts, n, hint)
        if gi % 2 == 0:
            transpose_cases(ctx, b, dict(g), ghosts, n)
        if gi % 5 == 0:
            tg, ttips, trename, tn = triangle_graph(rng)
            transpose_cases(ctx, b, tg, [], tn, triangle=(ttips, trename))
        if len(b.lines) > 4000:
            b.flush()
    text_cases(ctx, b, ctx.pick(1500, 15000) * scale)
    b.flush()
    state_cases(ctx, ctx.pick(10, 60))
    ctx.extra["domain"] = dict(max_keys=nmax, ghosts="0..2", graphs=ngraphs)


def widen(ctx):
    run(ctx, scale=3)


def _pm_from(s):
    pm = {}
    if s != "-":
        for e in s.split(","):
            k, ps = e.split(":")
            pm[kid(int(k))] = tuple(kid(int(p)) for p in ps.split(".")) if ps else ()
    return pm


def _set_from(s):
    return set() if s == "-" else {kid(int(x)) for x in s.split(",")}


def replay(ctx, case):
    from breezy.plugins.rewrite import rebase
    kind = case["kind"]
    res = {}
    if kind == "plan":
        g = _pm_from(case["g"])
        todo_set = _set_from(case["todo"])
        start = None if case["start"] is None else kid(case["start"])
        stop = None if case["stop"] is None else kid(case["stop"])
        onto, skip = kid(case["onto"]), case["skip"]
        plan, err, order = run_simple(g, set(todo_set), start, stop, onto, skip)
        oracle_simple(ctx, case, g, set(todo_set), start, stop, onto, skip, plan, order, kid(case["tip"]) if "tip" in case else None)
        line = "plan %s %s %s %s %s %d %s %d/" % (
            spm(g), sset(todo_set), slist(order or []), "~" if start is None else kn(start),
            "~" if stop is None else kn(stop), kn(onto), "T" if skip else "F", OFF)
        res = dict(impl=err if plan is None else splan(plan), model=ctx.model([line])[0], order=slist(order or []))
    elif kind == "text-malformed":
        t = bytes.fromhex(case["text"])
        try:
            back = rebase.unmarshall_rebase_plan(t)
            out = "%d %s %s" % (back[0][0], hexb(back[0][1]), swentries(list(back[1].items())))
        except Exception as e:
            out = ename(e)
        res = dict(impl=out, model=ctx.model(["unmarshal %s" % hexb(t)])[0])
    else:
        res = dict(impl="(replay of %s cases: re-run the check with the recorded seed)" % kind, model=None)
    res.update(case=case, oracle_failures=[v["what"] for v in ctx.violations])
    return res
