import BreezyVerif.Model.C35
import BreezyVerif.Lemmas.C35
/-
C35 — git object export is consistent and round-trips.

All statements are for an arbitrary object-id function `H : GObj → Sha`
(instantiated with git's SHA-1 based id in the driver); only the import round
trip needs something of `H`: no two different objects of the store share an id.
-/
namespace BreezyVerif.C35

/-! ### incremental = from scratch -/

/-- Every node and every child list: with any SHA map that is correct for the
leaves that can be asked for (`cacheOK`: a cached id of a key is the id of the
blob of the text with that key), any base tree, any other parents and at any
path, the incremental conversion yields exactly the from-scratch mode/id. -/
theorem incrNode_eq_expNode (H : GObj → Sha) (cache : Cache) (base : Option Children)
    (others : List Children) (ls : List (Key × Bytes)) (hc : cacheOK H cache ls = true)
    (ho : ∀ x ∈ others.flatMap leavesC, x ∈ ls) :
    (∀ (n : Node) (path : Path), (∀ x ∈ leaves n, x ∈ ls) →
      incrNode H cache base others path n = expNode H n) ∧
    (∀ (cs : Children) (path : Path), (∀ x ∈ leavesC cs, x ∈ ls) →
      incrChildren H cache base others path cs = expChildren H cs) :=
  ⟨incrNode_eq H cache base others ls hc ho, incrChildren_eq H cache base others ls hc ho⟩

/-- Trees that `sameGitC` does not distinguish (what "no change reported" means
in the model) have the same export. -/
theorem sameGit_export_eq (H : GObj → Sha) (a b : Children) (h : sameGitC a b = true) :
    expRoot H a = expRoot H b := by
  simp only [expRoot, rootObj, sameGit_expChildren H a b h]

/-- **incremental = scratch.**  For every tree, every first parent (with the
root tree id recorded for it, which must be that parent's export), every list
of further parents and every SHA map that is correct for the leaves of the
tree and of the further parents, the root tree id produced by the incremental
conversion is the from-scratch one. -/
theorem incr_eq_scratch (H : GObj → Sha) (cache : Cache) (base : Option (Children × Sha))
    (others : List Children) (t : Children)
    (hc : cacheOK H cache (leavesC t ++ others.flatMap leavesC) = true)
    (hb : ∀ b s, base = some (b, s) → s = expRoot H b) :
    incrRoot H cache base others t = expRoot H t := by
  have hch := incrChildren_eq H cache
  unfold incrRoot
  cases base with
  | none =>
    simp only [expRoot, rootObj]
    rw [incrChildren_eq H cache none others _ hc (fun x hx => by simp [hx]) t [] (fun x hx => by simp [hx])]
  | some bs =>
    obtain ⟨b, s⟩ := bs
    simp only
    split
    · rename_i hs
      rw [hb b s rfl]
      exact sameGit_export_eq H b t hs
    · simp only [expRoot, rootObj]
      rw [incrChildren_eq H cache (some b) others _ hc (fun x hx => by simp [hx]) t [] (fun x hx => by simp [hx])]

/-- non-vacuity: a tree with a nested directory, a merge parent holding the same
text under another revision, and a cache that knows one key and misses the
others satisfies the hypotheses (with `H` = the structural identity) -/
def exH : GObj → Sha
  | .blob d => 0 :: d
  | .tree es => 1 :: es.flatMap fun e => e.name ++ e.sha

def exTree : Children :=
  .cons [100] (.dir (.cons [102] (.file ⟨[1], [9]⟩ [104, 105] false none) .nil))
    (.cons [103] (.link ⟨[2], [8]⟩ [116] none) .nil)

def exOther : Children := .cons [120] (.file ⟨[1], [7]⟩ [104, 105] true none) .nil

example : cacheOK exH [(⟨[1], [7]⟩, 0 :: [104, 105])] (leavesC exTree ++ [exOther].flatMap leavesC) = true := by
  decide

example : incrRoot exH [(⟨[1], [7]⟩, 0 :: [104, 105])] (some (exOther, expRoot exH exOther)) [exOther] exTree
    = expRoot exH exTree := by decide

/-- the hypothesis is needed: a wrong cached id changes the result -/
example : incrRoot exH [(⟨[1], [9]⟩, [66])] (some (exTree, expRoot exH exTree)) []
    (.cons [110] (.file ⟨[5], [5]⟩ [] false none) exTree)
    ≠ expRoot exH (.cons [110] (.file ⟨[5], [5]⟩ [] false none) exTree) := by decide

/-! ### export / import round trip -/

/-- **import ∘ export.**  For every tree whose final modes are imported with
the kind they were exported with (`modesOKC`: true of the default modes and of
every recorded unusual mode of a file or link), every `H` and every object
store that contains the exported objects, holds every object under its own id
and holds no two different objects with the same id (`hinj`: the only thing
asked of the hash — no collision *inside the store*), importing the exported root id gives the
canonical form of the tree: file ids, banned names and directories without a
represented descendant are dropped, children are in git order, contents,
targets and modes are unchanged.  Holds for every fuel ≥ the depth. -/
theorem export_import_tree (H : GObj → Sha) (t : Children)
    (hm : modesOKC t = true) (st : Store)
    (hinj : ∀ p ∈ st, ∀ q ∈ st, H p.2 = H q.2 → p.2 = q.2) (hwf : ∀ p ∈ st, p.1 = H p.2)
    (hsub : ∀ p ∈ objsRoot H t, p ∈ st) (fuel : Nat) (hf : depthC t ≤ fuel) :
    impRoot st fuel (expRoot H t) = some (canonRoot H t) := by
  have hroot : st.get (expRoot H t) = some (rootObj H t) :=
    store_get_of_mem st hinj hwf (rootObj H t) (hsub _ (by simp [objsRoot, expRoot]))
  have hch := impChildren_exp H st hinj hwf t fuel hm hf (fun p hp => hsub p (by simp [objsRoot, hp]))
  have hsort := impList_sort (impEntry st fuel) (impEntry_key st fuel) _ _ hch
  simp only [impRoot, hroot, rootObj, impEntries, canonRoot]
  exact hsort

/-- the store made of exactly the exported objects qualifies -/
theorem objsRoot_wf (H : GObj → Sha) (t : Children) : ∀ p ∈ objsRoot H t, p.1 = H p.2 := by
  intro p hp
  simp only [objsRoot, List.mem_cons] at hp
  rcases hp with rfl | hp
  · rfl
  · exact objsChildren_wf H t p hp

/-- more fuel does not change a successful import (partial: stated for the
export of a tree, which is all the round trip needs; the general monotonicity
of `impEntry` in the fuel for arbitrary stores is not proved) -/
theorem import_fuel_mono_partial (H : GObj → Sha) (t : Children)
    (hinj : ∀ p ∈ objsRoot H t, ∀ q ∈ objsRoot H t, H p.2 = H q.2 → p.2 = q.2)
    (hm : modesOKC t = true) (f g : Nat) (hf : depthC t ≤ f) (hg : depthC t ≤ g) :
    impRoot (objsRoot H t) f (expRoot H t) = impRoot (objsRoot H t) g (expRoot H t) := by
  rw [export_import_tree H t hm _ hinj (objsRoot_wf H t) (fun _ h => h) f hf,
    export_import_tree H t hm _ hinj (objsRoot_wf H t) (fun _ h => h) g hg]

/-- **re-export reproduces the ids.**  Exporting the canonical form (what a
fetch from git stores) gives the root id the tree was exported with; together
with `export_import_tree`: `export (import (export t)) = export t`, for every
tree and every `H` without a collision among the exported objects. -/
theorem reexport_canon (H : GObj → Sha) (t : Children) (hm : modesOKC t = true) :
    expRootP H (canonRoot H t) = expRoot H t := by
  obtain ⟨h1, h2⟩ := canonChildren_expPL H t hm
  have hsort := expPL_sort H (canonChildren H t) h2
  simp only [expRootP, canonRoot, expRoot, rootObj, hsort, h1]
  simp [sortEntries, sortBy_idem]

/-- the hypotheses of the round trip hold for a tree with an empty directory, a
banned name and a directory sorting between `ab-` and `ab0` -/
def exH2 : GObj → Sha
  | .blob d => 0 :: d.length.toUInt8 :: d
  | .tree es => 1 :: es.flatMap fun e =>
      [e.mode.toUInt8, (e.mode / 256).toUInt8, (e.mode / 65536).toUInt8, e.name.length.toUInt8] ++ e.name
        ++ [e.sha.length.toUInt8] ++ e.sha

def exTree2 : Children :=
  .cons [97, 98, 48] (.file ⟨[1], [1]⟩ [1] true none)
    (.cons [97, 98] (.dir (.cons [120] (.link ⟨[2], [1]⟩ [2] none) (.cons [121] (.dir .nil) .nil)))
      (.cons [97, 98, 45] (.file ⟨[3], [1]⟩ [] false (some 0o100664))
        (.cons [0x2e, 0x67, 0x69, 0x74] (.file ⟨[4], [1]⟩ [4] false none) .nil)))

example : modesOKC exTree2 = true := by decide

example : ∀ p ∈ objsRoot exH2 exTree2, ∀ q ∈ objsRoot exH2 exTree2, exH2 p.2 = exH2 q.2 → p.2 = q.2 := by
  decide

example : (canonRoot exH2 exTree2).map (·.1) = [[97, 98, 45], [97, 98], [97, 98, 48]] := by decide

example : (impRoot (objsRoot exH2 exTree2) (depthC exTree2) (expRoot exH2 exTree2)).map (fun cs => cs.map (·.1))
    = some [[97, 98, 45], [97, 98], [97, 98, 48]] := by decide

/-! ### sorting (git order of tree entries) -/

/-- the entries of every tree object the model writes are in key order -/
theorem sortBy_sorted {α : Type} (key : α → Bytes) (l : List α) : sortedBy key (sortBy key l) = true :=
  sortBy_sorted' key l

/-- sorting does not disturb a list that is already in key order (so a tree
read from git is re-serialised unchanged) -/
theorem sortBy_id_of_sorted {α : Type} (key : α → Bytes) (l : List α) (h : sortedBy key l = true) :
    sortBy key l = l :=
  sortBy_id_of_sorted' key l h

example : sortedBy Entry.key [⟨0o100644, [97, 98, 45], []⟩, ⟨S_IFDIR, [97, 98], []⟩, ⟨0o100644, [97, 98, 48], []⟩] = true := by
  decide

/-! ### modes -/

/-- kind/executable → git mode → kind/executable, for every kind and flag -/
theorem mode_roundtrip (k : Kind) (x : Bool) :
    modeKind (objectMode k x) = some k ∧ modeIsExecutable (objectMode .file x) = x := by
  cases k <;> cases x <;> decide

/-- what the import dispatch does with an exported default mode: same kind, and
the executable flag of a file -/
theorem mode_kind_agrees_with_import (k : Kind) (x : Bool) :
    (importClass (objectMode k x)).kind = k ∧
      importExec (objectMode k x) = (decide (k = .file) && x) := by
  cases k <;> cases x <;> decide

/-- git mode → (kind, executable, recorded unusual mode) → git mode, for
**every** mode: a default mode is rebuilt by `object_mode`, any other mode is
recorded per path and written back verbatim -/
theorem mode_roundtrip_git (m : Nat) :
    exportMode (unusualOf m) (importClass m).kind (importExec m) = m := by
  unfold unusualOf
  split
  · rename_i h
    simp only [defaultModes, List.contains_cons, List.contains_nil, Bool.or_false, Bool.or_eq_true,
      beq_iff_eq] at h
    rcases h with h | h | h | h | h <;> subst h <;> decide
  · rfl

example : unusualOf 0o100664 = some 0o100664 ∧ importExec 0o100775 = true ∧ unusualOf 0o100755 = none := by
  decide

end BreezyVerif.C35
