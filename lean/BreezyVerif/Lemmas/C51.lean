import BreezyVerif.Model.C51
import BreezyVerif.Props.C33
/-!
C51 — helper lemmas: ancestry, the plan loop invariants, plan-file parsing.
-/
namespace BreezyVerif.C51
open BreezyVerif.C33

/-! ### ancestry -/

theorem mem_anc (g : PMap) (k a : Key) : a ∈ anc g k ↔ Reach g [] [k] a := by
  unfold anc
  obtain ⟨s, hs, _⟩ := bfs_inv g [k] []
  simp only [hs]
  exact (bfs_spec g [k] [] s hs).2.2.1 a

theorem anc_self (g : PMap) (k : Key) : k ∈ anc g k :=
  (mem_anc g k k).mpr (Reach.base (by simp))

theorem anc_parent {g : PMap} {k j p : Key} {ps : List Key} (hj : j ∈ anc g k)
    (hps : parentsOf g j = some ps) (hp : p ∈ ps) : p ∈ anc g k :=
  (mem_anc g k p).mpr (Reach.step ((mem_anc g k j).mp hj) (by simp) hps hp)

/-! ### plan loop -/

theorem lookupNew_some {plan : Plan} {k n : Key} (h : lookupNew plan k = some n) :
    ∃ e ∈ plan, e.old = k ∧ e.new = n := by
  induction plan with
  | nil => simp [lookupNew] at h
  | cons e rest ih =>
    simp only [lookupNew] at h
    split at h
    · rename_i he
      exact ⟨e, by simp, he, by simpa using h⟩
    · obtain ⟨e', he', h1, h2⟩ := ih h
      exact ⟨e', List.mem_cons_of_mem _ he', h1, h2⟩

theorem lookupNew_none {plan : Plan} {k : Key} (h : lookupNew plan k = none) :
    k ∉ plan.map (·.old) := by
  induction plan with
  | nil => simp
  | cons e rest ih =>
    simp only [lookupNew] at h
    split at h
    · cases h
    · rename_i he
      simp only [List.map_cons, List.mem_cons, not_or]
      exact ⟨fun h' => he h'.symm, ih h⟩

theorem lookupSkipped_some {sk : Skipped} {k v : Key} (h : lookupSkipped sk k = some v) :
    ∃ kv ∈ sk, kv.1 = k ∧ kv.2 = v := by
  induction sk with
  | nil => simp [lookupSkipped] at h
  | cons e rest ih =>
    simp only [lookupSkipped] at h
    split at h
    · rename_i he
      exact ⟨e, by simp, he, by simpa using h⟩
    · obtain ⟨e', he', h1, h2⟩ := ih h
      exact ⟨e', List.mem_cons_of_mem _ he', h1, h2⟩

theorem lookupSkipped_none {sk : Skipped} {k : Key} (h : lookupSkipped sk k = none) :
    k ∉ sk.map (·.1) := by
  induction sk with
  | nil => simp
  | cons e rest ih =>
    simp only [lookupSkipped] at h
    split at h
    · cases h
    · rename_i he
      simp only [List.map_cons, List.mem_cons, not_or]
      exact ⟨fun h' => he h'.symm, ih h⟩

/-- a stand-in is the new id of an entry or an alias recorded for a skipped merge -/
theorem standIn_some {plan : Plan} {sk : Skipped} {k n : Key} (h : standIn plan sk k = some n) :
    (∃ e ∈ plan, e.new = n) ∨ (∃ kv ∈ sk, kv.2 = n) := by
  unfold standIn at h
  split at h
  · rename_i m hm
    obtain ⟨e, he, _, h2⟩ := lookupNew_some hm
    cases h
    exact Or.inl ⟨e, he, h2⟩
  · obtain ⟨kv, hkv, _, h2⟩ := lookupSkipped_some h
    exact Or.inr ⟨kv, hkv, h2⟩

theorem standIn_none {plan : Plan} {sk : Skipped} {k : Key} (h : standIn plan sk k = none) :
    k ∉ plan.map (·.old) ∧ k ∉ sk.map (·.1) := by
  unfold standIn at h
  split at h
  · cases h
  · rename_i hn
    exact ⟨lookupNew_none hn, lookupSkipped_none h⟩

/-- where a new parent can come from: the new base, the new id of an entry, the
alias of a skipped merge, or an old parent that is neither merged into `onto`
nor rewritten nor skipped -/
def Src (g : PMap) (onto : Key) (plan : Plan) (sk : Skipped) (olds : List Key) (x : Key) : Prop :=
  x = onto ∨ (∃ e ∈ plan, e.new = x) ∨ (∃ kv ∈ sk, kv.2 = x) ∨
    (x ∈ olds ∧ mergedInto g x onto = false ∧ x ∉ plan.map (·.old) ∧ x ∉ sk.map (·.1))

/-- the first new parent is never a kept old parent -/
def Src1 (onto : Key) (plan : Plan) (sk : Skipped) (x : Key) : Prop :=
  x = onto ∨ (∃ e ∈ plan, e.new = x) ∨ (∃ kv ∈ sk, kv.2 = x)

theorem src_of_src1 {g : PMap} {onto : Key} {plan : Plan} {sk : Skipped} {olds : List Key} {x : Key}
    (h : Src1 onto plan sk x) : Src g onto plan sk olds x := by
  rcases h with h | h | h
  · exact Or.inl h
  · exact Or.inr (Or.inl h)
  · exact Or.inr (Or.inr (Or.inl h))

theorem src1_of_standIn {onto : Key} {plan : Plan} {sk : Skipped} {k n : Key}
    (h : standIn plan sk k = some n) : Src1 onto plan sk n := by
  rcases standIn_some h with h | h
  · exact Or.inr (Or.inl h)
  · exact Or.inr (Or.inr h)

theorem leftParents_src (g : PMap) (onto : Key) (plan : Plan) (sk : Skipped) (p0 : Key) (olds : List Key)
    (h0 : p0 ∈ olds) :
    Src1 onto plan sk (leftParents g onto plan sk p0).1 ∧
    ∀ x ∈ (leftParents g onto plan sk p0).2, Src g onto plan sk olds x := by
  unfold leftParents
  split
  · exact ⟨Or.inl rfl, fun x hx => by cases hx⟩
  · rename_i hm
    split
    · rename_i n hn
      exact ⟨src1_of_standIn hn, fun x hx => by cases hx⟩
    · rename_i hn
      refine ⟨Or.inl rfl, fun x hx => ?_⟩
      simp only [List.mem_singleton] at hx
      subst hx
      exact Or.inr (Or.inr (Or.inr ⟨h0, by simpa using hm, standIn_none hn⟩))

theorem addParent_src (g : PMap) (onto : Key) (plan : Plan) (sk : Skipped) (addl olds : List Key)
    (ps : Key × List Key) (op : Key) (hop : op ∈ olds)
    (h1 : Src1 onto plan sk ps.1) (h2 : ∀ x ∈ ps.2, Src g onto plan sk olds x) :
    Src1 onto plan sk (addParent g onto plan sk addl ps op).1 ∧
    ∀ x ∈ (addParent g onto plan sk addl ps op).2, Src g onto plan sk olds x := by
  unfold addParent
  split
  · split
    · exact ⟨h1, h2⟩
    · rename_i hm
      split
      · rename_i n hn
        split
        · exact ⟨h1, h2⟩
        · split
          · exact ⟨src1_of_standIn hn, h2⟩
          · refine ⟨h1, fun x hx => ?_⟩
            rcases List.mem_append.mp hx with hx | hx
            · exact h2 x hx
            · simp only [List.mem_singleton] at hx
              subst hx
              exact src_of_src1 (src1_of_standIn hn)
      · rename_i hn
        refine ⟨h1, fun x hx => ?_⟩
        rcases List.mem_append.mp hx with hx | hx
        · exact h2 x hx
        · simp only [List.mem_singleton] at hx
          subst hx
          exact Or.inr (Or.inr (Or.inr ⟨hop, by simpa using hm, standIn_none hn⟩))
  · exact ⟨h1, h2⟩

theorem foldl_addParent_src (g : PMap) (onto : Key) (plan : Plan) (sk : Skipped) (addl olds : List Key) :
    ∀ (rest : List Key) (ps : Key × List Key), (∀ op ∈ rest, op ∈ olds) →
      Src1 onto plan sk ps.1 → (∀ x ∈ ps.2, Src g onto plan sk olds x) →
      Src1 onto plan sk (rest.foldl (addParent g onto plan sk addl) ps).1 ∧
      ∀ x ∈ (rest.foldl (addParent g onto plan sk addl) ps).2, Src g onto plan sk olds x := by
  intro rest
  induction rest with
  | nil => intro ps _ h1 h2; exact ⟨h1, h2⟩
  | cons op rest ih =>
    intro ps hin h1 h2
    simp only [List.foldl_cons]
    have := addParent_src g onto plan sk addl olds ps op (hin op (by simp)) h1 h2
    exact ih _ (fun o ho => hin o (List.mem_cons_of_mem _ ho)) this.1 this.2

theorem newParents_src (g : PMap) (onto : Key) (plan : Plan) (sk : Skipped) (p0 : Key) (rest : List Key) :
    Src1 onto plan sk (newParents g onto plan sk p0 rest).1 ∧
    ∀ x ∈ (newParents g onto plan sk p0 rest).2, Src g onto plan sk (p0 :: rest) x := by
  unfold newParents
  have := leftParents_src g onto plan sk p0 (p0 :: rest) (by simp)
  exact foldl_addParent_src g onto plan sk _ (p0 :: rest) rest _
    (fun o ho => List.mem_cons_of_mem _ ho) this.1 this.2

/-- result of one loop step: a skipped merge recorded with its stand-in, or one entry appended -/
theorem planStep_cases {g : PMap} {gen : Key → Key} {onto : Key} {skip : Bool} {st st' : Plan × Skipped}
    {old : Key} (h : planStep g gen onto skip st old = .ok st') :
    ∃ p0 rest, parentsOf g old = some (p0 :: rest) ∧
      ((st' = (st.1, st.2 ++ [(old, (newParents g onto st.1 st.2 p0 rest).1)]) ∧ rest ≠ [] ∧ skip = true ∧
          (newParents g onto st.1 st.2 p0 rest).2 = []) ∨
       (st' = (st.1 ++ [⟨old, gen old, (newParents g onto st.1 st.2 p0 rest).1 ::
          (newParents g onto st.1 st.2 p0 rest).2⟩], st.2) ∧ gen old ≠ old)) := by
  unfold planStep at h
  cases hp : parentsOf g old with
  | none => simp [hp] at h
  | some l =>
    cases l with
    | nil => simp [hp] at h
    | cons p0 rest =>
      refine ⟨p0, rest, rfl, ?_⟩
      simp only [hp] at h
      by_cases hc : (!rest.isEmpty && (newParents g onto st.1 st.2 p0 rest).2.isEmpty && skip) = true
      · simp only [hc, if_true] at h
        cases h
        left
        simp only [Bool.and_eq_true, Bool.not_eq_true', List.isEmpty_eq_false_iff, List.isEmpty_iff] at hc
        exact ⟨rfl, hc.1.1, hc.2, hc.1.2⟩
      · simp only [hc] at h
        by_cases hg : gen old = old
        · simp [hg] at h
        · simp only [hg, if_false] at h
          cases h
          exact Or.inr ⟨rfl, hg⟩

/-- result of one loop step without skipping -/
theorem planStep_noskip {g : PMap} {gen : Key → Key} {onto : Key} {st st' : Plan × Skipped} {old : Key}
    (h : planStep g gen onto false st old = .ok st') :
    ∃ p0 rest, parentsOf g old = some (p0 :: rest) ∧ gen old ≠ old ∧
      st' = (st.1 ++ [⟨old, gen old, (newParents g onto st.1 st.2 p0 rest).1 ::
        (newParents g onto st.1 st.2 p0 rest).2⟩], st.2) := by
  obtain ⟨p0, rest, hps, h1 | h1⟩ := planStep_cases h
  · exact absurd h1.2.2.1 (by simp)
  · exact ⟨p0, rest, hps, h1.2, h1.1⟩

/-! ### plan file -/

theorem split_fields (a : Bytes) (ps : List Bytes) (ha : SP ∉ a) (hps : ∀ p ∈ ps, SP ∉ p) :
    split SP (a ++ ps.flatMap (fun p => SP :: p)) = a :: ps := by
  induction ps generalizing a with
  | nil => simpa using split_no_sep ha
  | cons p ps ih =>
    simp only [List.flatMap_cons, List.cons_append]
    rw [split_append_sep ha]
    rw [ih p (hps p (by simp)) (fun q hq => hps q (List.mem_cons_of_mem _ hq))]

theorem split_entryLine (e : WEntry) (h1 : SP ∉ e.old) (h2 : SP ∉ e.new) (h3 : ∀ p ∈ e.parents, SP ∉ p) :
    split SP (entryLine e) = e.old :: e.new :: e.parents := by
  unfold entryLine
  simp only [List.append_assoc, List.cons_append]
  rw [split_append_sep h1, split_fields e.new e.parents h2 h3]

theorem split1_append_sep {sep : UInt8} {a : Bytes} (h : sep ∉ a) (rest : Bytes) :
    split1 sep (a ++ sep :: rest) = (a, some rest) := by
  induction a with
  | nil => simp [split1]
  | cons c cs ih =>
    have hc : c ≠ sep := fun e => h (by simp [e])
    have hcs : sep ∉ cs := fun e => h (by simp [e])
    simp [split1, hc, ih hcs]

theorem sp_not_mem_toDec (n : Nat) : SP ∉ toDec n := by
  intro h
  rcases mem_toDecAux _ _ _ h with h | ⟨m, hm, h⟩
  · cases h
  · have := congrArg UInt8.toNat h
    rw [digit_toNat hm] at this
    simp [SP] at this
    omega

theorem entryLine_ne_nil (e : WEntry) : (entryLine e).isEmpty = false := by
  unfold entryLine
  cases e.old <;> simp

theorem nl_not_mem_entryLine (e : WEntry) (h1 : NL ∉ e.old) (h2 : NL ∉ e.new)
    (h3 : ∀ p ∈ e.parents, NL ∉ p) : NL ∉ entryLine e := by
  unfold entryLine
  intro h
  simp only [List.mem_append, List.mem_cons, List.mem_flatMap] at h
  rcases h with (h | h | h) | ⟨p, hp, h | h⟩
  · exact h1 h
  · simp [NL, SP] at h
  · exact h2 h
  · simp [NL, SP] at h
  · exact h3 p hp h

theorem dictSet_fresh (d : List WEntry) (e : WEntry) (h : e.old ∉ d.map (·.old)) :
    dictSet d e = d ++ [e] := by
  unfold dictSet
  have : d.any (fun x => x.old == e.old) = false := by
    rw [List.any_eq_false]
    intro x hx hxe
    exact h (List.mem_map.mpr ⟨x, hx, by simpa using hxe⟩)
  simp [this]

/-- splitting the body: one line per entry and a final empty line -/
theorem split_body (es : List WEntry)
    (h : ∀ e ∈ es, NL ∉ entryLine e) :
    split NL (es.flatMap (fun e => entryLine e ++ [NL])) = es.map entryLine ++ [[]] := by
  induction es with
  | nil => simp [split, splitAux]
  | cons e es ih =>
    simp only [List.flatMap_cons, List.append_assoc, List.map_cons, List.cons_append, List.nil_append]
    rw [split_append_sep (h e (by simp))]
    rw [ih (fun e' he' => h e' (List.mem_cons_of_mem _ he'))]

theorem parseLines_entries (es : List WEntry) (acc : List WEntry)
    (hsp : ∀ e ∈ es, SP ∉ e.old ∧ SP ∉ e.new ∧ ∀ p ∈ e.parents, SP ∉ p)
    (hnd : (acc.map (·.old) ++ es.map (·.old)).Nodup) :
    parseLines (es.map entryLine ++ [[]]) acc = .ok (acc ++ es) := by
  induction es generalizing acc with
  | nil => simp [parseLines]
  | cons e es ih =>
    obtain ⟨h1, h2, h3⟩ := hsp e (by simp)
    simp only [List.map_cons, List.cons_append, parseLines, entryLine_ne_nil, Bool.false_eq_true, if_false]
    rw [split_entryLine e h1 h2 h3]
    simp only
    have hfresh : e.old ∉ acc.map (·.old) := by
      intro hm
      have := (List.nodup_append.mp hnd).2.2 e.old hm e.old (by simp)
      exact this rfl
    rw [dictSet_fresh acc ⟨e.old, e.new, e.parents⟩ hfresh]
    rw [ih (acc ++ [e]) (fun e' he' => hsp e' (List.mem_cons_of_mem _ he'))]
    · simp
    · simpa [List.map_append, List.append_assoc] using hnd

end BreezyVerif.C51
