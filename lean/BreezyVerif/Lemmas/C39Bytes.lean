import BreezyVerif.Model.C39
import BreezyVerif.Lemmas.C39Header
/-! C39 helper lemmas: a diff written to a byte stream and read back line by line
is the same list of lines; texts are byte strings split after every newline. -/
namespace BreezyVerif.C39

/-- a written line: ends with `\n` and has no other `\n` -/
def termLine (l : Bytes) : Bool := endsNl l ∧ nlB ∉ l.dropLast

/-- a line of a text: at most a final `\n` -/
def cleanLine (l : Bytes) : Bool := nlB ∉ l.dropLast

def content : HLine → Line
  | .ctx l => l
  | .ins l => l
  | .rem l => l

theorem splitNL_line (p rest : Bytes) (hp : nlB ∉ p) :
    splitNL (p ++ nlB :: rest) = (p ++ [nlB]) :: splitNL rest := by
  induction p with
  | nil => simp [splitNL]
  | cons c p ih =>
    simp only [List.mem_cons, not_or] at hp
    have hc : c ≠ nlB := fun h => hp.1 h.symm
    simp only [List.cons_append, splitNL, hc, if_false, ih hp.2]

theorem splitNL_last (p : Bytes) (hp : nlB ∉ p) (hne : p ≠ []) : splitNL p = [p] := by
  induction p with
  | nil => exact absurd rfl hne
  | cons c p ih =>
    simp only [List.mem_cons, not_or] at hp
    have hc : c ≠ nlB := fun h => hp.1 h.symm
    cases p with
    | nil => simp [splitNL, hc]
    | cons d p =>
      have := ih hp.2 (by simp)
      simp only [splitNL, hc, if_false] at this ⊢
      rw [this]

theorem termLine_split (l : Bytes) (h : termLine l = true) : ∃ p, l = p ++ [nlB] ∧ nlB ∉ p := by
  simp only [termLine, Bool.decide_and, Bool.and_eq_true, decide_eq_true_eq, endsNl] at h
  refine ⟨l.dropLast, ?_, h.2⟩
  have hne : l ≠ [] := by intro he; simp [he] at h
  have := List.dropLast_concat_getLast hne
  rw [List.getLast?_eq_some_getLast hne] at h
  simp only [Option.some.injEq] at h
  rw [← h.1]; exact this.symm

/-- reading back a written stream of terminated lines -/
theorem splitNL_flatten (ls : List Bytes) (rest : Bytes) (h : ∀ l ∈ ls, termLine l = true) :
    splitNL (ls.flatten ++ rest) = ls ++ splitNL rest := by
  induction ls with
  | nil => simp
  | cons l ls ih =>
    obtain ⟨p, rfl, hp⟩ := termLine_split l (h l (by simp))
    have e : ((p ++ [nlB]) :: ls).flatten ++ rest = p ++ nlB :: (ls.flatten ++ rest) := by
      simp [List.append_assoc]
    rw [e, splitNL_line p _ hp, ih (fun x hx => h x (List.mem_cons_of_mem _ hx))]
    rfl

theorem flatten_splitNL (s : Bytes) : (splitNL s).flatten = s := by
  induction s with
  | nil => simp [splitNL]
  | cons c cs ih =>
    simp only [splitNL]
    split
    · rename_i hc; subst hc; simp [ih]
    · cases hs : splitNL cs with
      | nil => simp [hs] at ih ⊢; exact ih
      | cons l ls => simp [hs] at ih ⊢; exact ih

/-- the lines of a split byte string are non-empty and have at most a final newline -/
theorem splitNL_clean (s : Bytes) : ∀ l ∈ splitNL s, l ≠ [] ∧ cleanLine l = true := by
  induction s with
  | nil => simp [splitNL]
  | cons c cs ih =>
    simp only [splitNL]
    split
    · intro l hl
      rcases List.mem_cons.mp hl with rfl | hl
      · simp [cleanLine]
      · exact ih l hl
    · rename_i hc
      cases hs : splitNL cs with
      | nil => intro l hl; simp at hl; subst hl; simp [cleanLine]
      | cons l0 ls =>
        intro l hl
        rw [hs] at ih
        rcases List.mem_cons.mp hl with rfl | hl
        · have := ih l0 (by simp)
          refine ⟨by simp, ?_⟩
          simp only [cleanLine, decide_eq_true_eq] at this ⊢
          have hne := this.1
          rw [List.dropLast_cons_of_ne_nil hne]
          simp only [List.mem_cons, not_or]
          exact ⟨fun h => hc h.symm, this.2⟩
        · exact ih l (List.mem_cons_of_mem _ hl)

/-! ### every line `internal_diff` writes is terminated -/

theorem termLine_writeLine (c : UInt8) (x : Bytes) (hc : c ≠ nlB) (hx : cleanLine x = true) :
    ∀ w ∈ writeLine (c :: x), termLine w = true := by
  simp only [cleanLine, decide_eq_true_eq] at hx
  intro w hw
  unfold writeLine at hw
  split at hw
  · rename_i he
    simp only [List.mem_singleton] at hw
    subst hw
    simp only [termLine, he, Bool.decide_and, Bool.and_eq_true, decide_eq_true_eq, true_and]
    cases x with
    | nil => simp [endsNl] at he; exact absurd he hc
    | cons d x =>
      rw [List.dropLast_cons_of_ne_nil (by simp)]
      simp only [List.mem_cons, not_or]
      exact ⟨fun h => hc h.symm, by simpa using hx⟩
  · rename_i he
    simp only [List.mem_cons, List.not_mem_nil, or_false] at hw
    rcases hw with rfl | rfl
    · simp only [termLine, Bool.decide_and, Bool.and_eq_true, decide_eq_true_eq]
      refine ⟨by rw [endsNl, List.getLast?_concat]; simp, ?_⟩
      rw [List.dropLast_concat]
      simp only [List.mem_cons, not_or]
      refine ⟨fun h => hc h.symm, ?_⟩
      -- x does not end in a newline and has none before its last byte
      intro hmem
      cases hxe : x.getLast? with
      | none => simp [List.getLast?_eq_none_iff] at hxe; subst hxe; simp at hmem
      | some z =>
        have hne : x ≠ [] := by intro h; subst h; simp at hxe
        have hsplit := List.dropLast_concat_getLast hne
        rw [List.getLast?_eq_some_getLast hne] at hxe
        simp only [Option.some.injEq] at hxe
        rw [← hsplit, List.mem_append] at hmem
        rcases hmem with hm | hm
        · exact hx hm
        · simp only [List.mem_singleton] at hm
          apply he
          simp [endsNl, List.getLast?_cons_of_ne_nil hne, List.getLast?_eq_some_getLast hne, hm]
    · decide

theorem termLine_headerFull (h : Hunk) : termLine (headerFull h) = true := by
  have hd : digitV nlB = none := by decide
  simp only [termLine, Bool.decide_and, Bool.and_eq_true, decide_eq_true_eq]
  have : headerFull h = ([atB, atB, spB, minusB] ++ natB h.origPos ++ [commaB] ++ natB h.origRange ++ [spB, plusB]
      ++ natB h.modPos ++ [commaB] ++ natB h.modRange ++ [spB, atB, atB]) ++ [nlB] := by
    simp [headerFull, List.append_assoc]
  rw [this, List.dropLast_concat]
  refine ⟨by rw [endsNl, List.getLast?_concat]; simp, ?_⟩
  simp only [List.mem_append, List.mem_cons, List.not_mem_nil, or_false, not_or]
  have n1 := not_mem_natB h.origPos nlB hd
  have n2 := not_mem_natB h.origRange nlB hd
  have n3 := not_mem_natB h.modPos nlB hd
  have n4 := not_mem_natB h.modRange nlB hd
  refine ⟨⟨⟨⟨⟨⟨⟨⟨?_, n1⟩, ?_⟩, n2⟩, ?_⟩, n3⟩, ?_⟩, n4⟩, ?_⟩ <;> decide

theorem termLine_hline (l : HLine) (hl : cleanLine (content l) = true) :
    ∀ w ∈ writeLine (hlineBytes l), termLine w = true := by
  cases l with
  | ctx x => exact termLine_writeLine spB x (by decide) hl
  | ins x => exact termLine_writeLine plusB x (by decide) hl
  | rem x => exact termLine_writeLine minusB x (by decide) hl

theorem termLine_diffLines (hs : List Hunk) (hc : ∀ h ∈ hs, ∀ l ∈ h.lines, cleanLine (content l) = true) :
    ∀ w ∈ diffLines hs, termLine w = true := by
  intro w hw
  unfold diffLines at hw
  split at hw
  · simp at hw
  · simp only [List.cons_append, List.nil_append, List.mem_cons, List.mem_append, List.mem_flatMap,
      List.mem_singleton, List.not_mem_nil, or_false] at hw
    rcases hw with rfl | rfl | ⟨h, hh, hw⟩ | rfl
    · decide
    · decide
    · rcases hw with rfl | ⟨l, hl, hw⟩
      · exact termLine_headerFull h
      · exact termLine_hline l (hc h hh l hl) w hw
    · decide

/-- a diff written to a byte stream and read back line by line is the same list of lines -/
theorem splitNL_diffLines (hs : List Hunk) (hc : ∀ h ∈ hs, ∀ l ∈ h.lines, cleanLine (content l) = true) :
    splitNL (diffLines hs).flatten = diffLines hs := by
  have := splitNL_flatten (diffLines hs) [] (termLine_diffLines hs hc)
  simpa [splitNL] using this

/-! ### hunk lines come from the two texts -/

theorem mem_slice {α : Type} (l : List α) (i j : Nat) (x : α) (h : x ∈ slice l i j) : x ∈ l :=
  List.mem_of_mem_drop (List.mem_of_mem_take h)

theorem opLines_mem (a b : List Line) (o : Op) : ∀ l ∈ opLines a b o, content l ∈ a ∨ content l ∈ b := by
  intro l hl
  unfold opLines at hl
  cases ht : o.tag <;> simp only [ht, List.mem_map, List.mem_append] at hl
  · obtain ⟨x, hx, rfl⟩ := hl; exact Or.inl (mem_slice _ _ _ _ hx)
  · rcases hl with ⟨x, hx, rfl⟩ | ⟨x, hx, rfl⟩
    · exact Or.inl (mem_slice _ _ _ _ hx)
    · exact Or.inr (mem_slice _ _ _ _ hx)
  · obtain ⟨x, hx, rfl⟩ := hl; exact Or.inl (mem_slice _ _ _ _ hx)
  · obtain ⟨x, hx, rfl⟩ := hl; exact Or.inr (mem_slice _ _ _ _ hx)

theorem groupHunk_mem (a b : List Line) (g : Group) (h : Hunk) (hg : groupHunk a b g = some h) :
    ∀ l ∈ h.lines, content l ∈ a ∨ content l ∈ b := by
  unfold groupHunk at hg
  split at hg
  · simp only [Option.some.injEq] at hg
    subst hg
    intro l hl
    simp only [List.mem_flatMap] at hl
    obtain ⟨o, _, hl⟩ := hl
    exact opLines_mem a b o l hl
  · simp at hg

theorem mapM_groupHunk_mem (a b : List Line) (gs : List Group) (hs : List Hunk)
    (hm : gs.mapM (groupHunk a b) = some hs) :
    ∀ h ∈ hs, ∀ l ∈ h.lines, content l ∈ a ∨ content l ∈ b := by
  induction gs generalizing hs with
  | nil => simp at hm; subst hm; simp
  | cons g gs ih =>
    simp only [List.mapM_cons, Option.pure_def, Option.bind_eq_bind] at hm
    cases hg : groupHunk a b g with
    | none => simp [hg] at hm
    | some h0 =>
      cases hr : gs.mapM (groupHunk a b) with
      | none => simp [hg, hr] at hm
      | some hs0 =>
        simp only [hg, hr, Option.bind_some, Option.some.injEq] at hm
        subst hm
        intro h hh
        rcases List.mem_cons.mp hh with rfl | hh
        · exact groupHunk_mem a b g _ hg
        · exact ih hs0 hr h hh

theorem fixFirst_lines (a b : List Line) (hs : List Hunk) :
    (fixFirst a b hs).map (·.lines) = hs.map (·.lines) := by
  cases hs with
  | nil => rfl
  | cons h hs =>
    simp only [fixFirst]
    split
    · split <;> rfl
    · split
      · split <;> rfl
      · rfl

theorem mkHunks_mem (a b : List Line) (gs : List Group) (hs : List Hunk) (hm : mkHunks a b gs = some hs) :
    ∀ h ∈ hs, ∀ l ∈ h.lines, content l ∈ a ∨ content l ∈ b := by
  simp only [mkHunks, Option.map_eq_some_iff] at hm
  obtain ⟨hs0, hm0, rfl⟩ := hm
  intro h hh l hl
  have h1 : h.lines ∈ (fixFirst a b hs0).map (·.lines) := List.mem_map.mpr ⟨h, hh, rfl⟩
  rw [fixFirst_lines] at h1
  obtain ⟨h', hh', he⟩ := List.mem_map.mp h1
  exact mapM_groupHunk_mem a b gs hs0 hm0 h' hh' l (he ▸ hl)

end BreezyVerif.C39
