import BreezyVerif.Lemmas.C51
/-!
C51 — `generate_transpose_plan`: the worklist loop never leaves a replaced
revision as a parent of a rewritten one (unless its replacement is a parent as
well), provided the replacement / generated ids are fresh.
-/
namespace BreezyVerif.C51
open BreezyVerif.C33

/-- the renamed revisions -/
def rks (renames : List (Key × Key)) : List Key := renames.map (·.1)

/-- the id a revision is replaced by: its rename target, else `generate_revid` -/
def nw (renames : List (Key × Key)) (gen : Key → Key) (k : Key) : Key :=
  match renames.find? (fun rv => rv.1 == k) with
  | some rv => rv.2
  | none => gen k

/-- every revision the ancestry mentions (as a key or as a parent) and every renamed revision -/
def tNodes (ancestry : List (Key × Option (List Key))) (renames : List (Key × Key)) : List Key :=
  ancestry.flatMap (fun a => a.1 :: (match a.2 with | some ps => ps | none => [])) ++ rks renames

theorem nw_not_rk {renames : List (Key × Key)} {gen : Key → Key} {k : Key} (h : k ∉ rks renames) :
    nw renames gen k = gen k := by
  unfold nw
  have : renames.find? (fun rv => rv.1 == k) = none := by
    rw [List.find?_eq_none]
    intro rv hrv hk
    exact h (List.mem_map.mpr ⟨rv, hrv, by simpa using hk⟩)
  rw [this]

theorem nw_rk {renames : List (Key × Key)} {gen : Key → Key} (hnd : (rks renames).Nodup) {rv : Key × Key}
    (hrv : rv ∈ renames) : nw renames gen rv.1 = rv.2 := by
  unfold nw
  induction renames with
  | nil => cases hrv
  | cons x rest ih =>
    simp only [rks, List.map_cons, List.nodup_cons] at hnd
    simp only [List.find?_cons]
    rcases List.mem_cons.mp hrv with h | h
    · subst h; simp
    · have hne : (x.1 == rv.1) = false := by
        have : x.1 ≠ rv.1 := fun e => hnd.1 (e ▸ List.mem_map.mpr ⟨rv, h, rfl⟩)
        simpa using this
      simp only [hne]
      exact ih hnd.2 h

theorem any_rk {renames : List (Key × Key)} {c : Key} : renames.any (fun x => x.1 == c) = true ↔ c ∈ rks renames := by
  simp only [rks, List.any_eq_true, List.mem_map, beq_iff_eq]

/-! ### `planSet`, `lookupEntry`, `replaceFirst` -/

theorem mem_planSet {d : Plan} {e x : Entry} (h : x ∈ planSet d e) : x = e ∨ (x ∈ d ∧ x.old ≠ e.old) := by
  unfold planSet at h
  by_cases hany : (d.any fun y => y.old == e.old) = true
  · simp only [hany, if_true] at h
    obtain ⟨y, hy, hxy⟩ := List.mem_map.mp h
    by_cases hc : (y.old == e.old) = true
    · simp only [hc, if_true] at hxy; exact Or.inl hxy.symm
    · simp only [hc] at hxy
      subst hxy
      exact Or.inr ⟨hy, by simpa using hc⟩
  · simp only [hany] at h
    rcases List.mem_append.mp h with h | h
    · refine Or.inr ⟨h, ?_⟩
      intro heq
      apply hany
      exact List.any_eq_true.mpr ⟨x, h, by simpa using heq⟩
    · simp only [List.mem_singleton] at h; exact Or.inl h

theorem planSet_self (d : Plan) (e : Entry) : e ∈ planSet d e := by
  unfold planSet
  split
  · rename_i hany
    obtain ⟨y, hy, hye⟩ := List.any_eq_true.mp hany
    exact List.mem_map.mpr ⟨y, hy, by simp only [hye, if_true]⟩
  · simp

theorem planSet_keeps {d : Plan} {e x : Entry} (hx : x ∈ d) (hne : x.old ≠ e.old) : x ∈ planSet d e := by
  unfold planSet
  split
  · exact List.mem_map.mpr ⟨x, hx, by simp [hne]⟩
  · exact List.mem_append_left _ hx

theorem planSet_olds {d : Plan} {e : Entry} {k : Key} (hk : k ∈ d.map (·.old)) : k ∈ (planSet d e).map (·.old) := by
  obtain ⟨x, hx, hxk⟩ := List.mem_map.mp hk
  by_cases h : x.old = e.old
  · exact List.mem_map.mpr ⟨e, planSet_self d e, by rw [← h, hxk]⟩
  · exact List.mem_map.mpr ⟨x, planSet_keeps hx h, hxk⟩

theorem lookupEntry_some {rm : Plan} {k : Key} {e : Entry} (h : lookupEntry rm k = some e) : e ∈ rm ∧ e.old = k := by
  induction rm with
  | nil => simp [lookupEntry] at h
  | cons x rest ih =>
    simp only [lookupEntry] at h
    split at h
    · rename_i hx
      simp only [Option.some.injEq] at h
      subst h
      exact ⟨by simp, hx⟩
    · exact ⟨List.mem_cons_of_mem _ (ih h).1, (ih h).2⟩

theorem lookupEntry_none {rm : Plan} {k : Key} (h : lookupEntry rm k = none) : k ∉ rm.map (·.old) := by
  induction rm with
  | nil => simp
  | cons x rest ih =>
    simp only [lookupEntry] at h
    split at h
    · cases h
    · rename_i hx
      simp only [List.map_cons, List.mem_cons, not_or]
      exact ⟨fun e => hx e.symm, ih h⟩

theorem replaceFirst_spec {r n : Key} : ∀ {l l' : List Key}, replaceFirst r n l = some l' →
    n ∈ l' ∧ (∀ x ∈ l', x = n ∨ x ∈ l) ∧ (∀ x ∈ l, x ≠ r → x ∈ l') := by
  intro l
  induction l with
  | nil => intro l' h; simp [replaceFirst] at h
  | cons y ys ih =>
    intro l' h
    simp only [replaceFirst] at h
    split at h
    · simp only [Option.some.injEq] at h
      subst h
      rename_i hy
      refine ⟨by simp, fun x hx => ?_, fun x hx hne => ?_⟩
      · rcases List.mem_cons.mp hx with h1 | h1
        · exact Or.inl h1
        · exact Or.inr (List.mem_cons_of_mem _ h1)
      · rcases List.mem_cons.mp hx with h1 | h1
        · exact absurd (h1.trans hy) hne
        · exact List.mem_cons_of_mem _ h1
    · cases hr : replaceFirst r n ys with
      | none => simp [hr] at h
      | some t =>
        simp only [hr, Option.map_some, Option.some.injEq] at h
        subst h
        obtain ⟨h1, h2, h3⟩ := ih hr
        refine ⟨List.mem_cons_of_mem _ h1, fun x hx => ?_, fun x hx hne => ?_⟩
        · rcases List.mem_cons.mp hx with h4 | h4
          · exact Or.inr (by simp [h4])
          · rcases h2 x h4 with h5 | h5
            · exact Or.inl h5
            · exact Or.inr (List.mem_cons_of_mem _ h5)
        · rcases List.mem_cons.mp hx with h4 | h4
          · simp [h4]
          · exact List.mem_cons_of_mem _ (h3 x h4 hne)

/-! ### the ancestry tables -/

theorem childrenIn_nodes {ancestry : List (Key × Option (List Key))} {renames : List (Key × Key)} {r : Key}
    {cs : List Key} (h : childrenIn ancestry r = some cs) : ∀ c ∈ cs, c ∈ tNodes ancestry renames := by
  unfold childrenIn at h
  split at h
  · simp only [Option.some.injEq] at h
    subst h
    intro c hc
    obtain ⟨a, ha, hca⟩ := List.mem_flatMap.mp hc
    have : c = a.1 := by
      cases h2 : a.2 with
      | none => simp [h2] at hca
      | some ps =>
        simp only [h2, List.mem_map] at hca
        obtain ⟨_, _, h3⟩ := hca
        exact h3.symm
    unfold tNodes
    exact List.mem_append_left _ (List.mem_flatMap.mpr ⟨a, ha, by simp [this]⟩)
  · cases h

/-- for a revision the ancestry knows, `parent_map` comes from the ancestry and `children` is consistent with it -/
theorem tParents_children {ancestry : List (Key × Option (List Key))} {g : PMap} {targets : List Key} {c r : Key}
    {ps : List Key} (hc : c ∉ targets) (h : tParents ancestry g targets c = some ps) (hr : r ∈ ps) :
    ∃ cs, childrenIn ancestry r = some cs ∧ c ∈ cs := by
  unfold tParents at h
  split at h
  · rename_i k ps' hfind
    simp only [Option.some.injEq] at h
    subst h
    have hmem := List.mem_of_find?_eq_some hfind
    have hprop := List.find?_some hfind
    simp only [Bool.and_eq_true, beq_iff_eq] at hprop
    have hin : (c, some ps') ∈ ancestry := by
      have := List.mem_reverse.mp hmem
      rw [← hprop.1]
      exact this
    unfold childrenIn
    split
    · refine ⟨_, rfl, ?_⟩
      refine List.mem_flatMap.mpr ⟨(c, some ps'), hin, ?_⟩
      simp only [List.mem_map, List.mem_filter, beq_iff_eq]
      exact ⟨r, ⟨hr, rfl⟩, trivial⟩
    · rename_i hn
      exact absurd (List.any_eq_true.mpr ⟨(c, some ps'), hin, by simp [hr]⟩) hn
  · rw [if_neg hc] at h; cases h

/-- `replace_map[c][1] if c in replace_map else parent_map[c]` -/
def srcParents (rm : Plan) (pmap : Key → Option (List Key)) (c : Key) : Option (List Key) :=
  match lookupEntry rm c with
  | some e => some e.parents
  | none => pmap c

/-- `if replace_map[r][0] not in parents: parents[parents.index(r)] = replace_map[r][0]` -/
def substParent (r rnew : Key) (parents : List Key) : Option (List Key) :=
  if rnew ∈ parents then some parents else replaceFirst r rnew parents

theorem tChildren_cons (pmap : Key → Option (List Key)) (gen : Key → Key) (renames : List (Key × Key))
    (r rnew : Key) (processed : List Key) (c : Key) (cs : List Key) (rm : Plan) (todo : List Key) :
    tChildren pmap gen renames r rnew processed (c :: cs) rm todo =
      if renames.any (·.1 == c) then tChildren pmap gen renames r rnew processed cs rm todo
      else match srcParents rm pmap c with
        | none => .error .keyError
        | some parents =>
          match substParent r rnew parents with
          | none => .error .valueError
          | some parents' =>
            if gen c = c then
              tChildren pmap gen renames r rnew processed cs ((planSet rm ⟨c, gen c, parents'⟩).filter (·.old != c)) todo
            else if c ∈ processed then
              tChildren pmap gen renames r rnew processed cs (planSet rm ⟨c, gen c, parents'⟩) todo
            else tChildren pmap gen renames r rnew processed cs (planSet rm ⟨c, gen c, parents'⟩) (todo ++ [c]) := by
  first
    | rfl
    | (simp only [tChildren, srcParents, substParent])

/-! ### the loop invariant -/

/-- `Pq`: what counts as processed for the worklist bookkeeping, `P`: the revisions whose children are all done -/
structure TInv (ancestry : List (Key × Option (List Key))) (pmap : Key → Option (List Key)) (gen : Key → Key)
    (renames : List (Key × Key)) (Pq P : List Key) (rm : Plan) (todo : List Key) : Prop where
  new_eq : ∀ e ∈ rm, e.new = nw renames gen e.old
  queued : ∀ e ∈ rm, e.old ∈ Pq ∨ e.old ∈ todo
  closed : ∀ e ∈ rm, e.old ∉ rks renames → ∀ r ∈ P, r ∈ e.parents → nw renames gen r ∈ e.parents
  kids : ∀ r ∈ P, ∀ cs, childrenIn ancestry r = some cs → ∀ c ∈ cs, c ∉ rks renames → c ∈ rm.map (·.old)
  nodesP : ∀ r ∈ P, r ∈ tNodes ancestry renames
  nodesT : ∀ r ∈ todo, r ∈ tNodes ancestry renames
  src : ∀ e ∈ rm, e.old ∉ rks renames → e.old ∈ tNodes ancestry renames ∧
    ∀ p ∈ e.parents, p ∈ tNodes ancestry renames → ∃ ps, pmap e.old = some ps ∧ p ∈ ps
  rk : ∀ k ∈ rks renames, k ∈ rm.map (·.old)

/-- the `for c in children[r]` loop keeps the invariant and finishes `r` -/
theorem tChildren_inv (ancestry : List (Key × Option (List Key))) (pmap : Key → Option (List Key))
    (gen : Key → Key) (renames : List (Key × Key)) (P : List Key) (r : Key)
    (hfresh : ∀ k, nw renames gen k ∉ tNodes ancestry renames)
    (hcons : ∀ c ∈ tNodes ancestry renames, ∀ ps, pmap c = some ps → ∀ q ∈ ps,
      ∃ cs, childrenIn ancestry q = some cs ∧ c ∈ cs)
    (hrn : r ∈ tNodes ancestry renames) :
    ∀ (cs dn : List Key) (rm : Plan) (todo : List Key) (rm' : Plan) (todo' : List Key),
      (∀ c ∈ cs, c ∈ tNodes ancestry renames) →
      TInv ancestry pmap gen renames (P ++ [r]) P rm todo →
      (∀ e ∈ rm, e.old ∉ rks renames → e.old ∈ dn → r ∈ e.parents → nw renames gen r ∈ e.parents) →
      (∀ c ∈ dn, c ∉ rks renames → c ∈ rm.map (·.old)) →
      tChildren pmap gen renames r (nw renames gen r) (P ++ [r]) cs rm todo = .ok (rm', todo') →
      TInv ancestry pmap gen renames (P ++ [r]) P rm' todo' ∧
      (∀ e ∈ rm', e.old ∉ rks renames → e.old ∈ dn ++ cs → r ∈ e.parents → nw renames gen r ∈ e.parents) ∧
      (∀ c ∈ dn ++ cs, c ∉ rks renames → c ∈ rm'.map (·.old)) := by
  intro cs
  induction cs with
  | nil =>
    intro dn rm todo rm' todo' _ hinv hcr hkr h
    simp only [tChildren, Except.ok.injEq, Prod.mk.injEq] at h
    obtain ⟨h1, h2⟩ := h
    subst h1; subst h2
    simp only [List.append_nil]
    exact ⟨hinv, hcr, hkr⟩
  | cons c cs ih =>
    intro dn rm todo rm' todo' hcsn hinv hcr hkr h
    have hcn : c ∈ tNodes ancestry renames := hcsn c (by simp)
    have hcsn' : ∀ x ∈ cs, x ∈ tNodes ancestry renames := fun x hx => hcsn x (List.mem_cons_of_mem _ hx)
    rw [tChildren_cons] at h
    by_cases hrk : renames.any (fun x => x.1 == c) = true
    · -- a renamed child is skipped
      simp only [hrk, if_true] at h
      have hck : c ∈ rks renames := any_rk.mp hrk
      have := ih (dn ++ [c]) rm todo rm' todo' hcsn' hinv
        (fun e he hne hd => by
          rcases List.mem_append.mp hd with hd | hd
          · exact hcr e he hne hd
          · simp only [List.mem_singleton] at hd; exact absurd (hd ▸ hck) hne)
        (fun x hx hne => by
          rcases List.mem_append.mp hx with hx | hx
          · exact hkr x hx hne
          · simp only [List.mem_singleton] at hx; exact absurd (hx ▸ hck) hne) h
      simpa [List.append_assoc] using this
    · simp only [hrk] at h
      have hck : c ∉ rks renames := fun hm => hrk (any_rk.mpr hm)
      -- the parents the step starts from
      cases hsrc : srcParents rm pmap c with
      | none => simp [hsrc] at h
      | some parents =>
        simp only [hsrc] at h
        -- properties of `parents`
        have hpar : (∀ r' ∈ P, r' ∈ parents → nw renames gen r' ∈ parents) ∧
            (∀ p ∈ parents, p ∈ tNodes ancestry renames → ∃ ps, pmap c = some ps ∧ p ∈ ps) ∧
            (c ∈ dn → r ∈ parents → nw renames gen r ∈ parents) := by
          unfold srcParents at hsrc
          cases hl : lookupEntry rm c with
          | some e0 =>
            simp only [hl, Option.some.injEq] at hsrc
            obtain ⟨he0, he0c⟩ := lookupEntry_some hl
            subst hsrc
            refine ⟨fun r' hr' hm => hinv.closed e0 he0 (he0c ▸ hck) r' hr' hm, ?_, ?_⟩
            · have := (hinv.src e0 he0 (he0c ▸ hck)).2
              rw [he0c] at this
              exact this
            · intro hd hm
              exact hcr e0 he0 (he0c ▸ hck) (he0c ▸ hd) hm
          | none =>
            simp only [hl] at hsrc
            have hnot : c ∉ rm.map (·.old) := lookupEntry_none hl
            refine ⟨fun r' hr' hm => ?_, fun p hp _ => ⟨parents, hsrc, hp⟩, fun hd _ => ?_⟩
            · exfalso
              obtain ⟨cs', hcs', hcm⟩ := hcons c hcn parents hsrc r' hm
              exact hnot (hinv.kids r' hr' cs' hcs' c hcm hck)
            · exact absurd (hkr c hd hck) hnot
        cases hrep : substParent r (nw renames gen r) parents with
        | none => simp [hrep] at h
        | some parents' =>
          simp only [hrep] at h
          unfold substParent at hrep
          -- properties of `parents'`
          have hpar' : (∀ x ∈ parents', x = nw renames gen r ∨ x ∈ parents) ∧
              (∀ x ∈ parents, x ≠ r → x ∈ parents') ∧ (r ∈ parents' → nw renames gen r ∈ parents') := by
            by_cases hin : nw renames gen r ∈ parents
            · simp only [hin, if_true, Option.some.injEq] at hrep
              subst hrep
              exact ⟨fun x hx => Or.inr hx, fun x hx _ => hx, fun _ => hin⟩
            · simp only [hin, if_false] at hrep
              obtain ⟨h1, h2, h3⟩ := replaceFirst_spec hrep
              exact ⟨h2, h3, fun _ => h1⟩
          have hgen : gen c ≠ c := by
            intro he
            have := hfresh c
            rw [nw_not_rk hck, he] at this
            exact this hcn
          simp only [hgen, if_false] at h
          -- the invariant for the map with the new entry
          let e1 : Entry := ⟨c, gen c, parents'⟩
          have hbase : ∀ todo1, (c ∈ P ++ [r] ∨ c ∈ todo1) → (∀ x ∈ todo, x ∈ todo1) →
              (∀ x ∈ todo1, x ∈ tNodes ancestry renames) →
              TInv ancestry pmap gen renames (P ++ [r]) P (planSet rm e1) todo1 := by
            intro todo1 hq hsub hnt
            refine ⟨?_, ?_, ?_, ?_, hinv.nodesP, hnt, ?_, ?_⟩
            · intro e he
              rcases mem_planSet he with h1 | ⟨h1, _⟩
              · subst h1; exact (nw_not_rk hck).symm
              · exact hinv.new_eq e h1
            · intro e he
              rcases mem_planSet he with h1 | ⟨h1, _⟩
              · subst h1; exact hq
              · rcases hinv.queued e h1 with h2 | h2
                · exact Or.inl h2
                · exact Or.inr (hsub _ h2)
            · intro e he hne r' hr' hm
              rcases mem_planSet he with h1 | ⟨h1, _⟩
              · subst h1
                have hr'n := hinv.nodesP r' hr'
                rcases hpar'.1 r' hm with h2 | h2
                · exact absurd (h2 ▸ hr'n) (hfresh r)
                · have h3 := hpar.1 r' hr' h2
                  exact hpar'.2.1 _ h3 (fun e => hfresh r' (e ▸ hrn))
              · exact hinv.closed e h1 hne r' hr' hm
            · intro r' hr' cs' hcs' x hx hne
              exact planSet_olds (hinv.kids r' hr' cs' hcs' x hx hne)
            · intro e he hne
              rcases mem_planSet he with h1 | ⟨h1, _⟩
              · subst h1
                refine ⟨hcn, fun p hp hpn => ?_⟩
                rcases hpar'.1 p hp with h2 | h2
                · exact absurd (h2 ▸ hpn) (hfresh r)
                · exact hpar.2.1 p h2 hpn
              · exact hinv.src e h1 hne
            · intro k hk
              exact planSet_olds (hinv.rk k hk)
          have hcr1 : ∀ e ∈ planSet rm e1, e.old ∉ rks renames → e.old ∈ dn ++ [c] → r ∈ e.parents →
              nw renames gen r ∈ e.parents := by
            intro e he hne hd hm
            rcases mem_planSet he with h1 | ⟨h1, h2⟩
            · subst h1; exact hpar'.2.2 hm
            · rcases List.mem_append.mp hd with hd | hd
              · exact hcr e h1 hne hd hm
              · simp only [List.mem_singleton] at hd; exact absurd hd h2
          have hkr1 : ∀ x ∈ dn ++ [c], x ∉ rks renames → x ∈ (planSet rm e1).map (·.old) := by
            intro x hx hne
            rcases List.mem_append.mp hx with hx | hx
            · exact planSet_olds (hkr x hx hne)
            · simp only [List.mem_singleton] at hx
              subst hx
              exact List.mem_map.mpr ⟨e1, planSet_self rm e1, rfl⟩
          by_cases hproc : c ∈ P ++ [r]
          · simp only [hproc, if_true] at h
            have := ih (dn ++ [c]) (planSet rm e1) todo rm' todo' hcsn'
              (hbase todo (Or.inl hproc) (fun _ hx => hx) hinv.nodesT) hcr1 hkr1 h
            simpa [List.append_assoc] using this
          · simp only [hproc, if_false] at h
            have := ih (dn ++ [c]) (planSet rm e1) (todo ++ [c]) rm' todo' hcsn'
              (hbase (todo ++ [c]) (Or.inr (by simp)) (fun _ hx => List.mem_append_left _ hx)
                (fun x hx => by
                  rcases List.mem_append.mp hx with hx | hx
                  · exact hinv.nodesT x hx
                  · simp only [List.mem_singleton] at hx; exact hx ▸ hcn)) hcr1 hkr1 h
            simpa [List.append_assoc] using this

/-- the `while len(todo) > 0` loop: when it ends, every entry's key has been processed with all its children -/
theorem tLoop_inv (ancestry : List (Key × Option (List Key))) (pmap : Key → Option (List Key))
    (gen : Key → Key) (renames : List (Key × Key))
    (hfresh : ∀ k, nw renames gen k ∉ tNodes ancestry renames)
    (hcons : ∀ c ∈ tNodes ancestry renames, ∀ ps, pmap c = some ps → ∀ q ∈ ps,
      ∃ cs, childrenIn ancestry q = some cs ∧ c ∈ cs) :
    ∀ (fuel : Nat) (rm : Plan) (todo P : List Key) (out : Plan),
      TInv ancestry pmap gen renames P P rm todo →
      tLoop ancestry pmap gen renames fuel rm todo P = .ok out →
      ∃ Pf, TInv ancestry pmap gen renames Pf Pf out [] := by
  intro fuel
  induction fuel with
  | zero => intro rm todo P out _ h; simp [tLoop] at h
  | succ fuel ih =>
    intro rm todo P out hinv h
    simp only [tLoop] at h
    cases hlast : todo.getLast? with
    | none =>
      simp only [hlast, Except.ok.injEq] at h
      subst h
      have : todo = [] := by simpa using hlast
      subst this
      exact ⟨P, hinv⟩
    | some r =>
      simp only [hlast] at h
      have htodo : todo = todo.dropLast ++ [r] := by
        have hne : todo ≠ [] := by intro e; subst e; simp at hlast
        have := List.dropLast_concat_getLast hne
        rw [List.getLast?_eq_getLast hne] at hlast
        simp only [Option.some.injEq] at hlast
        rw [hlast] at this
        exact this.symm
      have hrn : r ∈ tNodes ancestry renames := hinv.nodesT r (by rw [htodo]; simp)
      cases hle : lookupEntry rm r with
      | none => simp [hle] at h
      | some er =>
        cases hch : childrenIn ancestry r with
        | none => simp [hle, hch] at h
        | some cs =>
          simp only [hle, hch] at h
          have hernew : er.new = nw renames gen r := by
            obtain ⟨h1, h2⟩ := lookupEntry_some hle
            rw [hinv.new_eq er h1, h2]
          rw [hernew] at h
          cases htc : tChildren pmap gen renames r (nw renames gen r) (P ++ [r]) cs rm todo.dropLast with
          | error e => simp [htc] at h
          | ok res =>
            obtain ⟨rm', todo''⟩ := res
            simp only [htc] at h
            -- the invariant with `r` popped
            have hinv0 : TInv ancestry pmap gen renames (P ++ [r]) P rm todo.dropLast := by
              refine ⟨hinv.new_eq, ?_, hinv.closed, hinv.kids, hinv.nodesP, ?_, hinv.src, hinv.rk⟩
              · intro e he
                rcases hinv.queued e he with h1 | h1
                · exact Or.inl (List.mem_append_left _ h1)
                · rw [htodo] at h1
                  rcases List.mem_append.mp h1 with h2 | h2
                  · exact Or.inr h2
                  · exact Or.inl (List.mem_append_right _ h2)
              · intro x hx
                exact hinv.nodesT x (List.dropLast_subset _ hx)
            obtain ⟨h1, h2, h3⟩ := tChildren_inv ancestry pmap gen renames P r hfresh hcons hrn cs [] rm todo.dropLast
              rm' todo'' (childrenIn_nodes hch) hinv0 (fun _ _ _ hd => by cases hd) (fun _ hd => by cases hd) htc
            simp only [List.nil_append] at h2 h3
            apply ih rm' todo'' (P ++ [r]) out _ h
            refine ⟨h1.new_eq, h1.queued, ?_, ?_, ?_, h1.nodesT, h1.src, h1.rk⟩
            · intro e he hne r' hr' hm
              rcases List.mem_append.mp hr' with hr' | hr'
              · exact h1.closed e he hne r' hr' hm
              · simp only [List.mem_singleton] at hr'
                subst hr'
                obtain ⟨heo, hsrc⟩ := h1.src e he hne
                obtain ⟨ps, hps, hin⟩ := hsrc r' hm hrn
                obtain ⟨cs', hcs', hcm⟩ := hcons e.old heo ps hps r' hin
                rw [hch] at hcs'
                simp only [Option.some.injEq] at hcs'
                subst hcs'
                exact h2 e he hne hcm hm
            · intro r' hr' cs' hcs' c hc hne
              rcases List.mem_append.mp hr' with hr' | hr'
              · exact h1.kids r' hr' cs' hcs' c hc hne
              · simp only [List.mem_singleton] at hr'
                subst hr'
                rw [hch] at hcs'
                simp only [Option.some.injEq] at hcs'
                subst hcs'
                exact h3 c hc hne
            · intro r' hr'
              rcases List.mem_append.mp hr' with hr' | hr'
              · exact h1.nodesP r' hr'
              · simp only [List.mem_singleton] at hr'; exact hr' ▸ hrn

/-- the initial map: one entry per rename -/
theorem tInit_spec (pmap : Key → Option (List Key)) :
    ∀ (renames : List (Key × Key)) (acc rm0 : Plan),
      renames.foldl (fun acc rv =>
        match acc with
        | .error e => .error e
        | .ok rm => match pmap rv.2 with
          | some ps => .ok (planSet rm ⟨rv.1, rv.2, ps⟩)
          | none => .error .keyError) (Except.ok acc : Except TErr Plan) = .ok rm0 →
      (∀ e ∈ rm0, e ∈ acc ∨ ∃ rv ∈ renames, e.old = rv.1 ∧ e.new = rv.2) ∧
      (∀ k, (k ∈ acc.map (·.old) ∨ k ∈ rks renames) → k ∈ rm0.map (·.old)) := by
  intro renames
  induction renames with
  | nil =>
    intro acc rm0 h
    simp only [List.foldl_nil, Except.ok.injEq] at h
    subst h
    exact ⟨fun e he => Or.inl he, fun k hk => by rcases hk with h | h; exact h; simp [rks] at h⟩
  | cons rv rest ih =>
    intro acc rm0 h
    simp only [List.foldl_cons] at h
    cases hp : pmap rv.2 with
    | none =>
      simp only [hp] at h
      exfalso
      have : ∀ (l : List (Key × Key)) (e : TErr), l.foldl (fun acc rv =>
          match acc with
          | .error e => .error e
          | .ok rm => match pmap rv.2 with
            | some ps => .ok (planSet rm ⟨rv.1, rv.2, ps⟩)
            | none => .error .keyError) (Except.error e : Except TErr Plan) = .error e := by
        intro l
        induction l with
        | nil => intro e; rfl
        | cons x l ihl => intro e; simp only [List.foldl_cons]; exact ihl e
      rw [this] at h
      cases h
    | some ps =>
      simp only [hp] at h
      obtain ⟨h1, h2⟩ := ih (planSet acc ⟨rv.1, rv.2, ps⟩) rm0 h
      refine ⟨fun e he => ?_, fun k hk => ?_⟩
      · rcases h1 e he with h3 | ⟨rv', hrv', h3⟩
        · rcases mem_planSet h3 with h4 | ⟨h4, _⟩
          · exact Or.inr ⟨rv, by simp, by rw [h4], by rw [h4]⟩
          · exact Or.inl h4
        · exact Or.inr ⟨rv', List.mem_cons_of_mem _ hrv', h3⟩
      · apply h2
        rcases hk with h3 | h3
        · exact Or.inl (planSet_olds h3)
        · simp only [rks, List.map_cons, List.mem_cons] at h3
          rcases h3 with h4 | h4
          · exact Or.inl (List.mem_map.mpr ⟨⟨rv.1, rv.2, ps⟩, planSet_self _ _, h4.symm⟩)
          · exact Or.inr h4

end BreezyVerif.C51
