import BreezyVerif.Lemmas.C11
import BreezyVerif.Lemmas.C11Idem
/-! C11 — lemmas: closed form of "the listing that contains `q` is scanned". -/
namespace BreezyVerif.C11
open BreezyVerif.C46 Forest

/-- the shape of the closed form over abstract predicates on prefix lengths: the listing is scanned
iff the top listing is and every prefix passes, or some prefix starts a scan and every longer one passes -/
def WalkCond (P S : Nat → Bool) (len : Nat) (m : Mode) : Prop :=
  (m = .walk ∧ ∀ j, 0 < j → j < len → P j = true) ∨
  (∃ n, 0 < n ∧ n < len ∧ S n = true ∧ ∀ j, n < j → j < len → P j = true)

theorem WalkCond_congr {P P' S S' : Nat → Bool} {len : Nat} {m : Mode}
    (hP : ∀ j, 0 < j → P j = P' j) (hS : ∀ j, 0 < j → S j = S' j) :
    WalkCond P S len m ↔ WalkCond P' S' len m := by
  unfold WalkCond
  constructor
  · rintro (⟨hm, h⟩ | ⟨n, h0, h1, hs, h⟩)
    · exact Or.inl ⟨hm, fun j a b => by rw [← hP j a]; exact h j a b⟩
    · exact Or.inr ⟨n, h0, h1, by rw [← hS n h0]; exact hs, fun j a b => by rw [← hP j (by omega)]; exact h j a b⟩
  · rintro (⟨hm, h⟩ | ⟨n, h0, h1, hs, h⟩)
    · exact Or.inl ⟨hm, fun j a b => by rw [hP j a]; exact h j a b⟩
    · exact Or.inr ⟨n, h0, h1, by rw [hS n h0]; exact hs, fun j a b => by rw [hP j (by omega)]; exact h j a b⟩

theorem WalkCond_one (P S : Nat → Bool) (m : Mode) : WalkCond P S 1 m ↔ m = .walk := by
  unfold WalkCond
  constructor
  · rintro (⟨hm, _⟩ | ⟨n, h0, h1, _, _⟩)
    · exact hm
    · omega
  · intro hm
    exact Or.inl ⟨hm, fun j a b => by omega⟩

/-- one level down: the first component is consumed -/
theorem WalkCond_succ (P S : Nat → Bool) (L : Nat) (hL : 0 < L) (m m' : Mode)
    (hm' : m' = .walk ↔ (m = .walk ∧ P 1 = true) ∨ S 1 = true) :
    WalkCond P S (L + 1) m ↔ WalkCond (fun j => P (j + 1)) (fun j => S (j + 1)) L m' := by
  unfold WalkCond
  constructor
  · rintro (⟨hm, h⟩ | ⟨n, h0, h1, hs, h⟩)
    · exact Or.inl ⟨hm'.mpr (Or.inl ⟨hm, h 1 (by omega) (by omega)⟩), fun j a b => h (j + 1) (by omega) (by omega)⟩
    · by_cases hn : n = 1
      · subst hn
        exact Or.inl ⟨hm'.mpr (Or.inr hs), fun j a b => h (j + 1) (by omega) (by omega)⟩
      · refine Or.inr ⟨n - 1, by omega, by omega, ?_, fun j a b => h (j + 1) (by omega) (by omega)⟩
        have : n - 1 + 1 = n := by omega
        simp only [this]; exact hs
  · rintro (⟨hm, h⟩ | ⟨n, h0, h1, hs, h⟩)
    · rcases hm'.mp hm with ⟨hw, hp⟩ | hs
      · refine Or.inl ⟨hw, fun j a b => ?_⟩
        by_cases hj : j = 1
        · subst hj; exact hp
        · have := h (j - 1) (by omega) (by omega)
          have e : j - 1 + 1 = j := by omega
          simpa only [e] using this
      · refine Or.inr ⟨1, by omega, by omega, hs, fun j a b => ?_⟩
        have := h (j - 1) (by omega) (by omega)
        have e : j - 1 + 1 = j := by omega
        simpa only [e] using this
    · refine Or.inr ⟨n + 1, by omega, by omega, hs, fun j a b => ?_⟩
      have := h (j - 1) (by omega) (by omega)
      have e : j - 1 + 1 = j := by omega
      simpa only [e] using this

/-! the predicates along a path, relative to the directory `here` -/

def passesRel (c : Cfg) (here : Path) (f : Forest) (e : Path) : Bool :=
  match f.get e with
  | some (i, k) => listed c (here ++ e) i (i.versioned || onPath c (here ++ e) i) && opens c (here ++ e) i k
  | none => false

def startsRel (c : Cfg) (pre : Pre) (here : Path) (f : Forest) (d : Path) : Bool :=
  match f.get d with
  | some (i, k) => sched c pre.ud (here ++ d) i && !namedTreeRef c pre (here ++ d) i k && opens c (here ++ d) i k
  | none => false

variable {c : Cfg} {pre : Pre} {here : Path} {j : Info} {kids rest : Forest} {n a : String} {e t : Path}

theorem passesRel_cons_ne (h : j.name ≠ n) :
    passesRel c here (cons j kids rest) (n :: e) = passesRel c here rest (n :: e) := by
  simp [passesRel, get_cons_ne h]

theorem startsRel_cons_ne (h : j.name ≠ n) :
    startsRel c pre here (cons j kids rest) (n :: e) = startsRel c pre here rest (n :: e) := by
  simp [startsRel, get_cons_ne h]

theorem passesRel_cons_down :
    passesRel c here (cons j kids rest) (j.name :: a :: e) = passesRel c (here ++ [j.name]) kids (a :: e) := by
  simp [passesRel, get_cons_down, List.append_assoc]

theorem startsRel_cons_down :
    startsRel c pre here (cons j kids rest) (j.name :: a :: e) = startsRel c pre (here ++ [j.name]) kids (a :: e) := by
  simp [startsRel, get_cons_down, List.append_assoc]

theorem step_snd_walk (p : Path) (m : Mode) (i : Info) (k : Forest) :
    (step c pre p m i k).2 = .walk ↔
      (m = .walk ∧ (listed c p i (i.versioned || onPath c p i) && opens c p i k) = true) ∨
        (sched c pre.ud p i && !namedTreeRef c pre p i k && opens c p i k) = true := by
  have h : (step c pre p m i k).2 =
      if (visited c pre p m i k (i.versioned || onPath c p i) && opens c p i k) then Mode.walk else Mode.idle := by
    by_cases hv : visited c pre p m i k (i.versioned || onPath c p i) = true <;> simp [step, hv]
  rw [h]
  unfold visited
  cases m <;> simp <;> grind

/-- closed form, relative to a directory: the listing containing `q` is scanned iff … -/
theorem modeOf_walk_iff {f : Forest} {q : Path} {x : Info × Forest} (m : Mode) (hg : f.get q = some x) :
    modeOf c pre here m f q = some .walk ↔
      WalkCond (fun l => passesRel c here f (q.take l)) (fun l => startsRel c pre here f (q.take l)) q.length m := by
  induction f generalizing q here m with
  | nil => simp [Forest.get] at hg
  | cons j kids rest ih1 ih2 =>
    cases q with
    | nil => simp [Forest.get] at hg
    | cons n t =>
      by_cases hn : j.name = n
      · subst hn
        cases t with
        | nil =>
          simp only [modeOf, List.length_singleton, if_true, Option.some.injEq]
          exact (WalkCond_one _ _ m).symm
        | cons a b =>
          rw [get_cons_down] at hg
          have h1 := ih1 (here := here ++ [j.name]) (m := (step c pre (here ++ [j.name]) m j kids).2) hg
          have hmo : modeOf c pre here m (cons j kids rest) (j.name :: a :: b)
              = modeOf c pre (here ++ [j.name]) (step c pre (here ++ [j.name]) m j kids).2 kids (a :: b) := by
            simp [modeOf]
          rw [hmo, h1]
          have hlen : (j.name :: a :: b).length = (a :: b).length + 1 := rfl
          have hs := WalkCond_succ
            (fun l => passesRel c here (cons j kids rest) ((j.name :: a :: b).take l))
            (fun l => startsRel c pre here (cons j kids rest) ((j.name :: a :: b).take l))
            (a :: b).length (by simp) m (step c pre (here ++ [j.name]) m j kids).2
            (by rw [step_snd_walk]; simp [passesRel, startsRel, get_cons_self])
          rw [hlen, hs]
          apply WalkCond_congr
          · intro l hl
            cases l with
            | zero => omega
            | succ l' => simp only [List.take_succ_cons]; exact passesRel_cons_down.symm
          · intro l hl
            cases l with
            | zero => omega
            | succ l' => simp only [List.take_succ_cons]; exact startsRel_cons_down.symm
      · rw [get_cons_ne hn] at hg
        have h2 := ih2 (here := here) (m := m) hg
        have hmo : modeOf c pre here m (cons j kids rest) (n :: t) = modeOf c pre here m rest (n :: t) := by
          simp [modeOf, hn]
        rw [hmo, h2]
        apply WalkCond_congr
        · intro l hl
          cases l with
          | zero => omega
          | succ l' => simp only [List.take_succ_cons]; exact (passesRel_cons_ne hn).symm
        · intro l hl
          cases l with
          | zero => omega
          | succ l' => simp only [List.take_succ_cons]; exact (startsRel_cons_ne hn).symm

/-! ### top level -/

theorem passesRel_nil (f : Forest) (e : Path) : passesRel c [] f e = passesAt c f e := by
  unfold passesRel passesAt
  simp only [List.nil_append]
  rcases f.get e with _ | ⟨i, k⟩ <;> rfl

theorem startsRel_nil (f : Forest) (x : String) (d : Path) :
    startsRel c pre [] f (x :: d) = startsAt c pre f (x :: d) := by
  unfold startsRel startsAt
  simp only [List.nil_append]
  rcases f.get (x :: d) with _ | ⟨i, k⟩ <;> rfl

/-- `reached` spelled out: some proper prefix starts a scan and every longer proper prefix passes -/
theorem reached_iff (f : Forest) (q : Path) :
    reached c pre f q = true ↔
      ∃ n, n < q.length ∧ startsAt c pre f (q.take n) = true ∧
        ∀ j, n < j → j < q.length → passesAt c f (q.take j) = true := by
  simp only [reached, List.any_eq_true, List.mem_range, Bool.and_eq_true, List.all_eq_true, Bool.or_eq_true,
    Bool.not_eq_true', decide_eq_false_iff_not]
  constructor
  · rintro ⟨n, hn, hs, h⟩
    exact ⟨n, hn, hs, fun j a b => (h j b).resolve_left (by omega)⟩
  · rintro ⟨n, hn, hs, h⟩
    refine ⟨n, hn, hs, fun j b => ?_⟩
    by_cases hj : n < j
    · exact Or.inr (h j hj b)
    · exact Or.inl hj

/-- the closed form at the top level: the mode handed down to the listing of `q` is `walk` iff `reached` -/
theorem modeOf_walk_iff_reached {f : Forest} {q : Path} {x : Info × Forest} (hg : f.get q = some x) :
    modeOf c pre [] (rootMode c) f q = some .walk ↔ reached c pre f q = true := by
  rw [modeOf_walk_iff (rootMode c) hg, reached_iff]
  have htake : ∀ l, 0 < l → l < q.length → ∃ y d, q.take l = y :: d := by
    intro l h0 h1
    cases q with
    | nil => simp at h1
    | cons y t =>
      cases l with
      | zero => omega
      | succ l' => exact ⟨y, t.take l', by simp⟩
  simp only [WalkCond, passesRel_nil]
  constructor
  · rintro (⟨hm, h⟩ | ⟨n, h0, h1, hs, h⟩)
    · refine ⟨0, ?_, by simp [startsAt, hm], fun j a b => h j a b⟩
      cases q with
      | nil => cases f <;> simp [Forest.get] at hg
      | cons y t => simp
    · obtain ⟨y, d, e⟩ := htake n h0 h1
      refine ⟨n, h1, ?_, fun j a b => h j a b⟩
      rw [e, ← startsRel_nil, ← e]; exact hs
  · rintro ⟨n, h1, hs, h⟩
    by_cases h0 : n = 0
    · subst h0
      refine Or.inl ⟨?_, fun j a b => h j a b⟩
      simpa [startsAt] using hs
    · obtain ⟨y, d, e⟩ := htake n (by omega) h1
      refine Or.inr ⟨n, by omega, h1, ?_, fun j a b => h j a b⟩
      rw [e, startsRel_nil, ← e]; exact hs

/-! ### the flag in closed form -/

theorem flag_core_bzr : ∀ (w l0 ig sc hd sk h nt v o : Bool), (sc = true → o = true) →
    flagB true w l0 ig sc hd (sk || h) nt v o = (v || o || (w && (l0 && !ig && !sk && !h && !nt))) := by
  decide

theorem flag_core_git : ∀ (w l0 ig sc isdir sk h v o : Bool), (sc = true → isdir = true) →
    flagB false w l0 ig sc false (isdir || sk) h v o = (v || o || (w && (l0 && !ig && !sk && !h && !isdir))) := by
  decide

/-- the flag `step` computes, without reference to scheduling: versioned before, or on a named
path, or its listing is scanned and it is eligible -/
theorem step_fst_closed (p : Path) (m : Mode) (i : Info) (k : Forest)
    (hs : c.fmt = .bzr → sched c pre.ud p i = true → onPath c p i = true) :
    (step c pre p m i k).1 = (i.versioned || onPath c p i || ((m == .walk) && eligible c p i k)) := by
  cases hf : c.fmt with
  | bzr =>
    rw [step_bzr hf]
    have hb : (Fmt.bzr == Fmt.bzr) = true := by decide
    simp only [passedOver, consultsSkip, hf, hb, Bool.true_and, Bool.true_or, eligible]
    exact flag_core_bzr _ _ _ _ _ _ _ _ _ _ (hs hf)
  | git =>
    rw [step_git hf]
    have hb : (Fmt.git == Fmt.bzr) = false := by decide
    simp only [eligible, passedOver, consultsSkip, hf, hb, Bool.false_or, Bool.false_and, Bool.or_false]
    have hk : (i.kind != Kind.dir) = !(i.kind == Kind.dir) := rfl
    rw [hk]
    apply flag_core_git
    intro h
    simp only [sched, hf, Bool.and_eq_true] at h
    exact h.2.2

end BreezyVerif.C11
