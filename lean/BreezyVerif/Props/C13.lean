import BreezyVerif.Model.C13
import BreezyVerif.Lemmas.C13
/-!
C13 — theorems.  Every file system state, every operation list, every fault
position (unbounded).
-/
namespace BreezyVerif.C13

/-- undoing a non-clobbering move re-creates the very same association list -/
theorem moveL_inverse (fs : FS) (a b : Path) (hb : keysUnder fs b = false) :
    moveL (moveL fs a b) b a = fs := by
  unfold moveL
  rw [List.map_map]
  conv => rhs; rw [← List.map_id fs]
  apply List.map_congr_left
  intro e he
  have hbe := keysUnder_false hb e he
  simp only [Function.comp]
  by_cases hae : a.isPrefixOf e.1 = true
  · simp only [hae, if_true, pre_append, drop_pre, pre_split hae, id]
  · simp [hae, hbe]

theorem not_pre_dropLast {b : Path} (h : b ≠ []) : b.isPrefixOf b.dropLast = false := by
  cases hh : b.isPrefixOf b.dropLast
  · rfl
  · rw [List.isPrefixOf_iff_prefix] at hh
    have := hh.length_le
    simp at this
    have : b.length = 0 := by omega
    exact absurd (List.eq_nil_of_length_eq_zero this) h

/-- **Single-step inverse.**  A rename that succeeded and found nothing at or
below its target is undone exactly by the reverse rename. -/
theorem rename_undo (fs fs' : FS) (a b : Path) (h : rename fs a b = .ok fs')
    (hb : keysUnder fs b = false) (hab : a ≠ b) : rename fs' b a = .ok fs := by
  have hbnone := get_none_of_keysUnder_false hb
  unfold rename at h
  split at h
  · cases h
  · rename_i hroot
    have ha0 : a ≠ [] := fun e => hroot (Or.inl e)
    have hb0 : b ≠ [] := fun e => hroot (Or.inr e)
    split at h
    · cases h
    · rename_i hpa
      split at h
      · cases h
      · rename_i na hna
        split at h
        · cases h
        · rename_i hpb
          split at h
          · cases h
          · rename_i hprefab
            have hgb : get fs b = none := hbnone b (by simp [List.isPrefixOf_iff_prefix])
            simp only [hgb, hb, Bool.false_eq_true, if_false] at h
            cases h
            -- facts about the moved state, through the bridge lemma
            have G := get_moveL fs a b hb
            have hba : b.isPrefixOf a = false := by
              cases hh : b.isPrefixOf a
              · rfl
              · rw [hbnone a hh] at hna; cases hna
            have hab' : a.isPrefixOf b = false := by
              cases hh : a.isPrefixOf b <;> simp_all
            have g_b : get (moveL fs a b) b = some na := by
              rw [G]; unfold moveF
              have : b.isPrefixOf b = true := by simp [List.isPrefixOf_iff_prefix]
              simp [this, hna]
            have g_pb : get (moveL fs a b) b.dropLast = some .dir := by
              rw [G]; unfold moveF
              have h1 := not_pre_dropLast hb0
              have h2 : a.isPrefixOf b.dropLast = false := by
                cases hh : a.isPrefixOf b.dropLast
                · rfl
                · rw [pre_dropLast hh] at hab'; cases hab'
              simp only [h1, h2, Bool.false_eq_true, if_false]
              simpa using hpb
            have g_pa : get (moveL fs a b) a.dropLast = some .dir := by
              rw [G]; unfold moveF
              have h1 := not_pre_dropLast ha0
              have h2 : b.isPrefixOf a.dropLast = false := by
                cases hh : b.isPrefixOf a.dropLast
                · rfl
                · rw [pre_dropLast hh] at hba; cases hba
              simp only [h1, h2, Bool.false_eq_true, if_false]
              simpa using hpa
            have g_a : get (moveL fs a b) a = none := by
              rw [G]; unfold moveF
              have : a.isPrefixOf a = true := by simp [List.isPrefixOf_iff_prefix]
              simp [hba, this]
            have k_a : keysUnder (moveL fs a b) a = false := by
              unfold keysUnder moveL
              rw [List.any_eq_false]
              intro e' he'
              rcases List.mem_map.mp he' with ⟨e, he, rfl⟩
              by_cases hae : a.isPrefixOf e.1 = true
              · simp only [hae, if_true]
                intro hc
                rcases pre_comparable hc (pre_append b (e.1.drop a.length)) with h1 | h1
                · rw [h1] at hab'; cases hab'
                · rw [h1] at hba; cases hba
              · simp [hae]
            unfold rename
            have hroot' : ¬ (b = [] ∨ a = []) := fun h => h.elim hb0 ha0
            have hba' : ¬ b = a := fun e => hab e.symm
            simp only [hroot', if_false, g_b, g_pb, g_pa, ne_eq, not_true_eq_false, hba',
              hba, Bool.false_eq_true, g_a, k_a]
            rw [moveL_inverse fs a b hb]

/-- `rollback` undoes the newest journal entry first -/
theorem rollback_snoc (fs : FS) (past : List (Path × Path)) (a b : Path) :
    rollback fs (past ++ [(a, b)]) =
      (match rename fs b a with | .ok fs1 => rollback fs1 past | .error e => .error e) := by
  induction past with
  | nil =>
    simp only [List.nil_append, rollback]
    cases rename fs b a <;> rfl
  | cons p rest ih =>
    obtain ⟨c, d⟩ := p
    simp only [List.cons_append, rollback, ih]
    cases rename fs b a <;> rfl

/-- invariant step: a mover whose journal rolls back to `fs0` still does so
after any further operations that clobber nothing, wherever the run stops -/
theorem rollback_invariant (ops : List Op) (m : Mover) (fault : Option Nat) (fs0 : FS)
    (h0 : rollback m.fs m.past = .ok fs0) (hn : noClobber m ops fault = true) :
    rollback (runOps m ops fault).1.fs (runOps m ops fault).1.past = .ok fs0 := by
  induction ops generalizing m fault with
  | nil => simpa [runOps] using h0
  | cons op rest ih =>
    unfold runOps
    unfold noClobber at hn
    by_cases hf : fault = some 0
    · simpa [hf] using h0
    · simp only [hf, if_false] at hn ⊢
      cases hs : m.step op with
      | error e => simpa [hs] using h0
      | ok m' =>
        simp only [hs] at hn ⊢
        rw [Bool.and_eq_true] at hn
        apply ih m' _ _ hn.2
        unfold Mover.step at hs
        cases hr : rename m.fs op.src op.dst with
        | ok fs' =>
          simp only [hr] at hs hn
          cases hs
          simp only [Bool.and_eq_true, bne_iff_ne, ne_eq, Bool.not_eq_eq_eq_not, Bool.not_true] at hn
          simp only [rollback_snoc]
          rw [rename_undo m.fs fs' op.src op.dst hr hn.1.2 hn.1.1]
          exact h0
        | error e =>
          simp only [hr] at hs
          split at hs
          · cases hs; exact h0
          · cases hs

/-- **A failure before the transform is committed restores every file and
directory exactly**: whatever the operation list, wherever the fault or error
strikes during the removal / insertion phases, if no executed rename clobbered
anything, the rollback succeeds and yields the original file system. -/
theorem rollback_restores (fs : FS) (ops : List Op) (fault : Option Nat)
    (hn : noClobber { fs := fs } ops fault = true) :
    rollback (runOps { fs := fs } ops fault).1.fs (runOps { fs := fs } ops fault).1.past = .ok fs :=
  rollback_invariant ops { fs := fs } fault fs rfl hn

/-- the same at the level of `apply`: a fault or error in the first two phases
leaves files and metadata in the old state -/
theorem apply_phase12_failure_restores (order : Order) (fs : FS) (ops : List Op)
    (f1 f2 : Option Nat) (e : Err)
    (hn : noClobber { fs := fs } ops f1 = true)
    (he : (runOps { fs := fs } ops f1).2 = some e) :
    let o := apply order fs ops f1 f2
    o.fs = fs ∧ o.md = .old ∧ o.raised = some e ∧ o.rollbackFailed = false := by
  have hr := rollback_restores fs ops f1 hn
  unfold apply
  cases hrun : runOps { fs := fs } ops f1 with
  | mk m oe =>
    rw [hrun] at he hr
    simp only at he hr
    subst he
    simp [hr]

/-- deleting the pending paths does not disturb anything outside them -/
theorem get_runDeletions (fs : FS) (ps : List Path) (fault : Option Nat) (q : Path)
    (hq : ∀ p ∈ ps, p.isPrefixOf q = false) :
    get (runDeletions fs ps fault).1 q = get fs q := by
  induction ps generalizing fs fault with
  | nil => rfl
  | cons p rest ih =>
    unfold runDeletions
    by_cases hf : fault = some 0
    · simp [hf]
    · simp only [hf, if_false]
      rw [ih _ _ (fun p' hp' => hq p' (by simp [hp']))]
      rw [get_deleteAny, hq p (by simp)]
      simp

/-- the layout after successful removal + insertion phases -/
def newLayout (fs : FS) (ops : List Op) : Mover := (runOps { fs := fs } ops none).1

/-- **Metadata always agrees with the files** when the metadata is updated
before the replaced content is discarded: every outcome of `apply` is either
(old files, old metadata) or (new layout outside the pending-deletion area, new
metadata) — for every operation list and every fault position in any phase. -/
theorem metadata_agrees (fs : FS) (ops : List Op) (f1 f2 : Option Nat)
    (hn : noClobber { fs := fs } ops f1 = true) :
    let o := apply .metadataFirst fs ops f1 f2
    (o.fs = fs ∧ o.md = .old) ∨
    (o.md = .new ∧ (runOps { fs := fs } ops f1).2 = none ∧
      ∀ q, (∀ p ∈ (runOps { fs := fs } ops f1).1.pending, p.isPrefixOf q = false) →
        get o.fs q = get (runOps { fs := fs } ops f1).1.fs q) := by
  cases he : (runOps { fs := fs } ops f1).2 with
  | some e =>
    have := apply_phase12_failure_restores .metadataFirst fs ops f1 f2 e hn he
    exact Or.inl ⟨this.1, this.2.1⟩
  | none =>
    refine Or.inr ?_
    unfold apply
    cases hrun : runOps { fs := fs } ops f1 with
    | mk m oe =>
      rw [hrun] at he
      simp only at he
      subst he
      simp only
      cases hd : runDeletions m.fs m.pending f2 with
      | mk fs' raised =>
        have hg := fun q hq => get_runDeletions m.fs m.pending f2 q hq
        rw [hd] at hg
        cases raised <;> simp only [true_and] <;> exact hg

/-- **Creation failures are invisible**: content that was created inside the
limbo area `L` while the transform was being built (any entries, any number)
disappears without trace when `finalize` removes the limbo area — every path
outside `L` reads as before. -/
theorem finalize_discards_limbo (fs created : FS) (L q : Path)
    (hc : ∀ e ∈ created, L.isPrefixOf e.1 = true) (hq : L.isPrefixOf q = false) :
    get (deleteAny (fs ++ created) L) q = get fs q := by
  rw [get_deleteAny]
  simp only [hq, Bool.false_eq_true, if_false]
  induction fs with
  | nil =>
    simp only [List.nil_append]
    rw [get_eq_none_of_not_key]
    · rfl
    · intro e he heq
      have := hc e he
      rw [heq, hq] at this
      cases this
  | cons e fs ih => simp only [List.cons_append, get_cons, ih]

/-- With the deletions performed *before* the metadata update (the order found
in the code at the pinned commit) a failure while discarding replaced content
leaves the new file layout described by the old metadata. -/
theorem deletions_first_witness :
    let fs : FS := [([], .dir), ([".d"], .dir), (["a"], .file "A"), (["b"], .file "B")]
    let ops := [Op.preDelete ["b"] [".d", "x"], Op.rename ["a"] ["c"]]
    let o := apply .deletionsFirst fs ops none (some 0)
    noClobber { fs := fs } ops none = true ∧ o.md = .old ∧ o.raised = some .injected ∧
      get o.fs ["a"] = none ∧ get o.fs ["c"] = some (.file "A") ∧ get fs ["a"] = some (.file "A") := by
  decide

/-- `noClobber` is needed: a rename that silently replaces an existing file
cannot be rolled back. -/
theorem clobber_witness :
    let fs : FS := [([], .dir), (["a"], .file "A"), (["b"], .file "B")]
    let ops := [Op.rename ["a"] ["b"], Op.rename ["b"] ["c"]]
    noClobber { fs := fs } ops (some 1) = false ∧
      (apply .metadataFirst fs ops (some 1) none).fs ≠ fs := by
  decide

/-- non-vacuity of `rollback_restores`: a swap through limbo, fault at the last step -/
example :
    let fs : FS := [([], .dir), ([".l"], .dir), (["a"], .file "A"), (["b"], .dir), (["b", "x"], .file "X")]
    let ops := [Op.rename ["b"] [".l", "1"], Op.rename ["a"] [".l", "2"],
                Op.rename [".l", "1"] ["a"], Op.rename [".l", "2"] ["b"]]
    noClobber { fs := fs } ops (some 3) = true ∧ (runOps { fs := fs } ops (some 3)).1.past.length = 3 := by
  decide

end BreezyVerif.C13
