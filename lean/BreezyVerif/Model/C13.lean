/-
C13 — applying a tree transform is all-or-nothing on the file system.

Model of `breezy/transform.py: _FileMover` (rename journal, `pre_delete`,
`rollback`, `apply_deletions`) and of the phase structure of
`InventoryTreeTransform.apply` / `GitTreeTransform.apply`, over a small POSIX
file-system model (paths = component lists, `os.rename` with its error and
silent-clobber behaviour, recursive `delete_any`, the owner-executable bit of
regular files and the in-place `chmod` of `_set_executability`).

The insertion phase also changes the executable bit of files in place
(`_apply_insertions` → `_set_executability` → `os.stat` + `chmod_if_possible`).
Whether that change is written to the mover's journal (and therefore undone by
`rollback`) is the model parameter `jc`; the harness determines it by probing
the real code (`Generated/C13.lean`).
-/
namespace BreezyVerif.C13

abbrev Path := List String

inductive Node where
  /-- a regular file: content and owner-executable bit (`st_mode & 0o100`) -/
  | file (content : String) (exec : Bool)
  | dir
  | link (target : String)
  deriving DecidableEq, Repr

/-- a file system: association list path ↦ node, first match wins; `[]` is the
tree root -/
abbrev FS := List (Path × Node)

def get (fs : FS) (p : Path) : Option Node := (fs.find? (fun e => e.1 == p)).map (·.2)

/-- is there any entry at or below `b`? -/
def keysUnder (fs : FS) (b : Path) : Bool := fs.any (fun e => b.isPrefixOf e.1)

/-- is there an entry strictly below `b`? -/
def hasChildren (fs : FS) (b : Path) : Bool := fs.any (fun e => b.isPrefixOf e.1 && e.1 != b)

/-- re-key everything at or below `a` to the same place below `b` -/
def moveL (fs : FS) (a b : Path) : FS :=
  fs.map fun e => if a.isPrefixOf e.1 then (b ++ e.1.drop a.length, e.2) else e

/-- remove everything at or below `p` (`osutils.delete_any` / `rmtree`) -/
def deleteAny (fs : FS) (p : Path) : FS := fs.filter fun e => !p.isPrefixOf e.1

inductive Err where
  | enoent | eexist | enotempty | einval | enotdir | eisdir | injected
  /-- an operation the model does not describe (chmod of a directory or through a
  symlink); the harness reports a tie break if the real code ever performs one -/
  | unmodelled
  deriving DecidableEq, Repr

def Err.toString : Err → String
  | .enoent => "ENOENT" | .eexist => "EEXIST" | .enotempty => "ENOTEMPTY"
  | .einval => "EINVAL" | .enotdir => "ENOTDIR" | .eisdir => "EISDIR" | .injected => "INJECTED"
  | .unmodelled => "UNMODELLED"

/-- the errno of a failed parent lookup: the first proper prefix of `p` that is
missing (or a dangling symlink) gives ENOENT, a regular file gives ENOTDIR -/
def parentErr (fs : FS) (p : Path) : Err :=
  ((List.range p.length).findSome? fun i =>
    match get fs (p.take i) with
    | some .dir => none
    | some (.file _ _) => some Err.enotdir
    | _ => some Err.enoent).getD .enoent

/-- `os.rename(a, b)` on Linux, in the order the kernel checks: both parent
directories are resolved first, then the source is looked up, then the
ancestor checks, then the target and the kind rules.  The parent of an existing
source is a directory on any real file system; the model answers with the
lookup error otherwise, so that it is total on ill-formed states too.  (The
order and every errno branch are compared with the real `os.rename` on random
small directories on every run.) -/
def rename (fs : FS) (a b : Path) : Except Err FS :=
  if a = [] ∨ b = [] then .error .einval
  else if get fs a.dropLast ≠ some .dir then .error (parentErr fs a)
  else if get fs b.dropLast ≠ some .dir then .error (parentErr fs b)
  else match get fs a with
    | none => .error .enoent
    | some na =>
      if a = b then .ok fs
      else if a.isPrefixOf b then .error .einval
      else if b.isPrefixOf a then .error .enotempty
      else match get fs b with
        | none => if keysUnder fs b then .error .enotempty else .ok (moveL fs a b)
        | some nb =>
          match na, nb with
          | .dir, .dir =>
            if hasChildren fs b then .error .enotempty else .ok (moveL (deleteAny fs b) a b)
          | .dir, _ => .error .enotdir
          | _, .dir => .error .eisdir
          | _, _ => .ok (moveL (deleteAny fs b) a b)   -- silent replacement

/-- set the executable bit of the entry `get` finds at `p` (first match), if it
is a regular file -/
def setExec : FS → Path → Bool → FS
  | [], _, _ => []
  | e :: rest, p, x =>
    if e.1 = p then
      (match e.2 with
        | .file c _ => (e.1, Node.file c x)
        | _ => e) :: rest
    else e :: setExec rest p x

/-- `_set_executability(path)`: `os.stat(abspath)` then `chmod_if_possible` with
the owner-executable bit set to `x`.  Returns the new file system and the
previous bit.  A missing path makes `os.stat` raise (it is not caught by
`_apply_insertions`). -/
def chmod (fs : FS) (p : Path) (x : Bool) : Except Err (FS × Bool) :=
  match get fs p with
  | some (.file _ old) => .ok (setExec fs p x, old)
  | some _ => .error .unmodelled
  | none => .error (if get fs p.dropLast = some .dir then .enoent else parentErr fs p)

/-- one entry of the journal of `_FileMover` -/
inductive JEntry where
  /-- `os.rename(a, b)` was performed -/
  | ren (a b : Path)
  /-- the executable bit of `p` was changed; it was `old` before -/
  | mode (p : Path) (old : Bool)
  deriving DecidableEq, Repr

/-- the journal of `_FileMover` -/
structure Mover where
  fs : FS
  past : List JEntry := []
  pending : List Path := []

inductive Op where
  /-- `mover.rename(a, b)` from `_apply_removals` / `_apply_insertions`; the
  caller swallows `ENOENT` -/
  | rename (a b : Path)
  /-- `mover.pre_delete(a, b)` -/
  | preDelete (a b : Path)
  /-- `_set_executability(p)` with new bit `x` from `_apply_insertions` -/
  | chmod (p : Path) (x : Bool)
  deriving DecidableEq, Repr

/-- one operation of the removal / insertion phases; `.error` = the exception
that propagates to `apply`.  A plain rename that fails with ENOENT is swallowed
by the caller (`if e.errno != errno.ENOENT: raise`).  `jc` = the mode change is
journalled. -/
def Mover.step (jc : Bool) (m : Mover) : Op → Except Err Mover
  | .rename a b =>
    match rename m.fs a b with
    | .ok fs' => .ok { m with fs := fs', past := m.past ++ [.ren a b] }
    | .error e => if e = .enoent then .ok m else .error e
  | .preDelete a b =>
    match rename m.fs a b with
    | .ok fs' => .ok { fs := fs', past := m.past ++ [.ren a b], pending := m.pending ++ [b] }
    | .error e => .error e
  | .chmod p x =>
    match chmod m.fs p x with
    | .ok (fs', old) => .ok { m with fs := fs', past := if jc then m.past ++ [.mode p old] else m.past }
    | .error e => .error e

/-- run the removal + insertion phases; `fault = some k` makes the k-th
operation raise before it does anything.  Returns the mover reached and the
error raised, if any. -/
def runOps (jc : Bool) (m : Mover) : List Op → Option Nat → Mover × Option Err
  | [], _ => (m, none)
  | op :: rest, fault =>
    if fault = some 0 then (m, some .injected)
    else match m.step jc op with
      | .ok m' => runOps jc m' rest (fault.map (· - 1))
      | .error e => (m, some e)

/-- undo one journal entry -/
def undo (fs : FS) : JEntry → Except Err FS
  | .ren a b => rename fs b a
  | .mode p old => (chmod fs p old).map (·.1)

/-- undo journal entries, newest first (the list is already reversed);
`fault = some k` makes the k-th undo raise before it does anything.  A failing
undo stops the rollback where it is: the result is the partially restored file
system and the error. -/
def rollbackRev (fs : FS) : List JEntry → Option Nat → FS × Option Err
  | [], _ => (fs, none)
  | j :: rest, fault =>
    if fault = some 0 then (fs, some .injected)
    else match undo fs j with
      | .ok fs' => rollbackRev fs' rest (fault.map (· - 1))
      | .error e => (fs, some e)

/-- `_FileMover.rollback`: undo the journal in reverse -/
def rollback (fs : FS) (past : List JEntry) (fault : Option Nat := none) : FS × Option Err :=
  rollbackRev fs past.reverse fault

/-- a rename finds nothing at or below its target (and is not a self-rename) -/
def opNoClobber (fs : FS) : Op → Bool
  | .rename a b | .preDelete a b =>
    (match rename fs a b with
      | .ok _ => a != b && !keysUnder fs b
      | .error _ => true)
  | .chmod _ _ => true

/-- a `_set_executability` finds the bit already as wanted -/
def opNoModeChange (fs : FS) : Op → Bool
  | .chmod p x => (match get fs p with | some (.file _ old) => old == x | _ => true)
  | _ => true

/-- every rename that is executed finds nothing at or below its target -/
def noClobber (jc : Bool) (m : Mover) : List Op → Option Nat → Bool
  | [], _ => true
  | op :: rest, fault =>
    if fault = some 0 then true
    else match m.step jc op with
      | .ok m' =>
        opNoClobber m.fs op && noClobber jc m' rest (fault.map (· - 1))
      | .error _ => true

/-- every `_set_executability` that is executed finds the bit already as wanted -/
def noModeChange (jc : Bool) (m : Mover) : List Op → Option Nat → Bool
  | [], _ => true
  | op :: rest, fault =>
    if fault = some 0 then true
    else match m.step jc op with
      | .ok m' =>
        opNoModeChange m.fs op && noModeChange jc m' rest (fault.map (· - 1))
      | .error _ => true

/-- the file system with every executable bit cleared (equality "up to modes") -/
def eraseExec (fs : FS) : FS :=
  fs.map fun e => match e.2 with | .file c _ => (e.1, Node.file c false) | _ => e

/-- remove the entry at `p` itself -/
def removeKey (fs : FS) (p : Path) : FS := fs.filter fun e => e.1 != p

/-- `osutils.delete_any(p)`: `rmdir` for a directory (NOT recursive: a directory
that still has children fails with ENOTEMPTY), `unlink` for anything else -/
def deleteOne (fs : FS) (p : Path) : Except Err FS :=
  match get fs p with
  | none => .error (if get fs p.dropLast = some .dir then .enoent else parentErr fs p)
  | some .dir => if hasChildren fs p then .error .enotempty else .ok (removeKey fs p)
  | some _ => .ok (removeKey fs p)

/-- `apply_deletions` (also the deletion loop of `finalize`): `delete_any` on
every path in turn, with a fault before the j-th deletion; a deletion that
fails stops the loop.  Returns the state reached and the error, if any. -/
def runDeletions (fs : FS) : List Path → Option Nat → FS × Option Err
  | [], _ => (fs, none)
  | p :: rest, fault =>
    if fault = some 0 then (fs, some .injected)
    else match deleteOne fs p with
      | .ok fs' => runDeletions fs' rest (fault.map (· - 1))
      | .error e => (fs, some e)

inductive Meta where | old | new
  deriving DecidableEq, Repr

/-- which of "discard replaced content" and "update the versioning metadata"
`apply` performs first (regenerated from the source by T1) -/
inductive Order where | deletionsFirst | metadataFirst
  deriving DecidableEq, Repr

structure Outcome where
  fs : FS
  md : Meta
  raised : Option Err
  rollbackFailed : Bool := false

/-- the faults of one run: `mover` hits an operation of the removal / insertion
phases, `undo` an undo step of the rollback that follows, `meta` the metadata
update (`apply_inventory_delta` / `_apply_index_changes`, which run outside the
`try` … `rollback`), `deletion` a deletion of `apply_deletions` -/
structure Faults where
  mover : Option Nat := none
  undo : Option Nat := none
  metaUpdate : Bool := false
  deletion : Option Nat := none

/-- `apply`: removals + insertions (rollback on any exception), then deletions
and metadata update in the given order. -/
def applyF (order : Order) (jc : Bool) (fs : FS) (ops : List Op) (f : Faults) : Outcome :=
  match runOps jc { fs := fs } ops f.mover with
  | (m, some e) =>
    match rollback m.fs m.past f.undo with
    | (fs', none) => { fs := fs', md := .old, raised := some e }
    | (fs', some _) => { fs := fs', md := .old, raised := some e, rollbackFailed := true }
  | (m, none) =>
    match order with
    | .metadataFirst =>
      if f.metaUpdate then { fs := m.fs, md := .old, raised := some .injected }
      else match runDeletions m.fs m.pending f.deletion with
        | (fs', some e) => { fs := fs', md := .new, raised := some e }
        | (fs', none) => { fs := fs', md := .new, raised := none }
    | .deletionsFirst =>
      match runDeletions m.fs m.pending f.deletion with
      | (fs', some e) => { fs := fs', md := .old, raised := some e }
      | (fs', none) =>
        if f.metaUpdate then { fs := fs', md := .old, raised := some .injected }
        else { fs := fs', md := .new, raised := none }

/-- `apply` with the two fault kinds the property quantifies over: `fault1` hits
an operation of the removal / insertion phases, `fault2` a deletion -/
def apply (order : Order) (jc : Bool) (fs : FS) (ops : List Op) (fault1 fault2 : Option Nat) : Outcome :=
  applyF order jc fs ops { mover := fault1, deletion := fault2 }

end BreezyVerif.C13
