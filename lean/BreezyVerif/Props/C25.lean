import BreezyVerif.Lemmas.C25Rbd
import BreezyVerif.Props.C22
/-!
C25 — theorems.  All view lists, all graphs (`wf` = topologically numbered),
all tips; no bound on sizes.
-/
namespace BreezyVerif.C25
open BreezyVerif.C22

/-! ## reverse_by_depth -/

/-- **`reverse_by_depth` always terminates** when called at depth 0 (the only
way `log.py` calls it): the fuel `rbdFuel` is never exhausted. -/
theorem rbd_total (l : List V) : ∃ r, reverseByDepth l = some r := by
  obtain ⟨r, hr, _⟩ := rbd_core (rbdFuel l) 0 l (fun _ _ => Nat.zero_le _) (need_zero_lt_fuel l)
  exact ⟨r.filter fun v => !v.revno.isEmpty, by simp [reverseByDepth, hr]⟩

/-- **`reverse_by_depth` is a permutation** of the revisions that have a revno
(those without one are dropped together with the fake revisions). -/
theorem rbd_perm (l r : List V) (h : reverseByDepth l = some r) :
    r.Perm (l.filter fun v => !v.revno.isEmpty) := by
  obtain ⟨r0, hr0, hok⟩ := rbd_core (rbdFuel l) 0 l (fun _ _ => Nat.zero_le _) (need_zero_lt_fuel l)
  simp only [reverseByDepth, hr0, Option.map_some, Option.some.injEq] at h
  subst h
  exact hok.1.filter _

theorem rbd_length (l r : List V) (h : reverseByDepth l = some r) :
    r.length = (l.filter fun v => !v.revno.isEmpty).length :=
  (rbd_perm l r h).length_eq

/-- **The top-level (depth 0) revisions come out in exactly the opposite order.** -/
theorem rbd_depth0_reversed (l r : List V) (h : reverseByDepth l = some r) :
    r.filter (fun v => v.depth == 0) =
      ((l.filter fun v => !v.revno.isEmpty).filter fun v => v.depth == 0).reverse := by
  obtain ⟨r0, hr0, hok⟩ := rbd_core (rbdFuel l) 0 l (fun _ _ => Nat.zero_le _) (need_zero_lt_fuel l)
  simp only [reverseByDepth, hr0, Option.map_some, Option.some.injEq] at h
  subst h
  have comm : ∀ x : List V, (x.filter fun v => !v.revno.isEmpty).filter (fun v => v.depth == 0)
      = (x.filter fun v => v.depth == 0).filter fun v => !v.revno.isEmpty := by
    intro x
    simp only [List.filter_filter]
    congr 1; funext a; exact Bool.and_comm _ _
  rw [comm r0, hok.2, List.filter_reverse, comm l]

example : reverseByDepth [⟨5, [3], 0⟩, ⟨4, [1, 1, 2], 1⟩, ⟨3, [1, 2, 1], 2⟩, ⟨2, [1, 1, 1], 1⟩, ⟨1, [2], 0⟩, ⟨0, [1], 0⟩]
    = some [⟨0, [1], 0⟩, ⟨1, [2], 0⟩, ⟨5, [3], 0⟩, ⟨2, [1, 1, 1], 1⟩, ⟨4, [1, 1, 2], 1⟩, ⟨3, [1, 2, 1], 2⟩] := by decide

/-! ## _rebase_merge_depth -/

theorem minDepth_le : ∀ (l : List V) (v : V), v ∈ l → minDepth l ≤ v.depth
  | [], _, h => by cases h
  | [a], v, h => by
    rw [List.mem_singleton.mp h]; exact Nat.le_refl _
  | a :: b :: l, v, h => by
    have ih := minDepth_le (b :: l)
    show min a.depth (minDepth (b :: l)) ≤ v.depth
    rcases List.mem_cons.mp h with rfl | h
    · exact Nat.min_le_left _ _
    · exact Nat.le_trans (Nat.min_le_right _ _) (ih v h)

/-- **`_rebase_merge_depth` only shifts all depths by one common amount** that
no depth is smaller than; revisions, revnos and order are untouched. -/
theorem rebase_shape (l : List V) :
    ∃ m, (∀ v ∈ l, m ≤ v.depth) ∧
      rebaseMergeDepth l = l.map fun v => { v with depth := v.depth - m } := by
  have hid : l = l.map fun v => ({ v with depth := v.depth - 0 } : V) := by
    have : (fun v : V => ({ v with depth := v.depth - 0 } : V)) = id := by funext v; rfl
    rw [this, List.map_id]
  unfold rebaseMergeDepth
  split
  · split
    · dsimp only
      split
      · exact ⟨minDepth l, minDepth_le l, rfl⟩
      · exact ⟨0, fun _ _ => Nat.zero_le _, hid⟩
    · exact ⟨0, fun _ _ => Nat.zero_le _, hid⟩
  · exact ⟨0, fun _ _ => Nat.zero_le _, hid⟩

example : rebaseMergeDepth [⟨4, [1, 1, 2], 1⟩, ⟨3, [1, 2, 1], 2⟩] = [⟨4, [1, 1, 2], 0⟩, ⟨3, [1, 2, 1], 1⟩] := by decide

/-! ## the view of a whole branch -/

theorem adjustDepths_zero : ∀ l : List V, adjustDepths (some 0) l = l
  | [] => rfl
  | v :: l => by
    simp [adjustDepths, adjustDepths_zero l]

theorem adjustDepths_head_zero (v : V) (l : List V) (h : v.depth = 0) :
    adjustDepths none (v :: l) = v :: l := by
  simp [adjustDepths, h, adjustDepths_zero l]

/-- the complete merge-sorted view of a branch, as `_graph_view_revisions` produces it -/
theorem graphView_full (b : Branch) (t : Nat) (hw : wf b.g = true) (htip : b.tip = some t)
    (ht : t < b.g.length) (rebase : Bool) :
    ∃ ms, mergeSort b.g t = some ms ∧ graphView b none none rebase false = .ok (ms.map ofMS) := by
  obtain ⟨ms, hms⟩ := mergeSort_total b.g t hw ht
  obtain ⟨e, rest, hcons, _, hdepth⟩ := mergeSort_tip_first b.g t ms hw ht hms
  refine ⟨ms, hms, ?_⟩
  have hfilter : filterStartNonAncestors b.g ms = ms := by
    rw [hcons]; simp [filterStartNonAncestors, hdepth]
  have hiter : b.iterMergeSorted none none .withMerges false = .ok ms := by
    simp [Branch.iterMergeSorted, Branch.mergeSorted, htip, hms, applyStop, hfilter, bind, Except.bind,
      pure, Except.pure]
  unfold graphView
  simp only [Option.isNone_none, Bool.and_true, Bool.false_eq_true, if_false, Option.map_none, hiter, liftE]
  cases rebase
  · rfl
  · simp only [if_true]
    rw [hcons, List.map_cons, adjustDepths_head_zero _ _ (by simpa [ofMS] using hdepth)]

/-- **A full log lists every revision of the tip's ancestry exactly once, with
its merge-sorted dotted revno and depth.** -/
theorem view_complete_once (b : Branch) (t : Nat) (hw : wf b.g = true) (htip : b.tip = some t)
    (ht : t < b.g.length) :
    ∃ ms, mergeSort b.g t = some ms ∧ logRequest b none none false 0 0 false = .ok (ms.map ofMS) ∧
      ((ms.map ofMS).map (·.rev)).Nodup ∧ (∀ x, x ∈ (ms.map ofMS).map (·.rev) ↔ Reach b.g t x) ∧
      ((ms.map ofMS).map (·.revno)).Nodup := by
  obtain ⟨ms, hms, hgv⟩ := graphView_full b t hw htip ht true
  refine ⟨ms, hms, ?_, ?_, ?_, ?_⟩
  · simp [logRequest, revisionLimits, calcView, generateAll, htip, hgv, levelLimit]
  · have := mergeSort_nodup b.g t ms hw ht hms
    simpa [List.map_map, Function.comp_def, ofMS] using this
  · intro x
    have := mergeSort_covers b.g t ms hw ht hms x
    simpa [List.map_map, Function.comp_def, ofMS] using this
  · have := dotted_injective b.g t ms hw ht hms
    simpa [List.map_map, Function.comp_def, ofMS] using this

/-- **The forward log is `_rebase_merge_depth ∘ reverse_by_depth` of the reverse log.** -/
theorem forward_is_rbd_of_reverse (b : Branch) (t : Nat) (hw : wf b.g = true) (htip : b.tip = some t)
    (ht : t < b.g.length) :
    ∃ rev r, logRequest b none none false 0 0 false = .ok rev ∧ reverseByDepth rev = some r ∧
      logRequest b none none true 0 0 false = .ok (rebaseMergeDepth r) := by
  obtain ⟨ms, hms, hrev, _⟩ := view_complete_once b t hw htip ht
  obtain ⟨ms', hms', hgv⟩ := graphView_full b t hw htip ht false
  rw [hms] at hms'; cases hms'
  obtain ⟨r, hr⟩ := rbd_total (ms.map ofMS)
  refine ⟨_, r, hrev, hr, ?_⟩
  simp [logRequest, revisionLimits, calcView, generateAll, htip, hgv, levelLimit, hr]

/-- **levels=1 lists exactly the left-hand history**, numbered from the tip's revno downwards. -/
theorem level1_is_lefthand (b : Branch) (t : Nat) (htip : b.tip = some t) (fwd : Bool) :
    ∃ l, logRequest b none none fwd 1 0 false = .ok l ∧
      l.map (·.rev) = (if fwd then b.history.reverse else b.history) ∧ ∀ v ∈ l, v.depth = 0 := by
  have hlin : linearView b none none false
      = some ((b.history.zipIdx).map fun (r, i) => (⟨r, [b.lastRevno - i], 0⟩ : V)) := rfl
  have hL0 : ∀ v ∈ (b.history.zipIdx).map (fun (r, i) => (⟨r, [b.lastRevno - i], 0⟩ : V)), v.depth = 0 := by
    intro v hv
    rw [List.mem_map] at hv
    obtain ⟨_, _, rfl⟩ := hv
    rfl
  have hLrev : ((b.history.zipIdx).map fun (r, i) => (⟨r, [b.lastRevno - i], 0⟩ : V)).map (·.rev) = b.history := by
    rw [List.map_map]
    have : ((fun v : V => v.rev) ∘ fun (x : Nat × Nat) => (⟨x.1, [b.lastRevno - x.2], 0⟩ : V)) = Prod.fst := by
      funext x; rfl
    rw [this]
    exact List.zipIdx_map_fst ..
  have hkeep : ∀ l : List V, (∀ v ∈ l, v.depth = 0) → levelLimit 1 0 l = l := by
    intro l hl
    simp only [levelLimit, beq_self_eq_true, if_true]
    rw [List.filter_eq_self]
    intro v hv
    simp [hl v hv]
  cases fwd
  · refine ⟨_, ?_, hLrev, hL0⟩
    simp [logRequest, revisionLimits, calcView, htip, hlin, hkeep _ hL0]
  · refine ⟨((b.history.zipIdx).map fun (r, i) => (⟨r, [b.lastRevno - i], 0⟩ : V)).reverse, ?_, ?_, ?_⟩
    · simp [logRequest, revisionLimits, calcView, htip, hlin, hkeep _ (fun v hv => hL0 v (List.mem_reverse.mp hv))]
    · rw [List.map_reverse, hLrev]; rfl
    · intro v hv; exact hL0 v (List.mem_reverse.mp hv)

/-- **levels=k is the depth filter of the complete log** (same request otherwise). -/
theorem levels_is_filter (b : Branch) (start stop : Option Nat) (fwd excl : Bool) (k : Nat) (hk : 2 ≤ k)
    (l : List V) (h : logRequest b start stop fwd 0 0 excl = .ok l) :
    logRequest b start stop fwd k 0 excl = .ok (l.filter fun v => decide (v.depth < k)) := by
  have hk1 : (k != 1) = true := by simp; omega
  have hk0 : (k == 0) = false := by simp; omega
  have h01 : ((0 : Nat) != 1) = true := rfl
  unfold logRequest at h ⊢
  simp only [hk1]
  simp only [h01] at h
  generalize revisionLimits b _ _ = R at h ⊢
  cases R with
  | error e => cases h
  | ok u =>
    simp only at h ⊢
    generalize calcView b start stop fwd true _ excl = C at h ⊢
    cases C with
    | error e => cases h
    | ok p =>
      obtain ⟨l0, flag⟩ := p
      cases flag
      · simp only [Except.ok.injEq] at h ⊢
        subst h
        simp [levelLimit, hk0]
      · simp at h

/-- **a limit yields a prefix of the unlimited listing of the same view** -/
theorem limit_is_prefix (levels limit : Nat) (l : List V) :
    levelLimit levels limit l = if limit == 0 then levelLimit levels 0 l else (levelLimit levels 0 l).take limit := by
  unfold levelLimit
  split <;> simp_all

/-- every graph view is a sub-sequence of the merge-sorted list -/
theorem graph_view_sublist (b : Branch) (start stop : Option Nat) (excl : Bool) (ms : List MS) (l : List V)
    (hms : b.mergeSorted = .ok ms) (h : graphView b start stop false excl = .ok l) :
    List.Sublist l (ms.map ofMS) := by
  unfold graphView at h
  split at h
  · cases h
  · cases hit : b.iterMergeSorted (stop.map RevId.rev) (start.map RevId.rev)
        (if excl then .withMergesNoCommon else .withMerges) false with
    | error e =>
      rw [hit] at h
      cases e <;> simp [liftE] at h
    | ok a =>
      rw [hit] at h
      simp only [liftE, Bool.false_eq_true, if_false, Except.ok.injEq] at h
      subst h
      have := iter_sublist b _ _ _ false ms a hms hit
      simp only [Bool.false_eq_true, if_false] at this
      exact this.map _

/-! ## per-file filter -/

theorem mem_stack1 (stack : List (Option V)) (v : V) : some v ∈ pushStack stack v := by
  unfold pushStack
  split <;> simp

theorem stack1_subset (stack : List (Option V)) (v x : V) (h : some x ∈ pushStack stack v) :
    some x ∈ stack ∨ x = v := by
  unfold pushStack at h
  split at h
  · rcases List.mem_append.mp h with h | h
    · exact Or.inl h
    · right; simpa using h
  · rcases List.mem_append.mp h with h | h
    · exact Or.inl (List.mem_of_mem_take (List.dropLast_subset _ h))
    · right; simpa using h

/-- **Stack discipline.**  After a revision of depth `d` (not deeper than the
stack, as in every merge-sorted view) the stack has exactly `d + 1` slots: the
slots below `d` — the nearest enclosing merges — are untouched, slot `d` is the
revision itself, and everything deeper (merges that have ended) is gone. -/
theorem pushStack_discipline (stack : List (Option V)) (v : V) (h : v.depth ≤ stack.length) :
    (pushStack stack v).length = v.depth + 1 ∧
    (pushStack stack v).take v.depth = stack.take v.depth ∧
    (pushStack stack v)[v.depth]? = some (some v) := by
  unfold pushStack
  by_cases hd : (v.depth == stack.length) = true
  · have hd' : v.depth = stack.length := by simpa using hd
    simp only [hd, if_true]
    refine ⟨by simp [hd'], ?_, ?_⟩
    · rw [hd', List.take_length]; simp
    · rw [hd']; simp
  · have hd' : v.depth < stack.length := by
      have : v.depth ≠ stack.length := by simpa using hd
      omega
    simp only [hd, Bool.false_eq_true, if_false]
    have hlen : ((stack.take (v.depth + 1)).dropLast).length = v.depth := by
      simp [List.length_dropLast, List.length_take]; omega
    have hdl : (stack.take (v.depth + 1)).dropLast = stack.take v.depth := by
      rw [List.dropLast_eq_take, List.length_take, List.take_take]
      congr 1; omega
    refine ⟨by simp [hlen], ?_, ?_⟩
    · rw [hdl, List.take_append_of_le_length (by simp [List.length_take]; omega), List.take_take]
      congr 1; omega
    · rw [List.getElem?_append_right (by omega), hlen]; simp

/-- marking entries as listed keeps the stack's length -/
theorem touch_mark_length (inc : Bool) (s : List (Option V)) :
    (s.map fun n => match n with
      | some x => if inc || x.depth == 0 then none else some x
      | none => none).length = s.length := by simp

/-- **With merges included, every revision of the view that modified the file is listed.** -/
theorem touching_contains_modified (modified : List Nat) : ∀ (l : List V) (stack : List (Option V)) (v : V),
    v ∈ l → modified.contains v.rev = true → v ∈ touchLoop modified true stack l
  | [], _, _, h, _ => by cases h
  | x :: l, stack, v, h, hm => by
    unfold touchLoop
    simp only
    rcases List.mem_cons.mp h with rfl | h
    · simp only [hm, if_true]
      apply List.mem_append_left
      rw [List.mem_filterMap]
      exact ⟨some v, mem_stack1 stack v, by simp⟩
    · split
      · exact List.mem_append_right _ (touching_contains_modified modified l _ v h hm)
      · exact touching_contains_modified modified l _ v h hm

/-- **Nothing is invented**: whatever is listed comes from the view (or was on the initial stack). -/
theorem touching_subset (modified : List Nat) (inc : Bool) : ∀ (l : List V) (stack : List (Option V)) (x : V),
    x ∈ touchLoop modified inc stack l → x ∈ l ∨ some x ∈ stack
  | [], _, _, h => by simp [touchLoop] at h
  | v :: l, stack, x, h => by
    unfold touchLoop at h
    simp only at h
    split at h
    · rcases List.mem_append.mp h with h | h
      · rw [List.mem_filterMap] at h
        obtain ⟨n, hn, hx⟩ := h
        cases n with
        | none => simp at hx
        | some y =>
          have hy : y = x := by
            simp only at hx
            split at hx <;> simp_all
          subst hy
          rcases stack1_subset stack v y hn with h1 | h1
          · exact Or.inr h1
          · exact Or.inl (h1 ▸ List.mem_cons_self ..)
      · rcases touching_subset modified inc l _ x h with h1 | h1
        · exact Or.inl (List.mem_cons_of_mem _ h1)
        · rw [List.mem_map] at h1
          obtain ⟨n, hn, hx⟩ := h1
          cases n with
          | none => simp at hx
          | some y =>
            have hy : y = x := by
              simp only at hx
              split at hx <;> simp_all
            subst hy
            rcases stack1_subset stack v y hn with h2 | h2
            · exact Or.inr h2
            · exact Or.inl (h2 ▸ List.mem_cons_self ..)
    · rcases touching_subset modified inc l _ x h with h1 | h1
      · exact Or.inl (List.mem_cons_of_mem _ h1)
      · rcases stack1_subset stack v x h1 with h2 | h2
        · exact Or.inr h2
        · exact Or.inl (h2 ▸ List.mem_cons_self ..)

theorem touching_members (modified : List Nat) (inc : Bool) (l : List V) (x : V)
    (h : x ∈ touching modified inc l) : x ∈ l := by
  rcases touching_subset modified inc l [none] x h with h | h
  · exact h
  · simp at h

example : touching [2] true [⟨3, [3], 0⟩, ⟨2, [1, 1, 1], 1⟩, ⟨1, [2], 0⟩, ⟨0, [1], 0⟩]
    = [⟨3, [3], 0⟩, ⟨2, [1, 1, 1], 1⟩] := by decide

end BreezyVerif.C25
