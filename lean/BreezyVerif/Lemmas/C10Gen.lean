import BreezyVerif.Lemmas.C10Round
import BreezyVerif.Lemmas.C10Path
/-!
C10 — the loop with the optional `examined_file_ids` fix (`preciseLoopG`): for
`fx = false` it is the loop of the unchanged code; one invariant for both
variants (true records, ancestor closure, children of entries that stopped being
directories); the fixed loop always terminates.
-/
namespace BreezyVerif.C10

theorem preciseLoopG_false (src tgt : Tree) : ∀ (n : Nat) (st : PState) (ex : List Id),
    preciseLoopG false src tgt n st ex = preciseLoop src tgt n st := by
  intro n
  induction n with
  | zero => intro st ex; rfl
  | succ n ih =>
    intro st ex
    unfold preciseLoopG preciseLoop
    have hf : ∀ l : List Id, l.filter (fun _ => true) = l := fun l => List.filter_eq_self.mpr (by simp)
    simp only [Bool.false_and, Bool.not_false, Bool.and_true, hf]
    split
    · rfl
    · exact ih _ _

theorem iterChangesG_false (impl : Impl) (src tgt : Tree) (filt : Option (List Path)) (incl reqv : Bool) :
    iterChangesG false impl src tgt filt incl reqv = iterChanges impl src tgt filt incl reqv := by
  unfold iterChangesG iterChanges gFuel
  simp only [Bool.false_eq_true, if_false, preciseLoopG_false]

/-! ### what one `examine` and one pass do -/

/-- the parent id of `k` in the target -/
def tgtPar (tgt : Tree) (k : Id) : Option Id := (get tgt k).bind (·.parent)

theorem change_tgtPar {src tgt : Tree} {i : Id} {r : Change} (h : change src tgt i = some r) :
    r.tgt.bind (·.parent) = tgtPar tgt i := by
  unfold tgtPar
  unfold change at h
  split at h
  · cases h
  · rename_i s hs ht; simp at h; subst h; simp [ht]
  · rename_i t hs ht; simp at h; subst h; simp [ht, Entry.meta]
  · rename_i s t hs ht; simp at h; subst h; simp [ht, Entry.meta]

theorem tgtPar_none_of_no_change {src tgt : Tree} {i : Id} (h : change src tgt i = none) : tgtPar tgt i = none := by
  unfold tgtPar
  rw [(change_none_iff.mp h).2]; rfl

theorem examine_cases (src tgt : Tree) (st : PState) (i : Id) :
    (change src tgt i = none ∧ examine src tgt st i = st) ∨
    (∃ r, change src tgt i = some r ∧ r.isChanged = true ∧
      examine src tgt st i = ⟨if stoppedDir r then unionNew (addParent st.precise r) (childrenOf src i)
                               else addParent st.precise r, insertNew st.changed i, st.out ++ [r]⟩) ∨
    (∃ r, change src tgt i = some r ∧ r.isChanged = false ∧
      examine src tgt st i = ⟨addParent st.precise r, st.changed, st.out⟩) := by
  cases hc : change src tgt i with
  | none => left; exact ⟨rfl, by simp [examine, hc]⟩
  | some r =>
    right
    by_cases hch : r.isChanged = true
    · left; exact ⟨r, rfl, hch, by simp [examine, hc, hch]⟩
    · have hch' : r.isChanged = false := by simpa using hch
      right; exact ⟨r, rfl, hch', by simp [examine, hc, hch']⟩

/-- everything one `examine` does, in terms of membership -/
theorem examine_spec (src tgt : Tree) (st : PState) (i : Id) :
    let st' := examine src tgt st i
    (∀ j, j ∈ st'.changed → j ∈ st.changed ∨ j = i) ∧
    (∀ j ∈ st.changed, j ∈ st'.changed) ∧
    (∀ j ∈ st.precise, j ∈ st'.precise) ∧
    (∀ c ∈ st.out, c ∈ st'.out) ∧
    (NotChange src tgt i ∨ i ∈ st'.changed) ∧
    (∀ p, tgtPar tgt i = some p → p ∈ st'.precise) ∧
    (∀ c ∈ st'.out, c ∈ st.out ∨
      (c.id = i ∧ c.isChanged = true ∧ change src tgt i = some c ∧ i ∈ st'.changed ∧
        (stoppedDir c = true → ∀ ch ∈ childrenOf src i, ch ∈ st'.precise))) ∧
    (∀ j ∈ st'.precise, j ∈ st.precise ∨ tgtPar tgt i = some j ∨ j ∈ childrenOf src i) := by
  intro st'
  rcases examine_cases src tgt st i with ⟨hc, he⟩ | ⟨r, hc, hch, he⟩ | ⟨r, hc, hch, he⟩
  · have : st' = st := he
    rw [this]
    refine ⟨fun j h => Or.inl h, fun _ h => h, fun _ h => h, fun _ h => h, Or.inl ?_, ?_, fun c h => Or.inl h,
      fun j h => Or.inl h⟩
    · intro r hr; rw [hc] at hr; cases hr
    · intro p hp; rw [tgtPar_none_of_no_change hc] at hp; cases hp
  · have hst : st' = ⟨if stoppedDir r then unionNew (addParent st.precise r) (childrenOf src i)
                               else addParent st.precise r, insertNew st.changed i, st.out ++ [r]⟩ := he
    rw [hst]
    have hid := change_id hc
    have hprec : ∀ j, j ∈ addParent st.precise r →
        j ∈ (if stoppedDir r then unionNew (addParent st.precise r) (childrenOf src i)
                 else addParent st.precise r) := by
      intro j hj
      split
      · exact mem_unionNew.mpr (Or.inl hj)
      · exact hj
    refine ⟨?_, fun j h => mem_insertNew.mpr (Or.inl h), fun j h => hprec j (mem_addParent.mpr (Or.inl h)),
      fun c h => by simp [h], Or.inr (mem_insertNew.mpr (Or.inr rfl)), ?_, ?_, ?_⟩
    · intro j hj; exact mem_insertNew.mp hj
    · intro p hp
      exact hprec p (mem_addParent.mpr (Or.inr (by rw [change_tgtPar hc]; exact hp)))
    · intro c hcm
      simp only [List.mem_append, List.mem_singleton] at hcm
      rcases hcm with h | h
      · exact Or.inl h
      · subst h
        refine Or.inr ⟨hid, hch, hc, mem_insertNew.mpr (Or.inr rfl), ?_⟩
        intro hs ch hch'
        simp only [hs, if_true]
        exact mem_unionNew.mpr (Or.inr hch')
    · intro j hj
      simp only at hj
      by_cases hs : stoppedDir r = true
      · simp only [hs, if_true] at hj
        rcases mem_unionNew.mp hj with h | h
        · rcases mem_addParent.mp h with h' | h'
          · exact Or.inl h'
          · exact Or.inr (Or.inl (by rw [← change_tgtPar hc]; exact h'))
        · exact Or.inr (Or.inr h)
      · simp only [hs] at hj
        rcases mem_addParent.mp hj with h' | h'
        · exact Or.inl h'
        · exact Or.inr (Or.inl (by rw [← change_tgtPar hc]; exact h'))
  · have hst : st' = ⟨addParent st.precise r, st.changed, st.out⟩ := he
    rw [hst]
    refine ⟨fun j h => Or.inl h, fun _ h => h, fun j hj => mem_addParent.mpr (Or.inl hj), fun _ h => h, Or.inl ?_, ?_,
      fun c h => Or.inl h, ?_⟩
    · intro r' hr'; rw [hc] at hr'; cases hr'; exact hch
    · intro p hp
      exact mem_addParent.mpr (Or.inr (by rw [change_tgtPar hc]; exact hp))
    · intro j hj
      rcases mem_addParent.mp hj with h' | h'
      · exact Or.inl h'
      · exact Or.inr (Or.inl (by rw [← change_tgtPar hc]; exact h'))

/-- everything one pass over `l` does -/
theorem fold_spec (src tgt : Tree) (l : List Id) (st : PState) :
    let st' := l.foldl (examine src tgt) st
    (∀ j, j ∈ st'.changed → j ∈ st.changed ∨ j ∈ l) ∧
    (∀ j ∈ st.changed, j ∈ st'.changed) ∧
    (∀ j ∈ st.precise, j ∈ st'.precise) ∧
    (∀ c ∈ st.out, c ∈ st'.out) ∧
    (∀ i ∈ l, NotChange src tgt i ∨ i ∈ st'.changed) ∧
    (∀ i ∈ l, ∀ p, tgtPar tgt i = some p → p ∈ st'.precise) ∧
    (∀ c ∈ st'.out, c ∈ st.out ∨
      (c.id ∈ l ∧ c.isChanged = true ∧ change src tgt c.id = some c ∧ c.id ∈ st'.changed ∧
        (stoppedDir c = true → ∀ ch ∈ childrenOf src c.id, ch ∈ st'.precise))) ∧
    (∀ j ∈ st'.precise, j ∈ st.precise ∨ ∃ i ∈ l, tgtPar tgt i = some j ∨ j ∈ childrenOf src i) := by
  induction l generalizing st with
  | nil =>
    exact ⟨fun j h => Or.inl h, fun _ h => h, fun _ h => h, fun _ h => h, by simp, by simp, fun c h => Or.inl h,
      fun j h => Or.inl h⟩
  | cons x rest ih =>
    intro st'
    have h1 := examine_spec src tgt st x
    have h2 := ih (examine src tgt st x)
    simp only at h1 h2
    obtain ⟨a1, b1, c1, d1, e1, f1, g1, k1⟩ := h1
    obtain ⟨a2, b2, c2, d2, e2, f2, g2, k2⟩ := h2
    have hst : st' = rest.foldl (examine src tgt) (examine src tgt st x) := rfl
    rw [hst]
    refine ⟨?_, fun j h => b2 j (b1 j h), fun j h => c2 j (c1 j h), fun c h => d2 c (d1 c h), ?_, ?_, ?_, ?_⟩
    · intro j hj
      rcases a2 j hj with h | h
      · rcases a1 j h with h' | h'
        · exact Or.inl h'
        · exact Or.inr (by rw [h']; exact List.mem_cons_self)
      · exact Or.inr (List.mem_cons_of_mem _ h)
    · intro i hi
      rcases List.mem_cons.mp hi with h | h
      · subst h
        rcases e1 with h | h
        · exact Or.inl h
        · exact Or.inr (b2 _ h)
      · exact e2 i h
    · intro i hi p hp
      rcases List.mem_cons.mp hi with h | h
      · subst h; exact c2 p (f1 p hp)
      · exact f2 i h p hp
    · intro c hcm
      rcases g2 c hcm with h | ⟨p0, p1, p2, p3, p4⟩
      · rcases g1 c h with h' | ⟨q0, q1, q2, q3, q4⟩
        · exact Or.inl h'
        · refine Or.inr ⟨by rw [q0]; exact List.mem_cons_self, q1, by rw [q0]; exact q2, by rw [q0]; exact b2 _ q3, ?_⟩
          intro hs ch hch
          rw [q0] at hch
          exact c2 ch (q4 hs ch hch)
      · exact Or.inr ⟨List.mem_cons_of_mem _ p0, p1, p2, p3, p4⟩
    · intro j hj
      rcases k2 j hj with h | ⟨i, hi, h⟩
      · rcases k1 j h with h' | h'
        · exact Or.inl h'
        · exact Or.inr ⟨x, List.mem_cons_self, h'⟩
      · exact Or.inr ⟨i, List.mem_cons_of_mem _ hi, h⟩

/-! ### the invariant (both variants) -/

/-- invariant of `preciseLoopG`: `base` are the records emitted before the loop, `ex` the ids the
loop has examined -/
structure GInv (src tgt : Tree) (base : List Change) (st : PState) (ex : List Id) : Prop where
  outTrue : ∀ c ∈ st.out, c.isChanged = true ∧ change src tgt c.id = some c
  changedHas : ∀ i ∈ st.changed, ∃ c ∈ base ++ st.out, c.id = i
  recIn : ∀ c ∈ base ++ st.out, c.id ∈ st.changed
  exDone : ∀ i ∈ ex, i ∈ st.changed ∨ NotChange src tgt i
  parents : ∀ k, (k ∈ ex ∨ k ∈ st.changed) → ∀ p, tgtPar tgt k = some p →
    p ∈ st.precise ∨ p ∈ st.changed ∨ p ∈ ex
  children : ∀ c ∈ st.out, stoppedDir c = true → ∀ ch ∈ childrenOf src c.id,
    ch ∈ st.precise ∨ ch ∈ st.changed ∨ ch ∈ ex

/-- what holds when the loop is finished: `K` = the ids examined or emitted -/
structure Closed (src tgt : Tree) (base out : List Change) (K : List Id) : Prop where
  outTrue : ∀ c ∈ out, c.isChanged = true ∧ change src tgt c.id = some c
  recIn : ∀ c ∈ base ++ out, c.id ∈ K
  kDone : ∀ k ∈ K, (∃ c ∈ base ++ out, c.id = k) ∨ NotChange src tgt k
  kClosed : ∀ k ∈ K, ∀ p, tgtPar tgt k = some p → p ∈ K
  kids : ∀ c ∈ out, stoppedDir c = true → ∀ ch ∈ childrenOf src c.id, ch ∈ K

theorem preciseLoopG_closed (fx : Bool) (src tgt : Tree) (base : List Change) :
    ∀ (n : Nat) (st : PState) (ex : List Id) (out : List Change), GInv src tgt base st ex →
      preciseLoopG fx src tgt n st ex = some out → ∃ K, Closed src tgt base out K := by
  intro n
  induction n with
  | zero => intro st ex out _ h; simp [preciseLoopG] at h
  | succ n ih =>
    intro st ex out inv h
    unfold preciseLoopG at h
    simp only at h
    by_cases hp1 : (st.precise.filter fun i => !st.changed.contains i && !(fx && ex.contains i)).isEmpty = true
    · simp only [hp1, if_true, Option.some.injEq] at h
      subst h
      have hprec : ∀ p ∈ st.precise, p ∈ st.changed ∨ p ∈ ex := by
        intro p hp
        by_cases hc : p ∈ st.changed
        · exact Or.inl hc
        · by_cases he : p ∈ ex
          · exact Or.inr he
          · exfalso
            rw [List.isEmpty_iff] at hp1
            have : p ∈ st.precise.filter fun i => !st.changed.contains i && !(fx && ex.contains i) := by
              simp [List.mem_filter, hp, hc, he]
            rw [hp1] at this; cases this
      refine ⟨ex ++ st.changed, inv.outTrue, fun c hc => List.mem_append.mpr (Or.inr (inv.recIn c hc)), ?_, ?_, ?_⟩
      · intro k hk
        rcases List.mem_append.mp hk with h | h
        · rcases inv.exDone k h with h' | h'
          · exact Or.inl (inv.changedHas k h')
          · exact Or.inr h'
        · exact Or.inl (inv.changedHas k h)
      · intro k hk p hp
        rcases inv.parents k (List.mem_append.mp hk) p hp with h | h | h
        · rcases hprec p h with h' | h'
          · exact List.mem_append.mpr (Or.inr h')
          · exact List.mem_append.mpr (Or.inl h')
        · exact List.mem_append.mpr (Or.inr h)
        · exact List.mem_append.mpr (Or.inl h)
      · intro c hc hs ch hch
        rcases inv.children c hc hs ch hch with h | h | h
        · rcases hprec ch h with h' | h'
          · exact List.mem_append.mpr (Or.inr h')
          · exact List.mem_append.mpr (Or.inl h')
        · exact List.mem_append.mpr (Or.inr h)
        · exact List.mem_append.mpr (Or.inl h)
    · simp only [hp1, Bool.false_eq_true, if_false] at h
      apply ih _ _ out _ h
      -- abbreviations
      generalize hp1d : (st.precise.filter fun i => !st.changed.contains i && !(fx && ex.contains i)) = p1 at h hp1
      generalize hcur : unionNew p1 ((p1.filterMap fun i => (pathOf tgt i).bind (idAt src)).filter
        fun o => !(fx && (st.changed.contains o || ex.contains o))) = cur at h
      have F := fold_spec src tgt cur { st with precise := [] }
      have F' := examine_fold src tgt cur { st with precise := [] }
      simp only at F F'
      obtain ⟨fa, fb, _, fd, fe, ff, fg, _⟩ := F
      obtain ⟨_, _, _, _, _, fz⟩ := F'
      have hstar : ∀ p ∈ st.precise, p ∈ st.changed ∨ p ∈ ex ++ cur := by
        intro p hp
        by_cases hc : p ∈ st.changed
        · exact Or.inl hc
        · by_cases he : p ∈ ex
          · exact Or.inr (List.mem_append.mpr (Or.inl he))
          · right
            apply List.mem_append.mpr; right
            rw [← hcur, mem_unionNew]; left
            rw [← hp1d]
            simp [List.mem_filter, hp, hc, he]
      have h3 : ∀ p, (p ∈ st.precise ∨ p ∈ st.changed ∨ p ∈ ex) →
          p ∈ (cur.foldl (examine src tgt) { st with precise := [] }).precise ∨
          p ∈ (cur.foldl (examine src tgt) { st with precise := [] }).changed ∨ p ∈ ex ++ cur := by
        intro p hp
        rcases hp with h | h | h
        · rcases hstar p h with h' | h'
          · exact Or.inr (Or.inl (fb p h'))
          · exact Or.inr (Or.inr h')
        · exact Or.inr (Or.inl (fb p h))
        · exact Or.inr (Or.inr (List.mem_append.mpr (Or.inl h)))
      refine ⟨?_, ?_, ?_, ?_, ?_, ?_⟩
      · intro c hc
        rcases fg c hc with h | ⟨_, h1, h2, _, _⟩
        · exact inv.outTrue c h
        · exact ⟨h1, h2⟩
      · intro i hi
        rcases fz i hi with h | ⟨c, hc, hci⟩
        · obtain ⟨c, hc, hci⟩ := inv.changedHas i h
          rcases List.mem_append.mp hc with hc | hc
          · exact ⟨c, List.mem_append.mpr (Or.inl hc), hci⟩
          · exact ⟨c, List.mem_append.mpr (Or.inr (fd c hc)), hci⟩
        · exact ⟨c, List.mem_append.mpr (Or.inr hc), hci⟩
      · intro c hc
        rcases List.mem_append.mp hc with hc | hc
        · exact fb _ (inv.recIn c (List.mem_append.mpr (Or.inl hc)))
        · rcases fg c hc with h | ⟨_, _, _, h3', _⟩
          · exact fb _ (inv.recIn c (List.mem_append.mpr (Or.inr h)))
          · exact h3'
      · intro i hi
        rcases List.mem_append.mp hi with h | h
        · rcases inv.exDone i h with h' | h'
          · exact Or.inl (fb i h')
          · exact Or.inr h'
        · rcases fe i h with h' | h'
          · exact Or.inr h'
          · exact Or.inl h'
      · intro k hk p hp
        have hk' : (k ∈ ex ∨ k ∈ st.changed) ∨ k ∈ cur := by
          rcases hk with h | h
          · rcases List.mem_append.mp h with h' | h'
            · exact Or.inl (Or.inl h')
            · exact Or.inr h'
          · rcases fa k h with h' | h'
            · exact Or.inl (Or.inr h')
            · exact Or.inr h'
        rcases hk' with h | h
        · exact h3 p (inv.parents k h p hp)
        · exact Or.inl (ff k h p hp)
      · intro c hc hs ch hch
        rcases fg c hc with h | ⟨_, _, _, _, h5⟩
        · exact h3 ch (inv.children c h hs ch hch)
        · exact Or.inl (h5 hs ch hch)

/-! ### the records emitted before the loop -/

theorem baseTgt_mem {src tgt : Tree} {sel : List Id} {incl : Bool} {c : Change} (h : c ∈ baseTgt src tgt sel incl) :
    change src tgt c.id = some c ∧ (c.isChanged = true ∨ incl = true) ∧ c.id ∈ sel ∧ c.id ∈ ids tgt := by
  unfold baseTgt at h
  rw [List.mem_filterMap] at h
  obtain ⟨i, hi, hc⟩ := h
  rw [List.mem_filter] at hi
  cases hr : change src tgt i with
  | none => simp [hr] at hc
  | some r =>
    simp only [hr, Option.bind_some] at hc
    split at hc
    · rename_i hch
      cases hc
      rw [change_id hr]
      exact ⟨hr, by simpa using hch, by simpa using hi.2, hi.1⟩
    · cases hc

theorem baseRemoved_mem {src tgt : Tree} {sel : List Id} {c : Change} (h : c ∈ baseRemoved src tgt sel) :
    change src tgt c.id = some c ∧ c.isChanged = true ∧ c.id ∈ sel ∧ c.id ∈ ids src ∧ get tgt c.id = none := by
  unfold baseRemoved at h
  rw [List.mem_filterMap] at h
  obtain ⟨i, hi, hc⟩ := h
  rw [List.mem_filter] at hi
  have h2 := hi.2
  simp only [Bool.and_eq_true, Option.isNone_iff_eq_none, List.contains_eq_mem, decide_eq_true_eq] at h2
  rw [change_id hc]
  exact ⟨hc, removed_isChanged hc h2.2, h2.1, hi.1, h2.2⟩

theorem mem_tgtParents_iff {cs : List Change} {p : Id} :
    p ∈ tgtParents cs ↔ ∃ c ∈ cs, c.tgt.bind (·.parent) = some p := by
  unfold tgtParents
  rw [mem_unionNew, List.mem_filterMap]
  simp

/-- the invariant holds when `iter_changes` enters the loop -/
theorem ginv_start (src tgt : Tree) (sel : List Id) (incl : Bool) :
    GInv src tgt (baseTgt src tgt sel incl ++ baseRemoved src tgt sel)
      { precise := tgtParents (baseTgt src tgt sel incl),
        changed := (baseTgt src tgt sel incl ++ baseRemoved src tgt sel).map (·.id), out := [] } [] := by
  refine ⟨by simp, ?_, ?_, by simp, ?_, by simp⟩
  · intro i hi
    simp only [List.mem_map] at hi
    obtain ⟨c, hc, hci⟩ := hi
    exact ⟨c, by simpa using hc, hci⟩
  · intro c hc
    simp only [List.append_nil] at hc
    exact List.mem_map.mpr ⟨c, hc, rfl⟩
  · intro k hk p hp
    rcases hk with hk | hk
    · cases hk
    · simp only [List.mem_map] at hk
      obtain ⟨c, hc, hci⟩ := hk
      rcases List.mem_append.mp hc with hc | hc
      · left
        rw [mem_tgtParents_iff]
        refine ⟨c, hc, ?_⟩
        rw [change_tgtPar (baseTgt_mem hc).1, hci]; exact hp
      · exfalso
        have := (baseRemoved_mem hc).2.2.2.2
        rw [hci] at this
        unfold tgtPar at hp
        rw [this] at hp; cases hp

/-! ### the fixed loop always terminates -/

/-- every id the loop can ever look at -/
def reachable (src tgt : Tree) : List Id := ids src ++ ids tgt ++ tgt.filterMap (·.2.parent)

theorem reachable_length (src tgt : Tree) : (reachable src tgt).length ≤ src.length + 2 * tgt.length := by
  unfold reachable ids
  have := List.length_filterMap_le (fun x : Id × Entry => x.2.parent) tgt
  simp only [List.length_append, List.length_map]
  omega

theorem tgtPar_mem_reachable {src tgt : Tree} {i p : Id} (h : tgtPar tgt i = some p) : p ∈ reachable src tgt := by
  unfold tgtPar at h
  cases hg : get tgt i with
  | none => simp [hg] at h
  | some e =>
    simp only [hg, Option.bind_some] at h
    unfold reachable
    apply List.mem_append.mpr; right
    rw [List.mem_filterMap]
    exact ⟨(i, e), get_mem hg, h⟩

theorem childrenOf_sub_ids {t : Tree} {i c : Id} (h : c ∈ childrenOf t i) : c ∈ ids t := by
  unfold childrenOf at h
  rw [List.mem_map] at h
  obtain ⟨x, hx, hxc⟩ := h
  unfold ids
  exact List.mem_map.mpr ⟨x, (List.mem_filter.mp hx).1, hxc⟩

theorem filter_length_lt {α : Type} (p q : α → Bool) (hpq : ∀ a, q a = true → p a = true) :
    ∀ (l : List α) (x : α), x ∈ l → p x = true → q x = false → (l.filter q).length < (l.filter p).length := by
  intro l
  induction l with
  | nil => intro x hx; cases hx
  | cons a rest ih =>
    intro x hx hpx hqx
    have hle : (rest.filter q).length ≤ (rest.filter p).length := by
      clear ih hx
      induction rest with
      | nil => simp
      | cons b r ihr =>
        simp only [List.filter_cons]
        by_cases hqb : q b = true
        · simp [hqb, hpq b hqb]; exact ihr
        · by_cases hpb : p b = true
          · simp [hqb, hpb]; omega
          · simp [hqb, hpb]; exact ihr
    rcases List.mem_cons.mp hx with h | h
    · subst h
      simp only [List.filter_cons, hpx, hqx, if_true, Bool.false_eq_true, if_false, List.length_cons]
      omega
    · have := ih x h hpx hqx
      simp only [List.filter_cons]
      by_cases hqa : q a = true
      · simp [hqa, hpq a hqa]; exact this
      · by_cases hpa : p a = true
        · simp [hqa, hpa]; omega
        · simp [hqa, hpa]; exact this

/-- ids of the reachable not examined yet -/
def unexamined (src tgt : Tree) (ex : List Id) : Nat := ((reachable src tgt).filter fun u => !ex.contains u).length

theorem preciseLoopG_true_terminates (src tgt : Tree) :
    ∀ (n : Nat) (st : PState) (ex : List Id), (∀ p ∈ st.precise, p ∈ reachable src tgt) →
      unexamined src tgt ex < n → ∃ out, preciseLoopG true src tgt n st ex = some out := by
  intro n
  induction n with
  | zero => intro st ex _ h; omega
  | succ n ih =>
    intro st ex hu hm
    unfold preciseLoopG
    simp only
    by_cases hp1 : (st.precise.filter fun i => !st.changed.contains i && !(true && ex.contains i)).isEmpty = true
    · simp only [hp1, if_true]; exact ⟨_, rfl⟩
    · simp only [hp1, Bool.false_eq_true, if_false]
      generalize hp1d : (st.precise.filter fun i => !st.changed.contains i && !(true && ex.contains i)) = p1 at hp1
      generalize hcur : unionNew p1 ((p1.filterMap fun i => (pathOf tgt i).bind (idAt src)).filter
        fun o => !(true && (st.changed.contains o || ex.contains o))) = cur
      apply ih
      · intro p hp
        have F := fold_spec src tgt cur { st with precise := [] }
        simp only at F
        rcases F.2.2.2.2.2.2.2 p hp with h | ⟨i, _, h | h⟩
        · cases h
        · exact tgtPar_mem_reachable h
        · unfold reachable
          exact List.mem_append.mpr (Or.inl (List.mem_append.mpr (Or.inl (childrenOf_sub_ids h))))
      · -- a pending id is examined for the first time
        obtain ⟨x, hx⟩ : ∃ x, x ∈ p1 := by
          cases p1 with
          | nil => simp at hp1
          | cons a _ => exact ⟨a, List.mem_cons_self⟩
        have hx' := hx
        rw [← hp1d, List.mem_filter] at hx'
        obtain ⟨hxp, hxc⟩ := hx'
        have hxe : x ∉ ex := by
          intro he
          simp [he] at hxc
        have hxcur : x ∈ cur := by rw [← hcur, mem_unionNew]; exact Or.inl hx
        have : unexamined src tgt (ex ++ cur) < unexamined src tgt ex := by
          unfold unexamined
          apply filter_length_lt (fun u => !ex.contains u) (fun u => !(ex ++ cur).contains u) _ _ x (hu x hxp)
          · simp [hxe]
          · simp [hxcur]
          · intro a ha
            simp only [Bool.not_eq_true', List.contains_eq_mem, decide_eq_false_iff_not, List.mem_append, not_or] at ha ⊢
            exact ha.1
        omega

end BreezyVerif.C10
