#!/venv/bin/python
"""Standalone reproduction (no verification harness): C05 finding
`same-pack-name-relisted-while-obsoleted`.

Two processes fetch the SAME revision into one shared 2a repository (two pushes of one
branch).  Pack names are the md5 of the pack content, so both write a pack with the same
name X.  Process B has finished its pack (NewPack.finish + allocate) but not yet saved
pack-names; meanwhile process A commits the identical pack X, then runs `pack`: X is
combined into Y and moved to obsolete_packs/.  B now saves: the three-way merge lists X
(a new name for B).  pack-names lists a pack whose files are gone; the repository cannot
be read any more.

The interleaving is produced in ONE thread: A's complete operations run at the moment B
enters _save_pack_names (before it takes the names lock) — a legal schedule of two
processes.  Usage: repro_c05_same_pack_name.py [path-of-breezy-tree]   (default /repo)
Exit 1 = property violated, 0 = fine.
"""
import os
import sys
import tempfile

sys.path.insert(0, sys.argv[1] if len(sys.argv) > 1 else "/repo")
home = tempfile.mkdtemp(prefix="c05repro-", dir="/var/tmp")
os.environ.update(HOME=home, BRZ_HOME=home, BRZ_EMAIL="t <t@example.com>", BRZ_PLUGIN_PATH="-user:-site",
                  BRZ_LOG=os.path.join(home, "brz.log"))
import breezy  # noqa: E402
breezy.initialize()
import breezy.bzr  # noqa: E402,F401
from breezy.controldir import ControlDir, format_registry  # noqa: E402
from breezy.repository import Repository  # noqa: E402

fmt = format_registry.make_controldir("2a")
src_wt = ControlDir.create_standalone_workingtree(os.path.join(home, "src"), format=fmt)
with open(os.path.join(src_wt.basedir, "f"), "w") as f:
    f.write("one\n")
src_wt.add(["f"])
r1 = src_wt.commit("one", rev_id=b"rev-1")
with open(os.path.join(src_wt.basedir, "f"), "a") as f:
    f.write("two\n")
r2 = src_wt.commit("two", rev_id=b"rev-2")

target = os.path.join(home, "shared")
ControlDir.create(target, format=fmt).create_repository()
Repository.open(target).fetch(src_wt.branch.repository, revision_id=r1)      # the shared repository has rev-1

A = Repository.open(target)
B = Repository.open(target)
B.lock_write()
coll = B._pack_collection
orig_save = coll._save_pack_names
done = []


def save_after_A(*args, **kw):
    if not done:
        done.append(1)
        # --- process A, complete operations, while B is between finish() and its save ---
        A.fetch(Repository.open(src_wt.basedir), revision_id=r2)     # writes and lists the identical pack X
        A.pack()                                                       # X -> Y, X moved to obsolete_packs/
    return orig_save(*args, **kw)


coll._save_pack_names = save_after_A
B.fetch(Repository.open(src_wt.basedir), revision_id=r2)                     # B: finish X ... [A] ... save
B.unlock()

rd = os.path.join(target, ".bzr", "repository")
print("packs/          :", sorted(os.listdir(os.path.join(rd, "packs"))))
print("obsolete_packs/ :", sorted(n for n in os.listdir(os.path.join(rd, "obsolete_packs")) if n.endswith(".pack")))
fresh = Repository.open(target)
try:
    with fresh.lock_read():
        print("pack-names      :", sorted(fresh._pack_collection.names()))
        ids = sorted(fresh.all_revision_ids())
        for rev in fresh.get_revisions(ids):
            fresh.revision_tree(rev.revision_id).get_file_text("f")
    print("OK: revisions", ids, "listed and readable")
    sys.exit(0)
except Exception as e:
    print("PROPERTY VIOLATED: both fetches committed successfully, but the repository cannot be read: %s: %s"
          % (type(e).__name__, e))
    sys.exit(1)
