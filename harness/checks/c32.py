"""C32 — operations through a smart server match local operations.

Mechanism: breezy/bzr/remote.py (RemoteBzrDir / RemoteBranch / RemoteRepository,
verb calls with VFS fallback) against breezy/bzr/smart/{branch,repository,
bzrdir,packrepository}.py (server verbs), over a real in-process
SmartTCPServer (bzr://127.0.0.1:<port>/) serving a scratch directory.

The specification is the local behaviour.  A case is an operation script
(<= 20 operations) over a small world: two source trees A and B (B branches
off A; merges in both directions give a DAG), a target branch T, a client
branch C that pulls / fetches from T and a lightweight checkout K of T that
commits straight into T.  The same script is run twice from identical
directories: with T opened by local path (side L) and with T opened through
the smart server (side R).  After EVERY operation
  * the canonical return value / error class of the operation and
  * the state of T read back LOCALLY by path with fresh objects — tip,
    tags, revision ids, per-revision strict testament sha1 and parent lists,
    config values, parent location, physical lock status — plus the revision
    ids of C
must be equal on both sides (oracle; this is the property itself).

Lock-scope sessions (stream "session"): the same comparison for scripts in which ONE long-lived target object
is locked (`hold w|r`, nested, released, re-taken) and STAYS locked over whole operation sequences: VFS-delegated
operations (pull into the target, push FROM the target — RemoteBranch hands both to its VFS branch object, which
has caches of its own), tip changes over RPC (push into the target, set_last_revision_info with and without a
preceding fetch, generate_revision_history), tag / config / repository operations and reads, while the source
trees keep advancing, diverging, merging and getting tagged.  Stale client-side caches are only observable
inside one lock scope (unlock drops them: theorem `seeded_variant_invisible_without_lock_scope`), so this
stream is what finds cache-coherence regressions between RemoteBranch and `_real_branch`.

T2 (model): two further streams are restricted to modelled operations and are additionally compared,
operation by operation, with the Lean model's local AND remote step functions, on both sides:
  * "modelled": the verbs of Model/C32.lean, every operation on a fresh object (lock_write / unlock with tokens
    and leave_lock_in_place, set_last_revision_info, tag set / delete, config set / get, get_parent_map, fetch of a
    revision with its ancestry, reads) — remote step = wire encoding -> server step -> wire decoding;
  * "msession": lock-scope sessions over the operations of Model/C32S.lean (lock_write / lock_read / unlock on the
    long-lived object, lock_write(token) with the remembered or a never-issued token, leave_lock_in_place /
    dont_leave_lock_in_place, a SECOND holder object that takes and releases the physical lock, last_revision_info,
    fetch + set_last_revision_info, pull with source tags, tag set / read).  The scripts are built from lock-cycle
    phrases (own, read, borrow with the holder's token, borrow and release, leave and adopt again, nested, contention,
    wrong / stale token, lent) with other operations in and between them; the physical lock status
    (get_physical_lock_status on the LOCAL path) is observed after every step on both sides and compared with the model.
    Besides results and the final stored state, the object's PRIVATE lock state and caches after EVERY operation
    (`_lock_mode`, `_lock_count`, `_last_revision_info_cache`, `_tags_bytes`, `_real_branch is not None` and the VFS
    branch's two caches) are compared with the model's `Obj`, and the model's cache-free specification run must
    equal its local run (the instance of `local_session_run_spec`).  The harness probes which tag-cache variant
    the tree has (`probe_tags_variant`) and selects the model variant accordingly.

Findings on the unchanged tree (families computed by `_family` from the failing step):
  get-parent-map-null-dropped: RemoteRepository.get_parent_map([... b"null:" ...]) loses the
    null: entry whenever another key is requested as well (dead `found_parents` in
    _get_parent_map_rpc); modelled by `fx` (the harness probes the variant).
  tip-absent-from-repository-<op>: after set_last_revision_info(n, X) with X absent from the repository
    (unchecked on both sides) reads / generate_revision_history answer with different results or error classes.
  gather-stats-null-revision-committers: gather_stats(b"null:", committers=True) lacks 'committers' remotely.
  config-old-api-write-unseen-by-local-stack: get_config().set_user_option(name, v) then
    get_config_stack().get(name) on the same branch object is None locally and v through the server.
  append-revisions-only-error-untranslated: a push / pull that violates append_revisions_only raises
    AppendRevisionsOnlyViolation locally and UnknownErrorFromSmartServer through the server.
  append-revisions-only-ghost-tip-error-untranslated: with append_revisions_only set, set_last_revision_info to a
    revision that is not stored raises vcsgraph's RevisionNotPresent locally and UnknownErrorFromSmartServer
    through the server (sibling of the previous family; seen in the thorough tier only).
  remote-tags-cache-stale-in-lock-scope: RemoteBranch and its VFS branch object each cache the tags file while
    the lock is held and neither hears of the other's writes: (a) tags read, pull that merges source tags (written
    by the VFS branch), tag write over RPC -> the pulled tags are lost; (b) pull that merges tags (VFS branch caches
    them), tag write over RPC, pull / push-from again -> the tag written over RPC is lost / not pushed.  Modelled
    by the variant flags `tagsOwn` / `tagsReal` (theorems stale_tags_cache_witness, stale_vfs_tags_cache_witness).
Error classes are compared modulo EQUIV_ERRORS (the server verb documents that it reports an absent
revision as NoSuchRevision where the local code raises GhostRevisionsHaveNoRevno).

Mutants this was built against (scratch worktree, all semantic ones caught by the oracle with the failing step):
  M1 server Branch.set_last_revision_info stores revno-1            -> state:tip differs (set_tip, ck_commit, m_tip_set)
  M2 server Branch.unlock forgets dont_leave_lock_in_place          -> state:locked differs after any locked verb
  M3 client parses a parentless line as () instead of (null:,)      -> result of parent_map differs + T2 (remote side)
  M4 server set_config_option swaps name and value                   -> state:conf differs (conf_set_old)
  M5 server set_tags_bytes does not write                            -> state:tags differs
  M6 client keeps a stale last_revision_info cache after set tip     -> result of set_tip (read back under the lock)
  M7 SmartServerLockedBranchRequest ignores the client's token       -> E:LockContention through the server
  (M8 server sends parents (null:,) on the wire instead of ()        -> gen_history: E:ReservedId through the server)
  H1 `token == b"" -> None` rewritten as `token or None` (harmless)  -> same result as the unchanged tree
Second round (lock-scope sessions; all on top of the proposed tag-cache fix, all caught by the oracle):
  M9  RemoteBranch.pull no longer drops its own caches before delegating    -> result of set_tip / tip after a pull
  M10 RemoteBranch.unlock keeps the caches                                  -> client_pull / tip after another writer
  M11 _set_last_revision_descendant leaves the VFS branch's caches alone    -> pull after generate_revision_history
  M12 nested RemoteBranch.lock_write does not count                         -> state:locked after the inner unlock
  M13 set_last_revision_info primes the VFS branch with the OLD tip         -> pull after a tip change over RPC
  M14 set_last_revision_info does not refresh the RemoteBranch's tip cache  -> push / tip after a tip change
  (seed) set_last_revision_info clears only its own caches, no priming      -> pull accepted where local diverges
  H2  VFS branch primed before the post-change hooks run (harmless)         -> clean
Third round (token locks):
  (seed b) RemoteBranch.lock_write() without a token no longer resets _leave_lock -> state:phys,locked after the unlock
           of an own lock cycle that follows a borrowed (token) cycle on the same object; later lockers get contention
  M15 RemoteBranch.unlock ignores _leave_lock (always sends Branch.unlock)   -> state:phys after the borrower's unlock
  M16 lock_write(token) does not set _leave_lock                            -> state:phys after the borrower's unlock
  M17 dont_leave_lock_in_place is a no-op                                   -> state:phys after adopt + dont_leave + unlock
"""
import json
import os
import shutil
import sys

from vlib import env

THEOREMS = ["remote_step_refines_local", "remote_step_refines_local_partial", "parent_map_null_dropped_witness",
            "remote_run_refines_local",
            # part 2: lock-scope sessions on one long-lived object, caches as state (Model/C32S.lean)
            "local_session_step_spec", "remote_session_step_spec", "local_session_run_spec", "remote_session_run_spec",
            "remote_session_refines_local", "remote_session_refines_local_partial", "fresh_remote_session_refines_local",
            "fresh_remote_session_refines_local_partial", "session_caches_scoped",
            "local_session_caches_scoped", "seeded_variant_invisible_without_lock_scope", "stale_tip_cache_witness",
            "stale_tags_cache_witness", "stale_vfs_tags_cache_witness",
            # token locks, the leave flag, a second holder of the physical lock
            "remote_session_no_orphaned_lock", "physical_lock_free_when_nobody_holds", "untokened_lock_clears_leave_flag",
            "last_unlock_releases", "stale_leave_flag_witness", "spec_unlocked_eq_localStep_tagSet",
            "spec_unlocked_eq_localStep_reads"]
RULE = ("case = an operation script of <= 22 operations (commit in source trees / through a lightweight checkout, "
        "merge, source tags, push into / from the target, pull, fetch, tag set/delete, config set/get, lock/unlock with "
        "tokens, lock scopes on one long-lived object (write / read, nested), set tip, get_parent_map, revision / tree "
        "/ testament reads) drawn from the PRNG in four streams (general, modelled, session, msession); it is executed "
        "on a local path and through bzr:// on identical directories; non-trivial = the script changes the target at "
        "least once through a remote verb (push/pull/fetch/commit/tag/config/tip/lock)")
ASSUMPTIONS = [
    "the server is breezy's own SmartTCPServer run in a thread of the same process (127.0.0.1, protocol v3)",
    "revision ids, file ids, timestamps and committers are chosen by the script so that both sides can be compared byte for byte",
    "error classes are compared modulo GhostRevisionsHaveNoRevno == NoSuchRevision (documented translation of the server verb)",
    "parent locations set by the scripts are relative paths inside the served tree or non-file URLs: a parent stored "
    "relative to the branch resolves differently, by design, under file:// and under the server's bzr:// root",
    "model hypotheses: revision ids on the get_parent_map wire are non-empty, contain no blank / newline and do not start with 'missing:'",
    "msession stream: the lock state and caches of the real objects are read from private attributes (_lock_mode, _lock_count, "
    "control_files._lock_mode/_lock_count, _last_revision_info_cache, _tags_bytes, _real_branch); renaming them breaks the tie, not the oracle",
]
TRUSTED = [
    "lock tokens are nonces: only their presence is compared",
    "only the verbs listed in Model/C32.lean and the session operations of Model/C32S.lean are modelled; push, commit, "
    "generate_revision_history, config and the other VFS fallbacks are compared side against side, not modelled",
    "session model: the VFS branch object's file reads / writes (last-revision, tags) go straight to the stored state "
    "(the VFS verbs and their path handling are C31's subject); the repository-level caches are not modelled",
]

COMMITTER = "Verif Tester <verif@example.com>"


# --------------------------------------------------------------------------
# the shared server

class Srv:
    def __init__(self):
        from breezy import transport as T
        from breezy.bzr.smart import server as S
        from breezy import lockdir
        lockdir._DEFAULT_TIMEOUT_SECONDS = 0
        self.root = env.fresh_dir("c32srv")
        self.server = S.SmartTCPServer(T.get_transport_from_path(self.root), client_timeout=120)
        self.server.start_server("127.0.0.1", 0)
        self.server.start_background_thread("-c32")
        self.url = self.server.get_url()
        self.n = 0

    def stop(self):
        try:
            self.server.stop_background_thread()
        except Exception:
            pass


# --------------------------------------------------------------------------
# one side of a case

def _fmt():
    from breezy.controldir import format_registry
    return format_registry.make_controldir("2a")


class World:
    """the part of a case shared by both sides: the source trees A and B
    (they are only read by push / pull / fetch)"""

    def __init__(self, base):
        from breezy.controldir import ControlDir
        self.base = base
        os.makedirs(base, exist_ok=True)
        self.A = ControlDir.create_standalone_workingtree(os.path.join(base, "A"), format=_fmt())
        self.A.set_root_id(b"root-A")
        self.B = None

    def src(self, which):
        return self.A if which == "A" else (self.B or self.A)


class Side:
    """one side: the target T (opened locally or through the server), the
    client branch C and the lightweight checkout K of T"""

    def __init__(self, name, world, base, t_url):
        from breezy.controldir import ControlDir
        self.name = name
        self.world = world
        self.base = base
        self.t_path = os.path.join(base, "t")
        self.t_url = t_url or self.t_path
        os.makedirs(base, exist_ok=True)
        ControlDir.create_branch_convenience(self.t_path, force_new_tree=False, format=_fmt())
        ControlDir.create_branch_convenience(os.path.join(base, "C"), force_new_tree=False, format=_fmt())
        self.K = None
        self._T = None
        self.held = []          # (branch object, token) of locks taken by the script
        self.H = None           # a SECOND holder object of the target (owns the physical lock for a while)
        self.owner_tok = None
        self.known_token = None  # the token the script remembers: last untokened lock_write() by anyone
        self.transports = []
        self.tcache = {}        # revision id -> testament sha1 (revisions are immutable)

    # the target, through this side's access path
    def T(self, fresh=False):
        from breezy.branch import Branch
        if fresh or self._T is None:
            self._T = Branch.open(self.t_url, possible_transports=self.transports)
        return self._T

    def C(self):
        from breezy.branch import Branch
        return Branch.open(os.path.join(self.base, "C"))

    def src(self, which):
        return self.world.src(which)

    def close(self):
        for b, _ in self.held + ([(self.H, None)] if self.H is not None else []):
            try:
                while b.is_locked():
                    b.unlock()
            except Exception:
                pass
        for t in self.transports:
            try:
                t.disconnect()
            except Exception:
                pass


def ename(e):
    n = type(e).__name__
    return "E:" + n


def mask(side, v):
    """locations are compared relative to the side's base directory"""
    if isinstance(v, str):
        for pre in ("file://" + side.base, side.t_url.rsplit("/", 1)[0], side.base):
            v = v.replace(pre, "<BASE>")
    return v


def canon(v):
    if isinstance(v, bytes):
        return v.decode("utf-8", "backslashreplace")
    if isinstance(v, (list, tuple)):
        return [canon(x) for x in v]
    if isinstance(v, dict):
        return {canon(k): canon(x) for k, x in sorted(v.items())}
    if isinstance(v, (set, frozenset)):
        return sorted(canon(x) for x in v)
    return v


# --------------------------------------------------------------------------
# operations

def _commit(wt, n, files, rev_id, merge=None):
    """deterministic commit: explicit file ids, timestamp, committer, revision id"""
    for name, content in files:
        p = os.path.join(wt.basedir, name)
        new = not wt.is_versioned(name)
        with open(p, "wb") as f:
            f.write(content)
        if new:
            wt.add([name], ids=[b"fid-" + name.encode("utf-8").hex().encode()])
    return wt.commit("commit %s" % rev_id.decode(), rev_id=rev_id, timestamp=1000000000 + n, timezone=0,
                     committer=COMMITTER, allow_pointless=True)


def _tagres(r):
    """tag part of a push / pull result"""
    tu = getattr(r, "tag_updates", None) or {}
    tc = getattr(r, "tag_conflicts", None) or ()
    return [sorted(canon(dict(tu)).items()), sorted(canon([list(c) for c in tc]))]


WORLD_OPS = ("src_commit", "branch_B", "src_merge", "src_tag")


def do_op(side, op, n):
    """run one operation on one side; returns a canonical, JSON-able result"""
    from breezy import errors, revision as _r
    from breezy.bzr.testament import StrictTestament3
    k = op[0]
    try:
        if k in WORLD_OPS:
            w = side          # called with the World
            if k == "src_commit":
                _, which, files, revid = op
                return canon(_commit(w.src(which), n, [(f, c.encode()) for f, c in files], revid.encode()))
            if k == "src_tag":
                _, which, name, revid = op
                w.src(which).branch.tags.set_tag(name, revid.encode())
                return "ok"
            if k == "branch_B":
                if w.B is None:
                    w.B = w.A.controldir.sprout(os.path.join(w.base, "B")).open_workingtree()
                return "ok"
            _, into, revid = op
            dst, other = (w.A, w.B) if into == "A" else (w.B, w.A)
            if other is None or dst is None:
                return "skip"
            dst.merge_from_branch(other.branch)
            return canon(dst.commit("merge %s" % revid, rev_id=revid.encode(), timestamp=1000000000 + n, timezone=0,
                                    committer=COMMITTER))
        if k == "push":
            _, which, overwrite, stop = op
            r = side.src(which).branch.push(side.T(), overwrite=overwrite, stop_revision=stop.encode() if stop else None)
            return canon((r.old_revno, r.old_revid, r.new_revno, r.new_revid))
        if k == "pull_into_T":
            which, overwrite = op[1], op[2]
            stop = op[3] if len(op) > 3 else None
            r = side.T().pull(side.src(which).branch, overwrite=overwrite, stop_revision=stop.encode() if stop else None)
            return canon((r.old_revno, r.old_revid, r.new_revno, r.new_revid, _tagres(r)))
        if k == "push_from_T":
            # the target as the SOURCE of a push (RemoteBranch.push delegates to the VFS branch)
            r = side.T().push(side.C(), overwrite=op[1])
            return canon((r.old_revno, r.old_revid, r.new_revno, r.new_revid, _tagres(r)))
        if k == "hold":
            # lock scope: the long-lived target object (NOT reopened) is locked and stays locked
            t = side.T()
            tok = t.lock_write().token if op[1] == "w" else (t.lock_read(), None)[1]
            side.held.append((t, tok))
            if op[1] == "w":
                side.known_token = tok
            return "token" if tok else "no-token"
        if k == "set_tip_fetch":
            _, which, revno, revid = op
            t = side.T()
            with t.lock_write():
                t.repository.fetch(side.src(which).branch.repository, revision_id=revid.encode())
                before = t.last_revision_info()
                t.set_last_revision_info(revno, revid.encode())
                return canon((before, t.last_revision_info()))
        if k == "client_pull":
            _, overwrite = op
            r = side.C().pull(side.T(), overwrite=overwrite)
            return canon((r.old_revno, r.old_revid, r.new_revno, r.new_revid))
        if k == "fetch_to_T":
            _, which, revid = op
            side.T().repository.fetch(side.src(which).branch.repository, revision_id=revid.encode() if revid else None)
            return "ok"
        if k == "fetch_from_T":
            _, revid = op
            side.C().repository.fetch(side.T().repository, revision_id=revid.encode() if revid else None)
            return "ok"
        if k == "tag_set":
            _, name, revid = op
            side.T().tags.set_tag(name, revid.encode())
            return "ok"
        if k == "tag_delete":
            side.T().tags.delete_tag(op[1])
            return "ok"
        if k == "tag_dict":
            return canon(side.T().tags.get_tag_dict())
        if k == "conf_set":
            _, name, value = op
            side.T().get_config_stack().set(name, value)
            return "ok"
        if k == "conf_get":
            return canon(side.T().get_config_stack().get(op[1]))
        if k == "conf_set_old":
            _, name, value = op
            side.T().get_config().set_user_option(name, value)
            return "ok"
        if k == "set_parent":
            side.T().set_parent(op[1])
            return "ok"
        if k == "get_parent":
            return mask(side, canon(side.T().get_parent()))
        if k == "set_tip":
            _, revno, revid = op
            t = side.T()
            with t.lock_write():
                before = t.last_revision_info()
                t.set_last_revision_info(revno, revid.encode())
                # read back through the same, still locked, object (client-side caches)
                return canon((before, t.last_revision_info(), t.last_revision()))
        if k == "gen_history":
            t = side.T()
            with t.lock_write():
                t.generate_revision_history(op[1].encode())
                return canon(t.last_revision_info())
        if k == "ck_commit":
            _, files, revid = op
            if side.K is None:
                t = side.T(fresh=True)
                side.K = t.create_checkout(os.path.join(side.base, "K"), lightweight=True)
                if t.last_revision() == b"null:":
                    side.K.set_root_id(b"root-K")
            side.K.update()
            return canon(_commit(side.K, n, [(f, c.encode()) for f, c in files], revid.encode()))
        if k == "lock":
            t = side.T(fresh=True)
            tok = t.lock_write().token
            side.held.append((t, tok))
            return "token" if tok else "no-token"
        if k == "lock_again":
            # a second opener while the first still holds the lock
            t = side.T(fresh=True)
            tok = t.lock_write().token
            side.held.append((t, tok))
            return "token" if tok else "no-token"
        if k == "lock_with_token":
            _, good = op
            if not side.held:
                return "skip"
            tok = side.held[-1][1] if good else b"wrong-token"
            t = side.T(fresh=True)
            r = t.lock_write(token=tok).token
            side.held.append((t, r))
            return "token" if r else "no-token"
        if k == "unlock":
            _, leave = op
            if not side.held:
                return "skip"
            t, tok = side.held.pop()
            if leave:
                t.leave_lock_in_place()
            t.unlock()
            return "ok"
        if k == "lock_status":
            t = side.T(fresh=True)
            return canon((t.get_physical_lock_status(), t.repository.get_physical_lock_status()))
        if k == "break_lock":
            # drop everything the script holds, then break what is left in place
            while side.held:
                t, _ = side.held.pop()
                try:
                    while t.is_locked():
                        t.unlock()
                except Exception:
                    pass
            t = side.T(fresh=True)
            from breezy import ui
            old = ui.ui_factory
            ui.ui_factory = ui.CannedInputUIFactory([True] * 8)
            try:
                t.break_lock()
            finally:
                ui.ui_factory = old
            return "ok"
        if k == "parent_map":
            t = side.T()
            with t.lock_read():
                return canon(t.repository.get_parent_map([x.encode() for x in op[1]]))
        if k == "tip":
            return canon(side.T().last_revision_info())
        if k == "revno_of":
            return canon(side.T().revision_id_to_revno(op[1].encode()))
        if k == "dotted_revno_of":
            return canon(side.T().revision_id_to_dotted_revno(op[1].encode()))
        if k == "revid_of":
            return canon(side.T().get_rev_id(op[1]))
        if k == "get_revision":
            r = side.T().repository.get_revision(op[1].encode())
            return canon((r.revision_id, list(r.parent_ids), r.message, r.committer, r.timestamp, r.timezone,
                          sorted(r.properties.items())))
        if k == "tree_read":
            t = side.T()
            with t.lock_read():
                tree = t.repository.revision_tree(op[1].encode())
                out = []
                for path, ie in tree.iter_entries_by_dir():
                    if ie.kind == "file":
                        out.append((path, ie.file_id, tree.get_file_text(path), ie.revision))
                    else:
                        out.append((path, ie.file_id, ie.kind, ie.revision))
                return canon(out)
        if k == "testament":
            t = side.T()
            with t.lock_read():
                return StrictTestament3.from_revision(t.repository, op[1].encode()).as_sha1().decode()
        if k == "all_revs":
            return canon(sorted(side.T().repository.all_revision_ids()))
        if k == "has_revision":
            return side.T().repository.has_revision(op[1].encode())
        if k == "heads":
            t = side.T()
            with t.lock_read():
                return canon(sorted(t.repository.get_graph().heads([x.encode() for x in op[1]])))
        if k == "merge_sorted":
            t = side.T()
            with t.lock_read():
                return canon([(r, d, ".".join(map(str, rn)), e) for r, d, rn, e in t.iter_merge_sorted_revisions()])
        if k == "missing_revs":
            t = side.T()
            with t.lock_read():
                g = t.repository.get_graph()
                return canon(sorted(g.find_unique_ancestors(op[1].encode(), [x.encode() for x in op[2]])))
        if k == "stats":
            t = side.T()
            with t.lock_read():
                st = t.repository.gather_stats(t.last_revision(), committers=True)
            return canon({k2: v for k2, v in st.items() if k2 in ("revisions", "committers", "firstrev", "latestrev")})
        if k == "reopen":
            side.T(fresh=True)
            return "ok"
        if k.startswith("m_"):
            return do_model_op(side, op)
        if k.startswith("s_") or k.startswith("owner_"):
            return do_session_op(side, op)
        raise AssertionError("unknown op %r" % (op,))
    except (KeyboardInterrupt, SystemExit, AssertionError):
        raise
    except Exception as e:
        return ename(e)


def do_model_op(side, op):
    """the operations of the modelled stream: every one uses fresh objects, so
    that only the stored state and the lock token known to the script matter"""
    k = op[0]
    t = side.T(fresh=True)
    if k == "m_tip_set":
        with t.lock_write():
            t.set_last_revision_info(op[1], op[2].encode())
        return "ok"
    if k == "m_tag_set":
        t.tags.set_tag(op[1], op[2].encode())
        return "ok"
    if k == "m_tag_del":
        t.tags.delete_tag(op[1])
        return "ok"
    if k == "m_tag_dict":
        return canon(t.tags.get_tag_dict())
    if k == "m_conf_set":
        t.get_config_stack().set(op[1], op[2])
        return "ok"
    if k == "m_conf_get":
        return canon(t.get_config_stack().get(op[1]))
    if k == "m_lock_leave":
        tok = t.lock_write().token
        try:
            t.leave_lock_in_place()
        finally:
            t.unlock()
        side.known_token = tok
        return "token" if tok else "no-token"
    if k == "m_relock_release":
        tok = (getattr(side, "known_token", None) or b"never-issued") if op[1] else b"wrong-token"
        t.lock_write(token=tok)
        try:
            t.dont_leave_lock_in_place()
        finally:
            t.unlock()
        return "ok"
    if k == "m_tip_set_tok":
        tok = (getattr(side, "known_token", None) or b"never-issued") if op[1] else b"wrong-token"
        t.lock_write(token=tok)
        try:
            t.set_last_revision_info(op[2], op[3].encode())
        finally:
            t.unlock()
        return "ok"
    if k == "m_parent_map":
        with t.lock_read():
            return canon(t.repository.get_parent_map([x.encode() for x in op[1]]))
    if k == "m_tip":
        return canon(t.last_revision_info())
    if k == "m_fetch":
        t.repository.fetch(side.src("A").branch.repository, revision_id=op[1].encode())
        return "ok"
    if k == "m_all_revs":
        return canon(sorted(t.repository.all_revision_ids()))
    raise AssertionError("unknown op %r" % (op,))


def do_session_op(side, op):
    """the operations of the modelled lock-scope sessions: all of them on the ONE long-lived object"""
    k = op[0]
    t = side.T()
    if k == "s_lock":
        if op[1] == "w":
            tok = t.lock_write().token
            side.held.append((t, tok))
            side.known_token = tok
            return "token" if tok else "no-token"
        t.lock_read()
        side.held.append((t, None))
        return "ok"
    if k == "s_lock_tok":
        # lock_write(token): the token the script remembers (the second holder's, or the object's own one that
        # was left in place), or one that was never issued
        tok = (side.known_token or b"never-issued") if op[1] else b"never-issued"
        r = t.lock_write(token=tok).token
        side.held.append((t, r))
        return "token" if r else "no-token"
    if k in ("s_leave", "s_dont_leave"):
        # only meaningful on a write-locked object (the local LockDir would silently record the flag for the
        # next lock cycle, RemoteBranch raises NotImplementedError): guarded here, mirrored by the model
        if not (t.is_locked() and t.peek_lock_mode() == "w"):
            return "E:NotWriteLocked"
        if k == "s_leave":
            t.leave_lock_in_place()
        else:
            t.dont_leave_lock_in_place()
        return "ok"
    if k == "owner_lock":
        from breezy.branch import Branch
        if side.H is None:
            side.H = Branch.open(side.t_url, possible_transports=side.transports)
        if side.H.is_locked():
            return "E:OwnerBusy"
        tok = side.H.lock_write().token
        side.owner_tok = side.known_token = tok
        return "token" if tok else "no-token"
    if k == "owner_unlock":
        from breezy.branch import Branch
        if side.H is None or not side.H.is_locked():
            return "E:OwnerNotHeld"
        if t.is_locked() and t.peek_lock_mode() == "w" and _obj_token(t) == side.owner_tok:
            return "E:OwnerLent"          # the object under test currently borrows this lock
        info = Branch.open(side.t_path).control_files._lock.peek()
        if info is None or info.nonce != side.owner_tok:
            # the lock was released by a borrower (dont_leave_lock_in_place): forget it without comparing how
            # the two LockDir / RPC paths complain
            try:
                side.H.unlock()
            except Exception:
                pass
            return "E:OwnerLockGone"
        side.H.unlock()
        return "ok"
    if k == "s_unlock":
        t.unlock()
        if side.held:
            side.held.pop()
        return "ok"
    if k == "s_tip":
        return canon(t.last_revision_info())
    if k == "s_set_tip":
        _, which, revno, revid = op
        with t.lock_write():
            t.repository.fetch(side.src(which).branch.repository, revision_id=revid.encode())
            before = t.last_revision_info()
            t.set_last_revision_info(revno, revid.encode())
            return canon((before, (revno, revid.encode()), 0))
    if k == "s_pull":
        r = t.pull(side.src(op[1]).branch, overwrite=op[2])
        return canon(((r.old_revno, r.old_revid), (r.new_revno, r.new_revid), len(r.tag_conflicts or ())))
    if k == "s_tag_set":
        t.tags.set_tag(op[1], op[2].encode())
        return "ok"
    if k == "s_tag_dict":
        return canon(t.tags.get_tag_dict())
    raise AssertionError("unknown op %r" % (op,))


def _obj_token(t):
    if hasattr(t, "_real_branch"):
        return t._lock_token
    return t.control_files._token_from_lock


def obj_snapshot(side):
    """lock state and caches of the long-lived target object (private attributes of BzrBranch /
    RemoteBranch and of its VFS branch), in the notation of the Lean driver"""
    t = side._T
    if t is None:
        return "u0/~/~/F/~/~"

    def tip(c):
        return "~" if c is None else "%d:%s" % (c[0], hx(c[1]))

    def tags(b):
        raw = b._tags_bytes
        return "~" if raw is None else enc_dict(b.tags._deserialize_tag_dict(raw))

    real = getattr(t, "_real_branch", None)
    if hasattr(t, "_real_branch"):
        mode, cnt = (t._lock_mode or "u"), max(t._lock_count, 0)
        leave = t._leave_lock
    else:
        cnt = t.control_files._lock_count
        mode = (t.control_files._lock_mode or "u") if cnt else "u"
        leave = t.control_files._lock._locked_via_token
    return "%s%d%s/%s/%s/%s/%s/%s" % (mode, cnt, "L" if mode == "w" and leave else "", tip(t._last_revision_info_cache), tags(t), "T" if real is not None else "F",
                                     tip(real._last_revision_info_cache) if real is not None else "~",
                                     tags(real) if real is not None else "~")


def readback(side, full=False):
    """the state of T (and the revisions of C) read locally, with fresh objects"""
    from breezy.branch import Branch
    from breezy.bzr.testament import StrictTestament3
    b = Branch.open(side.t_path)
    out = {}
    with b.lock_read():
        out["tip"] = canon(b.last_revision_info())
        out["tags"] = canon(b.tags.get_tag_dict())
        revs = sorted(b.repository.all_revision_ids())
        out["revs"] = canon(revs)
        pm = b.repository.get_parent_map(revs)
        out["parents"] = canon({r: list(pm[r]) for r in revs})
        tm = {}
        for r in revs:
            if full or r not in side.tcache:
                try:
                    side.tcache[r] = StrictTestament3.from_revision(b.repository, r).as_sha1().decode()
                except Exception as e:
                    side.tcache[r] = ename(e)
            tm[r] = side.tcache[r]
        out["testaments"] = canon(tm)
        out["parent"] = mask(side, canon(b.get_parent()))
        out["phys"] = bool(b.get_physical_lock_status())
    conf = {}
    try:
        st = Branch.open(side.t_path).get_config_stack()
        for sect in st.sections_def[0]().get_sections() if False else []:
            pass
    except Exception:
        pass
    p = os.path.join(side.t_path, ".bzr", "branch", "branch.conf")
    from breezy.config import ConfigObj
    try:
        co = ConfigObj(p, encoding="utf-8")
        conf = {k: (dict(v) if isinstance(v, dict) else v) for k, v in co.items()}
    except Exception as e:
        conf = {"E": ename(e)}
    out["conf"] = canon(conf)
    out["locked"] = [os.path.isdir(os.path.join(side.t_path, ".bzr", "branch", "lock", "held")),
                     os.path.isdir(os.path.join(side.t_path, ".bzr", "repository", "lock", "held"))]
    c = Branch.open(os.path.join(side.base, "C"))
    out["C"] = canon((c.last_revision_info(), sorted(c.repository.all_revision_ids()), c.tags.get_tag_dict()))
    return out


# --------------------------------------------------------------------------
# script generator

NAMES = ["t1", "t 2", "té", "rel-1.0", "x:y", "a,b", "t=1"]
CONF_NAMES = ["foo", "push_location", "my.opt", "child_submit_to", "append_revisions_only", "opté"]
CONF_VALUES = ["bar", "a b", "café", "x,y", "  padded ", "q\"uote", "True", "", "#hash", "it's", "a=b", "[sec]",
               "line1\\nline2", "semi;colon"]
FILES = ["f", "g", "dir-less h", "é"]
REMOTE_OPS = {"s_lock_tok", "owner_lock", "owner_unlock", "s_leave", "s_dont_leave", "s_lock", "s_set_tip", "s_pull", "s_tag_set", "hold", "push_from_T", "set_tip_fetch", "m_fetch", "m_tip_set", "m_tag_set", "m_tag_del", "m_conf_set", "m_lock_leave", "m_relock_release",
              "m_tip_set_tok", "push", "pull_into_T", "fetch_to_T", "tag_set", "tag_delete", "conf_set", "conf_set_old", "set_tip",
              "gen_history", "ck_commit", "lock", "unlock", "set_parent", "lock_with_token", "break_lock"}


def gen_script(rng, length):
    ops = []
    revs = []          # revision ids known to exist somewhere
    nrev = [0]
    has_B = False
    locked = 0

    def newrev(prefix):
        nrev[0] += 1
        r = "%s%d" % (prefix, nrev[0])
        revs.append(r)
        return r

    def somerev(p_missing=0.1):
        if not revs or rng.random() < p_missing:
            return rng.choice(["ghost-x", "null:", "nope"])
        return rng.choice(revs)

    def files():
        return [(rng.choice(FILES), "c%d\n" % rng.randrange(1000)) for _ in range(rng.randint(1, 2))]

    ops.append(("src_commit", "A", files(), newrev("a")))
    while len(ops) < length:
        x = rng.random()
        if x < 0.12:
            ops.append(("src_commit", rng.choice("AB") if has_B else "A", files(), newrev("r")))
        elif x < 0.15 and not has_B:
            ops.append(("branch_B",))
            has_B = True
        elif x < 0.19 and has_B:
            ops.append(("src_merge", rng.choice("AB"), newrev("m")))
        elif x < 0.29:
            ops.append(("push", rng.choice("AB") if has_B else "A", rng.random() < 0.3,
                        somerev(0.05) if rng.random() < 0.3 else None))
        elif x < 0.34:
            ops.append(("pull_into_T", rng.choice("AB") if has_B else "A", rng.random() < 0.3))
        elif x < 0.38:
            ops.append(("client_pull", rng.random() < 0.3))
        elif x < 0.43:
            ops.append(("fetch_to_T", rng.choice("AB") if has_B else "A", somerev() if rng.random() < 0.6 else None))
        elif x < 0.46:
            ops.append(("fetch_from_T", somerev() if rng.random() < 0.6 else None))
        elif x < 0.53:
            ops.append(("tag_set", rng.choice(NAMES), somerev(0.2)))
        elif x < 0.56:
            ops.append(("tag_delete", rng.choice(NAMES)))
        elif x < 0.58:
            ops.append(("tag_dict",))
        elif x < 0.64:
            ops.append((rng.choice(["conf_set", "conf_set", "conf_set_old"]), rng.choice(CONF_NAMES), rng.choice(CONF_VALUES)))
        elif x < 0.67:
            ops.append(("conf_get", rng.choice(CONF_NAMES)))
        elif x < 0.71:
            r = somerev(0.15)
            ops.append(("set_tip", rng.randint(0, 6), r))
        elif x < 0.73:
            ops.append(("gen_history", somerev(0.15)))
        elif x < 0.78 and not locked:
            ops.append(("ck_commit", files(), newrev("k")))
        elif x < 0.81:
            if locked and rng.random() < 0.5:
                ops.append(("unlock", rng.random() < 0.4))
                locked -= 1
            elif not locked:
                ops.append(("lock",))
                locked += 1
            else:
                ops.append((rng.choice(["lock_again", "lock_with_token", "lock_status"]),) if rng.random() < 0.5
                           else ("lock_with_token", rng.random() < 0.6))
                if ops[-1][0] == "lock_with_token" and len(ops[-1]) == 1:
                    ops[-1] = ("lock_with_token", True)
        elif x < 0.83:
            ops.append(("lock_status",))
        elif x < 0.84:
            ops.append(("break_lock",))
            locked = 0
        elif x < 0.88:
            ops.append(("parent_map", [somerev(0.25) for _ in range(rng.randint(1, 4))]))
        elif x < 0.90:
            ops.append((rng.choice(["tip", "all_revs", "merge_sorted", "stats", "get_parent", "reopen"]),))
        elif x < 0.93:
            ops.append((rng.choice(["revno_of", "dotted_revno_of", "get_revision", "tree_read", "testament", "has_revision"]),
                        somerev(0.15)))
        elif x < 0.95:
            ops.append(("revid_of", rng.randint(0, 5)))
        elif x < 0.97:
            ops.append(("heads", [somerev(0.1) for _ in range(rng.randint(1, 3))]))
        elif x < 0.98:
            ops.append(("missing_revs", somerev(0.05), [somerev(0.1) for _ in range(rng.randint(0, 2))]))
        else:
            ops.append(("set_parent", rng.choice(["../A", "http://example.com/p", "bzr://example.com/b", "../café"])))
    return ops


# --------------------------------------------------------------------------
# lock-scope sessions: ONE long-lived target object, kept locked across a whole sequence of operations

class _Dag:
    """what the generator knows about the source trees while it writes a script: mainlines, ancestry,
    tags (world operations are deterministic, so this mirrors what they will build)"""

    def __init__(self):
        self.main = {"A": [], "B": None}          # lefthand history of each tree
        self.anc = {}                             # revision -> set of ancestors (inclusive)
        self.n = 0

    def new(self, prefix):
        self.n += 1
        return "%s%d" % (prefix, self.n)

    def commit(self, which, rev, extra_parent=None):
        m = self.main[which]
        a = {rev} | (self.anc[m[-1]] if m else set()) | (self.anc[extra_parent] if extra_parent else set())
        self.anc[rev] = a
        m.append(rev)

    def tip(self, which):
        m = self.main[which]
        return m[-1] if m else None

    def trees(self):
        return ["A", "B"] if self.main["B"] is not None else ["A"]

    def pick(self, rng, which=None):
        """(tree, revno, revision) of a mainline revision"""
        which = which or rng.choice(self.trees())
        m = self.main[which]
        i = rng.randrange(len(m))
        return which, i + 1, m[i]


def _world_step(rng, dag, ops, files, p_tag=0.0):
    """append one operation on the source trees"""
    x = rng.random()
    if dag.main["B"] is None and x < 0.35 and len(dag.main["A"]) >= 1:
        ops.append(("branch_B",))
        dag.main["B"] = list(dag.main["A"])
        return
    if dag.main["B"] is not None and x < 0.5:
        into = rng.choice("AB")
        other = "B" if into == "A" else "A"
        if dag.tip(other) not in dag.anc[dag.tip(into)]:
            rev = dag.new("m")
            ops.append(("src_merge", into, rev))
            dag.commit(into, rev, extra_parent=dag.tip(other))
            return
    if rng.random() < p_tag:
        which, _, rev = dag.pick(rng)
        ops.append(("src_tag", which, rng.choice(NAMES), rev))
        return
    which = rng.choice(dag.trees())
    rev = dag.new("r")
    ops.append(("src_commit", which, files(), rev))
    dag.commit(which, rev)


def gen_session_script(rng, length):
    """source trees that diverge, then a session on the long-lived target object: `hold` opens a lock scope
    that stays open over VFS-delegated operations (pull into the target, push FROM the target), tip changes
    over RPC (push into the target, set_last_revision_info, generate_revision_history), tag / config /
    repository operations and reads, with the sources advancing in between"""
    ops, dag = [], _Dag()

    def files():
        return [(rng.choice(FILES), "c%d\n" % rng.randrange(1000)) for _ in range(rng.randint(1, 2))]

    p_tag = 0.25 if rng.random() < 0.35 else 0.0
    rev = dag.new("a")
    ops.append(("src_commit", "A", files(), rev))
    dag.commit("A", rev)
    for _ in range(rng.randint(2, 5)):
        _world_step(rng, dag, ops, files, p_tag)
    if rng.random() < 0.6:
        ops.append(("push", "A", False, dag.pick(rng, "A")[2] if rng.random() < 0.5 else None))
    depth = 0
    mode = None
    # half of the sessions use tokens and a second holder: their lock operations come from a plan of lock cycles
    plan = [o for o in _lock_plan(rng, 4) if o is not BODY] if rng.random() < 0.5 else None
    sim = plan

    def anyrev(p_missing=0.05):
        if rng.random() < p_missing:
            return rng.choice(["ghost-x", "null:"])
        return dag.pick(rng)[2]

    while len(ops) < length:
        x = rng.random()
        if plan and x < 0.33:
            o = plan.pop(0)
            ops.append(("unlock", False) if o == ("s_unlock",) else ("hold", o[1]) if o[0] == "s_lock" else o)
            continue
        if sim is not None:
            x = 0.08 + x * 0.92            # the plain hold / unlock branches below are not used
        if depth == 0 and x < 0.55 and sim is None:
            mode = "w" if rng.random() < 0.85 else "r"
            ops.append(("hold", mode))
            depth = 1
        elif x < 0.03 and depth:
            ops.append(("hold", mode))            # nested
            depth += 1
        elif x < 0.07 and depth:
            ops.append(("unlock", False))
            depth -= 1
        elif x < 0.22:
            ops.append(("pull_into_T", rng.choice(dag.trees()), rng.random() < 0.25,
                        dag.pick(rng)[2] if rng.random() < 0.2 else None))
        elif x < 0.28:
            ops.append(("push_from_T", rng.random() < 0.3))
        elif x < 0.37:
            ops.append(("push", rng.choice(dag.trees()), rng.random() < 0.25, anyrev(0.0) if rng.random() < 0.25 else None))
        elif x < 0.44:
            which, revno, r = dag.pick(rng)
            ops.append(("set_tip_fetch", which, revno if rng.random() < 0.85 else rng.randint(0, 6), r))
        elif x < 0.47:
            ops.append(("gen_history", anyrev()))
        elif x < 0.49:
            ops.append(("set_tip", rng.randint(0, 6), anyrev(0.1)))
        elif x < 0.56:
            ops.append(("tag_set", rng.choice(NAMES), anyrev(0.1)))
        elif x < 0.59:
            ops.append(("tag_delete", rng.choice(NAMES)))
        elif x < 0.64:
            ops.append(("tag_dict",))
        elif x < 0.68:
            ops.append(("fetch_to_T", rng.choice(dag.trees()), anyrev() if rng.random() < 0.7 else None))
        elif x < 0.73:
            # (no null: next to other keys here: that known difference would cut the session short)
            ops.append(("parent_map", [anyrev(0.0) if rng.random() < 0.8 else "ghost-x" for _ in range(rng.randint(1, 3))]))
        elif x < 0.76:
            ops.append((rng.choice(["has_revision", "revno_of", "dotted_revno_of", "get_revision"]), anyrev(0.1)))
        elif x < 0.83:
            ops.append((rng.choice(["tip", "tip", "all_revs", "merge_sorted", "get_parent"]),))
        elif x < 0.85:
            ops.append(("revid_of", rng.randint(0, 5)))
        elif x < 0.87:
            ops.append(("client_pull", rng.random() < 0.3))
        elif x < 0.90:
            ops.append(("conf_set", rng.choice(CONF_NAMES[:3]), rng.choice(CONF_VALUES)))
        elif x < 0.92:
            ops.append(("conf_get", rng.choice(CONF_NAMES[:3])))
        else:
            _world_step(rng, dag, ops, files, p_tag)
    return ops


class _LockSim:
    """what the generator expects of the locks while it writes a session (exact for correct code; every
    operation is guarded in the harness, so a wrong guess only costs a wasted step)"""

    def __init__(self):
        self.mode, self.depth, self.borrowed, self.leave = None, 0, False, False
        self.H = False          # the second holder object holds the physical lock
        self.left = False       # a physical lock was left in place by leave_lock_in_place() + unlock

    def lock_ops(self, rng):
        """the next lock-related operation, biased towards the cycles that matter: borrow the holder's lock
        with its token and give it back, let the holder release, take and release a lock of one's own, let
        anybody lock again; leave a lock in place, adopt it again with the token, release it for good"""
        x = rng.random()
        if self.mode is None:
            if self.H:
                if x < 0.6:
                    self.mode, self.depth, self.borrowed, self.leave = "w", 1, True, True
                    return ("s_lock_tok", True)
                if x < 0.85:
                    self.H = False
                    return ("owner_unlock",)
                return rng.choice([("s_lock", "w"), ("s_lock_tok", False), ("owner_lock",)])
            if self.left:
                if x < 0.7:
                    self.mode, self.depth, self.borrowed, self.leave, self.left = "w", 1, True, True, False
                    return ("s_lock_tok", True)
                return rng.choice([("s_lock", "w"), ("owner_lock",), ("s_lock_tok", False)])
            if x < 0.55:
                self.mode, self.depth, self.borrowed, self.leave = "w", 1, False, False
                return ("s_lock", "w")
            if x < 0.80:
                self.H = True
                return ("owner_lock",)
            if x < 0.9:
                self.mode, self.depth = "r", 1
                return ("s_lock", "r")
            return rng.choice([("s_lock_tok", True), ("s_lock_tok", False), ("owner_unlock",), ("s_unlock",)])
        if self.mode == "r":
            if x < 0.6:
                self.depth -= 1
                if not self.depth:
                    self.mode = None
                return ("s_unlock",)
            if x < 0.8:
                self.depth += 1
                return ("s_lock", "r")
            return rng.choice([("s_lock", "w"), ("s_leave",), ("owner_lock",)])
        # write-locked
        if x < 0.5:
            self.depth -= 1
            if not self.depth:
                self.mode = None
                if self.leave and not self.borrowed:
                    self.left = True
                if self.borrowed and not self.leave:
                    self.H = False          # the borrower released the holder's lock: the holder finds it gone
                self.borrowed = False
            return ("s_unlock",)
        if x < 0.62:
            self.leave = True
            return ("s_leave",)
        if x < 0.74:
            self.leave = False
            return ("s_dont_leave",)
        if x < 0.86:
            self.depth += 1
            return rng.choice([("s_lock", "w"), ("s_lock_tok", True), ("s_lock", "r")])
        return rng.choice([("owner_lock",), ("owner_unlock",), ("s_lock_tok", False)])


BODY = ("BODY",)

LOCK_PHRASES = [
    # one lock cycle of the long-lived object, or of the second holder, with slots for other operations
    ("own", [("s_lock", "w"), BODY, BODY, ("s_unlock",)]),
    ("own", [("s_lock", "w"), BODY, ("s_unlock",)]),
    ("read", [("s_lock", "r"), BODY, ("s_unlock",)]),
    ("borrow", [("owner_lock",), ("s_lock_tok", True), BODY, ("s_unlock",), ("owner_unlock",)]),
    ("borrow", [("owner_lock",), BODY, ("s_lock_tok", True), ("s_unlock",), BODY, ("owner_unlock",)]),
    ("borrow", [("owner_lock",), ("s_lock_tok", True), ("s_unlock",), ("owner_unlock",), BODY]),
    ("borrow-release", [("owner_lock",), ("s_lock_tok", True), ("s_dont_leave",), BODY, ("s_unlock",), ("owner_unlock",)]),
    ("leave-adopt", [("s_lock", "w"), ("s_leave",), BODY, ("s_unlock",), ("s_lock_tok", True), BODY, ("s_dont_leave",),
                     ("s_unlock",)]),
    ("leave-adopt-leave", [("s_lock", "w"), ("s_leave",), ("s_unlock",), BODY, ("s_lock_tok", True), ("s_unlock",)]),
    ("leave-undone", [("s_lock", "w"), ("s_leave",), BODY, ("s_dont_leave",), ("s_unlock",)]),
    ("nested", [("s_lock", "w"), ("s_lock", "w"), BODY, ("s_unlock",), BODY, ("s_unlock",)]),
    ("nested-token", [("owner_lock",), ("s_lock_tok", True), ("s_lock_tok", True), BODY, ("s_unlock",), ("s_unlock",),
                      ("owner_unlock",)]),
    ("contention", [("owner_lock",), ("s_lock", "w"), BODY, ("owner_unlock",)]),
    ("wrong-token", [("owner_lock",), ("s_lock_tok", False), BODY, ("owner_unlock",)]),
    ("stale-token", [("owner_lock",), ("owner_unlock",), ("s_lock_tok", True), BODY]),
    ("lent", [("owner_lock",), ("s_lock_tok", True), ("owner_unlock",), BODY, ("s_unlock",), ("owner_unlock",)]),
]


def _lock_plan(rng, n_phrases, noise=0.08):
    """a sequence of lock cycles (phrases) of ONE long-lived object and of a second holder, with BODY slots
    between and inside them; a little noise (single lock operations out of place)"""
    sim = _LockSim()
    plan = [BODY] if rng.random() < 0.4 else []
    for _ in range(n_phrases):
        name, phrase = rng.choice(LOCK_PHRASES)
        for o in phrase:
            if o is not BODY and rng.random() < noise:
                plan.append(sim.lock_ops(rng))
            plan.append(o)
        for _ in range(rng.randint(0, 2)):
            plan.append(BODY)
    return plan


def gen_msession_script(rng, length):
    """lock-scope sessions over exactly the operations of Model/C32S.lean: lock cycles of the long-lived object
    (with and without tokens, leave / dont_leave, nested, read) and of a second holder, with pulls, tip and tag
    operations in and between them"""
    ops, dag = [], _Dag()

    def files():
        return [(rng.choice(FILES), "c%d\n" % rng.randrange(99))]

    p_tag = 0.3 if rng.random() < 0.5 else 0.0
    rev = dag.new("a")
    ops.append(("src_commit", "A", files(), rev))
    dag.commit("A", rev)
    for _ in range(rng.randint(1, 3)):
        _world_step(rng, dag, ops, files, p_tag)

    def body():
        x = rng.random()
        if x < 0.30:
            return ("s_pull", rng.choice(dag.trees()), rng.random() < 0.25)
        if x < 0.50:
            which, revno, r = dag.pick(rng)
            y = rng.random()
            if y < 0.06:
                r = rng.choice(["ghost-x", "null:"])
            return ("s_set_tip", which, revno if y < 0.85 else rng.randint(0, 6), r)
        if x < 0.62:
            return ("s_tip",)
        if x < 0.78:
            return ("s_tag_set", rng.choice(NAMES), dag.pick(rng)[2] if rng.random() < 0.8 else "ghost-x")
        if x < 0.88:
            return ("s_tag_dict",)
        return None          # a step on the source trees

    for o in _lock_plan(rng, rng.randint(2, 4)):
        if len(ops) >= length:
            break
        if o is BODY:
            o = body()
            if o is None:
                _world_step(rng, dag, ops, files, p_tag)
                continue
        ops.append(o)
    return ops


# --------------------------------------------------------------------------

def gen_model_script(rng, length):
    """a source history (prefix of world operations) followed by modelled operations only"""
    ops = []
    revs = []
    n = [0]

    def newrev(p):
        n[0] += 1
        revs.append("%s%d" % (p, n[0]))
        return revs[-1]

    ops.append(("src_commit", "A", [("f", "c0\n")], newrev("a")))
    has_B = False
    for _ in range(rng.randint(0, 4)):
        x = rng.random()
        if x < 0.5:
            ops.append(("src_commit", rng.choice("AB") if has_B else "A", [(rng.choice(FILES), "c%d\n" % rng.randrange(99))],
                        newrev("r")))
        elif not has_B:
            ops.append(("branch_B",))
            has_B = True
        else:
            ops.append(("src_merge", "A", newrev("m")))
    if has_B:
        ops.append(("src_merge", "A", newrev("m")))     # everything ends up in A's repository

    def somerev(pm=0.15):
        return rng.choice(["ghost-x", "null:", "nope"]) if rng.random() < pm else rng.choice(revs)

    while len(ops) < length:
        x = rng.random()
        if x < 0.14:
            ops.append(("m_fetch", somerev(0.1)))
        elif x < 0.28:
            ops.append(("m_tip_set", rng.randint(0, 5), somerev()))
        elif x < 0.38:
            ops.append(("m_tag_set", rng.choice(NAMES), somerev(0.3)))
        elif x < 0.44:
            ops.append(("m_tag_del", rng.choice(NAMES)))
        elif x < 0.48:
            ops.append(("m_tag_dict",))
        elif x < 0.56:
            ops.append(("m_conf_set", rng.choice(CONF_NAMES[:3]), rng.choice(CONF_VALUES)))
        elif x < 0.61:
            ops.append(("m_conf_get", rng.choice(CONF_NAMES[:3])))
        elif x < 0.68:
            ops.append(("m_lock_leave",))
        elif x < 0.76:
            ops.append(("m_relock_release", rng.random() < 0.7))
        elif x < 0.82:
            ops.append(("m_tip_set_tok", rng.random() < 0.7, rng.randint(0, 5), somerev()))
        elif x < 0.92:
            ops.append(("m_parent_map", [somerev(0.3) for _ in range(rng.randint(1, 4))]))
        elif x < 0.96:
            ops.append(("m_tip",))
        else:
            ops.append(("m_tip",))
    return ops


EQUIV_ERRORS = {
    # the server verb Branch.set_last_revision_ex documents that it reports an absent revision as
    # NoSuchRevision; locally generate_revision_history raises GhostRevisionsHaveNoRevno for it
    "E:GhostRevisionsHaveNoRevno": "E:NoSuchRevision",
}


def run_case(ctx, srv, script, label="general", fx=False, tv=(False, False)):
    srv.n += 1
    cid = "c%d_%d" % (os.getpid(), srv.n)
    ltop = env.fresh_dir("c32L")
    lbase = os.path.join(ltop, cid)          # same depth below the scratch directory as the served copy
    rbase = os.path.join(srv.root, cid)
    W = World(os.path.join(lbase, "W"))
    L = Side("L", W, lbase, None)
    R = Side("R", W, rbase, srv.url + cid + "/t")
    case = dict(kind=label, script=script)
    changed = any(o[0] in REMOTE_OPS for o in script)
    ctx.case(case, nontrivial=changed)
    bad = None
    res_l, res_r, sl, sr = [], [], None, None
    snaps, aux = [], {}
    try:
        for i, op in enumerate(script):
            ctx.count("op:" + op[0])
            if op[0] in WORLD_OPS:
                do_op(W, op, i)
                continue
            if op[0] == "s_pull":
                # what the model is told about the source branch at this point of the script
                sb = W.src(op[1]).branch
                aux[i] = (sb.last_revision_info(), dict(sb.tags.get_tag_dict()))
            rl = do_op(L, op, i)
            rr = do_op(R, op, i)
            res_l.append(rl)
            res_r.append(rr)
            if label == "msession":
                snaps.append((obj_snapshot(L), obj_snapshot(R)))
            ctx.traces += 1
            if isinstance(rl, str) and rl.startswith("E:"):
                ctx.count("err:" + rl)
            if EQUIV_ERRORS.get(rl, rl) != EQUIV_ERRORS.get(rr, rr) if isinstance(rl, str) and isinstance(rr, str) else rl != rr:
                bad = (i, "result", rl, rr, sl)
                if label not in ("modelled", "msession"):
                    break
            last = i == len(script) - 1
            prev = sl
            sl, sr = readback(L, full=last), readback(R, full=last)
            if label == "msession":
                a, b = snaps[-1]
                snaps[-1] = (a + "@" + ("T" if sl["phys"] else "F"), b + "@" + ("T" if sr["phys"] else "F"))
            # a local branch object that holds the write lock saves its configuration when it unlocks:
            # while the script holds a lock the config-backed fields are compared only after the release
            skip = ("conf", "parent") if (L.held or R.held or any(x.H is not None and x.H.is_locked() for x in (L, R))) else ()
            if any(sl[k] != sr.get(k) for k in sl if k not in skip):
                keys = [k for k in sl if sl[k] != sr.get(k) and k not in skip]
                bad = (i, "state:" + ",".join(keys), {k: sl[k] for k in keys}, {k: sr[k] for k in keys}, prev)
                break
        if bad is None and (L.held or R.held or any(x.H is not None and x.H.is_locked() for x in (L, R))):
            # release what the script still holds and compare everything once more
            for side in (L, R):
                while side.held:
                    b, _ = side.held.pop()
                    try:
                        while b.is_locked():
                            b.unlock()
                    except Exception:
                        pass
                try:
                    while side.H is not None and side.H.is_locked():
                        side.H.unlock()
                except Exception:
                    pass
            fl, fr = readback(L, full=True), readback(R, full=True)
            if fl != fr:
                keys = [k for k in fl if fl[k] != fr.get(k)]
                bad = (len(script) - 1, "final-state:" + ",".join(keys), {k: fl[k] for k in keys}, {k: fr[k] for k in keys}, sl)
        if label == "modelled" and sl is not None and (bad is None or bad[1] == "result"):
            model_compare(ctx, case, W, script, res_l, res_r, sl, sr, fx)
        if label == "msession" and sl is not None and (bad is None or bad[1] == "result"):
            session_model_compare(ctx, case, W, script, aux, res_l, res_r, snaps, sl, sr, tv)
    finally:
        L.close()
        R.close()
        shutil.rmtree(ltop, ignore_errors=True)
        shutil.rmtree(rbase, ignore_errors=True)
    if bad:
        i, what, l, r, before = bad
        ctx.violation(dict(case, failed_at=i),
                      "after operation %d %r of the script the %s differs: local %s / through the smart server %s"
                      % (i, script[i], what, str(l)[:300], str(r)[:300]),
                      family=_family(script, i, what, l, r, before, tv, fx))
        return bad[:4]
    return bad


# --------------------------------------------------------------------------
# T2: the modelled stream against Model/C32.lean (local step and remote step)

def hx(s):
    b = s if isinstance(s, bytes) else s.encode("utf-8")
    return b.hex() if b else "-"


def enc_op(op):
    k = op[0]
    if k == "m_tip_set":
        return "ts:%d:%s" % (op[1], hx(op[2]))
    if k == "m_tag_set":
        return "tg:%s:%s" % (hx(op[1]), hx(op[2]))
    if k == "m_tag_del":
        return "td:%s" % hx(op[1])
    if k == "m_tag_dict":
        return "tD"
    if k == "m_conf_set":
        return "cs:%s:%s" % (hx(op[1]), hx(op[2]))
    if k == "m_conf_get":
        return "cg:%s" % hx(op[1])
    if k == "m_lock_leave":
        return "ll"
    if k == "m_relock_release":
        return "rr:%s" % ("T" if op[1] else "F")
    if k == "m_tip_set_tok":
        return "tt:%s:%d:%s" % ("T" if op[1] else "F", op[2], hx(op[3]))
    if k == "m_parent_map":
        return "pm:%s" % ",".join(hx(x) for x in op[1])
    if k == "m_tip":
        return "tp"
    if k == "m_fetch":
        return "fe:%s" % hx(op[1])
    raise AssertionError(op)


def enc_dict(d):
    return ",".join(sorted("%s=%s" % (hx(k), hx(v)) for k, v in d.items())) or "-"


def enc_res(op, r):
    k = op[0]
    if isinstance(r, str) and r.startswith("E:"):
        return r
    if k == "m_tag_dict":
        return "tags=" + enc_dict(r)
    if k == "m_conf_get":
        return "val=" + ("~" if r is None else hx(r))
    if k == "m_parent_map":
        return "pm=" + (",".join(sorted("%s=%s" % (hx(a), "+".join(hx(p) for p in ps) or "~") for a, ps in r.items())) or "-")
    if k == "m_tip":
        return "info=%d:%s" % (r[0], hx(r[1]))
    return r          # ok / token


def enc_state(st, names):
    conf = {k: v for k, v in st["conf"].items() if k in names and isinstance(v, str)}
    return "tip=%d:%s tags=%s conf=%s lock=%s revs=%s" % (
        st["tip"][0], hx(st["tip"][1]), enc_dict(st["tags"]), enc_dict(conf), "T" if st["locked"][0] else "F",
        ",".join(sorted(hx(r) for r in st["revs"])) or "-")


def model_compare(ctx, case, W, script, res_l, res_r, sl, sr, fx):
    repo = W.A.branch.repository
    with repo.lock_read():
        revs = sorted(repo.all_revision_ids())
        pm = repo.get_parent_map(revs)
    src = ";".join("%s:%s" % (hx(r), ",".join(hx(p) for p in pm[r] if p != b"null:") or "~") for r in revs) or "-"
    mops = [o for o in script if o[0] not in WORLD_OPS]
    names = {o[1] for o in mops if o[0] == "m_conf_set"}
    line = "run %s %s %s" % ("T" if fx else "F", src, ";".join(enc_op(o) for o in mops) or "-")
    reply = ctx.model([line])[0]
    impl_l = (";".join(enc_res(o, r) for o, r in zip(mops, res_l)) or "-") + "|" + enc_state(sl, names)
    impl_r = (";".join(enc_res(o, r) for o, r in zip(mops, res_r)) or "-") + "|" + enc_state(sr, names)
    impl = "L=%s R=%s" % (impl_l, impl_r)
    ctx.traces += 1
    if impl != reply:
        ctx.mismatch(case, impl, reply, line=line)


def enc_sop(i, op, aux):
    k = op[0]
    if k == "s_lock":
        return "lw" if op[1] == "w" else "lr"
    if k == "s_unlock":
        return "ul"
    if k == "s_lock_tok":
        return "lt:%s" % ("T" if op[1] else "F")
    if k == "s_leave":
        return "lv"
    if k == "s_dont_leave":
        return "dl"
    if k == "owner_lock":
        return "ol"
    if k == "owner_unlock":
        return "ou"
    if k == "s_tip":
        return "tp"
    if k == "s_set_tip":
        return "st:%d:%s" % (op[2], hx(op[3]))
    if k == "s_pull":
        (n, r), tags = aux[i]
        return "pl:%s:%d:%s:%s" % ("T" if op[2] else "F", n, hx(r), enc_dict(tags))
    if k == "s_tag_set":
        return "tg:%s:%s" % (hx(op[1]), hx(op[2]))
    if k == "s_tag_dict":
        return "tD"
    raise AssertionError(op)


def enc_sres(op, r):
    k = op[0]
    if isinstance(r, str) and r.startswith("E:"):
        return r
    if k == "s_tip":
        return "info=%d:%s" % (r[0], hx(r[1]))
    if k in ("s_set_tip", "s_pull"):
        return "moved=%d:%s>%d:%s/%d" % (r[0][0], hx(r[0][1]), r[1][0], hx(r[1][1]), r[2])
    if k == "s_tag_dict":
        return "tags=" + enc_dict(r)
    return r          # ok / token


def union_graph(W):
    pm = {}
    for wt in (W.A, W.B):
        if wt is None:
            continue
        repo = wt.branch.repository
        with repo.lock_read():
            revs = sorted(repo.all_revision_ids())
            pm.update(repo.get_parent_map(revs))
    return ";".join("%s:%s" % (hx(r), ",".join(hx(p) for p in pm[r] if p != b"null:") or "~") for r in sorted(pm)) or "-"


def session_model_compare(ctx, case, W, script, aux, res_l, res_r, snaps, sl, sr, tv):
    """T2 for the lock-scope sessions: results, the object's lock state and caches after EVERY operation and
    the final stored state, for the local and for the remote object, against Model/C32S.lean"""
    idx = [i for i, o in enumerate(script) if o[0] not in WORLD_OPS]
    line = "sess T %s %s %s %s" % ("T" if tv[0] else "F", "T" if tv[1] else "F", union_graph(W),
                                  ";".join(enc_sop(i, script[i], aux) for i in idx) or "-")
    reply = ctx.model([line])[0]
    tl = ";".join("%s@%s" % (enc_sres(script[i], r), sn[0]) for i, r, sn in zip(idx, res_l, snaps)) or "-"
    tr = ";".join("%s@%s" % (enc_sres(script[i], r), sn[1]) for i, r, sn in zip(idx, res_r, snaps)) or "-"
    impl = "L=%s|%s R=%s|%s" % (tl, enc_state(sl, set()), tr, enc_state(sr, set()))
    ctx.traces += 1
    head, _, spec = reply.partition(" S=")
    if impl != head:
        ctx.mismatch(case, impl, head, line=line)
        return
    # the model's own instance of the refinement theorems: cache-free specification = local object run
    ml = head[2:].split(" R=")[0]
    strip = ";".join(x.split("@")[0] for x in ml.split("|")[0].split(";")) + "|" + ml.split("|", 1)[1]
    if spec != strip:
        ctx.mismatch(case, "S=" + strip, "S=" + spec, line=line)


def probe_tags_variant(srv):
    """which tag-cache maintenance does RemoteBranch have?  (own cache dropped before a VFS-delegated
    pull, VFS branch's cache dropped after a tag write over RPC)"""
    from breezy.branch import Branch
    from breezy.controldir import ControlDir
    d = os.path.join(srv.root, "probe-tags")
    os.makedirs(d, exist_ok=True)
    a = ControlDir.create_standalone_workingtree(os.path.join(d, "A"), format=_fmt())
    a.commit("one", rev_id=b"p1", timestamp=1000000000, timezone=0, committer=COMMITTER, allow_pointless=True)
    a.branch.tags.set_tag("v1", b"p1")
    ControlDir.create_branch_convenience(os.path.join(d, "t"), force_new_tree=False, format=_fmt())
    b = Branch.open(srv.url + "probe-tags/t")
    b.lock_write()
    try:
        b.tags.get_tag_dict()
        b.pull(a.branch)
        own = b._tags_bytes is None
        b.tags.set_tag("p", b"p1")
        real = b._real_branch is not None and b._real_branch._tags_bytes is None
    finally:
        b.unlock()
    b.controldir.transport.disconnect()
    shutil.rmtree(d, ignore_errors=True)
    return own, real


def probe_fx(srv):
    """does RemoteRepository.get_parent_map keep the null: entry next to other keys?"""
    from breezy.branch import Branch
    from breezy.controldir import ControlDir
    d = os.path.join(srv.root, "probe")
    os.makedirs(d, exist_ok=True)
    ControlDir.create_branch_convenience(os.path.join(d, "t"), force_new_tree=False, format=_fmt())
    b = Branch.open(srv.url + "probe/t")
    with b.lock_read():
        r = b.repository.get_parent_map([b"null:", b"absent"])
    b.controldir.transport.disconnect()
    shutil.rmtree(d, ignore_errors=True)
    return b"null:" in r


TAG_OPS = ("tag_set", "tag_delete", "tag_dict", "s_tag_set", "s_tag_dict")
PULL_OPS = ("pull_into_T", "s_pull")


def _lock_scope_start(script, i):
    """index of the operation that opened the lock scope operation i runs in (None: no scope open)"""
    depth, start = 0, None
    for j, o in enumerate(script[:i]):
        if o[0] in ("hold", "s_lock", "s_lock_tok", "lock", "lock_again", "lock_with_token"):
            if depth == 0:
                start = j
            depth += 1
        elif o[0] in ("unlock", "s_unlock"):
            depth = max(0, depth - 1)
        elif o[0] == "break_lock":
            depth = 0
        if depth == 0:
            start = None
    return start


def _tags_only_difference(op, what, l, r):
    if what in ("state:tags", "final-state:tags"):
        return True
    if what == "state:C":            # the client branch C: (tip, revisions, tags) — only the tags differ
        return l["C"][:2] == r["C"][:2]
    if what != "result":
        return False
    if op[0] in ("tag_dict", "s_tag_dict"):
        return isinstance(l, dict) and isinstance(r, dict)
    if op[0] == "tag_delete":
        return {str(l), str(r)} == {"ok", "E:NoSuchTag"}
    if op[0] in ("pull_into_T", "push_from_T"):        # (old_revno, old_revid, new_revno, new_revid, tag part)
        return isinstance(l, list) and isinstance(r, list) and len(l) == len(r) == 5 and l[:4] == r[:4]
    if op[0] == "s_pull":                              # (old, new, number of tag conflicts)
        return isinstance(l, list) and isinstance(r, list) and len(l) == len(r) == 3 and l[:2] == r[:2]
    return False


def _family(script, i, what, l, r, before=None, tv=(True, True), fx=True):
    """classify a failing step by the concrete operation, the difference and the state before the step"""
    op = script[i]
    if (not fx and tuple(op) == ("gen_history", "null:") and what == "result" and l == [0, "null:"]
            and r == "E:NoSuchRevision" and _lock_scope_start(script, i) is not None):
        # get-parent-map-null-dropped, second half ("... and then caches null: as missing"): inside a lock scope
        # an earlier graph query named null: next to other keys (push / pull do), the RemoteRepository's parents
        # cache now holds null: as missing, and generate_revision_history(null:) cannot find it
        return "get-parent-map-null-dropped"
    if (what == "result" and l == "E:RevisionNotPresent" and r == "E:UnknownErrorFromSmartServer"
            and op[0] in ("set_tip", "set_tip_fetch", "gen_history", "push", "pull_into_T")
            and any(o[0] in ("conf_set", "conf_set_old") and o[1] == "append_revisions_only" for o in script[:i])
            and before is not None and any(isinstance(x, str) and x not in before["revs"] and x != "null:"
                                           for x in op[1:] if isinstance(x, str) and x not in ("A", "B"))):
        # append_revisions_only is set and the new tip is not in the repository: the history check raises
        # vcsgraph's RevisionNotPresent, which the server does not translate
        return "append-revisions-only-ghost-tip-error-untranslated"
    if not (tv[0] and tv[1]) and _tags_only_difference(op, what, l, r):
        # RemoteBranch and its VFS branch object each cache the tags file while the lock is held and neither
        # hears of the other's writes: inside ONE lock scope a pull that merges source tags (written by the
        # VFS branch) and a tag access over RPC see / overwrite stale dictionaries
        start = _lock_scope_start(script, i)
        if start is not None:
            scope = script[start:i + 1]
            tagged = {o[1] for o in script[:i] if o[0] == "src_tag"}
            # the VFS branch reads (and caches) the tags file when it merges the tags of a tagged source into
            # the target, and whenever the target is the source of a push
            vfs_tags = any((o[0] in PULL_OPS and (o[1] in tagged or (o[1] == "B" and "A" in tagged))) or o[0] == "push_from_T"
                           for o in scope)
            # tag accesses through the RemoteBranch itself (a pull FROM the target reads its tags that way too)
            rpc_tags = any(o[0] in TAG_OPS or o[0] == "client_pull" for o in scope)
            if vfs_tags and rpc_tags:
                return "remote-tags-cache-stale-in-lock-scope"
    # the tip names a revision that is not stored (or null: with a non-zero revno): set_last_revision_info
    # does not check, and reads on such a state differ in results / error classes
    ghost_tip = bool(before) and before["tip"] != [0, "null:"] and before["tip"][1] not in before["revs"]
    if (op[0] in ("parent_map", "m_parent_map") and what == "result" and isinstance(l, dict) and isinstance(r, dict)
            and "null:" in op[1]
            and "null:" in l and "null:" not in r and {k: v for k, v in l.items() if k != "null:"} == r):
        # get_parent_map([..., b"null:", ...]) through the server loses the null: entry (and, having
        # cached null: as missing, then also for a later request of null: alone on the same object)
        return "get-parent-map-null-dropped"
    if ghost_tip and what == "result" and op[0] in ("gen_history", "revid_of", "revno_of", "dotted_revno_of", "merge_sorted",
                                                   "stats", "missing_revs", "heads"):
        # the tip had been set (set_last_revision_info does not check) to a revision that is not in the
        # repository; reads / history generation on that state answer with different results or error classes
        return "tip-absent-from-repository-" + op[0]
    if (op[0] == "stats" and what == "result" and isinstance(l, dict) and isinstance(r, dict)
            and l.get("committers") == 0 and "committers" not in r
            and {k: v for k, v in l.items() if k != "committers"} == r):
        # gather_stats(b"null:", committers=True): the null revision travels as b"" -> None and the server
        # then leaves out the committers count
        return "gather-stats-null-revision-committers"
    if op[0] == "conf_get" and what == "result" and l is None:
        last = [o for o in script[:i] if o[0] in ("conf_set", "conf_set_old") and o[1] == op[1]]
        if last and last[-1][0] == "conf_set_old" and r == last[-1][2]:
            # get_config().set_user_option(name, v) followed by get_config_stack().get(name) on the SAME
            # branch object: the local object's cached config store does not see the old-API write (None),
            # the remote object re-reads the file (v)
            return "config-old-api-write-unseen-by-local-stack"
    if what == "result" and l == "E:AppendRevisionsOnlyViolation" and r == "E:UnknownErrorFromSmartServer":
        # append_revisions_only = True on the target: the server does not translate the error
        return "append-revisions-only-error-untranslated"
    return None


class _Rec:
    """what a worker process records for the parent's ctx"""

    def __init__(self):
        self.cases, self.counts, self.violations, self.mismatches, self.traces = [], {}, [], [], 0
        self._driver = None

    def case(self, case, nontrivial=True):
        self.cases.append((case, nontrivial))

    def count(self, key, n=1):
        self.counts[key] = self.counts.get(key, 0) + n

    def violation(self, case, what, family=None):
        self.violations.append((case, what, family))

    def mismatch(self, case, impl, model, line=None, tie="T2"):
        self.mismatches.append((case, impl, model, line))

    def model(self, lines):
        from vlib import lean
        if self._driver is None:
            self._driver = lean.Driver("C32")
        return self._driver.ask(list(lines))


def _worker(job):
    """one chunk of cases with its own server (module level: runs in a forked process)"""
    fx, tv, items = job
    rec = _Rec()
    srv = Srv()
    try:
        for label, script in items:
            run_case(rec, srv, script, label=label, fx=fx, tv=tv)
    finally:
        srv.stop()
    return rec.cases, rec.counts, rec.violations, rec.mismatches, rec.traces


def run(ctx):
    srv = Srv()
    try:
        fx = probe_fx(srv)
        tv = probe_tags_variant(srv)
    finally:
        srv.stop()
    ctx.extra["get_parent_map_variant"] = "null: kept (fixed)" if fx else "null: dropped (as found)"
    ctx.extra["tag_cache_variant"] = dict(own_dropped_before_vfs_pull=tv[0], vfs_branch_dropped_after_rpc_write=tv[1])
    items = []
    corpus = os.path.join(env.VERIF, "corpus", "C32")
    if os.path.isdir(corpus):          # minimised past failures first
        for fn in sorted(os.listdir(corpus)):
            if fn.endswith(".json"):
                c = json.load(open(os.path.join(corpus, fn)))
                items.append((c["kind"], _detuple(c["script"])))
    ctx.extra["corpus_cases"] = len(items)
    items += [("general", gen_script(ctx.rng, ctx.rng.randint(6, 20))) for _ in range(ctx.pick(16, 200))]
    items += [("modelled", gen_model_script(ctx.rng, ctx.rng.randint(8, 20))) for _ in range(ctx.pick(16, 200))]
    items += [("msession", gen_msession_script(ctx.rng, ctx.rng.randint(14, 24))) for _ in range(ctx.pick(16, 200))]
    items += [("session", gen_session_script(ctx.rng, ctx.rng.randint(12, 22))) for _ in range(ctx.pick(16, 200))]
    nproc = 8
    chunks = [(fx, tv, items[i::nproc]) for i in range(nproc)]
    for cases, counts, viols, mism, traces in ctx.pmap(_worker, [c for c in chunks if c[1]], procs=nproc, chunksize=1):
        for case, nt in cases:
            ctx.case(case, nontrivial=nt)
        for k, v in counts.items():
            ctx.count(k, v)
        for case, what, fam in viols:
            ctx.violation(case, what, family=fam)
        for case, impl, model, line in mism:
            ctx.mismatch(case, impl, model, line=line)
        ctx.traces += traces
    ctx.extra["scripts"] = {k: sum(1 for l, _ in items if l == k) for k in sorted({l for l, _ in items})}


def replay(ctx, case):
    srv = Srv()
    try:
        fx = probe_fx(srv)
        tv = probe_tags_variant(srv)
        bad = run_case(ctx, srv, _detuple(case["script"]), label=case.get("kind", "general"), fx=fx, tv=tv)
    finally:
        srv.stop()
    return dict(case=case, impl=str(bad), model=[m for m in ctx.mismatches if m][:3],
                oracle_failures=[v["what"] for v in ctx.violations])


def _detuple(script):
    out = []
    for o in script:
        o = list(o)
        if o[0] in ("src_commit",):
            o[2] = [tuple(x) for x in o[2]]
        if o[0] in ("parent_map", "heads") or o[0] == "missing_revs":
            pass          # lists of revision ids stay lists
        if o[0] == "ck_commit":
            o[1] = [tuple(x) for x in o[1]]
        out.append(tuple(o))
    return out
