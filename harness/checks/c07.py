"""C07 — autopack planning is well-formed for every pack size distribution
(breezy/bzr/pack_repo.py: RepositoryPackCollection._max_pack_count,
pack_distribution, plan_autopack_combinations, _do_autopack).

Model: lean/BreezyVerif/Model/C07.lean (literal transcription, IndexError /
AssertionError explicit).  Theorems (Props/C07.lean) hold for ALL pack lists
with positive counts and ALL totals >= their sum; for the total the real
caller passes (key_count() ADDS the per-pack counts, duplicated revisions
counted once per pack: `keyCount`) the `autopack_real_*` /
`autopack_execute_bound` theorems need no hypothesis on the total.
`maxPackCount_eq_digit_sum` ties the bound to the decimal digits
(`Nat.toDigits 10`), `execute_perm/_length/_cnt` describe
`_execute_pack_operations` (one new pack per combination, `dups` duplicated
revisions stored once).

T2 (every run): the real methods are called on a RepositoryPackCollection made
with __new__ (the planner methods use no instance state) with sortable stub
packs, and compared with the Lean model on
  * mpc/dist: every total 0..N plus digit-pattern and random totals to 10**18,
  * plan: EVERY multiset of positive counts with sum <= S (exhaustive), each
    with total = sum, one total > sum, and (10 %) a total < sum (malformed
    stream: IndexError path), pack ids and list order shuffled,
  * plan with arbitrary (non power-of-ten) distributions,
  * random large collections (near powers of ten, many equal sizes),
  * auto: the real _do_autopack on a stub collection with zero-revision packs,
  * real: a real 2a repository is grown by commits / fetches of k revisions;
    after every write group the real multiset of per-pack revision counts is
    compared with what the model plans from the previous real state,
  * realdup: real 2a / pack-0.92 repositories in which the SAME revisions are
    present in several packs: writer A streams revisions 1..n and, when its
    stream is exhausted but before it commits its write group, writer B
    fetches 1..m and commits (a fixed script giving packs [18, 9, 2, 1] with
    one duplicated revision, and random scripts).  Every writer's
    `_do_autopack` is observed (wrappers on the instance that call the real
    methods unchanged): the planner's real inputs (key_count(), len(_names),
    per-pack counts in the real Pack order), its plan, the number of
    duplicated revisions among the combined packs, whether the plan was carried
    out; the model (`afterdup`) predicts plan and per-pack counts on disk
    afterwards (the other writer's packs merged by _save_pack_names are passed
    as `foreign`; the tie is skipped, the oracle not, when the other writer
    autopacked underneath or the packer abandoned the plan).
Oracle (independent of the model, digit sum recomputed here): no exception,
plan == [] or one [n, ps] with len(ps) >= 2, ps a sub-multiset of the input,
n == sum of ps; packs after a non-empty plan <= digit sum; plan == [] iff
pack count <= bound; distribution sums to total with digit-sum many buckets;
on the real repository: key_count() == sum of per-pack counts and
pack count <= digit sum after every write group; with duplicated revisions:
key_count() == sum of per-pack counts >= distinct revisions, no write group
fails inside _do_autopack, all revisions stay readable, the real planner's
result satisfies the plan predicate for its real inputs, a carried-out plan
leaves <= digit sum(planned total) packs, a plan is abandoned only when one of
the combined packs already holds all the combined revisions.

Finding kept as a family (see the report / known_findings):
`autopack-combination-byte-identical-to-listed-pack` — GCCHKPacker (2a): when
every revision of the combined packs is also present in ONE of them the
combination is written byte-identically to that listed pack, gets the same
content-hash name, is renamed onto the live pack and allocate() raises
BzrError "Pack ... already exists": the write group (and every later one)
fails.  KnitPacker has a guard for this (24f6bb3: plan abandoned).
Failures of a write group OUTSIDE _do_autopack (a writer's new pack
byte-identical to one committed meanwhile) are counted
(`realdup:write-group-failed-outside-autopack`, evidence key
`realdup_failures_outside_autopack`), not reported: not this property.

Mutants this was built against (scratch worktree; all caught).  "oracle" =
VIOLATION with a concrete failing input, "T2" = the planner still satisfies
the property (the theorems need neither the sort nor exact bucket closing) but
no longer computes the modelled function: VIOLATION ... no-failing-input-found
naming the first differing case.
  M1  `next_pack_rev_count >= pack_distribution[0]` -> `>`            T2
  M2  `if pack_operations[-1][0] >= pack_distribution[0]` -> `>`      T2
  M3  `len(existing_packs) <= len(pack_distribution)` -> `<`          oracle
      (plans `[[0, []]]` when exactly at the bound; AssertionError for total > sum)
  M4  `_max_pack_count(total) >= total_packs` -> `>` in _do_autopack  oracle
  M5  dropping `existing_packs.sort(reverse=True)`                    T2
  M6a pack_distribution: `10**exponent` -> `10**(exponent+1)`         oracle
  M6b pack_distribution: result not reversed                          T2
  M7  `pack_distribution[0] = -next_pack_rev_count` -> `del pack_distribution[0]`
      (partially used bucket dropped: IndexError only for later packs) oracle
  M8  `_max_pack_count`: `if not total_revisions: return 1` -> 0      oracle
  M9  zero-revision packs no longer skipped in _do_autopack           oracle
  M10 inner loop `if next_pack_rev_count >= 0` -> `> 0` (an exactly used
      bucket stays as a 0 bucket: empty combination planned)          oracle
  M11 `_do_autopack` plans for the number of DISTINCT revisions instead of
      key_count() (needs duplicated revisions; on a tree with the
      GCCHKPacker guard)                                               oracle
Harmless (stay clean): final loop replaced by sum()/comprehension, the while /
pop(0) loop replaced by `for ... in sorted(..., reverse=True)`, digit sum by
divmod.
"""
import glob
import json
import os

from vlib import env

THEOREMS = [
    "distribution_sum", "distribution_length", "plan_ok", "plan_shape", "plan_bound",
    "plan_idle", "plan_nonidle", "autopack_none_iff", "autopack_ok", "autopack_spec",
    "plan_error_witness",
    "maxPackCount_eq_digit_sum", "autopack_real_ok", "autopack_real_spec",
    "execute_perm", "execute_length", "execute_cnt", "autopack_execute_bound",
]
RULE = ("plan: every multiset of positive counts with sum <= S (exhaustive) x {total = sum, a total > sum, "
        "10% a total < sum}, plus random large collections, arbitrary distributions, _do_autopack with "
        "zero-revision packs, real-repository write groups, and write groups of two overlapping writers on real "
        "repositories holding the same revisions in several packs; non-trivial = the planner gets past the "
        "'no more packs than buckets' shortcut (or, for mpc/dist, total >= 10)")
ASSUMPTIONS = [
    "total revision count passed to the planner == sum of per-pack counts (Lean `keyCount`; checked on real "
    "repositories on every run, also with revisions duplicated across packs: key_count() == sum of "
    "get_revision_count(); the compiled CombinedGraphIndex.key_count() adds per-index counts)",
    "Pack objects are totally ordered and distinct packs compare unequal (stub packs ordered by id; real packs "
    "are bzrformats Rust objects with __lt__)",
]
TRUSTED = [
    "packs are modelled as (count, id) pairs; the effect of _execute_pack_operations is modelled as 'each "
    "non-empty combination becomes one pack holding every revision once' (execute_perm; its real effect is "
    "observed and compared in the real-repository parts); the number of duplicated revisions of a combination "
    "is read from the real packs' revision indices",
]


# ---------------------------------------------------------------- real code
class StubPack:
    """sortable stand-in for a Pack (the planner only sorts and returns them)"""
    __slots__ = ("n", "count")

    def __init__(self, n, count=0):
        self.n = n
        self.count = count

    def get_revision_count(self):
        return self.count

    def __lt__(self, o):
        return self.n < o.n

    def __gt__(self, o):
        return self.n > o.n

    def __le__(self, o):
        return self.n <= o.n

    def __ge__(self, o):
        return self.n >= o.n

    def __eq__(self, o):
        return isinstance(o, StubPack) and self.n == o.n

    def __hash__(self):
        return hash(self.n)

    def __repr__(self):
        return "P%d" % self.n


_coll = None


def _collection():
    global _coll
    if _coll is None:
        from breezy.bzr.pack_repo import RepositoryPackCollection
        _coll = RepositoryPackCollection.__new__(RepositoryPackCollection)
    return _coll


def _exc(e):
    return "E:" + type(e).__name__


def _show_ops(ops):
    if ops is None:
        return "None"
    if not ops:
        return "[]"
    return "|".join("%d;%s" % (n, ",".join("%d:%d" % (c, p.n) for c, p in ps) or "-")
                    for n, ps in ops)


def impl_plan(packs, dist):
    """real plan_autopack_combinations; returns (canonical string, raw ops with (count, pack) pairs)"""
    c = _collection()
    existing = [(cnt, StubPack(i, cnt)) for cnt, i in packs]
    try:
        ops = c.plan_autopack_combinations(existing, list(dist))
    except Exception as e:  # noqa
        return _exc(e), None
    ops = [[n, [(p.count, p) for p in ps]] for n, ps in ops]
    return _show_ops(ops), ops


class _Idx:
    def __init__(self, total):
        self.total = total

    def key_count(self):
        return self.total


class _Agg:
    def __init__(self, total):
        self.combined_index = _Idx(total)


def impl_auto(total, packs):
    """real _do_autopack on a stub collection: key_count() = total, all_packs() = stub packs"""
    from breezy.bzr.pack_repo import RepositoryPackCollection
    c = RepositoryPackCollection.__new__(RepositoryPackCollection)
    stubs = [StubPack(i, cnt) for cnt, i in packs]
    c.repo = None
    c.revision_index = _Agg(total)
    c._names = {("n%d" % p.n): None for p in stubs}
    c.all_packs = lambda: list(stubs)
    c.normal_packer_class = None
    c._restart_autopack = None
    got = []

    def execute(pack_operations, packer_class=None, reload_func=None):
        got.append(pack_operations)
        return ("executed", pack_operations)

    c._execute_pack_operations = execute
    try:
        r = c._do_autopack()
    except Exception as e:  # noqa
        return _exc(e), None
    if r is None and not got:
        return "None", None
    ops = [[n, [(p.count, p) for p in ps]] for n, ps in got[0]]
    return _show_ops(ops), ops


def digit_sum(t):
    """independent of the implementation"""
    return sum(int(ch) for ch in str(t)) if t else 1


# ---------------------------------------------------------------- oracle
def oracle_plan(ctx, case, packs, bound, out, ops, what="plan"):
    """the property's predicate on the real result; only called when every
    count is positive and the distribution can hold them (total >= sum)"""
    if ops is None:
        if out == "None":
            if len(packs) > bound:
                ctx.violation(case, "%s: %d packs exceed the bound %d but nothing is planned" % (what, len(packs), bound))
            return
        ctx.violation(case, "%s fails with internal error %s" % (what, out))
        return
    if len(ops) == 0:
        if len(packs) > bound:
            ctx.violation(case, "%s: %d packs exceed the bound %d but the plan is empty" % (what, len(packs), bound))
        return
    if len(packs) <= bound:
        ctx.violation(case, "%s: pack count %d is within the bound %d but a combination is planned: %s"
                      % (what, len(packs), bound, out))
    if len(ops) != 1:
        ctx.violation(case, "%s: %d combinations planned: %s" % (what, len(ops), out))
        return
    n, ps = ops[0]
    if len(ps) < 2:
        ctx.violation(case, "%s: combination of %d pack(s): %s" % (what, len(ps), out))
    if n != sum(c for c, _ in ps):
        ctx.violation(case, "%s: revision count %d is not the sum of the combined packs: %s" % (what, n, out))
    pool = sorted((c, i) for c, i in packs)
    sel = sorted((c, p.n) for c, p in ps)
    j = 0
    for x in sel:  # sub-multiset test
        while j < len(pool) and pool[j] < x:
            j += 1
        if j >= len(pool) or pool[j] != x:
            ctx.violation(case, "%s: combined pack %r is not one of the given packs (or used twice): %s" % (what, x, out))
            break
        j += 1
    after = len(packs) - len(ps) + 1
    if after > bound:
        ctx.violation(case, "%s: %d packs remain after the plan, bound is %d: %s" % (what, after, bound, out))


def oracle_dist(ctx, t, mpc, dist):
    case = dict(kind="dist", total=t)
    if sum(dist) != t:
        ctx.violation(case, "pack_distribution(%d) sums to %d" % (t, sum(dist)))
    if len(dist) != mpc or mpc != digit_sum(t):
        ctx.violation(case, "pack_distribution(%d) has %d buckets, _max_pack_count %d, digit sum %d"
                      % (t, len(dist), mpc, digit_sum(t)))


# ---------------------------------------------------------------- generators
def partitions(n, maxpart=None):
    """all multisets of positive integers summing to n, as descending lists"""
    if maxpart is None or maxpart > n:
        maxpart = n
    if n == 0:
        yield []
        return
    for k in range(maxpart, 0, -1):
        for rest in partitions(n - k, k):
            yield [k] + rest


def _line_plan(dist, packs):
    return "plan %s %s" % (",".join(map(str, dist)) or "-", ",".join("%d:%d" % (c, i) for c, i in packs) or "-")


def _line_auto(total, packs):
    return "auto %d %s" % (total, ",".join("%d:%d" % (c, i) for c, i in packs) or "-")


def _mk_packs(rng, counts):
    ids = list(range(1, len(counts) + 1))
    rng.shuffle(ids)
    packs = [[c, i] for c, i in zip(counts, ids)]
    rng.shuffle(packs)
    return packs


def _other_total(rng, s):
    r = rng.random()
    if r < 0.3:
        return s + rng.randint(1, 9)
    if r < 0.6:
        p = 1
        while p <= s:
            p *= 10
        return rng.choice([p, p - 1, p + 1, 2 * p])
    if r < 0.8:
        return s + rng.randint(1, 10 * s + 10)
    return s * rng.randint(2, 11)


def _small_total(rng, s):
    return rng.choice([0, s - 1, s // 2, max(0, s - 10), rng.randint(0, s - 1)])


class Batch:
    def __init__(self, ctx):
        self.ctx = ctx
        self.cases, self.lines, self.outs = [], [], []

    def add(self, case, line, out):
        self.cases.append(case)
        self.lines.append(line)
        self.outs.append(out)

    def flush(self):
        if self.lines:
            self.ctx.diff(self.cases, self.lines, self.outs)
        self.cases, self.lines, self.outs = [], [], []


def do_plan_case(ctx, b, packs, total=None, dist=None, tag="plan"):
    c = _collection()
    s = sum(cn for cn, _ in packs)
    if dist is None:
        try:
            dist = c.pack_distribution(total)
        except Exception as e:  # noqa
            ctx.violation(dict(kind="dist", total=total), "pack_distribution(%d) raises %s" % (total, _exc(e)))
            return
        bound = digit_sum(total)
        case = dict(kind="plan", total=total, packs=packs)
    else:
        bound = len(dist)
        case = dict(kind="plandist", dist=list(dist), packs=packs)
    out, ops = impl_plan(packs, dist)
    wellformed = sum(dist) >= s and all(cn > 0 for cn, _ in packs)
    if wellformed:
        oracle_plan(ctx, case, packs, bound, out, ops)
    ctx.case(case, nontrivial=len(packs) > len(dist))
    ctx.count("%s:%s" % (tag, "wellformed" if wellformed else "total<sum"))
    ctx.count("out:" + ("empty" if out == "[]" else out if out.startswith("E:") else "combine"))
    ctx.count("npacks:%s" % (len(packs) if len(packs) < 10 else "%d0+" % (len(packs) // 10)))
    b.add(case, _line_plan(dist, packs), out)


def do_auto_case(ctx, b, total, packs):
    case = dict(kind="auto", total=total, packs=packs)
    out, ops = impl_auto(total, packs)
    s = sum(cn for cn, _ in packs)
    nz = [p for p in packs if p[0] > 0]
    if total >= s:
        if len(nz) == len(packs):
            oracle_plan(ctx, case, packs, digit_sum(total), out, ops, what="_do_autopack")
        else:
            if out.startswith("E:"):
                ctx.violation(case, "_do_autopack fails with internal error %s" % out)
            if (out == "None") != (len(packs) <= digit_sum(total)):
                ctx.violation(case, "_do_autopack trigger: %d packs, bound %d, result %s" % (len(packs), digit_sum(total), out))
            if ops is not None and len(nz) > digit_sum(total):
                oracle_plan(ctx, case, nz, digit_sum(total), out, ops, what="_do_autopack(non-empty packs)")
    ctx.case(case, nontrivial=len(packs) > digit_sum(total))
    ctx.count("auto:" + ("none" if out == "None" else "empty" if out == "[]" else out if out.startswith("E:") else "combine"))
    ctx.count("auto:zero-packs" if len(nz) < len(packs) else "auto:all-positive")
    b.add(case, _line_auto(total, packs), out)


def _rand_counts(rng, maxlen):
    style = rng.randrange(6)
    n = rng.randint(2, maxlen)
    if style == 0:    # many equal small packs
        v = rng.choice([1, 1, 2, 5, 9, 10, 11])
        return [v] * n
    if style == 1:    # near powers of ten
        return [max(1, 10 ** rng.randint(0, 6) + rng.choice([-1, 0, 0, 1])) for _ in range(n)]
    if style == 2:    # one large pack and a tail of ones (typical repository)
        return [rng.randint(1, 10 ** rng.randint(1, 7))] + [rng.choice([1, 1, 1, 2, 10])] * (n - 1)
    if style == 3:    # already distribution-shaped plus a few extra
        t = rng.randint(1, 10 ** rng.randint(1, 6))
        d = _collection().pack_distribution(t)[:maxlen]
        return [x for x in d if x > 0] + [rng.choice([1, 1, 3, 10]) for _ in range(rng.randint(1, 4))]
    if style == 4:    # uniformly small
        return [rng.randint(1, 12) for _ in range(n)]
    return [rng.randint(1, 10 ** rng.randint(0, 7)) for _ in range(n)]


# ---------------------------------------------------------------- real repository
def real_repo_part(ctx, b, steps, maxk):
    """grow a real 2a repository by write groups of k revisions; compare the
    evolution of the per-pack revision counts with the model"""
    rng = ctx.rng
    src = env.make_tree("2a")
    revs = []
    need = steps * maxk
    for i in range(need):
        revs.append(src.commit("r%d" % i))
    tgt = env.make_tree("2a").branch.repository

    def observe():
        tgt.lock_read()
        try:
            pc = tgt._pack_collection
            pc.ensure_loaded()
            cs = sorted((p.get_revision_count() for p in pc.all_packs()), reverse=True)
            return cs, pc.revision_index.combined_index.key_count()
        finally:
            tgt.unlock()

    pos = 0
    before, _ = observe()
    for step in range(steps):
        k = 1 if rng.random() < 0.5 else rng.randint(1, maxk)
        pos += k
        try:
            tgt.fetch(src.branch.repository, revision_id=revs[pos - 1])
        except Exception as e:  # noqa -- the write group's autopack failed
            ctx.violation(dict(kind="real", step=step, before=before, added=k, after=None, total=pos),
                          "real repository: write group adding %d revisions to packs %r fails with %s: %s"
                          % (k, before, _exc(e), str(e)[:200]))
            ctx.count("real:exception")
            break
        after, total = observe()
        case = dict(kind="real", step=step, before=before, added=k, after=after, total=total)
        if total != sum(after):
            ctx.violation(case, "key_count() %d != sum of per-pack revision counts %d" % (total, sum(after)))
        if total != pos:
            ctx.violation(case, "repository holds %d revision keys after fetching %d revisions" % (total, pos))
        if len(after) > digit_sum(total):
            ctx.violation(case, "real repository has %d packs after a write group, bound is %d (counts %r)"
                          % (len(after), digit_sum(total), after))
        # the model plans from the previous REAL state plus the new pack
        packs = [[c, i + 1] for i, c in enumerate(before + [k])]
        ctx.case(case, nontrivial=after != sorted(before + [k], reverse=True))
        ctx.count("real:" + ("autopacked" if after != sorted(before + [k], reverse=True) else "no-autopack"))
        b.add(case, "after %d %s" % (total, ",".join(map(str, before + [k]))), ",".join(map(str, after)))
        before = after
    ctx.extra["real_repo_final"] = dict(revisions=pos, packs=before)



# ---------------------------------------------------------------- real repository, revisions duplicated across packs
FAMILY_IDENTICAL = "autopack-combination-byte-identical-to-listed-pack"
DUP_REVS = 40
FIXED_DUP_SCRIPT = [("fetch", 18), ("fetch", 27), ("overlap", 28, 29), ("fetch", 39), ("fetch", 40)]


class _Watch:
    """observes (never alters) one writer's `_do_autopack`: the planner's real
    inputs, its result and whether `_execute_pack_operations` carried it out"""

    def __init__(self, repo):
        pc = repo._pack_collection
        self.calls = []
        orig_auto, orig_plan, orig_exec = pc._do_autopack, pc.plan_autopack_combinations, pc._execute_pack_operations

        def auto():
            packs = sorted(pc.all_packs())          # the real Pack order: ids for the model
            rec = dict(total=pc.revision_index.combined_index.key_count(), names=len(pc._names),
                       view=[(p.get_revision_count(), p.name) for p in packs], plan=None, dist=None,
                       executed=None, dups=0, redundant=False, raised=None)
            self.calls.append(rec)
            try:
                return orig_auto()
            except Exception as e:  # noqa -- recorded, re-raised unchanged
                rec["raised"] = type(e).__name__
                raise

        def plan(existing, dist):
            rec = self.calls[-1]
            rec["dist"] = list(dist)
            rec["existing"] = [(c, p.name) for c, p in existing]
            ops = orig_plan(existing, dist)
            rec["plan"] = [[n, [(p.get_revision_count(), p.name) for p in ps]] for n, ps in ops]
            keysets = [set(e[1] for e in p.revision_index.iter_all_entries()) for _, ps in ops for p in ps]
            if keysets:
                union = set().union(*keysets)
                rec["dups"] = sum(map(len, keysets)) - len(union)
                rec["redundant"] = any(ks == union for ks in keysets)
            return ops

        def execute(pack_operations, packer_class, reload_func=None):
            r = orig_exec(pack_operations, packer_class=packer_class, reload_func=reload_func)
            self.calls[-1]["executed"] = r is not None
            return r

        pc._do_autopack, pc.plan_autopack_combinations, pc._execute_pack_operations = auto, plan, execute


def _disk_state(tgt_dir):
    from breezy.repository import Repository
    r = Repository.open(tgt_dir)
    r.lock_read()
    try:
        pc = r._pack_collection
        pc.ensure_loaded()
        packs = {p.name: p.get_revision_count() for p in pc.all_packs()}
        return dict(packs=packs, key_count=pc.revision_index.combined_index.key_count(),
                    revisions=sorted(r.all_revision_ids()))
    finally:
        r.unlock()


def _desc(counts):
    return ",".join(map(str, sorted(counts, reverse=True))) or "-"


def _dup_writer_done(ctx, b, fmt, who, upto, watch, disk_before, disk_after, exc, foreign_ok, expect_revs, script):
    """oracle + T2 for ONE write group of one writer"""
    rec = watch.calls[-1] if watch.calls else None
    case = dict(kind="realdup", fmt=fmt, writer=who, upto=upto, script=[list(x) for x in script],
                before=sorted(disk_before["packs"].values(), reverse=True),
                view=[c for c, _ in rec["view"]] if rec else None,
                total=rec["total"] if rec else None, dups=rec["dups"] if rec else 0,
                plan=[[n, [c for c, _ in ps]] for n, ps in rec["plan"]] if rec and rec["plan"] is not None else None,
                after=sorted(disk_after["packs"].values(), reverse=True) if disk_after else None)
    if exc is not None and not (rec and rec["raised"]):
        # the write group failed outside `_do_autopack` (e.g. this writer's new pack is byte-identical to
        # a pack another writer committed meanwhile): not the autopack property
        ctx.count("realdup:write-group-failed-outside-autopack:%s" % type(exc).__name__)
        ctx.extra.setdefault("realdup_failures_outside_autopack", []).append(
            dict(script=case["script"], writer=who, error="%s: %s" % (_exc(exc), str(exc).split(" in ")[0][:100])))
        ctx.case(case, nontrivial=True)
        return True
    if exc is not None:
        fam = None
        if (rec and rec["plan"] and rec["redundant"] and type(exc).__name__ == "BzrError"
                and "already exists" in str(exc)):
            # the combined packs' revisions are all present in ONE of them and the packer wrote the
            # combination byte-identically to that listed pack
            fam = FAMILY_IDENTICAL
        ctx.violation(case, "real %s repository with revisions duplicated across packs: writer %s's write group "
                      "(revisions up to %d; packs on disk %s; planner view %s, plan %s) fails with %s: %s"
                      % (fmt, who, upto, case["before"], case["view"], case["plan"], _exc(exc),
                         str(exc).split(" in GCRepositoryPackCollection")[0][:120]),
                      family=fam)
        ctx.count("realdup:exception")
        ctx.case(case, nontrivial=True)
        return False
    if disk_after["revisions"] != expect_revs:
        ctx.violation(case, "real %s repository: after writer %s's write group %d revisions are readable, expected %d"
                      % (fmt, who, len(disk_after["revisions"]), len(expect_revs)))
    if disk_after["key_count"] != sum(disk_after["packs"].values()):
        ctx.violation(case, "key_count() %d != sum of per-pack revision counts %d (duplicated revisions: %d distinct)"
                      % (disk_after["key_count"], sum(disk_after["packs"].values()), len(disk_after["revisions"])))
    if disk_after["key_count"] > len(disk_after["revisions"]):
        ctx.count("realdup:duplicates-on-disk")
    if rec is None:                       # nothing inserted: no autopack attempt
        ctx.count("realdup:no-new-content")
        ctx.case(case, nontrivial=False)
        return True
    view = rec["view"]
    if rec["total"] != sum(c for c, _ in view):
        ctx.violation(case, "planner input: key_count() %d != sum of the per-pack counts %r it is planned for"
                      % (rec["total"], [c for c, _ in view]))
    if rec["names"] != len(view):
        ctx.violation(case, "len(_names) %d != %d packs" % (rec["names"], len(view)))
    ids = {name: i + 1 for i, (_, name) in enumerate(view)}
    bound = digit_sum(rec["total"])
    if rec["plan"] is None:
        out, ops = "None", None
    else:
        ops = [[n, [(c, StubPack(ids[name], c)) for c, name in ps]] for n, ps in rec["plan"]]
        out = _show_ops(ops)
    nz = [[c, ids[name]] for c, name in view if c > 0]
    if len(nz) == len(view):
        oracle_plan(ctx, case, nz, bound, out, ops, what="real _do_autopack (writer %s)" % who)
    elif ops is not None and len(nz) > bound:
        oracle_plan(ctx, case, nz, bound, out, ops, what="real _do_autopack (writer %s, non-empty packs)" % who)
    abandoned = bool(rec["plan"]) and rec["executed"] is False
    if abandoned:
        # the packer refused to write a pack that would be byte-identical to a listed one
        ctx.count("realdup:plan-abandoned")
        if not rec["redundant"]:
            ctx.violation(case, "writer %s: plan %s was made but not carried out although no combined pack holds all "
                          "the combined revisions" % (who, out))
    elif rec["plan"]:
        ctx.count("realdup:combined" + (":with-duplicates" if rec["dups"] else ""))
    else:
        ctx.count("realdup:" + ("no-autopack" if rec["plan"] is None else "empty-plan"))
    foreign = [c for name, c in disk_before["packs"].items() if name not in ids]
    if rec["plan"] and not abandoned and foreign_ok:
        n_after = len(disk_after["packs"]) - len(foreign)
        if n_after > bound:
            ctx.violation(case, "writer %s carried out %s: %d packs remain (besides %d added by the other writer), "
                          "bound for the planned total %d is %d" % (who, out, n_after, len(foreign), rec["total"], bound))
    ctx.case(case, nontrivial=bool(rec["plan"]) or rec["dups"] > 0 or disk_after["key_count"] > len(disk_after["revisions"]))
    if foreign_ok and not abandoned:
        b.add(case, "afterdup %d %d %s %s" % (rec["total"], rec["dups"], ",".join(str(c) for c, _ in view) or "-",
                                             ",".join(map(str, foreign)) or "-"),
              "%s %s" % (out, _desc(disk_after["packs"].values())))
    else:
        ctx.count("realdup:tie-skipped(%s)" % ("abandoned" if abandoned else "other-writer-autopacked"))
    return True


def _dup_scenario(ctx, b, fmt, script, tag):
    """`fetch n`: one writer fetches revisions 1..n.  `overlap n m`: writer A streams 1..n; when its
    stream is exhausted (before A commits its write group) writer B fetches 1..m and commits."""
    from breezy.controldir import format_registry
    from breezy.repository import Repository, InterRepository
    src = env.make_tree(fmt)
    path = src.basedir
    with open(os.path.join(path, "f"), "w") as f:
        f.write("x\n")
    src.add(["f"], ids=[b"f-id"])
    for i in range(1, DUP_REVS + 1):
        with open(os.path.join(path, "f"), "a") as f:
            f.write("l%d\n" % i)
        src.commit("r%d" % i, rev_id=b"r%03d" % i, timestamp=1000000000.0 + i, timezone=0,
                   committer="t <t@example.com>")
    srcrepo = src.branch.repository
    tgt_dir = env.fresh_dir("dup")
    format_registry.make_controldir(fmt).initialize(tgt_dir).create_repository()
    have = 0
    for nstep, step in enumerate(script):
        done = script[:nstep + 1]
        ctx.count("realdup:%s:%s" % (tag, step[0]))
        if step[0] == "fetch":
            upto = step[1]
            before = _disk_state(tgt_dir)
            w = Repository.open(tgt_dir)
            watch = _Watch(w)
            exc = None
            try:
                w.fetch(srcrepo, revision_id=b"r%03d" % upto)
            except Exception as e:  # noqa
                exc = e
            have_new = max(have, upto) if exc is None else have
            after = _disk_state(tgt_dir)
            ok = _dup_writer_done(ctx, b, fmt, "A", upto, watch, before, after, exc, True,
                                  sorted(b"r%03d" % i for i in range(1, have_new + 1)), done)
            have = have_new
            if not ok:
                return                 # every later write group makes the same plan
            continue
        _, a_upto, b_upto = step
        a, bw = Repository.open(tgt_dir), Repository.open(tgt_dir)
        wa, wb = _Watch(a), _Watch(bw)
        before_a = _disk_state(tgt_dir)
        mid = {}
        exc_a = None
        a.lock_write()
        srcrepo.lock_read()
        try:
            search = InterRepository.get(srcrepo, a).search_missing_revision_ids(
                revision_ids=[b"r%03d" % a_upto], find_ghosts=False)
            stream = srcrepo._get_source(a._format).get_stream(search)

            def interleaved():
                yield from stream
                mid["before"] = _disk_state(tgt_dir)
                try:
                    bw.fetch(srcrepo, revision_id=b"r%03d" % b_upto)
                except Exception as e:  # noqa
                    mid["exc"] = e
                mid["after"] = _disk_state(tgt_dir)

            try:
                a._get_sink().insert_stream(interleaved(), srcrepo._format, [])
            except Exception as e:  # noqa
                exc_a = e
        finally:
            srcrepo.unlock()
            a.unlock()
        if "before" not in mid:       # A's stream failed before B ran
            ctx.violation(dict(kind="realdup", fmt=fmt, writer="A", upto=a_upto, script=[list(x) for x in done]),
                          "streaming fails with %s" % _exc(exc_a))
            return
        have_b = max(have, b_upto) if "exc" not in mid else have
        ok = _dup_writer_done(ctx, b, fmt, "B", b_upto, wb, mid["before"], mid["after"], mid.get("exc"), True,
                              sorted(b"r%03d" % i for i in range(1, have_b + 1)), done)
        have = have_b
        b_autopacked = bool(wb.calls and wb.calls[-1]["plan"])
        after_a = _disk_state(tgt_dir)
        have_a = max(have, a_upto) if exc_a is None else have
        ok = _dup_writer_done(ctx, b, fmt, "A", a_upto, wa, mid["after"], after_a, exc_a, not b_autopacked,
                              sorted(b"r%03d" % i for i in range(1, have_a + 1)), done) and ok
        have = have_a
        if not ok:
            return                     # every later write group makes the same plan


def _random_dup_script(rng, steps):
    script, pos = [], 0
    while pos < DUP_REVS - 3 and len(script) < steps:
        pos = min(DUP_REVS - 3, pos + (rng.choice([8, 9, 10, 11]) if rng.random() < 0.15 else rng.randint(1, 3)))
        if rng.random() < 0.6:
            script.append(("overlap", pos, pos + rng.randint(0, 2)))
        else:
            script.append(("fetch", pos))
    return script


def real_dup_part(ctx, b):
    """revisions duplicated across packs (two writers inserting overlapping revisions)"""
    _dup_scenario(ctx, b, "2a", FIXED_DUP_SCRIPT, "fixed")
    _dup_scenario(ctx, b, "pack-0.92", FIXED_DUP_SCRIPT, "fixed")
    for fmt in ctx.pick(["2a"], ["2a", "pack-0.92", "2a"]):
        _dup_scenario(ctx, b, fmt, _random_dup_script(ctx.rng, ctx.pick(14, 40)), "random")


# ---------------------------------------------------------------- run
FIXED = [
    # plan_error_witness: total < sum -> IndexError on the real method
    dict(kind="plan", total=20, packs=[[10, 1], [10, 2], [1, 3]]),
    dict(kind="plan", total=20, packs=[[5, 1], [5, 2], [10, 3]]),
    dict(kind="plan", total=20, packs=[[4, 1], [12, 2], [4, 3]]),
    dict(kind="auto", total=2, packs=[[1, 1], [1, 2], [0, 3]]),
    dict(kind="plan", total=0, packs=[]),
    dict(kind="plan", total=0, packs=[[1, 1], [1, 2]]),
]


def _corpus():
    out = list(FIXED)
    for f in sorted(glob.glob(os.path.join(env.VERIF, "corpus", "C07", "*.json"))):
        out.append(json.load(open(f)))
    return out


def _run_case(ctx, b, case):
    k = case["kind"]
    if k == "plan":
        do_plan_case(ctx, b, case["packs"], total=case["total"])
    elif k == "plandist":
        do_plan_case(ctx, b, case["packs"], dist=case["dist"], tag="plandist")
    elif k == "auto":
        do_auto_case(ctx, b, case["total"], case["packs"])
    elif k == "dist":
        do_dist_case(ctx, b, case["total"])


def do_dist_case(ctx, b, t):
    c = _collection()
    try:
        mpc = c._max_pack_count(t)
        dist = c.pack_distribution(t)
    except Exception as e:  # noqa
        ctx.violation(dict(kind="dist", total=t), "distribution of %d raises %s" % (t, _exc(e)))
        return
    oracle_dist(ctx, t, mpc, dist)
    case = dict(kind="dist", total=t)
    ctx.case(case, nontrivial=t >= 10)
    ctx.count("dist:digits=%d" % len(str(t)))
    b.add(case, "mpc %d" % t, str(mpc))
    b.add(case, "dist %d" % t, ",".join(map(str, dist)) or "-")


def exhaustive_part(ctx, b, S):
    """every multiset of positive counts with sum <= S"""
    rng = ctx.rng
    nmulti = 0
    for s in range(0, S + 1):
        for part in partitions(s):
            nmulti += 1
            packs = _mk_packs(rng, part)
            do_plan_case(ctx, b, packs, total=s)
            do_plan_case(ctx, b, packs, total=_other_total(rng, s))
            if s > 0 and rng.random() < 0.1:
                do_plan_case(ctx, b, packs, total=_small_total(rng, s))
            if len(b.lines) > 100000:
                b.flush()
    b.flush()
    ctx.exhaustive = True
    ctx.extra["exhaustive_domain"] = dict(multisets_with_sum_le=S, multisets=nmulti)


def run(ctx, S=None):
    rng = ctx.rng
    b = Batch(ctx)
    for case in _corpus():
        _run_case(ctx, b, case)
    # --- distribution
    for t in range(ctx.pick(3000, 30000)):
        do_dist_case(ctx, b, t)
    for _ in range(ctx.pick(1500, 15000)):
        e = rng.randint(1, 18)
        t = rng.choice([10 ** e, 10 ** e - 1, 10 ** e + 1, rng.randint(0, 10 ** e),
                        int("".join(rng.choice("0019") for _ in range(e)) or "0")])
        do_dist_case(ctx, b, t)
    b.flush()
    S = S or ctx.pick(36, 48)
    exhaustive_part(ctx, b, S)
    # --- arbitrary distributions (plan_spec covers any distribution with sum >= sum of counts)
    for _ in range(ctx.pick(4000, 40000)):
        counts = [rng.randint(1, 15) for _ in range(rng.randint(1, 9))]
        dist = [rng.randint(0, 15) for _ in range(rng.randint(0, 8))]
        if rng.random() < 0.8 and sum(dist) < sum(counts):
            dist.insert(rng.randint(0, len(dist)), sum(counts) - sum(dist) + rng.randint(0, 3))
        do_plan_case(ctx, b, _mk_packs(rng, counts), dist=dist, tag="plandist")
    # --- random large collections
    maxlen = ctx.pick(60, 300)
    for _ in range(ctx.pick(3000, 30000)):
        counts = _rand_counts(rng, maxlen)
        packs = _mk_packs(rng, counts)
        s = sum(counts)
        r = rng.random()
        total = s if r < 0.7 else _other_total(rng, s) if r < 0.9 else _small_total(rng, s)
        do_plan_case(ctx, b, packs, total=total, tag="random")
    b.flush()
    # --- _do_autopack with zero-revision packs
    for _ in range(ctx.pick(3000, 30000)):
        counts = _rand_counts(rng, 25) if rng.random() < 0.5 else [rng.randint(1, 11) for _ in range(rng.randint(0, 12))]
        if rng.random() < 0.6:
            counts = counts + [0] * rng.randint(1, 12)
        packs = _mk_packs(rng, counts)
        s = sum(counts)
        total = s if rng.random() < 0.85 else _other_total(rng, s) if rng.random() < 0.6 or s == 0 else _small_total(rng, s)
        do_auto_case(ctx, b, total, packs)
    b.flush()
    # --- real repository
    real_repo_part(ctx, b, ctx.pick(45, 140), ctx.pick(6, 12))
    b.flush()
    real_dup_part(ctx, b)
    b.flush()


def widen(ctx):
    """a tie broke with a clean oracle: search the next larger exhaustive layer
    and more random collections for an input on which the property itself fails"""
    b = Batch(ctx)
    exhaustive_part(ctx, b, 41)
    rng = ctx.rng
    for _ in range(20000):
        counts = _rand_counts(rng, 40)
        s_ = sum(counts)
        do_plan_case(ctx, b, _mk_packs(rng, counts), total=s_ if rng.random() < 0.7 else _other_total(rng, s_), tag="random")
    b.flush()


def replay(ctx, case):
    b = Batch(ctx)
    k = case.get("kind")
    if k == "real":
        line = "after %d %s" % (case["total"], ",".join(map(str, case["before"] + [case["added"]])))
        return dict(case=case, impl=",".join(map(str, case["after"])), model=ctx.model([line])[0],
                    note="real-repository step: recorded observation, re-run the check to reproduce")
    if k == "realdup":
        _dup_scenario(ctx, b, case["fmt"], [tuple(x) for x in case["script"]], "replay")
    else:
        _run_case(ctx, b, case)
    model = ctx.model(b.lines) if b.lines else []
    return dict(case=case, impl=b.outs, model=model, oracle_failures=[v["what"] for v in ctx.violations])
