import BreezyVerif.Common
/-
C02 — per-file last-changed revisions and per-file parents.  Executable model of

* `breezy/bzr/vf_repository.py: VersionedFileCommitBuilder.record_iter_changes`
  (head candidates = the last-changed revision of the file id in every parent
  inventory, basis first; `_heads`; carry-over test on kind / parent_id / name
  and then, per kind, executable + sha1, symlink target, or nothing),
* `breezy/bzr/pack_repo.py: PackCommitBuilder._heads` (heads in the *per-file*
  graph `repository.texts`; `heads` below is the specification of the external
  `vcsgraph.Graph.heads`, compared per case by the harness),
* `VersionedFileRepository._do_generate_text_key_index` +
  `_VersionedFileChecker._check_file_version_parents` (`expIndex`,
  `wrongParents`, `unreferenced`, `invalidRefs`).

A *history* is a list of commits `(id, parents, tree)`, **newest first**; the
tree is what the working tree contains when `commit` runs (id ↦ attributes).
`build h` is the repository obtained by recording the commits oldest to newest:
per revision its inventory (id ↦ attributes + last-changed revision) and the new
text keys `(file id, revision)` with their per-file parents.

Revisions, file ids, names and contents are naturals (the harness numbers the
real ones); the root directory is an ordinary file id (rich-root formats; for
the non-rich-root formats the harness leaves the root out, it is not a text key
there).  A parent that is not recorded is a *ghost*.

`codeRecordOne` / `mkRecB` model the `merged_ids` / `parent_entries` /
`changes` / `unchanged_merged` bookkeeping of `record_iter_changes` literally
(only ids that `iter_changes` reports or whose entry in a later parent differs
from the basis entry are processed; everything else keeps the basis entry);
`Props/C02.lean` proves it equal to `recordOne` / `mkRec`.
Core Lean only.
-/
namespace BreezyVerif.C02

abbrev Rev := Nat
abbrev FileId := Nat

/-- the kind-specific part of an inventory entry that the carry-over test reads -/
inductive Content where
  /-- `InventoryFile`: executable bit and text sha1 -/
  | file (exec : Bool) (sha : Nat)
  /-- `InventoryLink`: symlink target -/
  | link (target : Nat)
  /-- `InventoryDirectory` -/
  | dir
  deriving DecidableEq, Repr

/-- `entry.kind` as a number: 0 file, 1 symlink, 2 directory -/
def Content.kind : Content → Nat
  | .file _ _ => 0
  | .link _ => 1
  | .dir => 2

structure Attr where
  /-- `parent_id` (numbered; 0 for the root's `None`) -/
  parent : Nat
  name : Nat
  content : Content
  deriving DecidableEq, Repr

/-- an inventory entry: attributes + `entry.revision` (last-changed) -/
structure Entry where
  attr : Attr
  rev : Rev
  deriving DecidableEq, Repr

abbrev Inv := List (FileId × Entry)
abbrev Tree := List (FileId × Attr)

structure Commit where
  id : Rev
  parents : List Rev
  tree : Tree
  deriving Repr

/-- one recorded revision -/
structure Rec where
  id : Rev
  parents : List Rev
  inv : Inv
  /-- new text keys `(f, id)` added by this commit, with their per-file parent revisions -/
  texts : List (FileId × List Rev)
  deriving Repr

/-- the repository: recorded revisions, newest first -/
abbrev State := List Rec

def ids (st : State) : List Rev := st.map (·.id)

/-- `repository.revision_tree(p).root_inventory`; `none` = ghost (the code then
uses the empty NULL tree) -/
def invOf : State → Rev → Option Inv
  | [], _ => none
  | r :: older, p => if r.id = p then some r.inv else invOf older p

/-- the entry of file id `f` in the inventory of revision `p` -/
def entryIn (st : State) (f : FileId) (p : Rev) : Option Entry :=
  match invOf st p with
  | some i => i.lookup f
  | none => none

/-- set-ification keeping the first occurrence (the `# Preserve ordering` loop) -/
def dedup : List Nat → List Nat
  | [] => []
  | x :: xs => x :: (dedup xs).filter (· != x)

/-- the entries of `f` in the parent inventories, basis first -/
def candEntries (st : State) (ps : List Rev) (f : FileId) : List Entry :=
  ps.filterMap (entryIn st f)

/-- `head_candidates`: last-changed revision of `f` in every parent, basis first -/
def candidates (st : State) (ps : List Rev) (f : FileId) : List Rev :=
  dedup ((candEntries st ps f).map (·.rev))

/-- the per-file graph `repository.texts`: text key ↦ per-file parent revisions,
newest first -/
abbrev TGraph := List ((FileId × Rev) × List Rev)

def textsOf (st : State) : TGraph :=
  st.flatMap fun r => r.texts.map fun t => ((t.1, r.id), t.2)

/-- strict per-file ancestors of the text key `(f, r)` -/
def fanc : TGraph → FileId → Rev → List Rev
  | [], _, _ => []
  | (k, ps) :: older, f, r =>
    if k = (f, r) then ps ++ ps.flatMap (fun p => fanc older f p) else fanc older f r

/-- `h` is not a per-file ancestor of another candidate -/
def isHead (g : TGraph) (f : FileId) (cands : List Rev) (h : Rev) : Bool :=
  !(cands.any fun c => c != h && (fanc g f c).contains h)

/-- specification of `Graph.heads` on the per-file graph, in candidate order -/
def heads (g : TGraph) (f : FileId) (cands : List Rev) : List Rev :=
  cands.filter (isHead g f cands)

/-- `parent_entries[file_id].get(heads[0])` -/
def entryWithRev (st : State) (ps : List Rev) (f : FileId) (h : Rev) : Option Entry :=
  (candEntries st ps f).find? (·.rev == h)

/-- the carry-over test: `kind`, `parent_id`, `name` first, then per kind
executable + sha1 (`nostore_sha` → `ExistingContent`), symlink target, nothing -/
def carryTest (pe a : Attr) : Bool :=
  if pe.content.kind != a.content.kind || pe.parent != a.parent || pe.name != a.name then false
  else match a.content, pe.content with
    | .file x s, .file px ps => px == x && ps == s
    | .link t, .link pt => pt == t
    | .dir, .dir => true
    | _, _ => false

/-- the new inventory entry of `f` and, when a new text is stored, its parents -/
def recordOne (st : State) (c : Commit) (f : FileId) (a : Attr) : Entry × Option (List Rev) :=
  let hs := heads (textsOf st) f (candidates st c.parents f)
  match hs with
  | [h] =>
    match entryWithRev st c.parents f h with
    | some pe => if carryTest pe.attr a then (pe, none) else (⟨a, c.id⟩, some hs)
    | none => (⟨a, c.id⟩, some hs)
  | _ => (⟨a, c.id⟩, some hs)

def mkRec (st : State) (c : Commit) : Rec :=
  { id := c.id, parents := c.parents,
    inv := c.tree.map fun t => (t.1, (recordOne st c t.1 t.2).1),
    texts := c.tree.filterMap fun t => (recordOne st c t.1 t.2).2.map fun ps => (t.1, ps) }

def record (st : State) (c : Commit) : State := mkRec st c :: st

/-- the repository after the history `h` (newest commit first) -/
def build : List Commit → State
  | [] => []
  | c :: older => record (build older) c

/-- strict ancestors of a revision in the revision graph -/
def ranc : State → Rev → List Rev
  | [], _ => []
  | r :: older, x =>
    if r.id = x then r.parents ++ r.parents.flatMap (fun p => ranc older p) else ranc older x

/-- every revision id the repository knows or names: the recorded revisions and
all their parents, ghosts included -/
def mentioned (st : State) : List Rev := ids st ++ st.flatMap (·.parents)

/-- a commit the front end can make on `st`: a revision id that is neither
recorded nor named as a parent by any recorded revision (a ghost stays a ghost)
nor by the commit itself, and one entry per file id.  Parents need **not** be
present: an absent parent is a ghost (`invOf … = none`, the code uses the empty
NULL tree for it). -/
def okCommit (st : State) (c : Commit) : Prop :=
  c.id ∉ mentioned st ∧ c.id ∉ c.parents ∧ (c.tree.map (·.1)).Nodup

instance (st : State) (c : Commit) : Decidable (okCommit st c) := by
  unfold okCommit; infer_instance

/-- well-formed history (newest first) -/
def hist : List Commit → Prop
  | [] => True
  | c :: older => hist older ∧ okCommit (build older) c

instance instDecidableHist : (h : List Commit) → Decidable (hist h)
  | [] => isTrue trivial
  | c :: older =>
    match instDecidableHist older with
    | isTrue h1 =>
      if h2 : okCommit (build older) c then isTrue ⟨h1, h2⟩ else isFalse fun h => h2 h.2
    | isFalse h1 => isFalse fun h => h1 h.1

/-! ### the consistency checker -/

/-- `_do_generate_text_key_index`: revisions in topological order (oldest
first = the recursion below), for every *valid* text key `(f, r)` (an entry of
inventory `r` whose revision is `r`) the heads — in the index built so far — of
the versions of `f` in `r`'s parents, in parent order.  Inventories are looked
up in the whole repository `full`. -/
def expIndexAux (full : State) : State → TGraph
  | [] => []
  | r :: older =>
    let idx := expIndexAux full older
    ((r.inv.filter fun t => t.2.rev == r.id).map fun t =>
      ((t.1, r.id), heads idx t.1 (candidates full r.parents t.1))) ++ idx

def expIndex (st : State) : TGraph := expIndexAux st st

/-- `wrong_parents` of `_check_file_version_parents`: keys of the index whose
stored parents differ from the expected ones (or whose text is missing) -/
def wrongParents (st : State) : List (FileId × Rev) :=
  ((expIndex st).filter fun k => (textsOf st).lookup k.1 != some k.2).map (·.1)

/-- `unused_keys`: stored text versions no inventory refers to -/
def unreferenced (st : State) : List (FileId × Rev) :=
  ((textsOf st).map (·.1)).filter fun k => !((expIndex st).map (·.1)).contains k

/-- text key references `(f, e.rev)` that are never *valid*: no inventory
`e.rev` holds `f` with that revision (`invalid_keys`) -/
def invalidRefs (st : State) : List (FileId × Rev) :=
  (st.flatMap fun r => r.inv.map fun t => (t.1, t.2.rev)).filter fun k =>
    match entryIn st k.1 k.2 with
    | some e => e.rev != k.2
    | none => true

/-! ### linear histories -/

/-- first-parent chain: every commit has exactly the previous one as parent -/
def linear : List Commit → Bool
  | [] => true
  | [c] => c.parents == []
  | c :: p :: rest => c.parents == [p.id] && linear (p :: rest)

/-- the latest revision of a linear history (newest first) in which `f`'s
attributes differ from the previous revision's (or `f` appeared) -/
def linLast : List Commit → FileId → Option Rev
  | [], _ => none
  | c :: older, f =>
    match c.tree.lookup f with
    | none => none
    | some a =>
      match older with
      | [] => some c.id
      | p :: _ => if p.tree.lookup f = some a then linLast older f else some c.id

end BreezyVerif.C02
