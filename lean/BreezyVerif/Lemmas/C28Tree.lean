import BreezyVerif.Model.C28
import BreezyVerif.Lemmas.C28
/-!
C28 — lemmas for the working-tree layer (`Tree` over the guarded `Branch.stepG`)
and for "lock, then unlock again" roll-backs (`took_lock` in `BzrBranch.lock_*`,
`except: self.branch.unlock(); raise` in the working trees).
-/
namespace BreezyVerif.C28

/-! ### lock state without the stale `_token_from_lock` attribute -/

/-- `core` with `_token_from_lock` erased: the attribute is (re)assigned by every first
`lock_write` and never cleared, it is not part of the lock state -/
def LF.lcore (s : LF) : LF := { s.core with tokenFromLock := none }
def Branch.lcore (s : Branch) : Branch := { cf := s.cf.lcore, repo := s.repo.core }
def Tree.lcore (s : Tree) : Tree :=
  { cf := s.cf.lcore, branch := s.branch.lcore, ds := { s.ds with log := [] } }

theorem LF.lcore_of_core {a b : LF} (h : a.core = b.core) : a.lcore = b.lcore := by
  simp only [LF.lcore, h]

theorem Branch.lcore_of_core {a b : Branch} (h : a.core = b.core) : a.lcore = b.lcore := by
  have h1 : a.cf.core = b.cf.core := by
    have := congrArg Branch.cf h
    simpa [Branch.core] using this
  have h2 : a.repo.core = b.repo.core := by
    have := congrArg Branch.repo h
    simpa [Branch.core] using this
  simp only [Branch.lcore, LF.lcore_of_core h1, h2]

theorem LF.lcore_count {a b : LF} (h : a.lcore = b.lcore) : a.count = b.count := by
  have := congrArg LF.count h
  simpa [LF.lcore, LF.core] using this

theorem LF.core_count {a b : LF} (h : a.core = b.core) : a.count = b.count := by
  have := congrArg LF.count h
  simpa [LF.core] using this

theorem Repo.core_depth {a b : Repo} (h : a.core = b.core) : a.depth = b.depth := by
  have h1 : a.wcount = b.wcount := by
    have := congrArg Repo.wcount h
    simpa [Repo.core] using this
  have h2 : a.cf.core = b.cf.core := by
    have := congrArg Repo.cf h
    simpa [Repo.core] using this
  simp only [Repo.depth, h1, LF.core_count h2]

theorem Tree.lcore_parts {a b : Tree} (h : a.lcore = b.lcore) :
    a.cf.count = b.cf.count ∧ a.branch.lcore = b.branch.lcore ∧ a.ds.held = b.ds.held :=
  ⟨LF.lcore_count (by have := congrArg Tree.cf h; simpa [Tree.lcore] using this),
   by have := congrArg Tree.branch h; simpa [Tree.lcore] using this,
   by have := congrArg (fun t => t.ds.held) h; simpa [Tree.lcore] using this⟩

theorem Branch.lcore_counts {a b : Branch} (h : a.lcore = b.lcore) :
    a.cf.count = b.cf.count ∧ a.repo.depth = b.repo.depth :=
  ⟨LF.lcore_count (by have := congrArg Branch.cf h; simpa [Branch.lcore] using this),
   Repo.core_depth (by have := congrArg Branch.repo h; simpa [Branch.lcore] using this)⟩

/-! ### the guarded branch step -/

theorem Branch.stepG_eq (s : Branch) (o : SOp) (hg : ¬ (o = .branch .unlock ∧ s.cf.count = 0)) :
    s.stepG o = s.step o := by
  cases o with
  | repo o => rfl
  | branch o =>
    cases o with
    | lockRead => rfl
    | lockWrite t => rfl
    | unlock =>
      have hc : 0 < s.cf.count := by
        cases hc : s.cf.count with
        | zero => exact absurd ⟨rfl, hc⟩ hg
        | succ n => omega
      have : s.isLocked = true := by simp [Branch.isLocked, LF.isLocked]; omega
      simp [Branch.stepG, Branch.step, this]

theorem Branch.stepG_guard (s : Branch) (hc : s.cf.count = 0) :
    s.stepG (.branch .unlock) = (s, .error .notHeld) := by
  have : s.isLocked = false := by simp [Branch.isLocked, LF.isLocked, hc]
  simp [Branch.stepG, this]

theorem Branch.inv_stepG {s : Branch} (h : s.Inv) (o : SOp) : (s.stepG o).1.Inv := by
  by_cases hg : o = .branch .unlock ∧ s.cf.count = 0
  · rw [hg.1, Branch.stepG_guard s hg.2]; exact h
  · rw [Branch.stepG_eq s o hg]; exact Branch.inv_step h o

/-! ### lock, then unlock again -/

/-- taking a write lock on control files and giving it back restores the lock state -/
theorem LF.lockWrite_unlock_lcore {s s' : LF} (h : s.Inv) {tok t : Option Nat}
    (e : s.lockWrite tok = (s', .ok t)) : ∃ s'', s'.unlock = (s'', .ok none) ∧ s''.lcore = s.lcore := by
  obtain ⟨h1, ht, h2, h3⟩ := h
  unfold LF.lockWrite at e
  split at e
  · next hm =>
    have hc := h2.mp hm
    split at e
    · cases e
    · split at e
      · cases e
      · injection e with e1 _; subst e1
        refine ⟨s, ?_, rfl⟩
        have : s.mode.isNone = false := by
          cases hmm : s.mode with
          | none => simp [hmm] at hm
          | some _ => rfl
        have h1' : s.count + 1 > 1 := by omega
        simp only [LF.unlock, this, Bool.false_eq_true, if_false, h1', if_true]
        cases s; simp
  · next hm =>
    have hmn : s.mode = none := by simpa using hm
    have htn : s.txn = none := by rw [ht]; exact hmn
    have hh : s.phys.held = none := by rw [← h1]; exact hmn
    have hc : s.count = 0 := by
      have : ¬ 0 < s.count := fun h => hm (h2.mpr h)
      omega
    split at e
    · cases e
    · next p t' hp =>
      simp only [htn, Option.isSome_none, Bool.false_eq_true, if_false] at e
      have e1 := (Prod.mk.inj e).1
      refine ⟨s'.unlock.1, ?_, ?_⟩ <;> rw [← e1]
      · simp [LF.unlock]
      · unfold Phys.lockWrite at hp
        cases tok with
        | some tk =>
          simp only at hp
          split at hp
          · injection hp with hp; injection hp with hp1 _; subst hp1
            simp only [LF.unlock, LF.lcore, LF.core, Phys.core, Phys.unlock]
            cases s with
            | mk mode count txn tfl phys =>
              cases phys
              simp_all
          · cases hp
        | none =>
          simp only at hp
          split at hp
          · cases hp
          · next hd =>
            injection hp with hp; injection hp with hp1 _; subst hp1
            simp only [LF.unlock, LF.lcore, LF.core, Phys.core, Phys.unlock]
            cases s with
            | mk mode count txn tfl phys =>
              cases phys
              simp_all

/-- `lock_write(None)` on control files that are already locked: granted, or refused
with `ReadOnlyError` -/
theorem LF.lockWrite_none_locked {s : LF} (h : s.Inv) (hc : 0 < s.count) :
    (∃ s' t, s.lockWrite none = (s', .ok t)) ∨ s.lockWrite none = (s, .error .readOnly) := by
  have hm : s.mode.isSome = true := h.mode_count.mpr hc
  unfold LF.lockWrite
  simp only [hm, if_true]
  split
  · right; rfl
  · left; simp [Phys.validate]

/-- A granted `lock_read` / `lock_write` of a branch followed by `unlock` restores the
lock state of the whole branch/repository stack. -/
theorem Branch.lock_unlock_lcore {s b : Branch} (h : s.Inv) (o : Op) (ho : o ≠ .unlock)
    {t : Option Nat} (e : s.stepG (.branch o) = (b, .ok t)) :
    ∃ b', b.stepG (.branch .unlock) = (b', .ok none) ∧ b'.lcore = s.lcore := by
  have hb : b.Inv := by have := Branch.inv_stepG h (.branch o); rw [e] at this; exact this
  cases o with
  | unlock => exact absurd rfl ho
  | lockRead =>
    simp only [Branch.stepG, Branch.step, Branch.lockRead] at e
    by_cases hl : s.isLocked = true
    · have hc : 0 < s.cf.count := by simp [Branch.isLocked, LF.isLocked] at hl; omega
      simp only [hl, Bool.not_true, Bool.false_eq_true, if_false] at e
      cases hcf : s.cf.lockRead with
      | mk cf' r =>
        rw [hcf] at e
        cases r with
        | error e' => simp [Branch.finishLock] at e
        | ok t' =>
          simp only [Branch.finishLock] at e
          have e1 := (Prod.mk.inj e).1
          obtain ⟨cf'', eu, hcore⟩ := LF.lockRead_unlock_core h.cf hcf
          have hcnt := LF.core_count hcore
          have hl' : b.isLocked = true := by
            rw [← e1]
            obtain ⟨w, ec, hcc, _⟩ := (LF.lockRead_spec h.cf).resolve_left (by intro hx; omega)
            rw [hcf] at ec
            have ecf : cf' = w := (Prod.mk.inj ec).1
            rw [ecf]
            simp [Branch.isLocked, LF.isLocked]; omega
          have hl'' : cf''.isLocked = true := by simp [LF.isLocked]; omega
          refine ⟨{ s with cf := cf'' }, ?_, ?_⟩
          · rw [← e1] at hl' ⊢
            simp only [Branch.stepG, hl', Bool.not_true, Bool.false_eq_true, if_false, Branch.unlock, eu, hl'']
          · simp only [Branch.lcore, LF.lcore_of_core hcore]
    · have hc : s.cf.count = 0 := by simp [Branch.isLocked, LF.isLocked] at hl; omega
      simp only [hl, Bool.not_false, if_true] at e
      cases hrr : s.repo.lockRead with
      | mk repo r =>
        rw [hrr] at e
        cases r with
        | error e' => simp at e
        | ok t' =>
          simp only at e
          obtain ⟨r', eur, hrcore⟩ := Repo.lockRead_unlock_core h.repo hrr
          cases hcf : s.cf.lockRead with
          | mk cf' r2 =>
            rw [hcf] at e
            cases r2 with
            | error e' =>
              simp only [Branch.finishLock, if_true] at e
              cases hu : repo.unlock with
              | mk r3 res => rw [hu] at e; cases res <;> simp at e
            | ok t2 =>
              simp only [Branch.finishLock] at e
              have e1 := (Prod.mk.inj e).1
              obtain ⟨cf'', eu, hcore⟩ := LF.lockRead_unlock_core h.cf hcf
              have hcnt := LF.core_count hcore
              obtain ⟨w, ec, hcc, _⟩ := (LF.lockRead_spec h.cf).resolve_left (by
                intro hx; rw [hx.2.2] at hcf; cases hcf)
              rw [hcf] at ec
              have ecf : cf' = w := (Prod.mk.inj ec).1
              have hl' : cf'.isLocked = true := by rw [ecf]; simp [LF.isLocked]; omega
              have hl'' : cf''.isLocked = false := by simp [LF.isLocked]; omega
              refine ⟨{ cf := cf'', repo := r' }, ?_, ?_⟩
              · rw [← e1]
                simp only [Branch.stepG, Branch.isLocked, hl', Bool.not_true, Bool.false_eq_true, if_false,
                  Branch.unlock, eu, hl'', Bool.not_false, if_true, eur]
              · simp only [Branch.lcore, LF.lcore_of_core hcore, hrcore]
  | lockWrite tok =>
    simp only [Branch.stepG, Branch.step, Branch.lockWrite] at e
    by_cases hl : s.isLocked = true
    · have hc : 0 < s.cf.count := by simp [Branch.isLocked, LF.isLocked] at hl; omega
      simp only [hl, Bool.not_true, Bool.false_eq_true, if_false] at e
      cases hcf : s.cf.lockWrite tok with
      | mk cf' r =>
        rw [hcf] at e
        cases r with
        | error e' => simp [Branch.finishLock] at e
        | ok t' =>
          simp only [Branch.finishLock] at e
          have e1 := (Prod.mk.inj e).1
          obtain ⟨cf'', eu, hcore⟩ := LF.lockWrite_unlock_lcore h.cf hcf
          have hcnt := LF.lcore_count hcore
          have hcc : cf'.count = s.cf.count + 1 := by
            have hm : s.cf.mode.isSome = true := h.cf.mode_count.mpr hc
            unfold LF.lockWrite at hcf
            simp only [hm, if_true] at hcf
            split at hcf
            · cases hcf
            · split at hcf
              · cases hcf
              · have := (Prod.mk.inj hcf).1; rw [← this]
          have hl' : cf'.isLocked = true := by simp [LF.isLocked]; omega
          have hl'' : cf''.isLocked = true := by simp [LF.isLocked]; omega
          refine ⟨{ s with cf := cf'' }, ?_, ?_⟩
          · rw [← e1]
            simp only [Branch.stepG, Branch.isLocked, hl', Bool.not_true, Bool.false_eq_true, if_false,
              Branch.unlock, eu, hl'']
          · simp only [Branch.lcore, hcore]
    · have hc : s.cf.count = 0 := by simp [Branch.isLocked, LF.isLocked] at hl; omega
      simp only [hl, Bool.not_false, if_true] at e
      cases hrr : s.repo.lockWrite none with
      | mk repo r =>
        rw [hrr] at e
        cases r with
        | error e' => simp at e
        | ok t' =>
          simp only at e
          obtain ⟨r', eur, hrcore⟩ := Repo.lockWrite_unlock_core h.repo hrr
          rcases LF.lockWrite_unlocked h.cf hc tok with ⟨e', ew⟩ | ⟨cf', t2, ew, hc1⟩
          · exfalso
            simp only [ew, Branch.finishLock, if_true] at e
            cases hu : repo.unlock with
            | mk r3 res => rw [hu] at e; cases res <;> simp at e
          · rw [ew] at e
            simp only [Branch.finishLock] at e
            have e1 := (Prod.mk.inj e).1
            obtain ⟨cf'', eu, hcore⟩ := LF.lockWrite_unlock_lcore h.cf ew
            have hcnt := LF.lcore_count hcore
            have hl' : cf'.isLocked = true := by simp [LF.isLocked]; omega
            have hl'' : cf''.isLocked = false := by simp [LF.isLocked]; omega
            refine ⟨{ cf := cf'', repo := r' }, ?_, ?_⟩
            · rw [← e1]
              simp only [Branch.stepG, Branch.isLocked, hl', Bool.not_true, Bool.false_eq_true, if_false,
                Branch.unlock, eu, hl'', Bool.not_false, if_true, eur]
            · simp only [Branch.lcore, hcore, hrcore]

/-- `unlock` of a locked branch that holds its repository is granted -/
theorem Branch.unlock_ok {s : Branch} (h : s.Inv) (hcons : s.Consistent) (hc : 0 < s.cf.count) :
    ∃ b, s.stepG (.branch .unlock) = (b, .ok none) ∧ b.cf.count + 1 = s.cf.count := by
  have hl : s.isLocked = true := by simp [Branch.isLocked, LF.isLocked]; omega
  simp only [Branch.stepG, hl, Bool.not_true, Bool.false_eq_true, if_false, Branch.unlock]
  rcases LF.unlock_spec h.cf with ⟨hc0, _⟩ | ⟨_, cf', eu, hcc, _⟩
  · omega
  · rw [eu]
    simp only
    by_cases h1 : 1 ≤ cf'.count
    · have : (!cf'.isLocked) = false := by simp [LF.isLocked, h1]
      simp only [this, Bool.false_eq_true, if_false]
      exact ⟨_, rfl, hcc⟩
    · have : (!cf'.isLocked) = true := by simp [LF.isLocked, h1]
      simp only [this, if_true]
      have hdp : 0 < s.repo.depth := hcons hc
      rcases Repo.unlock_spec h.repo with ⟨hd, _⟩ | ⟨_, er⟩ | ⟨_, _, _, _, _, _, er⟩
      · omega
      · rw [er]; exact ⟨_, rfl, hcc⟩
      · rw [er]; exact ⟨_, rfl, hcc⟩

/-! ### control files: one step -/

theorem LF.step_refused (s : LF) (h : s.Inv) (o : Op) (e : Err)
    (hr : (s.step o).2 = .error e) : (s.step o).1 = s := by
  obtain ⟨h1, ht, h2, h3⟩ := h
  cases o <;> simp only [LF.step, LF.lockRead, LF.lockWrite, LF.unlock] at hr ⊢ <;>
    (repeat' split at hr) <;> simp_all

theorem LF.step_ok_count (s : LF) (h : s.Inv) (o : Op) (t : Option Nat)
    (hr : (s.step o).2 = .ok t) :
    if o = .unlock then (s.step o).1.count + 1 = s.count else (s.step o).1.count = s.count + 1 := by
  cases o with
  | lockRead =>
    rcases LF.lockRead_spec h with ⟨_, _, e⟩ | ⟨s', e, hc, _, _⟩
    · simp only [LF.step, e] at hr; cases hr
    · simp only [LF.step, e, reduceCtorEq, if_false]; exact hc
  | lockWrite tok =>
    obtain ⟨h1, ht, h2, h3⟩ := h
    simp only [LF.step, LF.lockWrite, reduceCtorEq, if_false] at hr ⊢
    (repeat' split at hr) <;> simp_all
  | unlock =>
    rcases LF.unlock_spec h with ⟨_, e⟩ | ⟨_, s', e, hc, _⟩
    · simp only [LF.step, e] at hr; cases hr
    · simp only [LF.step, e, if_true]; exact hc

/-- a granted lock call on control files followed by `unlock` restores their lock state -/
theorem LF.lock_unlock_lcore {s : LF} (h : s.Inv) (o : Op) (ho : o ≠ .unlock) {s' : LF} {t : Option Nat}
    (e : s.step o = (s', .ok t)) : ∃ s'', s'.unlock = (s'', .ok none) ∧ s''.lcore = s.lcore := by
  cases o with
  | unlock => exact absurd rfl ho
  | lockRead =>
    obtain ⟨s'', eu, hc⟩ := LF.lockRead_unlock_core h (s' := s') (t := t) e
    exact ⟨s'', eu, LF.lcore_of_core hc⟩
  | lockWrite tok => exact LF.lockWrite_unlock_lcore h e

/-! ### the tree layer -/

structure Tree.Inv (s : Tree) : Prop where
  cf : s.cf.Inv
  branch : s.branch.Inv
  /-- the dirstate file is locked exactly while the tree is -/
  ds_held : s.ds.held.isSome = true ↔ 0 < s.cf.count
  ds_bal : Balanced s.ds.log s.ds.held.isSome

/-- every tree lock holds a branch lock, and the branch holds its repository (violated
only when a caller unlocks the branch or the repository behind the tree's back) -/
structure Tree.Consistent (s : Tree) : Prop where
  tree : s.cf.count ≤ s.branch.cf.count
  branch : s.branch.Consistent

theorem Tree.inv_init (ext rbT rbB rbR : Bool) (pin : Bool := false) :
    (Tree.init ext rbT rbB rbR pin).Inv :=
  ⟨LF.inv_init ext rbT, Branch.inv_init ext rbB rbR, by simp [Tree.init, LF.init], Balanced.nil⟩

theorem DS.lock_ok {d d' : DS} {m : Mode} (h : d.lock m = .ok d') :
    d'.held = some m ∧ d'.pinned = d.pinned ∧ ∃ e, e ≠ Ev.rel ∧ d'.log = d.log ++ [e] := by
  unfold DS.lock at h
  split at h
  · cases h
  · injection h with h; subst h
    refine ⟨rfl, rfl, _, ?_, rfl⟩
    cases m <;> decide

theorem DS.lock_err {d : DS} {m : Mode} {e : Err} (h : d.lock m = .error e) :
    e = .contention ∧ m = .w ∧ d.pinned = true := by
  unfold DS.lock at h
  split at h
  · next hc =>
    injection h with h
    simp only [Bool.and_eq_true, decide_eq_true_eq] at hc
    exact ⟨h.symm, hc.1, hc.2⟩
  · cases h

theorem Tree.rollbackBranch_inv {s : Tree} (hb : s.branch.Inv) (e : Err) :
    (Tree.rollbackBranch s e).1.branch.Inv ∧ (Tree.rollbackBranch s e).1.cf = s.cf ∧
    (Tree.rollbackBranch s e).1.ds = s.ds := by
  have hu := Branch.inv_stepG hb (.branch .unlock)
  simp only [Tree.rollbackBranch]
  rcases hx : s.branch.stepG (.branch .unlock) with ⟨b, r'⟩
  rw [hx] at hu
  cases r' <;> exact ⟨hu, rfl, rfl⟩

/-- `self` is one of the lock calls on the tree's own control files -/
theorem Tree.lockSelf_inv {s : Tree} (h : s.Inv) (m : Mode) (o : Op) (ho : o ≠ .unlock) :
    (s.lockSelf m (s.cf.step o)).1.Inv := by
  rcases hr : s.cf.step o with ⟨cf, res⟩
  have hcf : cf.Inv := by have := LF.inv_step h.cf o; rw [hr] at this; exact this
  cases res with
  | error e =>
    have hsame : cf = s.cf := by
      have := LF.step_refused s.cf h.cf o e (by rw [hr])
      rw [hr] at this; exact this
    subst hsame
    obtain ⟨h1, h2, h3⟩ := Tree.rollbackBranch_inv (s := { s with cf := s.cf }) h.branch e
    simp only [Tree.lockSelf]
    exact ⟨by rw [h2]; exact h.cf, h1, by rw [h2, h3]; exact h.ds_held, by rw [h3]; exact h.ds_bal⟩
  | ok t =>
    have hcnt : cf.count = s.cf.count + 1 := by
      have := LF.step_ok_count s.cf h.cf o t (by rw [hr])
      rw [hr] at this
      simpa [ho] using this
    simp only [Tree.lockSelf]
    by_cases hh : s.ds.held.isSome = true
    · simp only [hh, if_true]
      exact ⟨hcf, h.branch, ⟨fun _ => by show 0 < cf.count; omega, fun _ => hh⟩, h.ds_bal⟩
    · simp only [hh, Bool.false_eq_true, if_false]
      have hc0 : s.cf.count = 0 := by
        have : ¬ 0 < s.cf.count := fun hp => hh (h.ds_held.mpr hp)
        omega
      have hhn : s.ds.held.isSome = false := by simpa using hh
      cases hd : s.ds.lock m with
      | ok d =>
        obtain ⟨d1, _, e, he, hl⟩ := DS.lock_ok hd
        simp only
        refine ⟨hcf, h.branch, ⟨fun _ => by show 0 < cf.count; omega, fun _ => by simp [d1]⟩, ?_⟩
        simp only [d1, hl, Option.isSome_some]
        have := h.ds_bal
        rw [hhn] at this
        exact this.acquire e he
      | error e =>
        simp only
        obtain ⟨cf2, eu, _⟩ := LF.lock_unlock_lcore h.cf o ho hr
        have hcf2 : cf2.Inv := by have := LF.unlock_inv hcf; rw [eu] at this; exact this
        have hc2 : cf2.count = 0 := by
          rcases LF.unlock_spec hcf with ⟨h0, _⟩ | ⟨_, s', e', hc', _⟩
          · omega
          · rw [eu] at e'; injection e' with e1 _; subst e1; omega
        rw [eu]
        simp only
        obtain ⟨h1, h2, h3⟩ := Tree.rollbackBranch_inv (s := { s with cf := cf2 }) h.branch e
        exact ⟨by rw [h2]; exact hcf2, h1,
          by rw [h2, h3]; simp only; constructor <;> intro hx <;> simp_all,
          by rw [h3]; exact h.ds_bal⟩

theorem Tree.lockVia_inv {s : Tree} (h : s.Inv) (bo : Op) (m : Mode) (o : Op) (ho : o ≠ .unlock) :
    (s.lockVia bo m (fun cf => cf.step o)).1.Inv := by
  have hb := Branch.inv_stepG h.branch (.branch bo)
  simp only [Tree.lockVia]
  rcases hx : s.branch.stepG (.branch bo) with ⟨b, r⟩
  rw [hx] at hb
  cases r with
  | error e => exact ⟨h.cf, hb, h.ds_held, h.ds_bal⟩
  | ok t =>
    exact Tree.lockSelf_inv (s := { s with branch := b }) ⟨h.cf, hb, h.ds_held, h.ds_bal⟩ m o ho

theorem Tree.unlock_inv {s : Tree} (h : s.Inv) : s.unlock.1.Inv := by
  have hu := Branch.inv_stepG h.branch (.branch .unlock)
  simp only [Tree.unlock]
  rcases hy : s.branch.stepG (.branch .unlock) with ⟨b, r'⟩
  rw [hy] at hu
  rcases LF.unlock_spec h.cf with ⟨h0, eu⟩ | ⟨hp, cf', eu, hcc, hi⟩
  · have hne : (s.cf.count = 1 && s.ds.held.isSome) = false := by simp [h0]
    simp only [hne, Bool.false_eq_true, if_false, eu, hy]
    cases r' <;> exact ⟨h.cf, hu, h.ds_held, h.ds_bal⟩
  · have hheld : s.ds.held.isSome = true := h.ds_held.mpr hp
    by_cases h1 : s.cf.count = 1
    · simp only [h1, hheld, Bool.and_self, decide_true, if_true, eu, hy]
      have hb := h.ds_bal
      rw [hheld] at hb
      cases r' <;>
        exact ⟨hi, hu, by simp only [DS.unlock]; constructor <;> intro hx <;> simp_all <;> omega,
          by simp only [DS.unlock, Option.isSome_none]; exact hb.release⟩
    · have hne : (s.cf.count = 1 && s.ds.held.isSome) = false := by simp [h1]
      simp only [hne, Bool.false_eq_true, if_false, eu, hy]
      cases r' <;> exact ⟨hi, hu, ⟨fun _ => by show 0 < cf'.count; omega, fun _ => hheld⟩, h.ds_bal⟩

theorem Tree.inv_step {s : Tree} (h : s.Inv) (o : TOp) : (s.step o).1.Inv := by
  cases o with
  | tree o =>
    cases o with
    | lockRead => exact Tree.lockVia_inv h _ _ .lockRead (by decide)
    | lockTreeWrite => exact Tree.lockVia_inv h _ _ (.lockWrite none) (by decide)
    | lockWrite => exact Tree.lockVia_inv h _ _ (.lockWrite none) (by decide)
    | unlock => exact Tree.unlock_inv h
  | branch o => exact ⟨h.cf, Branch.inv_stepG h.branch (.branch o), h.ds_held, h.ds_bal⟩
  | repo o => exact ⟨h.cf, Branch.inv_stepG h.branch (.repo o), h.ds_held, h.ds_bal⟩

theorem Tree.stepG_eq (s : Tree) (o : TOp) (hg : ¬ (o = .tree .unlock ∧ s.cf.count = 0)) :
    s.stepG o = s.step o := by
  cases o with
  | branch o => rfl
  | repo o => rfl
  | tree o =>
    cases o with
    | lockRead => rfl
    | lockTreeWrite => rfl
    | lockWrite => rfl
    | unlock =>
      have hc : 0 < s.cf.count := by
        cases hc : s.cf.count with
        | zero => exact absurd ⟨rfl, hc⟩ hg
        | succ n => omega
      have : s.isLocked = true := by simp [Tree.isLocked, LF.isLocked]; omega
      simp [Tree.stepG, Tree.step, this]

theorem Tree.stepG_guard (s : Tree) (hc : s.cf.count = 0) :
    s.stepG (.tree .unlock) = (s, .error .notHeld) := by
  have : s.isLocked = false := by simp [Tree.isLocked, LF.isLocked, hc]
  simp [Tree.stepG, this]

theorem Tree.inv_stepG {s : Tree} (h : s.Inv) (o : TOp) : (s.stepG o).1.Inv := by
  by_cases hg : o = .tree .unlock ∧ s.cf.count = 0
  · rw [hg.1, Tree.stepG_guard s hg.2]; exact h
  · rw [Tree.stepG_eq s o hg]; exact Tree.inv_step h o

theorem Tree.inv_run {s : Tree} (h : s.Inv) (ops : List TOp) : (s.run ops).Inv := by
  induction ops generalizing s with
  | nil => exact h
  | cons o ops ih => exact ih (Tree.inv_step h o)

theorem Tree.inv_runG {s : Tree} (h : s.Inv) (ops : List TOp) : (s.runG ops).Inv := by
  induction ops generalizing s with
  | nil => exact h
  | cons o ops ih => exact ih (Tree.inv_stepG h o)

/-! ### what a granted / refused tree call consists of -/

/-- the call a tree operation makes on its own control files -/
def TreeOp.cfOp : TreeOp → Op
  | .lockRead => .lockRead
  | .lockTreeWrite => .lockWrite none
  | .lockWrite => .lockWrite none
  | .unlock => .unlock

/-- the call a tree operation makes on its branch -/
def TreeOp.branchOp : TreeOp → Op
  | .lockRead => .lockRead
  | .lockTreeWrite => .lockRead
  | .lockWrite => .lockWrite none
  | .unlock => .unlock

/-- the mode a tree lock operation takes the dirstate file in -/
def TreeOp.dsMode : TreeOp → Mode
  | .lockRead => .r
  | _ => .w

theorem Branch.stepG_repo (s : Branch) (o : Op) :
    s.stepG (.repo o) = ({ s with repo := (s.repo.step o).1 }, (s.repo.step o).2) := by
  simp only [Branch.stepG, Branch.step]

theorem Tree.rollbackBranch_err (s : Tree) (e : Err) : ∃ e', (Tree.rollbackBranch s e).2 = .error e' := by
  simp only [Tree.rollbackBranch]
  rcases s.branch.stepG (.branch .unlock) with ⟨b, r⟩
  cases r <;> exact ⟨_, rfl⟩

/-- a granted tree lock call: the branch call and the call on the own control files were
granted, the dirstate file was already held or has just been locked -/
theorem Tree.lockVia_ok {s s' : Tree} {bo : Op} {m : Mode} {self : LF → LF × Res} {t : Option Nat}
    (e : s.lockVia bo m self = (s', .ok t)) :
    ∃ tb tc, (s.branch.stepG (.branch bo)).2 = .ok tb ∧ (self s.cf).2 = .ok tc ∧
      s'.cf = (self s.cf).1 ∧ s'.branch = (s.branch.stepG (.branch bo)).1 ∧
      ((s.ds.held.isSome = true ∧ s'.ds = s.ds) ∨
       (s.ds.held.isSome = false ∧ s.ds.lock m = .ok s'.ds)) := by
  simp only [Tree.lockVia] at e
  rcases hb : s.branch.stepG (.branch bo) with ⟨b, rb⟩
  rw [hb] at e
  cases rb with
  | error e' => simp at e
  | ok tb =>
    simp only [Tree.lockSelf] at e
    rcases hc : self s.cf with ⟨cf', rc⟩
    rw [hc] at e
    cases rc with
    | error e' =>
      simp only at e
      obtain ⟨e2, h2⟩ := Tree.rollbackBranch_err { cf := cf', branch := b, ds := s.ds } e'
      have := congrArg Prod.snd e
      simp only at this
      rw [h2] at this; cases this
    | ok tc =>
      simp only at e
      by_cases hh : s.ds.held.isSome = true
      · simp only [hh, if_true] at e
        have e1 := (Prod.mk.inj e).1
        subst e1
        exact ⟨tb, tc, rfl, rfl, rfl, rfl, Or.inl ⟨hh, rfl⟩⟩
      · have hhn : s.ds.held.isSome = false := by simpa using hh
        simp only [hh, Bool.false_eq_true, if_false] at e
        cases hd : s.ds.lock m with
        | ok d =>
          rw [hd] at e
          simp only at e
          have e1 := (Prod.mk.inj e).1
          subst e1
          exact ⟨tb, tc, rfl, rfl, rfl, rfl, Or.inr ⟨hhn, rfl⟩⟩
        | error e' =>
          rw [hd] at e
          simp only at e
          rcases hu : cf'.unlock with ⟨cf2, r2⟩
          rw [hu] at e
          cases r2 with
          | ok t2 =>
            simp only at e
            obtain ⟨e2, h2⟩ := Tree.rollbackBranch_err { cf := cf2, branch := b, ds := s.ds } e'
            have := congrArg Prod.snd e
            simp only at this
            rw [h2] at this; cases this
          | error e3 =>
            simp only at e
            obtain ⟨e2, h2⟩ := Tree.rollbackBranch_err { cf := cf2, branch := b, ds := s.ds } e3
            have := congrArg Prod.snd e
            simp only at this
            rw [h2] at this; cases this

theorem Tree.step_lock_eq (s : Tree) (o : TreeOp) (ho : o ≠ .unlock) :
    s.step (.tree o) = s.lockVia o.branchOp o.dsMode (fun cf => cf.step o.cfOp) := by
  cases o with
  | unlock => exact absurd rfl ho
  | lockRead => rfl
  | lockTreeWrite => rfl
  | lockWrite => rfl

theorem Tree.unlock_state (s : Tree) :
    s.unlock.1.cf = s.cf.unlock.1 ∧ s.unlock.1.branch = (s.branch.stepG (.branch .unlock)).1 ∧
    s.unlock.1.ds = (if s.cf.count = 1 && s.ds.held.isSome then s.ds.unlock else s.ds) := by
  simp only [Tree.unlock]
  by_cases hc : (s.cf.count = 1 && s.ds.held.isSome) = true
  · simp only [hc, if_true]
    rcases s.cf.unlock with ⟨cf, r⟩
    rcases s.branch.stepG (.branch .unlock) with ⟨b, rb⟩
    cases rb <;> exact ⟨rfl, rfl, rfl⟩
  · simp only [hc, Bool.false_eq_true, if_false]
    rcases s.cf.unlock with ⟨cf, r⟩
    rcases s.branch.stepG (.branch .unlock) with ⟨b, rb⟩
    cases rb <;> exact ⟨rfl, rfl, rfl⟩

theorem Tree.unlock_result (s : Tree) :
    s.unlock.2 = (match (s.branch.stepG (.branch .unlock)).2 with
      | .error e' => .error e'
      | .ok _ => s.cf.unlock.2) := by
  simp only [Tree.unlock]
  by_cases hc : (s.cf.count = 1 && s.ds.held.isSome) = true
  · simp only [hc, if_true]
    rcases s.cf.unlock with ⟨cf, r⟩
    rcases s.branch.stepG (.branch .unlock) with ⟨b, rb⟩
    cases rb <;> rfl
  · simp only [hc, Bool.false_eq_true, if_false]
    rcases s.cf.unlock with ⟨cf, r⟩
    rcases s.branch.stepG (.branch .unlock) with ⟨b, rb⟩
    cases rb <;> rfl

theorem Tree.step_ok {s : Tree} (o : TreeOp) {t : Option Nat} (hr : (s.step (.tree o)).2 = .ok t) :
    ∃ tb tc, (s.branch.stepG (.branch o.branchOp)).2 = .ok tb ∧ (s.cf.step o.cfOp).2 = .ok tc ∧
      (s.step (.tree o)).1.cf = (s.cf.step o.cfOp).1 ∧
      (s.step (.tree o)).1.branch = (s.branch.stepG (.branch o.branchOp)).1 := by
  by_cases ho : o = .unlock
  · subst ho
    obtain ⟨h1, h2, _⟩ := Tree.unlock_state s
    have hres := Tree.unlock_result s
    simp only [Tree.step] at hr ⊢
    rw [hres] at hr
    cases hb : (s.branch.stepG (.branch .unlock)).2 with
    | error e' => rw [hb] at hr; cases hr
    | ok tb => rw [hb] at hr; exact ⟨tb, t, hb, hr, h1, h2⟩
  · have e := Tree.step_lock_eq s o ho
    obtain ⟨tb, tc, h1, h2, h3, h4, _⟩ :=
      Tree.lockVia_ok (s := s) (s' := (s.step (.tree o)).1) (t := t) (by rw [← e]; exact Prod.ext rfl hr)
    exact ⟨tb, tc, h1, h2, h3, h4⟩

theorem Tree.rollbackBranch_ok {s1 : Tree} {b' : Branch} (e : Err)
    (eu : s1.branch.stepG (.branch .unlock) = (b', .ok none)) :
    Tree.rollbackBranch s1 e = ({ s1 with branch := b' }, .error e) := by
  simp only [Tree.rollbackBranch, eu]

/-- A refused tree lock call leaves the lock state unchanged, given that the refused
branch call underneath does (`hbr`): a refusal of the tree's own control files gives the
branch lock back; a refusal of the dirstate file gives the control files AND the branch
lock back. -/
theorem Tree.lockVia_refused {s : Tree} (h : s.Inv) (bo : Op) (hbo : bo ≠ .unlock) (m : Mode)
    (o : Op) (ho : o ≠ .unlock)
    (hbr : ∀ e, (s.branch.stepG (.branch bo)).2 = .error e →
      (s.branch.stepG (.branch bo)).1.core = s.branch.core)
    {e : Err} (hr : (s.lockVia bo m (fun cf => cf.step o)).2 = .error e) :
    (s.lockVia bo m (fun cf => cf.step o)).1.lcore = s.lcore := by
  simp only [Tree.lockVia] at hr ⊢
  rcases hb : s.branch.stepG (.branch bo) with ⟨b, rb⟩
  rw [hb] at hr hbr
  cases rb with
  | error e' =>
    simp only [Tree.lcore, Branch.lcore_of_core (hbr e' rfl)]
  | ok tb =>
    obtain ⟨b', eu, hl⟩ := Branch.lock_unlock_lcore h.branch bo hbo hb
    simp only [Tree.lockSelf] at hr ⊢
    rcases hc : s.cf.step o with ⟨cf', rc⟩
    rw [hc] at hr
    cases rc with
    | error e1 =>
      have hcf : cf' = s.cf := by
        have := LF.step_refused s.cf h.cf o e1 (by rw [hc])
        rw [hc] at this; exact this
      simp only [Tree.rollbackBranch_ok (s1 := { cf := cf', branch := b, ds := s.ds }) e1 eu]
      simp only [Tree.lcore, hl, hcf]
    | ok tc =>
      simp only at hr ⊢
      by_cases hh : s.ds.held.isSome = true
      · simp [hh] at hr
      · simp only [hh, Bool.false_eq_true, if_false] at hr ⊢
        cases hd : s.ds.lock m with
        | ok d => rw [hd] at hr; simp at hr
        | error e2 =>
          obtain ⟨cf2, eu2, hl2⟩ := LF.lock_unlock_lcore h.cf o ho hc
          simp only [eu2]
          simp only [Tree.rollbackBranch_ok (s1 := { cf := cf2, branch := b, ds := s.ds }) e2 eu]
          simp only [Tree.lcore, hl, hl2]

/-- the result of a tree lock call whose own control files refuse with `e1` while the
branch call underneath is granted: `e1`, after the roll-back -/
theorem Tree.lockVia_self_refused {s : Tree} (h : s.Inv) (bo : Op) (hbo : bo ≠ .unlock) (m : Mode)
    (self : LF → LF × Res)
    {b : Branch} {tb : Option Nat} (hb : s.branch.stepG (.branch bo) = (b, .ok tb))
    {e1 : Err} (hc : (self s.cf).2 = .error e1) : (s.lockVia bo m self).2 = .error e1 := by
  simp only [Tree.lockVia, hb, Tree.lockSelf]
  rcases hcc : self s.cf with ⟨cf', rc⟩
  rw [hcc] at hc
  simp only at hc
  subst hc
  obtain ⟨b', eu, _⟩ := Branch.lock_unlock_lcore h.branch bo hbo hb
  simp only [Tree.rollbackBranch_ok (s1 := { cf := cf', branch := b, ds := s.ds }) _ eu]

/-- THE DIRSTATE ROLL-BACK.  First write lock of a tree (`lock_write` / `lock_tree_write`)
whose dirstate file is pinned by another reader, branch call and own control files
granted: the call raises `LockContention`; the control files have been locked AND
unlocked again (their physical log grows by exactly `acquire, release`, the lock is not
held, count 0), the branch lock has been given back, the dirstate lock is untouched. -/
theorem Tree.lockVia_ds_refused {s : Tree} (h : s.Inv) (bo : Op) (hbo : bo ≠ .unlock)
    (hc0 : s.cf.count = 0) (hpin : s.ds.pinned = true)
    {b : Branch} {tb : Option Nat} (hb : s.branch.stepG (.branch bo) = (b, .ok tb))
    {cf' : LF} {tc : Option Nat} (hc : s.cf.lockWrite none = (cf', .ok tc)) :
    (s.lockVia bo .w (fun cf => cf.lockWrite none)).2 = .error .contention ∧
    (s.lockVia bo .w (fun cf => cf.lockWrite none)).1.ds = s.ds ∧
    (s.lockVia bo .w (fun cf => cf.lockWrite none)).1.cf.count = 0 ∧
    (s.lockVia bo .w (fun cf => cf.lockWrite none)).1.cf.phys.held = none ∧
    (∃ ev, ev ≠ Ev.rel ∧
      (s.lockVia bo .w (fun cf => cf.lockWrite none)).1.cf.phys.log = s.cf.phys.log ++ [ev] ++ [.rel]) := by
  have hheld : s.ds.held.isSome = false := by
    cases hx : s.ds.held.isSome with
    | false => rfl
    | true => have := h.ds_held.mp hx; omega
  have hd : s.ds.lock .w = .error .contention := by simp [DS.lock, hpin]
  obtain ⟨b', eu, _⟩ := Branch.lock_unlock_lcore h.branch bo hbo hb
  have hcf' : cf'.Inv := by have := LF.lockWrite_inv h.cf none; rw [hc] at this; exact this
  have hcnt : cf'.count = 1 := by
    rcases LF.lockWrite_unlocked h.cf hc0 none with ⟨e', ew⟩ | ⟨s', t', ew, h1⟩
    · rw [ew] at hc; cases hc
    · rw [ew] at hc; injection hc with e1 _; subst e1; exact h1
  -- the edge: the first lock appends one acquire event
  have hacq : ∃ ev, ev ≠ Ev.rel ∧ cf'.phys.log = s.cf.phys.log ++ [ev] := by
    have hmn : s.cf.mode = none := by
      cases hm : s.cf.mode with
      | none => rfl
      | some m => have := h.cf.mode_count.mp (by simp [hm]); omega
    have htn : s.cf.txn = none := by rw [h.cf.txn_mode]; exact hmn
    unfold LF.lockWrite at hc
    simp only [hmn, Option.isSome_none, Bool.false_eq_true, if_false] at hc
    split at hc
    · cases hc
    · next p t hp =>
      obtain ⟨_, ev, hev, hl⟩ := Phys.lockWrite_ok hp
      simp only [htn, Option.isSome_none, Bool.false_eq_true, if_false] at hc
      have e1 := (Prod.mk.inj hc).1
      rw [← e1]
      exact ⟨ev, hev, hl⟩
  -- the last unlock appends the release event
  rcases LF.unlock_spec hcf' with ⟨h0, _⟩ | ⟨_, cf2, eu2, hcc, hi2⟩
  · omega
  · have hrel : cf2.phys.log = cf'.phys.log ++ [.rel] ∧ cf2.phys.held = none := by
      have hm : cf'.mode.isSome = true := hcf'.mode_count.mpr (by omega)
      have hmn : cf'.mode.isNone = false := by
        cases hmm : cf'.mode with
        | none => rw [hmm] at hm; cases hm
        | some _ => rfl
      have htn : cf'.txn.isNone = false := by
        rw [hcf'.txn_mode]; exact hmn
      have hgt : ¬ cf'.count > 1 := by omega
      unfold LF.unlock at eu2
      simp only [hmn, Bool.false_eq_true, if_false, hgt, htn] at eu2
      have e2 := (Prod.mk.inj eu2).1
      rw [← e2]
      exact ⟨rfl, rfl⟩
    obtain ⟨ev, hev, hl⟩ := hacq
    simp only [Tree.lockVia, hb, Tree.lockSelf, hc, hheld, Bool.false_eq_true, if_false, hd, eu2]
    simp only [Tree.rollbackBranch_ok (s1 := { cf := cf2, branch := b, ds := s.ds }) _ eu]
    refine ⟨trivial, trivial, by omega, hrel.2, ev, hev, ?_⟩
    rw [hrel.1, hl]

end BreezyVerif.C28
