import BreezyVerif.Lemmas.C32T
/-
Helper lemmas for the lock-scope session model, part 3: the operation bodies of
the local object and of the remote object (through the wire primitives and the
VFS branch) compute the specification's result and stored state, leave the lock
state alone and keep the caches coherent.
-/
namespace BreezyVerif.C32

theorem specFetch_tip (src : Graph) (st : St) (r : RevId) : (specFetch src st r).tip = st.tip := by
  unfold specFetch; split <;> rfl
theorem specFetch_tags (src : Graph) (st : St) (r : RevId) : (specFetch src st r).tags = st.tags := by
  unfold specFetch; split <;> rfl
theorem specFetch_lock (src : Graph) (st : St) (r : RevId) : (specFetch src st r).lock = st.lock := by
  unfold specFetch; split <;> rfl

/-- the local object's operation bodies: the specification's result and stored state, the lock state
untouched, coherence kept -/
theorem lsBody_spec (src : Graph) (op : SOp) (o : Obj) (st : St) (hc : Coherent o st) (hl : LocalObj o) :
    ((lsBody src op o st).1, (lsBody src op o st).2.2) = specBody src op st
      ∧ (lsBody src op o st).2.1.lk = o.lk
      ∧ Coherent (lsBody src op o st).2.1 (lsBody src op o st).2.2
      ∧ LocalObj (lsBody src op o st).2.1 := by
  obtain ⟨h1, h2, h3, h4, h5⟩ := hc
  obtain ⟨l1, l2, l3⟩ := hl
  cases op with
  | lockW => exact ⟨rfl, rfl, ⟨h1, h2, h3, h4, h5⟩, ⟨l1, l2, l3⟩⟩
  | lockR => exact ⟨rfl, rfl, ⟨h1, h2, h3, h4, h5⟩, ⟨l1, l2, l3⟩⟩
  | unlock => exact ⟨rfl, rfl, ⟨h1, h2, h3, h4, h5⟩, ⟨l1, l2, l3⟩⟩
  | lockTok good => exact ⟨rfl, rfl, ⟨h1, h2, h3, h4, h5⟩, ⟨l1, l2, l3⟩⟩
  | leave => exact ⟨rfl, rfl, ⟨h1, h2, h3, h4, h5⟩, ⟨l1, l2, l3⟩⟩
  | dontLeave => exact ⟨rfl, rfl, ⟨h1, h2, h3, h4, h5⟩, ⟨l1, l2, l3⟩⟩
  | ownerLock => exact ⟨rfl, rfl, ⟨h1, h2, h3, h4, h5⟩, ⟨l1, l2, l3⟩⟩
  | ownerUnlock => exact ⟨rfl, rfl, ⟨h1, h2, h3, h4, h5⟩, ⟨l1, l2, l3⟩⟩
  | tip =>
    simp only [lsBody, specBody]
    rw [cReadTip_coh o.own st h1]
    refine ⟨rfl, rfl, ⟨cacheOK_some _, h2, h3, h4, h5⟩, ⟨l1, l2, l3⟩⟩
  | tagDict =>
    simp only [lsBody, specBody]
    rw [cReadTags_coh o.own st h2]
    refine ⟨rfl, rfl, ⟨h1, cacheOK_some _, h3, h4, h5⟩, ⟨l1, l2, l3⟩⟩
  | tagSet name r =>
    simp only [lsBody, specBody]
    rw [cReadTags_coh o.own st h2]
    refine ⟨rfl, rfl, ⟨h1, cacheOK_some _, ?_, ?_, h5⟩, ⟨l1, l2, l3⟩⟩
    · simp [Obj.setOwn, cSetTags, l2, cacheOK_none]
    · simp [Obj.setOwn, cSetTags, l3, cacheOK_none]
  | setTip n r =>
    simp only [lsBody, specBody]
    split
    · exact ⟨rfl, rfl, ⟨h1, h2, h3, h4, h5⟩, ⟨l1, l2, l3⟩⟩
    · have h1' : cacheOK o.own.tip (specFetch src st r).tip := by rw [specFetch_tip]; exact h1
      rw [cReadTip_coh o.own _ h1']
      refine ⟨rfl, rfl, ⟨cacheOK_some _, cacheOK_none _, ?_, ?_, ?_⟩, ⟨l1, l2, l3⟩⟩
      · simp [Obj.setOwn, cSetTip, l2, cacheOK_none]
      · simp [Obj.setOwn, cSetTip, l3, cacheOK_none]
      · intro hm
        have := h5 hm
        simpa [Obj.setOwn, cSetTip, specFetch_lock] using this
  | pull ow n r stags =>
    simp only [lsBody, specBody]
    obtain ⟨p1, p2, p3⟩ := pullCore_spec src ow n r stags o.own st h1 h2
    refine ⟨p1, rfl, ⟨p2, p3, ?_, ?_, ?_⟩, ⟨l1, l2, l3⟩⟩
    · simp [Obj.setOwn, l2, cacheOK_none]
    · simp [Obj.setOwn, l3, cacheOK_none]
    · intro hm
      have := h5 hm
      have hk : (pullCore src (addRevs src) ow n r stags o.own st).2.2.lock = st.lock := by
        have := congrArg (fun x => x.2.lock) p1
        simp only [] at this
        rw [this, specPull_lock]
      simpa [Obj.setOwn, hk] using this

/-- the tag caches of the client are kept coherent, or the operation brings no source tags and the VFS
branch's tags cache is empty -/
def TagsSafe (v : Variant) (op : SOp) (o : Obj) : Prop :=
  (v.tagsOwn = true ∧ v.tagsReal = true) ∨ (NoSrcTags op ∧ o.realTagsC = none)

theorem rTip_coh (src : Graph) (ex : List RevId) (o : Obj) (st : St) (h : cacheOK o.tipC st.tip) :
    rTip src ex o st = .ok (st.tip, { o with tipC := some st.tip }) := by
  unfold rTip
  rcases h with h | h
  · simp [h, rReadTip_eq]
  · simp only [h]
    congr
    cases o; simp_all

theorem rTags_coh (src : Graph) (ex : List RevId) (o : Obj) (st : St) (h : cacheOK o.tagsC st.tags) :
    rTags src ex o st = .ok (st.tags, { o with tagsC := some st.tags }) := by
  unfold rTags
  rcases h with h | h
  · simp [h, rReadTags_eq]
  · simp only [h]
    congr
    cases o; simp_all

theorem rsBody_spec (v : Variant) (src : Graph) (ex : List RevId) (op : SOp) (o : Obj) (st : St)
    (hc : Coherent o st) (hw : op.needsWrite = true → o.lk.mode = .w) (hv : v.tipCoherent = true)
    (ht : TagsSafe v op o) :
    ((rsBody v src ex op o st).1, (rsBody v src ex op o st).2.2) = specBody src op st
      ∧ (rsBody v src ex op o st).2.1.lk = o.lk
      ∧ Coherent (rsBody v src ex op o st).2.1 (rsBody v src ex op o st).2.2
      ∧ ((v.tagsOwn = true ∧ v.tagsReal = true) ∨ (rsBody v src ex op o st).2.1.realTagsC = none) := by
  obtain ⟨h1, h2, h3, h4, h5⟩ := hc
  have ht' : (v.tagsOwn = true ∧ v.tagsReal = true) ∨ o.realTagsC = none := by
    rcases ht with h | h
    · exact Or.inl h
    · exact Or.inr h.2
  cases op with
  | lockW => exact ⟨rfl, rfl, ⟨h1, h2, h3, h4, h5⟩, ht'⟩
  | lockR => exact ⟨rfl, rfl, ⟨h1, h2, h3, h4, h5⟩, ht'⟩
  | unlock => exact ⟨rfl, rfl, ⟨h1, h2, h3, h4, h5⟩, ht'⟩
  | lockTok good => exact ⟨rfl, rfl, ⟨h1, h2, h3, h4, h5⟩, ht'⟩
  | leave => exact ⟨rfl, rfl, ⟨h1, h2, h3, h4, h5⟩, ht'⟩
  | dontLeave => exact ⟨rfl, rfl, ⟨h1, h2, h3, h4, h5⟩, ht'⟩
  | ownerLock => exact ⟨rfl, rfl, ⟨h1, h2, h3, h4, h5⟩, ht'⟩
  | ownerUnlock => exact ⟨rfl, rfl, ⟨h1, h2, h3, h4, h5⟩, ht'⟩
  | tip =>
    simp only [rsBody, specBody]
    rw [rTip_coh src ex o st h1]
    exact ⟨rfl, rfl, ⟨cacheOK_some _, h2, h3, h4, h5⟩, ht'⟩
  | tagDict =>
    simp only [rsBody, specBody]
    rw [rTags_coh src ex o st h2]
    exact ⟨rfl, rfl, ⟨h1, cacheOK_some _, h3, h4, h5⟩, ht'⟩
  | tagSet name r =>
    obtain ⟨hs, hl⟩ := h5 (hw rfl)
    obtain ⟨t, htk⟩ := Option.isSome_iff_exists.mp hs
    simp only [rsBody, specBody]
    rw [rTags_coh src ex o st h2]
    simp only [htk]
    rw [rWriteTags_eq src st ex t _ (by rw [hl, htk])]
    simp only []
    refine ⟨by first | rfl | trivial, by first | rfl | trivial, ⟨h1, cacheOK_some _, h3, ?_, ?_⟩, ?_⟩
    · rcases ht' with h | h
      · simp [h.2, cacheOK_none]
      · simp [h, cacheOK_none]
    · intro _; exact ⟨by simp [htk], by simpa [htk] using hl⟩
    · rcases ht' with h | h
      · exact Or.inl h
      · right; simp [h]
  | setTip n r =>
    obtain ⟨hs, hl⟩ := h5 (hw rfl)
    obtain ⟨t, htk⟩ := Option.isSome_iff_exists.mp hs
    simp only [rsBody, specBody]
    split
    · exact ⟨rfl, rfl, ⟨h1, h2, h3, h4, h5⟩, ht'⟩
    · have hf : (if r = nullRev then st else rFetch src ex st (fetchRevs src r)) = specFetch src st r := by
        unfold specFetch; rw [rFetch_eq]
      rw [hf]
      have h1' : cacheOK o.tipC (specFetch src st r).tip := by rw [specFetch_tip]; exact h1
      rw [rTip_coh src ex o _ h1']
      simp only [htk]
      rw [rWriteTip_eq src _ ex t n r (by rw [specFetch_lock, hl, htk])]
      simp only [afterSetTip, hv, if_true]
      refine ⟨by first | rfl | trivial, by first | rfl | trivial, ⟨cacheOK_some _, cacheOK_none _, ?_, cacheOK_none _, ?_⟩, Or.inr (by first | rfl | trivial)⟩
      · cases o.real <;> simp [cacheOK]
      · intro _; exact ⟨by simp [htk], by simpa [htk, specFetch_lock] using hl⟩
  | pull ow n r stags =>
    simp only [rsBody, specBody]
    rw [rFetch_eq]
    obtain ⟨p1, p2, p3⟩ := pullCore_spec src ow n r stags { tip := o.realTipC, tags := o.realTagsC } st h3 h4
    have hk : (pullCore src (addRevs src) ow n r stags { tip := o.realTipC, tags := o.realTagsC } st).2.2.lock = st.lock := by
      have := congrArg (fun x => x.2.lock) p1
      simp only [] at this
      rw [this, specPull_lock]
    refine ⟨p1, by first | rfl | trivial, ⟨cacheOK_none _, ?_, p2, p3, ?_⟩, ?_⟩
    · rcases ht with h | h
      · simp [h.1, cacheOK_none]
      · have hn : stags = [] := h.1
        subst hn
        have hg : (pullCore src (addRevs src) ow n r [] { tip := o.realTipC, tags := o.realTagsC } st).2.2.tags = st.tags := by
          have := congrArg (fun x => x.2.tags) p1
          simp only [] at this
          rw [this, specPull_nil_tags]
        cases v.tagsOwn
        · simpa [hg] using h2
        · simp [cacheOK_none]
    · intro hm
      have := h5 hm
      simpa [hk] using this
    · rcases ht with h | h
      · exact Or.inl h
      · right
        have hn : stags = [] := h.1
        subst hn
        exact pullCore_nil_tagsC src (addRevs src) ow n r _ st h.2

end BreezyVerif.C32
