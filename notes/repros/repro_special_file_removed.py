"""C43 finding: `.bzrignore` / `.bzrignore-upload` removed (or renamed) after a full upload.
upload_full_tree never copies these two files; upload_tree treats them like any file.  Removing one of them
in a later revision makes the incremental upload delete a remote file that was never created:
NoSuchFile, the upload aborts and nothing of that revision reaches the remote.
Run:  cd /verif && [VERIF_REPO=<tree>] /venv/bin/python /var/tmp/imp-C43C44/c43/repro_special_file_removed.py
(exit 1 = defect present for the removal case; the rename case is printed too)"""
import io, os, sys
sys.path.insert(0, "/verif/harness")
from vlib import env
env.boot()
from breezy import transport as T
from breezy.plugins.upload.cmds import BzrUploader


def up(wt, t, rid):
    tree = wt.branch.repository.revision_tree(rid)
    try:
        BzrUploader(wt.branch, t, io.StringIO(), tree, rid, quiet=True).upload_tree()
        return "ok"
    except Exception as e:
        return type(e).__name__


bad = 0
for name in (".bzrignore-upload", ".bzrignore"):
    for how in ("rm", "mv"):
        wt = env.make_tree("2a"); r = wt.basedir
        open(r + "/" + name, "w").write("x\n"); open(r + "/a", "w").write("1\n")
        wt.smart_add([r]); r1 = wt.commit("1")
        remote = env.fresh_dir("p"); t = T.get_transport(remote)
        first = up(wt, t, r1)                      # no marker: full upload, skips the special file
        if how == "rm":
            wt.remove([name], keep_files=False, force=True)
        else:
            wt.rename_one(name, "b")
        open(r + "/a", "w").write("2\n")
        r2 = wt.commit("2")
        second = up(wt, t, r2)
        a = open(os.path.join(remote, "a")).read()
        print("%-18s %s: first upload %s, second upload %s, remote a = %r (tree: '2\\n')" % (name, how, first, second, a))
        if how == "rm" and (second != "ok" or a != "2\n"):
            bad = 1
sys.exit(bad)
