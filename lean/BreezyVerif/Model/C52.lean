import BreezyVerif.Common
/-
C52 — reconfiguration and format conversion of a location.

Model of `breezy/reconfigure.py`:

* `Reconfigure.__init__`: what is found at the control directory — a working
  tree or not, a local branch (bound or not) or a branch reference, the
  repository `find_repository` reaches (inside the control dir, a shared one
  above it, or none);
* `_plan_changes(want_tree, want_branch, want_bound, want_reference)` and
  `_set_use_shared`: the literal flag computation (`plan`, `planShared`);
* the `to_*` factories (`Already…` when nothing is planned), `_check`
  (UncommittedChanges, UnsyncedBranches), `_select_bind_location`
  (NoBindLocation) and `apply` in its real order — a failure in the middle of
  `apply` leaves the steps before it done (`reconfigure` returns the state
  reached together with the error);
* what `apply` does to the observation: replacing the local branch by a
  reference to the branch at the bind location makes THAT branch's tip and
  history the location's (`stBranch`; `_check` refuses it when the tips differ,
  `force` skips `_check`), and merges the local tags into it
  (`Tags.merge_to` = `_reconcile_tags` without overwrite: `mergeTo`);

and of `breezy/upgrade.py: Convert.convert` + `breezy/bzr/bzrdir.py:
ConvertMetaToMeta.convert` + the branch / working tree converters
(`Converter5to6`, `6to7`, `7to8`, `Converter3to4`, `4to5`, `4or5to6`): which
converters run, in which order and in how many passes (`upgradePass`,
`upgrade`), and what each does to the data the observation is read from
(`UBranch`, `UTree`).

The observation of a location (`Obs`): branch tip, the history behind it
(revision → testament map, abstracted to a code), the tag dictionary and the
working tree state (content code + "has pending changes"), or no tree.
-/
namespace BreezyVerif.C52

inductive BK where
  /-- a branch in this control directory, not bound -/
  | unbound
  /-- a branch in this control directory, bound to a master -/
  | bound
  /-- a branch reference (lightweight checkout) -/
  | reference
  deriving DecidableEq, Repr

inductive RK where
  | none
  /-- repository inside this control directory -/
  | own
  /-- a shared repository in a containing directory -/
  | shared
  deriving DecidableEq, Repr

/-- a tag dictionary: (name, revision) pairs, the first pair of a name counts -/
abbrev Tags := List (Nat × Nat)

def lookupTag : Tags → Nat → Option Nat
  | [], _ => none
  | (k, v) :: rest, n => if k == n then some v else lookupTag rest n

/-- `_reconcile_tags(source, dest, overwrite=False)`: the destination keeps its
definitions; names only the source has are added; a name with two different
definitions is a conflict and keeps the destination's -/
def mergeTo : Tags → Tags → Tags
  | [], dest => dest
  | (k, v) :: rest, dest =>
    match lookupTag dest k with
    | some _ => mergeTo rest dest
    | none => mergeTo rest (dest ++ [(k, v)])

/-- does some tag name have two different definitions in `a` and `b` -/
def hasConflict (a b : Tags) : Bool :=
  a.any fun p => match lookupTag a p.1, lookupTag b p.1 with
    | some v, some w => v != w
    | _, _ => false

/-- which of the two behaviours of the code under test is modelled (probed on the code by the harness):
`tagCheck` = `_check` also refuses to replace the branch by a reference when the two tag dictionaries conflict
(the unchanged code does not: the local definition is dropped silently, see `tag_conflict_witness`) -/
structure Variant where
  tagCheck : Bool
  deriving DecidableEq, Repr

structure Loc where
  tree : Bool
  /-- the working tree has pending changes (meaningful when `tree`) -/
  dirty : Bool
  branch : BK
  repo : RK
  /-- a shared repository exists above this control directory -/
  sharedAbove : Bool
  /-- `_select_bind_location` finds a location (bound / old bound / push / parent location, or the referenced branch) -/
  bindKnown : Bool
  format : Nat
  tip : Nat
  hist : Nat
  tags : Tags
  treeCode : Nat
  /-- tip, history and tags of the branch at the bind location (meaningful when `bindKnown`) -/
  refTip : Nat
  refHist : Nat
  refTags : Tags
  deriving DecidableEq, Repr

/-- `reference_branch.last_revision() == self.local_branch.last_revision()` -/
def Loc.synced (l : Loc) : Bool := l.refTip == l.tip

/-- content code of the clean tree of a revision -/
def cleanCode (tip : Nat) : Nat := 2 * tip + 1

structure Obs where
  tip : Nat
  hist : Nat
  tags : Tags
  tree : Option (Nat × Bool)
  deriving DecidableEq, Repr

def obs (l : Loc) : Obs := ⟨l.tip, l.hist, l.tags, if l.tree then some (l.treeCode, l.dirty) else none⟩

structure Flags where
  unbind : Bool := false
  bind : Bool := false
  destroyReference : Bool := false
  createReference : Bool := false
  destroyBranch : Bool := false
  createBranch : Bool := false
  destroyTree : Bool := false
  createTree : Bool := false
  createRepository : Bool := false
  destroyRepository : Bool := false
  deriving DecidableEq, Repr

inductive Err where
  | already
  | notSupported
  | uncommittedChanges
  | unsyncedBranches
  | noBindLocation
  /-- `to_use_shared` without a shared repository above: opening the containing control dir fails -/
  | noSharedRepository
  deriving DecidableEq, Repr

/-- `_plan_changes` -/
def plan (l : Loc) (wantTree wantBranch wantBound wantReference : Bool) : Except Err Flags :=
  if !wantBranch && !wantReference then .error .notSupported
  else if wantBranch && wantReference then .error .notSupported
  else
    let isRef := l.branch == .reference
    .ok {
      createRepository := l.repo == .none && !wantReference
      destroyRepository := l.repo == .own && wantReference
      createReference := !isRef && wantReference
      destroyBranch := !isRef && wantReference
      destroyReference := isRef && !wantReference
      createBranch := isRef && wantBranch
      bind := (isRef && wantBranch && wantBound) || (l.branch == .unbound && wantBound)
      unbind := l.branch == .bound && !wantBound
      destroyTree := !wantTree && l.tree
      createTree := wantTree && !l.tree }

/-- `_set_use_shared` -/
def planShared (l : Loc) (useShared : Bool) : Flags :=
  if useShared then { destroyRepository := l.repo == .own }
  else { createRepository := l.repo != .own }

/-- `changes_planned` (note: `_destroy_branch` is not consulted) -/
def Flags.any (f : Flags) : Bool :=
  f.unbind || f.bind || f.destroyTree || f.createTree || f.destroyReference || f.createBranch ||
  f.createRepository || f.createReference || f.destroyRepository

inductive Target where
  | branch | tree | checkout | lightweightCheckout | standalone | useShared
  deriving DecidableEq, Repr

/-- the `to_*` factory -/
def factory (l : Loc) : Target → Except Err Flags
  | .branch => plan l false true false false
  | .tree => plan l true true false false
  | .checkout => plan l true true true false
  | .lightweightCheckout => plan l true false false true
  | .standalone => .ok (planShared l false)
  | .useShared => .ok (planShared l true)

/-- `destroy_workingtree` / `create_workingtree` (the new tree is the clean tree of the tip) -/
def stTree (f : Flags) (l : Loc) : Loc :=
  if f.destroyTree then { l with tree := false, dirty := false }
  else if f.createTree then { l with tree := true, dirty := false, treeCode := cleanCode l.tip }
  else l

/-- `create_repository` (+ fetch of the branch's history) -/
def stRepo (f : Flags) (l : Loc) : Loc := if f.createRepository then { l with repo := .own } else l

/-- `local_branch.tags.merge_to(reference_branch.tags)` + `destroy_branch` +
`set_branch_reference(reference_branch)`: from now on the location shows the
referenced branch — its tip, its history, its (merged) tags;
or `destroy_branch` (reference) + `create_branch` + `set_last_revision_info` +
`referenced_branch.tags.merge_to(local_branch.tags)`: the new branch is a copy
of what the reference showed -/
def stBranch (f : Flags) (l : Loc) : Loc :=
  if f.createReference then
    { l with branch := .reference, bindKnown := true, tip := l.refTip, hist := l.refHist,
             tags := mergeTo l.tags l.refTags, refTags := mergeTo l.tags l.refTags }
  else if f.createBranch then { l with branch := .unbound, bindKnown := false }
  else l

/-- `unbind` (unbinding the branch object that `destroy_branch` has just removed changes nothing) -/
def stUnbind (f : Flags) (l : Loc) : Loc :=
  if f.unbind && !f.destroyBranch then { l with branch := .unbound, bindKnown := true } else l

def stBind (f : Flags) (l : Loc) : Loc := if f.bind then { l with branch := .bound, bindKnown := true } else l

/-- `destroy_repository`: afterwards `find_repository` reaches the shared repository above, if any -/
def stDropRepo (f : Flags) (above : Bool) (l : Loc) : Loc :=
  if f.destroyRepository then { l with repo := if above then .shared else .none } else l

/-- `apply`: the state reached, and the error that stopped it (if any) -/
def applyFlags (v : Variant) (l : Loc) (f : Flags) (force : Bool) : Loc × Option Err :=
  -- _check
  if !force && f.destroyTree && l.dirty then (l, some .uncommittedChanges)
  else if !force && f.createReference && l.branch != .reference && !l.bindKnown then (l, some .noBindLocation)
  else if !force && f.createReference && l.branch != .reference && !l.synced then (l, some .unsyncedBranches)
  else if !force && v.tagCheck && f.createReference && l.branch != .reference && hasConflict l.tags l.refTags then
    (l, some .unsyncedBranches)
  -- reference_branch = Branch.open(_select_bind_location())
  else if f.createReference && !l.bindKnown then (stRepo f l, some .noBindLocation)
  -- destroy_repository, part 1: where do the revisions go
  else if f.destroyRepository && !f.createReference && l.branch != .reference && !l.sharedAbove then
    (stRepo f l, some .noSharedRepository)
  else if f.bind && !l.bindKnown then
    (stUnbind f (stTree f (stBranch f (stRepo f l))), some .noBindLocation)
  else
    (stDropRepo f l.sharedAbove (stBind f (stUnbind f (stTree f (stBranch f (stRepo f l))))), none)

/-- factory + apply -/
def reconfigure (v : Variant) (t : Target) (force : Bool) (l : Loc) : Loc × Option Err :=
  match factory l t with
  | .error e => (l, some e)
  | .ok f => if f.any then applyFlags v l f force else (l, some .already)

/-- a sequence of reconfigurations, each started whatever the outcome of the previous one -/
def runAll (v : Variant) (force : Bool) : List Target → Loc → Loc
  | [], l => l
  | t :: ts, l => runAll v force ts (reconfigure v t force l).1

/-- the layout a `to_*` factory stands for (= the factory plans no change) -/
def layoutIs : Target → Loc → Bool
  | .branch, l => !l.tree && l.branch == .unbound && l.repo != .none
  | .tree, l => l.tree && l.branch == .unbound && l.repo != .none
  | .checkout, l => l.tree && l.branch == .bound && l.repo != .none
  | .lightweightCheckout, l => l.tree && l.branch == .reference && l.repo != .own
  | .standalone, l => l.repo == .own
  | .useShared, l => l.repo != .own

/-! ## format upgrade -/

/-- the converters `ConvertMetaToMeta.convert` can run -/
inductive Step where
  | repoCopy | b5to6 | b6to7 | b7to8 | t3to4 | t4to5 | t4or5to6
  deriving DecidableEq, Repr

/-- the branch data the observation is read from.  Format 5 keeps the whole
mainline in `revision-history`; format 6 and later keep `last-revision`
= (revno, revision) and a tag dictionary; 7 adds the stacked-on location, 8 the
reference table.  Revision 0 is `null:`. -/
structure UBranch where
  fmt : Nat
  revHistory : List Nat
  lastRev : Nat × Nat
  parent : Option Nat
  bound : Option Nat
  push : Option Nat
  tags : Tags
  deriving DecidableEq, Repr

/-- `last_revision_info()`: format 5 = (len(history), history[-1] or null:), later = the `last-revision` file -/
def UBranch.info (b : UBranch) : Nat × Nat :=
  if b.fmt == 5 then
    match b.revHistory.getLast? with
    | none => (0, 0)
    | some r => (b.revHistory.length, r)
  else b.lastRev

/-- format 5 has no tag support: its tag dictionary reads as empty -/
def UBranch.tagsSeen (b : UBranch) : Tags := if b.fmt == 5 then [] else b.tags

/-- the working tree data: format 3 keeps `last-revision` + `pending-merges`
files and an XML inventory, formats 4-6 a dirstate whose header holds the
parent list.  `inv` is the inventory + content code. -/
structure UTree where
  fmt : Nat
  lastRevision : Nat
  pendingMerges : List Nat
  dsParents : List Nat
  inv : Nat
  deriving DecidableEq, Repr

/-- `get_parent_ids()` -/
def UTree.parents (t : UTree) : List Nat :=
  if t.fmt == 3 then (if t.lastRevision == 0 then [] else [t.lastRevision]) ++ t.pendingMerges
  else t.dsParents

structure ULoc where
  /-- repository format class (none: no repository in this control directory) -/
  repo : Option Nat
  /-- revisions in the repository (code; `CopyConverter` fetches all of them) -/
  revs : Nat
  branch : Option UBranch
  tree : Option UTree
  deriving DecidableEq, Repr

/-- target component formats of a metadir format (`default` = 2a: repository 2a, branch 7, tree 6) -/
structure UTarget where
  repo : Nat
  branch : Nat
  tree : Nat
  deriving DecidableEq, Repr

inductive UErr where
  | upToDate
  | badConversionTarget
  deriving DecidableEq, Repr

/-- `Converter5to6.convert`, `Converter6to7.convert`, `Converter7to8.convert` -/
def stepBranch (s : Step) (b : UBranch) : UBranch :=
  match s with
  | .b5to6 => { b with fmt := 6, lastRev := b.info, tags := [], revHistory := [] }
  | .b6to7 => { b with fmt := 7 }
  | .b7to8 => { b with fmt := 8 }
  | _ => b

/-- which branch converter the `while old != new` loop picks -/
def branchStep (old new : Nat) : Option Step :=
  if old == 5 && (new == 6 || new == 7 || new == 8) then some .b5to6
  else if old == 6 && (new == 7 || new == 8) then some .b6to7
  else if old == 7 && new == 8 then some .b7to8
  else none

/-- the `while old != new` loop of `ConvertMetaToMeta.convert` (fuel: each converter raises the format by one) -/
def branchLoop : Nat → Nat → UBranch → Except UErr (UBranch × List Step)
  | 0, new, b => if b.fmt == new then .ok (b, []) else .error .badConversionTarget
  | fuel + 1, new, b =>
    if b.fmt == new then .ok (b, [])
    else match branchStep b.fmt new with
      | none => .error .badConversionTarget
      | some s =>
        match branchLoop fuel new (stepBranch s b) with
        | .error e => .error e
        | .ok (b', ss) => .ok (b', s :: ss)

/-- `Converter3to4.convert` (`DirState.from_tree`: the parents are `get_parent_ids()`), `4to5`, `4or5to6` (format marker) -/
def stepTree (s : Step) (t : UTree) : UTree :=
  match s with
  | .t3to4 => { t with fmt := 4, dsParents := t.parents, lastRevision := 0, pendingMerges := [] }
  | .t4to5 => { t with fmt := 5 }
  | .t4or5to6 => { t with fmt := 6 }
  | _ => t

/-- the three `if isinstance(tree, …)` tests: all of them look at the tree
object opened BEFORE any converter ran (it is not re-opened), so a format 3
tree gets `3to4` only in this pass -/
def treeSteps (old target : Nat) : List Step :=
  let dirstateTarget := target == 4 || target == 5 || target == 6
  let isDirstate := old == 4 || old == 5 || old == 6
  (if old == 3 && dirstateTarget then [Step.t3to4] else []) ++
  (if isDirstate && old != 5 && target == 5 then [Step.t4to5] else []) ++
  (if isDirstate && old != 6 && target == 6 then [Step.t4or5to6] else [])

/-- `CopyConverter` when the repository in this control directory is not of the target's class -/
def passRepo (tg : UTarget) (u : ULoc) : ULoc × List Step :=
  match u.repo with
  | some r => if r == tg.repo then (u, []) else ({ u with repo := some tg.repo }, [Step.repoCopy])
  | none => (u, [])

def passBranch (tg : UTarget) : Option UBranch → Except UErr (Option UBranch × List Step)
  | none => .ok (none, [])
  | some b =>
    match branchLoop 3 tg.branch b with
    | .ok (b', ss) => .ok (some b', ss)
    | .error e => .error e

def passTree (tg : UTarget) : Option UTree → Option UTree × List Step
  | none => (none, [])
  | some t => (some ((treeSteps t.fmt tg.tree).foldl (fun t s => stepTree s t) t), treeSteps t.fmt tg.tree)

/-- one `ConvertMetaToMeta.convert`: repository, then the branch loop, then the tree; an
error in the branch loop leaves the repository converted -/
def upgradePass (tg : UTarget) (u : ULoc) : ULoc × List Step × Option UErr :=
  match passBranch tg (passRepo tg u).1.branch with
  | .error e => ((passRepo tg u).1, (passRepo tg u).2, some e)
  | .ok (b', s2) =>
    ({ (passRepo tg u).1 with branch := b', tree := (passTree tg (passRepo tg u).1.tree).1 },
     (passRepo tg u).2 ++ s2 ++ (passTree tg (passRepo tg u).1.tree).2, none)

/-- `needs_format_conversion` (the control directory format itself is the same metadir format) -/
def needsConversion (tg : UTarget) (u : ULoc) : Bool :=
  (match u.repo with | some r => r != tg.repo | none => false) ||
  (match u.branch with | some b => b.fmt != tg.branch | none => false) ||
  (match u.tree with | some t => t.fmt != tg.tree | none => false)

/-- `while self.controldir.needs_format_conversion(format): converter.convert(...)` -/
def upgradeLoop : Nat → UTarget → ULoc → ULoc × List (List Step) × Option UErr
  | 0, _, u => (u, [], none)
  | fuel + 1, tg, u =>
    if !needsConversion tg u then (u, [], none)
    else match upgradePass tg u with
      | (u', ss, some e) => (u', [ss], some e)
      | (u', ss, none) =>
        let r := upgradeLoop fuel tg u'
        (r.1, ss :: r.2.1, r.2.2)

/-- `Convert.convert`: UpToDateFormat when nothing needs converting -/
def upgrade (tg : UTarget) (u : ULoc) : ULoc × List (List Step) × Option UErr :=
  if !needsConversion tg u then (u, [], some .upToDate) else upgradeLoop 4 tg u

/-- what is observed of an upgraded location -/
structure UObs where
  info : Option (Nat × Nat)
  tags : Option Tags
  locations : Option (Option Nat × Option Nat × Option Nat)
  treeParents : Option (List Nat)
  treeInv : Option Nat
  revs : Nat
  deriving DecidableEq, Repr

def uobs (u : ULoc) : UObs :=
  ⟨u.branch.map (·.info), u.branch.map (·.tagsSeen),
   u.branch.map (fun b => (b.parent, b.bound, b.push)),
   u.tree.map (·.parents), u.tree.map (·.inv), u.revs⟩

end BreezyVerif.C52
