"""C44 finding: a committer that is an email in angle brackets with no name (`<joe@example.com>`)
comes back from fast-export | fast-import as ` <joe@example.com>` (leading blank):
CommitHandler._format_name_email writes f"{name} <{email}>" for an empty name.
Run:  cd /verif && [VERIF_REPO=<tree>] /venv/bin/python /var/tmp/imp-C43C44/c44/repro_committer_email_only.py  (exit 1 = defect)"""
import os, sys
sys.path.insert(0, "/verif/harness")
from vlib import env
env.boot()
from checks import c44
from breezy.branch import Branch
who = "<joe@example.com>"
wt = env.make_tree("2a")
open(wt.basedir + "/a", "w").write("1\n"); wt.smart_add([wt.basedir])
wt.commit("m", committer=who, rev_id=b"r1")
stream, _ex = c44.do_export(wt.branch)
d, _proc = c44.do_import(stream)
nb = Branch.open(os.path.join(d, "trunk"))
got = nb.repository.get_revision(nb.last_revision()).committer
print("exported committer %r, imported committer %r" % (who, got))
sys.exit(0 if got == who else 1)
