import BreezyVerif.Common
import BreezyVerif.Model.C35
import BreezyVerif.Model.C35Y
/-
C35 driver.  Byte strings are hex (`-` = empty), `~` = None.

tree   = comma-separated prefix token stream of the root's children:
           `<n>` then n times `<name> <node>`
         node = `F,<fid>,<rev>,<content>,<T|F>,<um>` | `L,<fid>,<rev>,<target>,<um>` | `D,<n>,…children…`
cache  = `<fid>:<rev>:<sha>` joined by `;` (`-` = empty)
store  = `<sha>=B:<data>` | `<sha>=T:<mode>/<name>/<sha>+…` (`T:` alone = empty tree) joined by `;`

requests
  exp <tree>                                   → `<root sha> <path=sha;…>` (paths sorted; `.` = root)
  incr <cache> <base tree|~> <base sha|~> <others: trees joined by `|`, `-` = none> <tree> → `<root sha>`
  imp <store> <root sha> <fuel>                → `<dump>` | `none`
  rt <tree>                                    → `<dump of import(export)>` `<dump of canon>`
  mode <m>                                     → `<mode_kind> <import class> <unusual ~|m> <exec T|F> <re-exported mode>`
  omode <f|d|l|t> <T|F>                        → `<object_mode>`
  hist <rev>|<rev>|…                           → `<root sha>;<root sha>;…` (one per revision, `runHist` from the empty state)
         rev = `<parents: positions joined by `.`, `-` = none>!<evicted keys `<fid>:<rev>` joined by `.`, `-` = none>!<tree>`
  incrstat <cache> <base tree|~> <base sha|~> <others> <tree> → `<tag>=<n>;…` which branch of the incremental
         conversion every leaf took (new, reuse-hit, reuse-miss, unch-hit, unch-miss, link-new) and `pointless=0|1`
  reexp <store> <root sha> <fuel>              → `<expRootP of the import> <expRoot of nativeOfL of the import> <gitTreeOK T|F>` | `none`
  impn <store> <root sha> <fuel>               → native form of the import: `<path>|f|<content>|<T|F>|<um>` / `<path>|l|<target>|<um>` / `<path>|d` | `none`
  items <tree>                                 → `<items of the tree> <items of canonRoot>`; item = `<path>|<f|l|d>|<data>|<T|F>`, sorted
  yield <variant> <cache> <base ftree|~> <others: ftrees joined by `|`, `-` = none> <ftree>
  incrf <variant> <cache> <base ftree|~> <base sha|~> <others ftrees> <ftree>  → `<recordedRoot of the code variant> <incrRoot>`
  histf <variant> <frev>|<frev>|…               → `<roots by runHistF of the code variant> <roots by runHist>`; frev as rev with an ftree
variant = two digits: `<fixBanned><fixRen>` (which of the two repairs about `.git` names the code under test has)
         → `<path=sha;… of every yielded object, sorted> <T|F: objsRoot ⊆ yielded ∪ objects of the parents>`
ftree  = `<root fid>,<n>,` then n times `<name> <fnode>`; fnode = `F,<fid>,<rev>,<content>,<T|F>` | `L,<fid>,<rev>,<target>` | `D,<fid>,<n>,…`
dump   = `<path>|f|<content>|<mode>` / `<path>|l|<target>|<mode>` / `<path>|d` joined by `;`, sorted
-/
namespace BreezyVerif.C35

def optNatTok (s : String) : Option (Option Nat) := optNat s

/-- parse one node from a token list; returns the node and the remaining tokens -/
def parseNodeF : Nat → List String → Option (Node × List String)
  | 0, _ => none
  | f + 1, toks =>
    match toks with
    | "F" :: fid :: rev :: c :: x :: um :: rest => do
      let fid ← fromHex fid
      let rev ← fromHex rev
      let c ← fromHex c
      let x ← parseBool x
      let um ← optNatTok um
      pure (.file ⟨fid, rev⟩ c x um, rest)
    | "L" :: fid :: rev :: t :: um :: rest => do
      let fid ← fromHex fid
      let rev ← fromHex rev
      let t ← fromHex t
      let um ← optNatTok um
      pure (.link ⟨fid, rev⟩ t um, rest)
    | "D" :: n :: rest => do
      let n ← n.toNat?
      let (cs, rest) ← parseChildrenF f n rest
      pure (.dir cs, rest)
    | _ => none
where
  parseChildrenF : Nat → Nat → List String → Option (Children × List String)
    | _, 0, toks => some (.nil, toks)
    | 0, _ + 1, _ => none
    | f + 1, n + 1, toks =>
      match toks with
      | name :: rest => do
        let name ← fromHex name
        let (nd, rest) ← parseNodeF f rest
        let (cs, rest) ← parseChildrenF f n rest
        pure (.cons name nd cs, rest)
      | [] => none

def parseTree (s : String) : Option Children :=
  let toks := s.splitOn ","
  match toks with
  | n :: rest =>
    match n.toNat? with
    | some n =>
      match parseNodeF.parseChildrenF (toks.length + 1) n rest with
      | some (cs, []) => some cs
      | _ => none
    | none => none
  | [] => none

def showPath (p : Path) : String :=
  if p.isEmpty then "." else "/".intercalate (p.map toHex)

def sortStrings (l : List String) : List String := l.mergeSort (fun a b => decide (a ≤ b))

def joinSemi (l : List String) : String := if l.isEmpty then "-" else ";".intercalate l

def parseCache (s : String) : Option Cache :=
  if s == "-" then some [] else
  (s.splitOn ";").mapM fun e =>
    match e.splitOn ":" with
    | [f, r, h] => do pure (⟨← fromHex f, ← fromHex r⟩, ← fromHex h)
    | _ => none

def parseEntryTok (s : String) : Option Entry :=
  match s.splitOn "/" with
  | [m, n, h] => do pure ⟨← m.toNat?, ← fromHex n, ← fromHex h⟩
  | _ => none

def parseObj (s : String) : Option GObj :=
  if s.startsWith "B:" then (fromHex (s.drop 2).toString).map GObj.blob
  else if s == "T:" then some (.tree [])
  else if s.startsWith "T:" then (((s.drop 2).toString.splitOn "+").mapM parseEntryTok).map GObj.tree
  else none

def parseStore (s : String) : Option Store :=
  if s == "-" then some [] else
  (s.splitOn ";").mapM fun e =>
    match e.splitOn "=" with
    | [h, o] => do pure (← fromHex h, ← parseObj o)
    | _ => none

mutual
def dumpP (pre : Path) : PNode → List String
  | .file c m => [s!"{showPath pre}|f|{toHex c}|{m}"]
  | .link t m => [s!"{showPath pre}|l|{toHex t}|{m}"]
  | .dir cs => s!"{showPath pre}|d" :: dumpPL pre cs
def dumpPL (pre : Path) : List (Bytes × PNode) → List String
  | [] => []
  | (n, p) :: rest => dumpP (pre ++ [n]) p ++ dumpPL pre rest
end

def showDump (cs : List (Bytes × PNode)) : String := joinSemi (sortStrings (dumpPL [] cs))

def parseTrees (s : String) : Option (List Children) :=
  if s == "-" then some [] else (s.splitOn "|").mapM parseTree

def showKind : Option Kind → String
  | none => "E"
  | some .file => "f" | some .directory => "d" | some .symlink => "l" | some .treeref => "t"

def showClass : ImportClass → String
  | .tree => "tree" | .gitlink => "gitlink" | .symlink => "symlink" | .file => "file"

def parseKeys (s : String) : Option (List Key) :=
  if s == "-" then some [] else
  (s.splitOn ".").mapM fun e =>
    match e.splitOn ":" with
    | [f, r] => do pure ⟨← fromHex f, ← fromHex r⟩
    | _ => none

def parseNats (s : String) : Option (List Nat) :=
  if s == "-" then some [] else (s.splitOn ".").mapM fun e => e.toNat?

def parseRev (s : String) : Option Rev :=
  match s.splitOn "!" with
  | [ps, ev, t] => do pure ⟨← parseNats ps, ← parseKeys ev, ← parseTree t⟩
  | _ => none

/-- which branch of `incrFile` / `incrLink` a leaf takes -/
def leafTag (cache : Cache) (base : Option Children) (others : List Children) (path : Path) : Node → String
  | .file k c x um =>
    if leafChanged base path (.file k c x um) then
      match reuseKey others k.fid c with
      | some pk => if (cache.get pk).isSome then "reuse-hit" else "reuse-miss"
      | none => "new"
    else if (cache.get k).isSome then "unch-hit" else "unch-miss"
  | .link k t um =>
    if leafChanged base path (.link k t um) then "link-new"
    else if (cache.get k).isSome then "unch-hit" else "unch-miss"
  | .dir _ => "dir"

mutual
def tagsNode (cache : Cache) (base : Option Children) (others : List Children) (path : Path) : Node → List String
  | .dir cs => tagsChildren cache base others path cs
  | n => [leafTag cache base others path n]
def tagsChildren (cache : Cache) (base : Option Children) (others : List Children) (path : Path) : Children → List String
  | .nil => []
  | .cons name n rest =>
    if banned name then tagsChildren cache base others path rest
    else tagsNode cache base others (path ++ [name]) n ++ tagsChildren cache base others path rest
end

def tagNames : List String := ["new", "reuse-hit", "reuse-miss", "unch-hit", "unch-miss", "link-new"]

def showTags (tags : List String) (pointless : Bool) : String :=
  ";".intercalate ((tagNames.map fun t => s!"{t}={(tags.filter (· == t)).length}") ++
    [s!"pointless={if pointless then 1 else 0}"])

mutual
def dumpN (pre : Path) : Node → List String
  | .file _ c x um => [s!"{showPath pre}|f|{toHex c}|{showBool x}|{showOptNat um}"]
  | .link _ t um => [s!"{showPath pre}|l|{toHex t}|{showOptNat um}"]
  | .dir cs => s!"{showPath pre}|d" :: dumpNC pre cs
def dumpNC (pre : Path) : Children → List String
  | .nil => []
  | .cons n x rest => dumpN (pre ++ [n]) x ++ dumpNC pre rest
end

def showItem (i : Item) : String :=
  let k := match i.kind with | .file => "f" | .link => "l" | .dir => "d"
  s!"{showPath i.path}|{k}|{toHex i.data}|{showBool i.exec}"

def showItems (l : List Item) : String := joinSemi (sortStrings (l.map showItem))

/-- parse one file-id node from a token list -/
def parseFNodeF : Nat → List String → Option (FNode × List String)
  | 0, _ => none
  | f + 1, toks =>
    match toks with
    | "F" :: fid :: rev :: c :: x :: rest => do
      pure (.file ⟨← fromHex fid, ← fromHex rev⟩ (← fromHex c) (← parseBool x), rest)
    | "L" :: fid :: rev :: t :: rest => do
      pure (.link ⟨← fromHex fid, ← fromHex rev⟩ (← fromHex t), rest)
    | "D" :: fid :: n :: rest => do
      let n ← n.toNat?
      let (cs, rest) ← parseFChildrenF f n rest
      pure (.dir (← fromHex fid) cs, rest)
    | _ => none
where
  parseFChildrenF : Nat → Nat → List String → Option (FChildren × List String)
    | _, 0, toks => some (.nil, toks)
    | 0, _ + 1, _ => none
    | f + 1, n + 1, toks =>
      match toks with
      | name :: rest => do
        let name ← fromHex name
        let (nd, rest) ← parseFNodeF f rest
        let (cs, rest) ← parseFChildrenF f n rest
        pure (.cons name nd cs, rest)
      | [] => none

def parseFTree (s : String) : Option FTree :=
  let toks := s.splitOn ","
  match toks with
  | root :: n :: rest =>
    match fromHex root, n.toNat? with
    | some root, some n =>
      match parseFNodeF.parseFChildrenF (toks.length + 1) n rest with
      | some (cs, []) => some ⟨root, cs⟩
      | _ => none
    | _, _ => none
  | _ => none

def parseFTrees (s : String) : Option (List FTree) :=
  if s == "-" then some [] else (s.splitOn "|").mapM parseFTree

/-- `<fixBanned 0|1><fixRen 0|1>` -/
def parseVariant (s : String) : Option Variant :=
  match s.toList with
  | [a, b] =>
    match (if a == '1' then some true else if a == '0' then some false else none),
          (if b == '1' then some true else if b == '0' then some false else none) with
    | some x, some y => some ⟨x, y⟩
    | _, _ => none
  | _ => none

def parseFRev (s : String) : Option FRev :=
  match s.splitOn "!" with
  | [ps, ev, t] => do pure ⟨← parseNats ps, ← parseKeys ev, ← parseFTree t⟩
  | _ => none

def showYield (ys : List (Path × Sha)) : String :=
  joinSemi (sortStrings (ys.map fun (p, s) => s!"{showPath p}={toHex s}"))

/-- every object of the revision's tree is yielded or is an object of a parent's tree -/
def yieldComplete (fb : Variant) (cache : Cache) (base : Option FTree) (others : List FTree) (t : FTree) : Bool :=
  let have_ := (yielded fb gitId cache base others t).map (·.2) ++
    (match base with | some b => (objsRoot gitId (eraseC b.cs)).map (·.1) | none => []) ++
    others.flatMap fun o => (objsRoot gitId (eraseC o.cs)).map (·.1)
  match yieldedRoot fb gitId cache base others t, base with
  | none, some b =>
    -- nothing yielded: the revision re-uses its parent's root tree, which must then be its own
    expRoot gitId (eraseC b.cs) == expRoot gitId (eraseC t.cs)
  | _, _ => (objsRoot gitId (eraseC t.cs)).all fun o => have_.contains o.1

def handle : List String → String
  | ["exp", t] =>
    match parseTree t with
    | some t =>
      let shas := (([] : Path), expRoot gitId t) :: shasChildren gitId [] t
      s!"{toHex (expRoot gitId t)} {joinSemi (sortStrings (shas.map fun (p, s) => s!"{showPath p}={toHex s}"))}"
    | none => "bad-op"
  | ["incr", cache, base, bsha, others, t] =>
    match parseCache cache, parseTrees others, parseTree t with
    | some cache, some others, some t =>
      if base == "~" && bsha == "~" then toHex (incrRoot gitId cache none others t)
      else
        match parseTree base, fromHex bsha with
        | some b, some bs => toHex (incrRoot gitId cache (some (b, bs)) others t)
        | _, _ => "bad-op"
    | _, _, _ => "bad-op"
  | ["imp", st, root, fuel] =>
    match parseStore st, fromHex root, fuel.toNat? with
    | some st, some root, some fuel =>
      match impRoot st fuel root with
      | some cs => showDump cs
      | none => "none"
    | _, _, _ => "bad-op"
  | ["rt", t] =>
    match parseTree t with
    | some t =>
      let back := match impRoot (objsRoot gitId t) (depthC t + 1) (expRoot gitId t) with
        | some cs => showDump cs
        | none => "none"
      s!"{back} {showDump (canonRoot gitId t)}"
    | none => "bad-op"
  | ["hist", h] =>
    match (h.splitOn "|").mapM parseRev with
    | some revs => joinSemi ((runHist gitId HState.empty revs).roots.map toHex)
    | none => "bad-op"
  | ["incrstat", cache, base, bsha, others, t] =>
    match parseCache cache, parseTrees others, parseTree t with
    | some cache, some others, some t =>
      if base == "~" && bsha == "~" then showTags (tagsChildren cache none others [] t) false
      else
        match parseTree base, fromHex bsha with
        | some b, some _ =>
          if sameGitC b t then showTags [] true else showTags (tagsChildren cache (some b) others [] t) false
        | _, _ => "bad-op"
    | _, _, _ => "bad-op"
  | ["reexp", st, root, fuel] =>
    match parseStore st, fromHex root, fuel.toNat? with
    | some st, some root, some fuel =>
      match impRoot st fuel root with
      | some cs => s!"{toHex (expRootP gitId cs)} {toHex (expRoot gitId (nativeOfL cs))} {showBool (gitTreeOK st fuel root)}"
      | none => "none"
    | _, _, _ => "bad-op"
  | ["impn", st, root, fuel] =>
    match parseStore st, fromHex root, fuel.toNat? with
    | some st, some root, some fuel =>
      match impRoot st fuel root with
      | some cs => joinSemi (sortStrings (dumpNC [] (nativeOfL cs)))
      | none => "none"
    | _, _, _ => "bad-op"
  | ["items", t] =>
    match parseTree t with
    | some t => s!"{showItems (itemsNC [] t)} {showItems (itemsPL [] (canonRoot gitId t))}"
    | none => "bad-op"
  | ["yield", v, cache, base, others, t] =>
    match parseVariant v, parseCache cache, parseFTrees others, parseFTree t with
    | some fb, some cache, some others, some t =>
      if base == "~" then
        s!"{showYield (yielded fb gitId cache none others t)} {showBool (yieldComplete fb cache none others t)}"
      else
        match parseFTree base with
        | some b =>
          s!"{showYield (yielded fb gitId cache (some b) others t)} {showBool (yieldComplete fb cache (some b) others t)}"
        | none => "bad-op"
    | _, _, _, _ => "bad-op"
  | ["incrf", v, cache, base, bsha, others, t] =>
    -- the recorded root id: the file-id model of the code variant, and the path based `incrRoot` (what the
    -- theorems are about); they agree unless the revision is in one of the `.git` finding families
    match parseVariant v, parseCache cache, parseFTrees others, parseFTree t with
    | some v, some cache, some others, some t =>
      let eo := others.map fun o => eraseC o.cs
      if base == "~" && bsha == "~" then
        s!"{toHex (recordedRoot v gitId cache none others t)} {toHex (incrRoot gitId cache none eo (eraseC t.cs))}"
      else
        match parseFTree base, fromHex bsha with
        | some b, some bs =>
          s!"{toHex (recordedRoot v gitId cache (some (b, bs)) others t)} {toHex (incrRoot gitId cache (some (eraseC b.cs, bs)) eo (eraseC t.cs))}"
        | _, _ => "bad-op"
    | _, _, _, _ => "bad-op"
  | ["histf", v, h] =>
    match parseVariant v, (h.splitOn "|").mapM parseFRev with
    | some v, some revs =>
      let plain := (runHist gitId HState.empty (revs.map fun r => ⟨r.parents, r.evict, eraseC r.tree.cs⟩)).roots
      s!"{joinSemi ((runHistF v gitId revs).roots.map toHex)} {joinSemi (plain.map toHex)}"
    | _, _ => "bad-op"
  | ["mode", m] =>
    match m.toNat? with
    | some m =>
      let c := importClass m
      s!"{showKind (modeKind m)} {showClass c} {showOptNat (unusualOf m)} {showBool (importExec m)} {exportMode (unusualOf m) c.kind (importExec m)}"
    | none => "bad-op"
  | ["omode", k, x] =>
    match (match k with | "f" => some Kind.file | "d" => some .directory | "l" => some .symlink | "t" => some .treeref | _ => none),
          parseBool x with
    | some k, some x => toString (objectMode k x)
    | _, _ => "bad-op"
  | _ => "bad-op"

end BreezyVerif.C35

def main : IO Unit := BreezyVerif.runDriver BreezyVerif.C35.handle
