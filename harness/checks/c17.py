"""C17 — tree merges obey the three-way merge laws.

Mechanism: breezy/merge.py Merge3Merger._compute_transform / _entries3 /
_merge_names / _do_merge_contents + merge_contents / _merge_executable, the
Merger front end (from_revision_ids, find_base, make_merger, do_merge) and
wt.merge_from_branch; merge types Merge3Merger, WeaveMerger, LCAMerger; bzr 2a
and git working trees.

Model: Model/C17.lean `mergeEntry` (per id, every attribute through
C18.threeWay) and `merge3`; theorems merge_other_eq_base, merge_this_eq_base,
merge_identical, merge_disjoint (+ _wf, union_spec) for ALL trees.

T2: a random well-formed BASE tree over a small namespace (dirs, files,
symlinks, exec bits; git: files/symlinks keyed by path) and one or two random
change scripts (edit, rename, move, delete (recursive), add, chmod, kind change)
give tree triples generated AS the relationships
    L1 other=base | L2 this=base | L3 this=other | L4 disjoint id sets with
    well-formed union | A5 same ids, different attributes (THIS renames/moves,
    OTHER edits/chmods) | T6 same file, disjoint line ranges (bzr: all merge
    types; git: merge3 only)
The three trees are committed on real branches (base -> this in the working
tree, base -> other in a sprouted branch), merged through the real front end,
and the resulting working tree dump (id -> parent, name, kind, content, exec
from disk) plus conflicts() is compared with the Lean model.  L4 candidates
whose union is not well-formed go to an excluded-input stream (counted, the
real outcome recorded, nothing demanded).
Oracle: the law itself, evaluated on the dump without the model: L1 == THIS,
L2 == OTHER, L3 == THIS, L4 == union, A5/T6 == both changes applied; always:
no conflicts, no stray files.

Findings on the unchanged tree (families computed from the input):
  git-dir-rename-vs-change-inside   git: one side renames/moves a directory, the other adds/changes a
                                    path inside it: no conflict is reported, the file is moved on disk
                                    but the index keeps the old path (versioned+missing, new path unversioned)
  git-duplicate-content-rename-detection
                                    git: the same blob is introduced at different paths by the two sides (or a
                                    moved blob has several candidate sources): find_previous_path / rename
                                    detection pairs unrelated files, one side's file disappears
  git-identical-move-into-new-directory
                                    git: both sides move a file into the same new directory: merge raises
                                    KeyError / ImmortalPendingDeletion (the file can vanish from disk)
Repaired in /repo after this check found it (fix: ec61b74, _set_mode os.stat -> os.lstat): THIS has a
symlink whose target chain loops (b -> b), OTHER turns it into a file: the merge died with ELOOP.  No family
is attached to it any more; reverting the fix gives a plain VIOLATION (self-test mutant 12).

Mutants this was built against (scratch worktree; caught = oracle violation with a
concrete triple, plus model mismatch): (1) winner_idx "other" -> index 2;
(2) _merge_names early return when only name_winner == "this" (moves from OTHER
lost); (3) _three_way on contents with this/other swapped; (4)
_merge_executable returning when winner == "other" and not modified (exec flips
of OTHER lost); (12) _set_mode back to os.stat (= fix ec61b74 reverted); (13) `changed = True` dropped from the
`if copied:` branch of _compute_transform (git: OTHER adds a copy of a BASE-version file while rewriting or
renaming the source: the copy silently missing; pinned corpus + randomised copy shapes); (6) _default_other_winner_merge "delete" -> "done" (OTHER's
deletions lost); (7) contents_pair ignoring symlink targets; (8) _merge_names
only when changed_content (pure renames lost); (10) Merger.find_base choosing
this_basis as base; (11) executability = other or this.  Equivalent under the
four laws (only reachable in conflict situations, not caught, by design):
(5) dropping the `this_name is None` override; (9) the exec fallback when OTHER
has no such path.  Harmless rewrite kept clean: resolver(*names) spelled out
and reordered.
"""
import os
import shutil
import stat

from vlib import env

THEOREMS = [
    "mergeEntry_other_eq_base", "mergeEntry_this_eq_base", "mergeEntry_same",
    "merge_other_eq_base", "merge_this_eq_base", "merge_identical", "merge_disjoint",
    "merge_disjoint_wf", "union_spec", "conflict_witness",
]
RULE = ("case = (format 2a|git, merge type merge3|weave|lca, front end from_revision_ids|merge_from_branch, "
        "relationship L1..L4/A5/T6, BASE tree, change scripts); non-trivial = at least one side changed something "
        "other than content (rename/move/delete/add/kind/exec) or both sides changed; distinct by the three trees")
ASSUMPTIONS = [
    "the file-system conflict pass (transform.resolve_conflicts) is the identity when the attribute-level result is a "
    "well-formed tree (checked: every law-shaped case ends without conflicts and equals the model)",
    "git trees are compared path-keyed (a rename is a deletion plus an addition); criss-cross histories "
    "(_entries_lca) are not generated",
]
TRUSTED = ["text merge of one file changed on both sides is not modelled (T6 compares it with the obvious expected text only)",
           "C18.threeWay is the model of _three_way (tied by C18's own T1/T2)"]

F_GITDIR = "git-dir-rename-vs-change-inside"
F_GITSAME = "git-duplicate-content-rename-detection"
F_GITNEWDIR = "git-identical-move-into-new-directory"
ROOT = "ROOT"
NAMES = ["a", "b", "c", "d", "e", "f", "g"]


# --------------------------------------------------------------------------
# abstract trees: id -> dict(parent, name, kind f|d|l, content bytes, exec bool)

def E(parent, name, kind, content=b"", ex=False):
    return dict(parent=parent, name=name, kind=kind, content=content, exec=ex)


def copy_tree(t):
    return {k: dict(v) for k, v in t.items()}


def paths_of(t):
    out = {}

    def p(i, depth=0):
        if i in out:
            return out[i]
        if depth > len(t) + 1:
            raise ValueError("cycle")
        e = t[i]
        if e["parent"] is None:
            out[i] = ""
        else:
            pp = p(e["parent"], depth + 1)
            out[i] = e["name"] if pp == "" else pp + "/" + e["name"]
        return out[i]
    for i in t:
        p(i)
    return out


def wf(t):
    roots = [i for i, e in t.items() if e["parent"] is None]
    if len(roots) != 1:
        return False
    seen = set()
    for i, e in t.items():
        if e["parent"] is not None:
            pe = t.get(e["parent"])
            if pe is None or pe["kind"] != "d":
                return False
            key = (e["parent"], e["name"])
            if key in seen:
                return False
            seen.add(key)
    try:
        paths_of(t)
    except (ValueError, KeyError):
        return False
    return True


def descendants(t, i):
    out = set()
    todo = [i]
    while todo:
        x = todo.pop()
        for j, e in t.items():
            if e["parent"] == x and j not in out:
                out.add(j)
                todo.append(j)
    return out


def dirs_of(t, exclude=()):
    return [i for i, e in t.items() if e["kind"] == "d" and i not in exclude]


def free_name(rng, t, parent):
    used = {e["name"] for e in t.values() if e["parent"] == parent}
    cand = [n for n in NAMES if n not in used]
    return rng.choice(cand) if cand else None


def text(rng):
    n = rng.randint(0, 4)
    return b"".join(rng.choice([b"x\n", b"y\n", b"z\n", b"hello\n", b"w\n"]) for _ in range(n))


def gen_base(rng, git=False):
    t = {ROOT: E(None, "", "d")}
    n = rng.randint(3, 8)
    k = 0
    for _ in range(n):
        k += 1
        parent = rng.choice(dirs_of(t))
        name = free_name(rng, t, parent)
        if name is None:
            continue
        r = rng.random()
        if r < 0.25:
            t["d%d" % k] = E(parent, name, "d")
        elif r < 0.85:
            t["f%d" % k] = E(parent, name, "f", text(rng) + b"%d\n" % k, rng.random() < 0.25)
        else:
            t["s%d" % k] = E(parent, name, "l", rng.choice([b"a", b"b", b"target"]))
    return t


OPS = ["edit", "edit", "rename", "move", "delete", "add", "add", "chmod", "kind"]


def apply_op(rng, t, op, allowed, fresh):
    """apply one random op of the given kind to ids in `allowed` (None = all).  Returns the set of ids changed, or None."""
    ids = [i for i in t if i != ROOT and (allowed is None or i in allowed)]
    if op == "add":
        parent = rng.choice([d for d in dirs_of(t) if allowed is None or d in allowed or d == ROOT] or [ROOT])
        name = free_name(rng, t, parent)
        if name is None:
            return None
        i = fresh()
        r = rng.random()
        if r < 0.2:
            t[i] = E(parent, name, "d")
        elif r < 0.85:
            t[i] = E(parent, name, "f", text(rng) + i.encode() + b"\n", rng.random() < 0.3)
        else:
            t[i] = E(parent, name, "l", b"tgt-" + i.encode())
        return {i}
    if not ids:
        return None
    i = rng.choice(ids)
    e = t[i]
    if op == "edit":
        if e["kind"] == "f":
            e["content"] = e["content"] + rng.choice([b"more\n", b"edit\n", b"k\n"])
        elif e["kind"] == "l":
            e["content"] = e["content"] + b"2"
        else:
            return None
        return {i}
    if op == "rename":
        name = free_name(rng, t, e["parent"])
        if name is None:
            return None
        e["name"] = name
        return {i}
    if op == "move":
        bad = descendants(t, i) | {i}
        cand = [d for d in dirs_of(t, bad) if d != e["parent"]]
        if not cand:
            return None
        d = rng.choice(cand)
        if any(x["parent"] == d and x["name"] == e["name"] for x in t.values()):
            return None
        e["parent"] = d
        return {i}
    if op == "delete":
        gone = descendants(t, i) | {i}
        if allowed is not None and not gone <= set(allowed):
            return None
        for j in gone:
            del t[j]
        return gone
    if op == "chmod":
        if e["kind"] != "f":
            return None
        e["exec"] = not e["exec"]
        return {i}
    if op == "kind":
        if e["kind"] == "f":
            e.update(kind="l", content=b"was-file-" + i.encode(), exec=False)
        elif e["kind"] == "l":
            e.update(kind="f", content=b"was link " + i.encode() + b"\n", exec=False)
        else:
            return None
        return {i}
    return None


def script(rng, base, allowed, tag, ops=None, nmax=4):
    t = copy_tree(base)
    changed = set()
    cnt = [0]

    def fresh():
        cnt[0] += 1
        return "n%s%d" % (tag, cnt[0])
    used_ops = []
    for _ in range(rng.randint(1, nmax)):
        op = rng.choice(ops or OPS)
        al = None if allowed is None else [i for i in allowed if i in t]
        ch = apply_op(rng, t, op, al, fresh)
        if ch:
            changed |= ch
            used_ops.append(op)
    return t, changed, used_ops


def changed_ids(base, t):
    return {i for i in set(base) | set(t) if base.get(i) != t.get(i)}


LONG = [b"line %d\n" % i for i in range(1, 13)]


def gen_case(rng, rel, git=False):
    """returns (base, this, other, expected, info) abstract trees"""
    base = gen_base(rng, git)
    info = {}
    if rel == "L1":
        this, _, ops = script(rng, base, None, "t")
        other = copy_tree(base)
        exp = this
    elif rel == "L2":
        other, _, ops = script(rng, base, None, "o")
        this = copy_tree(base)
        exp = other
    elif rel == "L3":
        this, _, ops = script(rng, base, None, "x")
        other = copy_tree(this)
        exp = this
    elif rel == "L4":
        this, _, ops1 = script(rng, base, None, "t")
        cht = changed_ids(base, this)
        # OTHER may only touch ids THIS left alone (and may not add below a directory THIS removed: union check)
        allowed = [i for i in base if i not in cht and i != ROOT]
        other, _, ops2 = script(rng, base, allowed, "o")
        ops = ops1 + ops2
        cho = changed_ids(base, other)
        if cht & cho:
            return None
        exp = {}
        for i in set(base) | set(this) | set(other):
            src = other if i in cho else this
            if i in src:
                exp[i] = dict(src[i])
        info["union_wf"] = wf(exp)
    elif rel == "A5":
        files = [i for i, e in base.items() if e["kind"] == "f"]
        if not files:
            return None
        this, _, ops1 = script(rng, base, files, "t", ops=["rename", "move"], nmax=3)
        other, _, ops2 = script(rng, base, files, "o", ops=["edit", "chmod"], nmax=3)
        ops = ops1 + ops2
        exp = copy_tree(this)
        for i in exp:
            if i in other and other[i] != base[i]:
                exp[i]["content"] = other[i]["content"]
                exp[i]["exec"] = other[i]["exec"]
    elif rel == "T6":
        base["long"] = E(ROOT, "long-file", "f", b"".join(LONG))
        this, other = copy_tree(base), copy_tree(base)
        a, b = rng.randint(0, 3), rng.randint(8, 11)
        if rng.random() < 0.5:
            a, b = b, a
        lt, lo = list(LONG), list(LONG)
        lt[a] = b"THIS changed %d\n" % a
        lo[b] = b"OTHER changed %d\n" % b
        both = list(LONG); both[a] = lt[a]; both[b] = lo[b]
        this["long"]["content"] = b"".join(lt)
        other["long"]["content"] = b"".join(lo)
        exp = copy_tree(this)
        exp["long"]["content"] = b"".join(both)
        ops = ["edit", "edit"]
    else:
        raise ValueError(rel)
    if not (wf(base) and wf(this) and wf(other)):
        return None
    info["ops"] = ops
    return base, this, other, exp, info


def symlink_loop_to_file(this, exp):
    """input shape of the repaired ELOOP defect (only counted): an entry that is a symlink in THIS and must become a file, and
    whose link target chain (relative names, followed in THIS) never leaves symlinks: os.stat raises ELOOP"""
    tp = paths_of(this)
    by_path = {p: i for i, p in tp.items()}
    for i, e in this.items():
        if e["kind"] != "l" or i not in exp or exp[i]["kind"] != "f":
            continue
        cur, seen = i, set()
        while cur is not None and this[cur]["kind"] == "l" and cur not in seen:
            seen.add(cur)
            d = os.path.dirname(tp[cur])
            tgt = os.path.normpath(os.path.join(d, this[cur]["content"].decode()))
            cur = by_path.get(tgt)
        if cur is not None and this[cur]["kind"] == "l":
            return True
    return False


def git_family(base, this, other):
    """input classifiers (git views) of two rename-detection defects"""
    def same(a, b):
        return (a["kind"], a["content"]) == (b["kind"], b["content"])
    def blob(e):
        return (e["kind"], e["content"])

    def added(t):      # paths whose blob is new at that path on this side
        return {p: blob(e) for p, e in t.items() if p != ROOT and (p not in base or blob(base[p]) != blob(e))}

    def removed(t):    # base paths whose blob is gone from that path on this side
        return {p: blob(e) for p, e in base.items() if p != ROOT and (p not in t or blob(t[p]) != blob(e))}
    at, ao = added(this), added(other)
    # (1) both sides introduce the same blob at different paths: find_previous_path(OTHER -> THIS) pairs them
    for p, x in ao.items():
        for q, y in at.items():
            if x == y and p != q and other.get(q) != this.get(q):
                return F_GITSAME
    # (2) a blob that one side introduces somewhere has several candidate SOURCES (duplicate contents in
    # BASE): rename detection may pair the wrong one.  Several targets of one source (a copy: OTHER keeps or
    # renames `a` and adds an identical `c`) are handled correctly by /repo and are NOT part of the family
    for t, a in ((this, at), (other, ao)):
        r = removed(t)
        for x in set(a.values()):
            srcs = [p for p, y in r.items() if y == x] + [p for p, e in base.items() if p != ROOT and p not in r and blob(e) == x]
            tgts = [p for p, y in a.items() if y == x]
            if len(srcs) >= 2 and tgts:
                return F_GITSAME
    # both sides move a file into a directory that does not exist in BASE
    for p, te in this.items():
        if p == ROOT or p in base or other.get(p) != te or "/" not in p:
            continue
        d = os.path.dirname(p)
        if any(x == d or x.startswith(d + "/") for x in base if x != ROOT):
            continue
        if any(q != ROOT and q not in this and same(be, te) for q, be in base.items()):
            return F_GITNEWDIR
    return None


# --------------------------------------------------------------------------
# git view: only files/symlinks, keyed by path (directories are implicit)

def git_view(t):
    p = paths_of(t)
    out = {ROOT: E(None, "", "d")}
    for i, e in t.items():
        if e["kind"] in ("f", "l"):
            out[p[i]] = E(ROOT, p[i], e["kind"], e["content"], e["exec"])
    return out


# --------------------------------------------------------------------------
# real trees

def make_obj(path, e):
    if e["kind"] == "d":
        os.mkdir(path)
    elif e["kind"] == "l":
        os.symlink(e["content"].decode(), path)
    else:
        with open(path, "wb") as f:
            f.write(e["content"])
        os.chmod(path, 0o755 if e["exec"] else 0o644)


def rm_obj(path):
    if os.path.islink(path) or os.path.isfile(path):
        os.unlink(path)
    elif os.path.isdir(path):
        shutil.rmtree(path)


def bfs(t):
    order, todo = [], [ROOT]
    while todo:
        x = todo.pop(0)
        order.append(x)
        todo += sorted(j for j, e in t.items() if e["parent"] == x)
    return order


def sync_bzr(wt, cur, tgt):
    """bring a bzr working tree from abstract state `cur` to `tgt`, keeping file ids"""
    root = wt.basedir
    with wt.lock_write():
        parked = set()
        for i in cur:
            if i != ROOT and i in tgt and (cur[i]["parent"], cur[i]["name"]) != (tgt[i]["parent"], tgt[i]["name"]):
                wt.rename_one(wt.id2path(i.encode()), "zz-" + i)
                parked.add(i)
        removed = [i for i in cur if i not in tgt]
        removed.sort(key=lambda i: -wt.id2path(i.encode()).count("/"))
        for i in removed:
            p = wt.id2path(i.encode())
            wt.remove([p], keep_files=False, force=True)
            rm_obj(os.path.join(root, p))
        tp = paths_of(tgt)
        for i in bfs(tgt):
            if i == ROOT:
                continue
            final = tp[i]
            absf = os.path.join(root, final)
            if i in cur:
                if i in parked:
                    wt.rename_one("zz-" + i, final)
                c, g = cur[i], tgt[i]
                if (c["kind"], c["content"], c["exec"]) != (g["kind"], g["content"], g["exec"]) and g["kind"] != "d":
                    rm_obj(absf)
                    make_obj(absf, g)
            else:
                make_obj(absf, tgt[i])
                wt.add([final], ids=[i.encode()])


def build_bzr(wt, t):
    tp = paths_of(t)
    for i in bfs(t):
        if i != ROOT:
            make_obj(os.path.join(wt.basedir, tp[i]), t[i])
    ids = [i for i in bfs(t) if i != ROOT]
    if ids:
        wt.add([tp[i] for i in ids], ids=[i.encode() for i in ids])


def prune_empty(root):
    for d, ds, fs in os.walk(root, topdown=False):
        if d != root and "/.git" not in d and not d.endswith("/.git") and not os.listdir(d):
            os.rmdir(d)


def sync_git(wt, cur, tgt):
    """path-keyed: cur/tgt are git views"""
    root = wt.basedir
    # a kind change is done as remove + add: committing an in-place kind change drops the path from the
    # git index (a commit defect outside this property, reported separately)
    rekind = {p for p in cur if p != ROOT and p in tgt and cur[p]["kind"] != tgt[p]["kind"]}
    gone = [p for p in cur if p != ROOT and (p not in tgt or p in rekind)]
    if gone:
        wt.remove(gone, keep_files=False, force=True)
        for p in gone:
            rm_obj(os.path.join(root, p))
    # a path that changes kind or turns from file into directory prefix: remove first
    for p in tgt:
        if p != ROOT and p in cur and cur[p] != tgt[p]:
            rm_obj(os.path.join(root, p))
    prune_empty(root)
    new = []
    for p in sorted(tgt):
        if p == ROOT:
            continue
        if p not in cur or cur[p] != tgt[p]:
            absf = os.path.join(root, p)
            os.makedirs(os.path.dirname(absf), exist_ok=True)
            make_obj(absf, tgt[p])
            if p not in cur or p in rekind:
                new.append(p)
    if new:
        wt.add(new)


def repair_git_index(wt, view):
    """GitWorkingTree.commit drops a path whose kind changed (file <-> symlink) from the index although
    the committed tree contains it (a commit defect, reported separately): put such paths back so that
    the working tree equals its basis before the merge."""
    missing = [p for p in view if p != ROOT and not wt.is_versioned(p)]
    if missing:
        wt.add(missing)
    return len(missing)


def dump_bzr(wt):
    out, extra = {}, []
    root = wt.basedir
    with wt.lock_read():
        rootid = wt.path2id("")
        versioned = set()
        for path, ie in wt.iter_entries_by_dir():
            versioned.add(path)
            i = ROOT if ie.file_id == rootid else ie.file_id.decode()
            if path == "":
                out[i] = E(None, "", "d")
                continue
            parent = ROOT if ie.parent_id == rootid else ie.parent_id.decode()
            out[i] = disk_entry(os.path.join(root, path), parent, ie.name)
    for d, ds, fs in os.walk(root):
        ds[:] = [x for x in ds if x != ".bzr"]
        for x in ds + fs:
            rel = os.path.relpath(os.path.join(d, x), root)
            if rel not in versioned:
                extra.append(rel)
    return out, sorted(extra)


def disk_entry(absf, parent, name):
    if os.path.islink(absf):
        return E(parent, name, "l", os.readlink(absf).encode())
    if os.path.isdir(absf):
        return E(parent, name, "d")
    if os.path.isfile(absf):
        with open(absf, "rb") as f:
            c = f.read()
        return E(parent, name, "f", c, bool(os.stat(absf).st_mode & stat.S_IXUSR))
    return E(parent, name, "missing")


def dump_git(wt):
    out, extra = {ROOT: E(None, "", "d")}, []
    root = wt.basedir
    with wt.lock_read():
        versioned = {p for p in wt.all_versioned_paths() if p and wt.kind(p) != "directory"} if False else None
        paths = [p for p in wt.all_versioned_paths() if p]
    vs = set()
    for p in paths:
        absf = os.path.join(root, p)
        if os.path.isdir(absf) and not os.path.islink(absf):
            continue
        vs.add(p)
        out[p] = disk_entry(absf, ROOT, p)
    for d, ds, fs in os.walk(root):
        ds[:] = [x for x in ds if x != ".git"]
        for x in fs + [y for y in ds if os.path.islink(os.path.join(d, y))]:
            rel = os.path.relpath(os.path.join(d, x), root)
            if rel not in vs:
                extra.append(rel)
    return out, sorted(extra)


MERGE_TYPES = {"merge3": "Merge3Merger", "weave": "WeaveMerger", "lca": "LCAMerger"}


def run_case(c):
    """c: dict(fmt, mtype, via, rel, base, this, other).  Builds the branches, merges, dumps."""
    from breezy import merge as _mod_merge
    fmt = c["fmt"]
    base, this, other = c["base"], c["this"], c["other"]
    out = dict(exc=None, dump=None, extra=None, conflicts=None)
    try:
        wt = env.make_tree(fmt)
        if fmt == "git":
            gb, gt, go = git_view(base), git_view(this), git_view(other)
            sync_git(wt, {ROOT: gb[ROOT]}, gb)
        else:
            build_bzr(wt, base)
        wt.commit("base", allow_pointless=True)
        odir = env.fresh_dir("other")
        owt = wt.controldir.sprout(odir).open_workingtree()
        if fmt == "git":
            sync_git(owt, gb, go)
        else:
            sync_bzr(owt, base, other)
        other_rev = owt.commit("other", allow_pointless=True)
        if fmt == "git":
            out["index_repaired"] = repair_git_index(owt, go)
        if fmt == "git":
            sync_git(wt, gb, gt)
        else:
            sync_bzr(wt, base, this)
        wt.commit("this", allow_pointless=True)
        if fmt == "git":
            out["index_repaired"] = (out.get("index_repaired") or 0) + repair_git_index(wt, gt)
    except Exception as e:  # noqa
        out["exc"] = "setup:" + type(e).__name__ + ":" + str(e)[:200]
        return out
    mt = getattr(_mod_merge, MERGE_TYPES[c["mtype"]])
    try:
        if c["via"] == "merger":
            with wt.lock_write():
                m = _mod_merge.Merger.from_revision_ids(wt, other_rev, other_branch=owt.branch)
                m.merge_type = mt
                m.do_merge()
        else:
            wt.merge_from_branch(owt.branch, merge_type=mt)
    except Exception as e:  # noqa
        out["exc"] = "merge:" + type(e).__name__ + ":" + str(e)[:200]
    try:
        out["dump"], out["extra"] = (dump_git if fmt == "git" else dump_bzr)(wt)
        out["conflicts"] = sorted((x.typestring, x.path) for x in wt.conflicts())
    except Exception as e:  # noqa
        out["exc"] = (out["exc"] or "") + " dump:" + type(e).__name__ + ":" + str(e)[:200]
    return out


# --------------------------------------------------------------------------
# encoding for the model

class Codes:
    def __init__(self, trees):
        ids, names, conts = set(), set(), set()
        for t in trees:
            for i, e in t.items():
                ids.add(i)
                names.add(e["name"])
                if e["kind"] != "d":
                    conts.add(e["content"])
        rest = sorted(ids - {ROOT})
        self.ids = {ROOT: 0}
        self.ids.update({i: k + 1 for k, i in enumerate(rest)})
        self.names = {n: k for k, n in enumerate(sorted(names))}
        self.conts = {c: k + 1 for k, c in enumerate(sorted(conts))}

    def tree(self, t, strict=True):
        parts = []
        for i in sorted(t, key=lambda x: self.ids.get(x, 10 ** 6)):
            e = t[i]
            ic = self.ids.get(i, "?" + i)
            pc = "~" if e["parent"] is None else self.ids.get(e["parent"], "?" + str(e["parent"]))
            nc = self.names.get(e["name"], "?" + e["name"])
            cc = 0 if e["kind"] == "d" else self.conts.get(e["content"], "?")
            parts.append("%s:%s:%s:%s:%s:%s" % (ic, pc, nc, e["kind"], cc, "T" if e["exec"] else "F"))
        return ",".join(parts) or "-"


def jsonable(t):
    return {i: [e["parent"], e["name"], e["kind"], e["content"].decode("latin-1"), e["exec"]] for i, e in sorted(t.items())}


def unjson(j):
    return {i: E(v[0], v[1], v[2], v[3].encode("latin-1"), v[4]) for i, v in j.items()}


def _run(c):
    return run_case(c)


def corpus_cases():
    """minimised past failures, run first on every run"""
    out = []
    # a symlink pointing at itself becomes a file in OTHER (ELOOP in _set_mode before fix ec61b74)
    base = {ROOT: E(None, "", "d"), "s1": E(ROOT, "b", "l", b"b"), "f2": E(ROOT, "a", "f", b"x\n2\n"),
            "s3": E(ROOT, "c", "l", b"d"), "s4": E(ROOT, "d", "l", b"c")}
    other = copy_tree(base)
    other["s1"] = E(ROOT, "b", "f", b"was link s1\n")
    other["s3"] = E(ROOT, "c", "f", b"was link s3\n", True)
    this = copy_tree(base)
    out.append(dict(fmt="2a", mtype="merge3", via="merger", rel="L2", base=base, this=this, other=other,
                    exp=copy_tree(other), info=dict(ops=["kind"])))
    this2 = copy_tree(base)
    this2["f2"]["content"] = b"x\n2\nedit\n"
    exp = copy_tree(other)
    exp["f2"] = dict(this2["f2"])
    out.append(dict(fmt="2a", mtype="weave", via="mfb", rel="L4", base=base, this=this2, other=copy_tree(other),
                    exp=exp, info=dict(ops=["kind", "edit"], union_wf=True)))
    return out


OLD = b"".join(b"line %d\n" % i for i in range(8))


def copy_case(shape, law, mtype="merge3", via="merger", old=OLD, xname="x", ex=False):
    """git: OTHER adds `c`, a copy of the BASE version of `a` (dulwich reports it as copied), while it also
    rewrites `a` (shape "modify") or renames it to `b` (shape "rename"); law L2 (THIS = BASE) or L4 (THIS
    edits another file)."""
    base = {ROOT: E(None, "", "d"), "fa": E(ROOT, "a", "f", old, ex), "fx": E(ROOT, xname, "f", b"x1\n", True)}
    other = copy_tree(base)
    if shape == "modify":
        other["fa"]["content"] = b"completely rewritten\n"
    else:
        other["fa"]["name"] = "b"
    other["nc"] = E(ROOT, "c", "f", old, ex)
    this = copy_tree(base)
    if law == "L4":
        this["fx"]["content"] = b"x1\nthis edit\n"
    exp = copy_tree(other)
    exp["fx"] = dict(this["fx"])
    return dict(fmt="git", mtype=mtype, via=via, rel=law, base=base, this=this, other=other, exp=exp,
                info=dict(ops=["copy", shape], union_wf=True))


def build_cases(ctx, n):
    rng = ctx.rng
    cases = corpus_cases()
    # pinned: copies on git trees (seeded defect: `changed = True` dropped from the `if copied:` branch)
    for shape in ("modify", "rename"):
        for law in ("L2", "L4"):
            cases.append(copy_case(shape, law))
    # and randomised variants of the same shapes
    for _ in range(ctx.pick(4, 40)):
        old = b"".join(rng.choice([b"alpha\n", b"beta\n", b"gamma\n", b"delta %d\n" % rng.randint(0, 99)])
                       for _ in range(rng.randint(6, 12)))
        cases.append(copy_case(rng.choice(["modify", "rename"]), rng.choice(["L2", "L4"]),
                               mtype=rng.choice(["merge3", "weave", "lca"]), via=rng.choice(["merger", "mfb"]),
                               old=old, xname=rng.choice(["x", "d", "e"]), ex=rng.random() < 0.3))
    rels = ["L1", "L2", "L3", "L4", "L4", "L4", "A5", "T6"]
    k = 0
    tries = 0
    n += len(cases)
    while len(cases) < n and tries < n * 20:
        tries += 1
        rel = rels[k % len(rels)]
        fmt = "git" if (k // len(rels)) % 3 == 2 else "2a"
        g = gen_case(rng, rel, fmt == "git")
        if g is None:
            continue
        base, this, other, exp, info = g
        mtype = rng.choice(["merge3", "merge3", "weave", "lca"])
        if fmt == "git" and rel in ("T6", "A5"):
            mtype = "merge3"       # git trees have no plan_file_merge: weave/lca text merges raise AttributeError
        via = rng.choice(["merger", "merger", "mfb"])
        if fmt == "git":
            # empty directories are not representable; compare the git views
            if rel == "L4" and info.get("union_wf"):
                vb, vt, vo = git_view(base), git_view(this), git_view(other)
                if changed_ids(vb, vt) & changed_ids(vb, vo):
                    continue          # e.g. both sides touch the same path through renames
        cases.append(dict(fmt=fmt, mtype=mtype, via=via, rel=rel, base=base, this=this, other=other, exp=exp, info=info))
        k += 1
    return cases


def evaluate(ctx, c, res, lines, impls, recs):
    fmt, rel = c["fmt"], c["rel"]
    base, this, other, exp = c["base"], c["this"], c["other"], c["exp"]
    excluded = rel == "L4" and not (c["info"].get("union_wf") and wf(exp))
    fam = None
    if fmt == "git":
        base, this, other = git_view(base), git_view(this), git_view(other)
        idexp = git_view(exp) if not excluded else {}
        exp = idexp
        if rel == "L4" and not excluded:
            # path-keyed union: OTHER's entry where OTHER changed the path, else THIS's
            cho = changed_ids(base, other)
            exp = {}
            for p in set(base) | set(this) | set(other):
                src = other if p in cho else this
                if p in src:
                    exp[p] = dict(src[p])
            paths = [p for p in exp if p != ROOT]
            if any(q.startswith(p + "/") for p in paths for q in paths):
                # a path is a file on one side and a directory on the other: the path-keyed union is not a tree
                ctx.count("excluded:git-L4-file-directory-clash:" + ("raised" if res["exc"] else "conflicts" if res["conflicts"] else "clean"))
                ctx.case([fmt, rel, "file-dir-clash", jsonable(c["base"]), jsonable(c["this"]), jsonable(c["other"])], nontrivial=False)
                return
            if exp != idexp:
                # one side renames/moves a directory, the other adds or keeps a changed path inside it
                fam = F_GITDIR
        fam = fam or git_family(base, this, other)
        if fam:
            ctx.count("family-input:" + fam)
    rec = dict(fmt=fmt, mtype=c["mtype"], via=c["via"], rel=rel,
               base=jsonable(c["base"]), this=jsonable(c["this"]), other=jsonable(c["other"]))
    interesting = bool(set(c["info"]["ops"]) - {"edit"}) or rel in ("L4", "A5", "T6")
    ctx.case([fmt, c["mtype"], c["via"], rel, rec["base"], rec["this"], rec["other"]], nontrivial=interesting and not excluded)
    ctx.count("fmt:" + fmt); ctx.count("type:" + c["mtype"]); ctx.count("via:" + c["via"]); ctx.count("rel:" + rel)
    ctx.count("ids:%d" % len(set(base) | set(this) | set(other)))
    for op in c["info"]["ops"]:
        ctx.count("op:" + op)
    if res.get("index_repaired"):
        ctx.count("git-index-repaired-after-kind-change-commit", res["index_repaired"])
    if res["exc"] and res["exc"].startswith("setup:"):
        ctx.count("setup-failed")
        ctx.extra.setdefault("setup_failures", []).append(res["exc"])
        return
    if fmt == "git" and rel == "A5" and any(p in base and this[p] != base[p] for p in this):
        # THIS renamed a file onto a path another file had in BASE (rename chain / swap): "the same file"
        # is not defined for path-keyed trees; outside the laws, outcome only recorded
        ctx.count("excluded:git-A5-path-reuse:" + ("raised" if res["exc"] else "conflicts" if res["conflicts"] else "clean"))
        return
    if excluded:
        # union not well-formed (e.g. OTHER adds below a directory THIS deleted): nothing is demanded
        ctx.count("excluded:L4-union-not-wf:" + ("conflicts" if res["conflicts"] else "clean") + (":raised" if res["exc"] else ""))
        return
    if res["exc"]:
        if symlink_loop_to_file(c["this"], c["exp"]):
            ctx.count("input:symlink-loop-becomes-file")      # repaired (fix: ec61b74); a failure here is a plain violation
        ctx.violation(rec, "%s merge raised %s" % (rel, res["exc"]), family=fam)
        return
    dump = res["dump"]
    # ---- oracle: the law itself -------------------------------------------
    nviol = len(ctx.violations)
    if res["conflicts"]:
        ctx.violation(rec, "%s: conflicts reported %r" % (rel, res["conflicts"]), family=fam)
    if res["extra"]:
        ctx.violation(rec, "%s: stray unversioned files %r" % (rel, res["extra"]), family=fam)
    if dump != exp:
        diff = {i: (jsonable({i: dump[i]})[i] if i in dump else None, jsonable({i: exp[i]})[i] if i in exp else None)
                for i in set(dump) | set(exp) if dump.get(i) != exp.get(i)}
        ctx.violation(rec, "%s: merged tree differs from %s: {id: (got, expected)} = %r" % (
            rel, {"L1": "THIS", "L2": "OTHER", "L3": "THIS", "L4": "the union"}.get(rel, "both changes applied"), diff),
            family=fam)
    if fam and len(ctx.violations) > nviol:
        return      # reported under its family; the path-keyed model has nothing more to say about it
    # ---- model ----------------------------------------------------------------
    if fmt == "git" and rel == "A5":
        # rename + edit of the same file: the real code follows git's rename detection, the path-keyed
        # model sees "deleted here, modified there"; only the oracle (both changes applied) is evaluated
        ctx.count("git-A5-oracle-only")
        return
    codes = Codes([base, this, other] + ([exp] if rel == "T6" else []))
    ids = ",".join(str(v) for v in sorted(codes.ids.values()))
    line = "merge %s %s %s %s" % (ids, codes.tree(base), codes.tree(this), codes.tree(other))
    conf = "-"
    if res["conflicts"]:
        conf = ",".join("%s:%s" % (p, t.replace(" ", "_")) for t, p in res["conflicts"])
    if rel == "T6":
        # content of the text-merged file is not predicted by the model: compare it as `?`
        d2 = copy_tree(dump)
        impl_tree = codes.tree(d2)
        lc = codes.ids["long" if fmt != "git" else "long-file"]
        impl_tree = ",".join((p.rsplit(":", 2)[0] + ":?:" + p.rsplit(":", 1)[1]) if p.split(":")[0] == str(lc) else p
                             for p in impl_tree.split(","))
        conf = "%d:textmerge" % lc if not res["conflicts"] else conf
    else:
        impl_tree = codes.tree(dump)
    lines.append(line)
    impls.append("%s %s %s" % (impl_tree, conf, "T" if wf(dump) else "F"))
    recs.append(rec)


def run(ctx, scale=1):
    n = ctx.pick(80, 800) * scale
    cases = build_cases(ctx, n)
    results = ctx.pmap(_run, cases)
    lines, impls, recs = [], [], []
    for c, r in zip(cases, results):
        evaluate(ctx, c, r, lines, impls, recs)
    ctx.diff(recs, lines, impls)
    ctx.extra["cases"] = len(cases)


def widen(ctx):
    run(ctx, scale=3)


def replay(ctx, case):
    c = dict(fmt=case["fmt"], mtype=case["mtype"], via=case["via"], rel=case["rel"],
             base=unjson(case["base"]), this=unjson(case["this"]), other=unjson(case["other"]))
    base, this, other = c["base"], c["this"], c["other"]
    rel = c["rel"]
    cho = changed_ids(base, other)
    if rel in ("L1", "L3"):
        exp = this
    elif rel == "L2":
        exp = other
    else:
        exp = {}
        for i in set(base) | set(this) | set(other):
            src = other if i in cho else this
            if i in src:
                exp[i] = dict(src[i])
        if rel in ("A5", "T6"):
            exp = None
    c["info"] = dict(ops=["replay"], union_wf=wf(exp) if exp else True)
    res = run_case(c)
    out = dict(case=case, exc=res["exc"], conflicts=res["conflicts"], extra=res["extra"],
               dump=jsonable(res["dump"]) if res["dump"] else None)
    if exp is not None:
        c["exp"] = exp
        lines, impls, recs = [], [], []
        evaluate(ctx, c, res, lines, impls, recs)
        if lines:
            out["model"] = ctx.model(lines)[0]
            out["impl"] = impls[0]
    out["oracle_failures"] = [v["what"] for v in ctx.violations]
    return out
