import BreezyVerif.Model.C33
/-!
C33 — wire-form lemmas: `split`/`join` and decimal round trips.
-/
namespace BreezyVerif.C33

theorem splitAux_no_sep {sep : UInt8} {b : Bytes} (h : sep ∉ b) : splitAux sep b = (b, []) := by
  induction b with
  | nil => rfl
  | cons c cs ih =>
    have hc : c ≠ sep := fun e => h (by simp [e])
    have hcs : sep ∉ cs := fun e => h (by simp [e])
    simp [splitAux, hc, ih hcs]

theorem splitAux_append_sep {sep : UInt8} {a : Bytes} (h : sep ∉ a) (rest : Bytes) :
    splitAux sep (a ++ sep :: rest) = (a, (splitAux sep rest).1 :: (splitAux sep rest).2) := by
  induction a with
  | nil => simp [splitAux]
  | cons c cs ih =>
    have hc : c ≠ sep := fun e => h (by simp [e])
    have hcs : sep ∉ cs := fun e => h (by simp [e])
    simp [splitAux, hc, ih hcs]

theorem split_no_sep {sep : UInt8} {b : Bytes} (h : sep ∉ b) : split sep b = [b] := by
  simp [split, splitAux_no_sep h]

theorem split_append_sep {sep : UInt8} {a : Bytes} (h : sep ∉ a) (rest : Bytes) :
    split sep (a ++ sep :: rest) = a :: split sep rest := by
  simp [split, splitAux_append_sep h]

/-- `sep.join(l).split(sep) == l` for a non-empty list of fields free of `sep` -/
theorem split_join_ne (sep : UInt8) (l : List Bytes) (hne : l ≠ []) (h : ∀ x ∈ l, sep ∉ x) :
    split sep (join sep l) = l := by
  induction l with
  | nil => exact absurd rfl hne
  | cons x xs ih =>
    cases xs with
    | nil => simpa [join] using split_no_sep (h x (by simp))
    | cons y ys =>
      simp only [join]
      rw [split_append_sep (h x (by simp))]
      rw [ih (by simp) (fun z hz => h z (List.mem_cons_of_mem _ hz))]

theorem mem_join {sep c : UInt8} {l : List Bytes} (hc : c ∈ join sep l) :
    c = sep ∨ ∃ x ∈ l, c ∈ x := by
  induction l with
  | nil => simp [join] at hc
  | cons x xs ih =>
    cases xs with
    | nil => exact Or.inr ⟨x, by simp, by simpa [join] using hc⟩
    | cons y ys =>
      simp only [join, List.mem_append, List.mem_cons] at hc
      rcases hc with hc | hc | hc
      · exact Or.inr ⟨x, by simp, hc⟩
      · exact Or.inl hc
      · rcases ih hc with h | ⟨z, hz, hcz⟩
        · exact Or.inl h
        · exact Or.inr ⟨z, List.mem_cons_of_mem _ hz, hcz⟩

/-! ### decimal -/

theorem digit_toNat {n : Nat} (h : n < 10) : (digit n).toNat = 48 + n := by
  unfold digit
  simp [UInt8.toNat_ofNat']
  omega

theorem parseDecStep_digit (a n : Nat) (h : n < 10) :
    parseDecStep (some a) (digit n) = some (a * 10 + n) := by
  unfold parseDecStep
  simp only [digit_toNat h]
  have h1 : 48 ≤ 48 + n ∧ 48 + n ≤ 57 := by omega
  simp [h1]

theorem foldl_toDecAux (fuel n : Nat) (acc : Bytes) (h : n < fuel) :
    (toDecAux fuel n acc).foldl parseDecStep (some 0) = acc.foldl parseDecStep (some n) := by
  induction fuel generalizing n acc with
  | zero => omega
  | succ fuel ih =>
    unfold toDecAux
    split
    · rename_i h10
      simp [List.foldl_cons, parseDecStep_digit 0 n h10]
    · rename_i h10
      rw [ih (n / 10) _ (by omega)]
      simp only [List.foldl_cons]
      rw [parseDecStep_digit (n / 10) (n % 10) (Nat.mod_lt _ (by omega))]
      congr 2
      omega

theorem toDecAux_ne_nil (fuel n : Nat) (acc : Bytes) (h : n < fuel) : toDecAux fuel n acc ≠ [] := by
  induction fuel generalizing n acc with
  | zero => omega
  | succ fuel ih =>
    unfold toDecAux
    split
    · simp
    · exact ih _ _ (by omega)

theorem mem_toDecAux {c : UInt8} (fuel n : Nat) (acc : Bytes) (hc : c ∈ toDecAux fuel n acc) :
    c ∈ acc ∨ ∃ m, m < 10 ∧ c = digit m := by
  induction fuel generalizing n acc with
  | zero => exact Or.inl (by simpa [toDecAux] using hc)
  | succ fuel ih =>
    unfold toDecAux at hc
    split at hc
    · rename_i h10
      rcases List.mem_cons.mp hc with h | h
      · exact Or.inr ⟨n, h10, h⟩
      · exact Or.inl h
    · rcases ih _ _ hc with h | h
      · rcases List.mem_cons.mp h with h | h
        · exact Or.inr ⟨n % 10, Nat.mod_lt _ (by omega), h⟩
        · exact Or.inl h
      · exact Or.inr h

theorem nl_not_mem_toDec (n : Nat) : NL ∉ toDec n := by
  intro h
  rcases mem_toDecAux _ _ _ h with h | ⟨m, hm, h⟩
  · cases h
  · have := congrArg UInt8.toNat h
    rw [digit_toNat hm] at this
    simp [NL] at this
    omega

end BreezyVerif.C33
