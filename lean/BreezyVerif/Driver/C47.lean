import BreezyVerif.Common
import BreezyVerif.Model.C47
namespace BreezyVerif.C47

/-- list of byte strings in one field: hex items separated by `,`; `~` is the
empty list (so that `-`, the empty byte string, stays distinguishable) -/
def parseBL (s : String) : Option (List Bytes) :=
  if s == "~" then some [] else (s.splitOn ",").mapM fromHex

def showBL (l : List Bytes) : String :=
  if l.isEmpty then "~" else ",".intercalate (l.map toHex)

def joinComps (p : Path) : Bytes :=
  match p with
  | [] => []
  | c :: cs => cs.foldl (fun acc x => acc ++ slash :: x) c

def charsToBytes (cs : List Char) : Bytes := cs.map (fun c => UInt8.ofNat c.toNat)
def bytesToChars (b : Bytes) : List Char := b.map (fun x => Char.ofNat x.toNat)

def showDateErr : DateErr → String
  | .noWeekday => "E:noWeekday" | .badWeekday => "E:badWeekday" | .noFraction => "E:noFraction"
  | .noTimezone => "E:noTimezone" | .badDatetime => "E:badDatetime" | .badFraction => "E:badFraction"
  | .badOffset => "E:badOffset"

def dedupSorted : List Path → List Path
  | a :: b :: r => if a = b then dedupSorted (b :: r) else a :: dedupSorted (b :: r)
  | l => l

def handle : List String → String
  | ["inside", d, f] =>
    match fromHex d, fromHex f with
    | some d, some f =>
      if relOk d && relOk f then showBool (isInside (components d) (components f)) else "unsupported"
    | _, _ => "bad-op"
  | ["insideany", ds, f] =>
    match parseBL ds, fromHex f with
    | some ds, some f =>
      if ds.all relOk && relOk f then showBool (isInsideAny (ds.map components) (components f))
      else "unsupported"
    | _, _ => "bad-op"
  | ["insideorparent", ds, f] =>
    match parseBL ds, fromHex f with
    | some ds, some f =>
      if ds.all relOk && relOk f then showBool (isInsideOrParentOfAny (ds.map components) (components f))
      else "unsupported"
    | _, _ => "bad-op"
  | ["mps", ps] =>
    match parseBL ps with
    | some ps =>
      if ps.all relOk then showBL ((dedupSorted (sortPaths (mps (ps.map components)))).map joinComps)
      else "unsupported"
    | none => "bad-op"
  | ["splitpath", p] =>
    match fromHex p with
    | some p => match splitpath p with
      | .ok l => showBL l
      | .error _ => "E:Invalid"
    | none => "bad-op"
  | ["joinpath", ps] =>
    match parseBL ps with
    | some ps => match joinpath ps with
      | .ok p => toHex p
      | .error _ => "E:Invalid"
    | none => "bad-op"
  | ["sl", t] =>
    match fromHex t with
    | some t => showBL (splitLines t)
    | none => "bad-op"
  | ["slpy", t] =>
    match fromHex t with
    | some t => showBL (splitLinesPy t)
    | none => "bad-op"
  | ["cl", cs] =>
    match parseBL cs with
    | some cs => showBL (c2lCore [] cs)
    | none => "bad-op"
  | ["clpy", cs] =>
    match parseBL cs with
    | some cs => showBL (c2lPy none cs)
    | none => "bad-op"
  | ["fmt", n, o] =>
    match n.toInt?, o.toInt? with
    | some n, some o =>
      if inRange (n / 1000000000 + o) then toHex (charsToBytes (formatHighresNs n o)) else "unsupported"
    | _, _ => "bad-op"
  | ["fmt64", n, k, o] =>
    -- the f64 `n / 2^k`, code as written
    match n.toInt?, k.toNat?, o.toInt? with
    | some n, some k, some o =>
      if k > 1100 then "unsupported"
      else if inRange (n / ((2 ^ k : Nat) : Int) + o) then toHex (charsToBytes (formatHighresF64 n k o))
      else "unsupported"
    | _, _, _ => "bad-op"
  | ["fmt64c", n, k, o] =>
    -- the f64 `n / 2^k`, with the carry into the seconds
    match n.toInt?, k.toNat?, o.toInt? with
    | some n, some k, some o =>
      if k > 1100 then "unsupported"
      else if inRange (n / ((2 ^ k : Nat) : Int) + o) && inRange (n / ((2 ^ k : Nat) : Int) + 1 + o) then
        toHex (charsToBytes (formatHighresF64Carry n k o))
      else "unsupported"
    | _, _, _ => "bad-op"
  | ["units", n, k] =>
    match n.toInt?, k.toNat? with
    | some n, some k => if k > 1100 then "unsupported" else toString (fracUnits n k)
    | _, _ => "bad-op"
  | ["unp", s] =>
    match fromHex s with
    | some s => match unpackHighres (bytesToChars s) with
      | .ok (n, o) => s!"{n} {o}"
      | .error e => showDateErr e
    | none => "bad-op"
  | _ => "bad-op"

end BreezyVerif.C47

def main : IO Unit := BreezyVerif.runDriver BreezyVerif.C47.handle
