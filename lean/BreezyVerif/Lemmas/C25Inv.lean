import BreezyVerif.Lemmas.C25Rbd
import BreezyVerif.Lemmas.C22Top
/-!
C25 — `reverse_by_depth` is an involution on well-nested lists (forests in
pre-order): applying it twice gives the list back.
-/
namespace BreezyVerif.C25
open BreezyVerif.C22

theorem chunk_append_tail (d : Nat) : ∀ (t l : List V), (∀ v ∈ t, v.depth ≠ d) →
    chunk d (t ++ l) = (t ++ (chunk d l).1, (chunk d l).2)
  | [], l, _ => by simp
  | v :: t, l, h => by
    have hv : (v.depth == d) = false := by
      have := h v (List.mem_cons_self ..)
      simpa using this
    have ih := chunk_append_tail d t l (fun x hx => h x (List.mem_cons_of_mem _ hx))
    rw [List.cons_append, chunk_cons, hv, ih]
    simp

/-- chunking a list built from blocks (head of depth `d`, tail without depth `d`) gives the blocks back -/
theorem chunk_blocks (d : Nat) : ∀ (bs : List (V × List V)),
    (∀ b ∈ bs, b.1.depth = d ∧ ∀ v ∈ b.2, v.depth ≠ d) →
    chunk d (bs.map fun b => b.1 :: b.2).flatten = ([], bs)
  | [], _ => rfl
  | b :: bs, h => by
    have hb := h b (List.mem_cons_self ..)
    have ih := chunk_blocks d bs (fun x hx => h x (List.mem_cons_of_mem _ hx))
    have hd : (b.1.depth == d) = true := by simpa using hb.1
    rw [List.map_cons, List.flatten_cons, List.cons_append, chunk_cons, hd, if_pos rfl,
      chunk_append_tail d b.2 _ hb.2, ih]
    simp

theorem mapM_map_some {α β γ : Type} (f : β → Option γ) (h : α → β) (g : α → γ) : ∀ (l : List α),
    (∀ a ∈ l, f (h a) = some (g a)) → (l.map h).mapM f = some (l.map g)
  | [], _ => rfl
  | a :: l, hf => by
    have ih := mapM_map_some f h g l (fun x hx => hf x (List.mem_cons_of_mem _ hx))
    simp [List.mapM_cons, hf a (List.mem_cons_self ..), ih]

theorem need_perm (d : Nat) {a b : List V} (h : a.Perm b) : need d a = need d b := by
  unfold need
  exact (h.map _).sum_nat

theorem rbdFuel_perm {a b : List V} (h : a.Perm b) : rbdFuel a = rbdFuel b := by
  unfold rbdFuel
  rw [(h.map _).sum_nat]

/-- **core**: on a forest in pre-order `rbd` succeeds, and applied to its own result gives the list back -/
theorem rbd_invol_core : ∀ (fuel d : Nat) (l : List V), (∀ v ∈ l, d ≤ v.depth) → need d l < fuel →
    wellNestedAux fuel d l = true → ∃ r, rbd fuel d l = some r ∧ rbd fuel d r = some l ∧ r.Perm l := by
  intro fuel
  induction fuel with
  | zero => intro d l _ h; omega
  | succ fuel ih =>
    intro d l hd hfuel hwn
    obtain ⟨heq, hpre, hpresub, hcs⟩ := chunk_spec d l
    simp only [wellNestedAux, Bool.and_eq_true, List.all_eq_true, Bool.or_eq_true] at hwn
    obtain ⟨hpe, hall⟩ := hwn
    have hpre0 : (chunk d l).1 = [] := List.isEmpty_iff.mp hpe
    -- the tail of a chunk, reversed by depth
    let subF : List V → Option (List V) := fun t => if t.isEmpty then some [] else rbd fuel (d + 1) t
    let g : V × List V → List V := fun c => if c.2.isEmpty then [] else (rbd fuel (d + 1) c.2).getD []
    have hg : ∀ c ∈ (chunk d l).2, subF c.2 = some (g c) ∧ subF (g c) = some c.2 ∧ (g c).Perm c.2 := by
      intro c hc
      obtain ⟨_, hne, hsub⟩ := hcs c hc
      cases hc2 : c.2 with
      | nil => simp [subF, g, hc2]
      | cons x t =>
        have hd1 : ∀ v ∈ x :: t, d + 1 ≤ v.depth := by
          intro v hv
          rw [← hc2] at hv
          have h1 := hd v (hsub.subset hv)
          have h2 := hne v hv
          omega
        have hn : need (d + 1) (x :: t) < fuel := by
          have h1 := need_succ d (x :: t) hd1
          have h2 := need_sublist (d := d) hsub
          rw [hc2] at h2
          simp only [List.length_cons] at h1
          omega
        have hw : wellNestedAux fuel (d + 1) (x :: t) = true := by
          rcases hall c hc with h | h
          · rw [hc2] at h; simp at h
          · rw [hc2] at h; exact h
        obtain ⟨r, hr, hrr, hp⟩ := ih (d + 1) (x :: t) hd1 hn hw
        have hrne : r.isEmpty = false := by
          cases r with
          | nil => exact absurd hp.nil_eq (by simp)
          | cons _ _ => rfl
        have hgc : g ((c.1, x :: t) : V × List V) = r := by simp [g, hr]
        have hc' : c = (c.1, x :: t) := by rw [← hc2]
        rw [hc']
        refine ⟨?_, ?_, ?_⟩
        · rw [hgc]; simp [subF, hr]
        · rw [hgc]
          show (if r.isEmpty then some [] else rbd fuel (d + 1) r) = some (x :: t)
          rw [hrne]
          simp only [Bool.false_eq_true, if_false]
          exact hrr
        · rw [hgc]; exact hp
    -- first application
    have h1 : rbd (fuel + 1) d l = some (((chunk d l).2.map fun c => c.1 :: g c).reverse.flatten) := by
      rw [rbd_succ, hpre0]
      have hm : (chunk d l).2.mapM (fun c => (if c.2.isEmpty then some [] else rbd fuel (d + 1) c.2).map (c.1 :: ·))
          = some ((chunk d l).2.map fun c => c.1 :: g c) := by
        have := mapM_map_some (fun c : V × List V => (subF c.2).map (c.1 :: ·)) id (fun c => c.1 :: g c)
          (chunk d l).2 (by intro c hc; simp only [id, (hg c hc).1, Option.map_some])
        rw [List.map_id] at this
        exact this
      rw [hm]
      simp
    -- the result, seen as blocks
    let B : List (V × List V) := (chunk d l).2.reverse.map fun c => (c.1, g c)
    have hrB : ((chunk d l).2.map fun c => c.1 :: g c).reverse.flatten = (B.map fun b => b.1 :: b.2).flatten := by
      simp only [B, List.map_reverse, List.map_map]
      rfl
    have hBok : ∀ b ∈ B, b.1.depth = d ∧ ∀ v ∈ b.2, v.depth ≠ d := by
      intro b hb
      simp only [B, List.mem_map, List.mem_reverse] at hb
      obtain ⟨c, hc, rfl⟩ := hb
      obtain ⟨hcd, hne, _⟩ := hcs c hc
      exact ⟨hcd, fun v hv => hne v ((hg c hc).2.2.mem_iff.mp hv)⟩
    have hchunk := chunk_blocks d B hBok
    refine ⟨_, h1, ?_, ?_⟩
    · -- second application
      rw [hrB, rbd_succ, hchunk]
      have hm : B.mapM (fun c => (if c.2.isEmpty then some [] else rbd fuel (d + 1) c.2).map (c.1 :: ·))
          = some ((chunk d l).2.reverse.map fun c => c.1 :: c.2) := by
        have := mapM_map_some (fun b : V × List V => (subF b.2).map (b.1 :: ·)) (fun c => (c.1, g c))
          (fun c => c.1 :: c.2) (chunk d l).2.reverse
          (by
            intro c hc
            have := (hg c (List.mem_reverse.mp hc)).2.1
            simp only [this, Option.map_some])
        exact this
      rw [hm]
      simp only [List.isEmpty_nil, if_true, List.append_nil]
      rw [← List.map_reverse, List.reverse_reverse]
      conv => rhs; rw [heq, hpre0, List.nil_append]
    · -- permutation
      have hp1 : (((chunk d l).2.map fun c => c.1 :: g c).reverse.flatten).Perm
          (((chunk d l).2.map fun c => c.1 :: g c).flatten) := reverse_flatten_perm _
      have hp2 : (((chunk d l).2.map fun c => c.1 :: g c).flatten).Perm
          (((chunk d l).2.map fun c => c.1 :: c.2).flatten) := by
        have : ∀ (cs : List (V × List V)), (∀ c ∈ cs, (g c).Perm c.2) →
            ((cs.map fun c => c.1 :: g c).flatten).Perm ((cs.map fun c => c.1 :: c.2).flatten) := by
          intro cs
          induction cs with
          | nil => intro _; exact List.Perm.refl _
          | cons c cs ih2 =>
            intro h
            simp only [List.map_cons, List.flatten_cons]
            exact List.Perm.append (List.Perm.cons _ (h c (List.mem_cons_self ..)))
              (ih2 (fun x hx => h x (List.mem_cons_of_mem _ hx)))
        exact this _ (fun c hc => (hg c hc).2.2)
      have hl : l = ((chunk d l).2.map fun c => c.1 :: c.2).flatten := by
        conv => lhs; rw [heq, hpre0, List.nil_append]
      rw [← hl] at hp2
      exact hp1.trans hp2

/-! ## stepwise lists that start at depth `d` are forests -/

theorem stepwise_prefix : ∀ (a b : List V) (n : Nat), stepwise n (a ++ b) = true → stepwise n a = true
  | [], _, _, _ => rfl
  | v :: a, b, n, h => by
    simp only [List.cons_append, stepwise, Bool.and_eq_true] at h ⊢
    exact ⟨h.1, stepwise_prefix a b _ h.2⟩

/-- in a stepwise list the tail of every chunk at depth `d` is stepwise from depth `d + 1` -/
theorem stepwise_chunk (d : Nat) : ∀ (l : List V) (n : Nat), stepwise n l = true →
    ∀ c ∈ (chunk d l).2, stepwise (d + 1) c.2 = true
  | [], _, _, c, hc => by simp [chunk] at hc
  | v :: l, n, h, c, hc => by
    simp only [stepwise, Bool.and_eq_true] at h
    rw [chunk_cons] at hc
    by_cases hv : (v.depth == d) = true
    · simp only [hv, if_true] at hc
      rcases List.mem_cons.mp hc with rfl | hc
      · have hvd : v.depth = d := by simpa using hv
        obtain ⟨heq, _⟩ := chunk_spec d l
        have h2 := h.2
        rw [heq, hvd] at h2
        exact stepwise_prefix _ _ _ h2
      · exact stepwise_chunk d l _ h.2 c hc
    · simp only [hv, Bool.false_eq_true, if_false] at hc
      exact stepwise_chunk d l _ h.2 c hc

theorem wellNested_of_stepwise : ∀ (fuel d : Nat) (l : List V), (∀ v ∈ l, d ≤ v.depth) → need d l < fuel →
    stepwise d l = true → wellNestedAux fuel d l = true := by
  intro fuel
  induction fuel with
  | zero => intro d l _ h; omega
  | succ fuel ih =>
    intro d l hd hfuel hs
    obtain ⟨_, _, _, hcs⟩ := chunk_spec d l
    simp only [wellNestedAux, Bool.and_eq_true, List.all_eq_true, Bool.or_eq_true]
    refine ⟨?_, ?_⟩
    · cases l with
      | nil => rfl
      | cons v l =>
        simp only [stepwise, Bool.and_eq_true, decide_eq_true_eq] at hs
        have : v.depth = d := by
          have := hd v (List.mem_cons_self ..)
          omega
        have hv : (v.depth == d) = true := by simpa using this
        rw [chunk_cons, hv]; rfl
    · intro c hc
      obtain ⟨_, hne, hsub⟩ := hcs c hc
      cases hc2 : c.2 with
      | nil => left; rfl
      | cons x t =>
        right
        have hd1 : ∀ v ∈ x :: t, d + 1 ≤ v.depth := by
          intro v hv
          rw [← hc2] at hv
          have h1 := hd v (hsub.subset hv)
          have h2 := hne v hv
          omega
        have hn : need (d + 1) (x :: t) < fuel := by
          have h1 := need_succ d (x :: t) hd1
          have h2 := need_sublist (d := d) hsub
          rw [hc2] at h2
          simp only [List.length_cons] at h1
          omega
        have := stepwise_chunk d l d hs c hc
        rw [hc2] at this
        exact ih (d + 1) (x :: t) hd1 hn this

/-! ## merge-sorted revnos are never empty -/

theorem numberOne_ne_nil {g : Graph} {st st' : Num} {n : Nat} {fc : Bool} {r : List Nat}
    (h : numberOne g st n fc = some (st', r)) : r ≠ [] := by
  unfold numberOne at h
  split at h
  · cases h
  · split at h
    · split at h
      · cases h
      · split at h
        · split at h
          · cases h
          · simp only [Option.some.injEq, Prod.mk.injEq] at h
            rw [← h.2]; simp
        · split at h
          · cases h
          · simp only [Option.some.injEq, Prod.mk.injEq] at h
            rw [← h.2]; simp
    · split at h
      · simp only [Option.some.injEq, Prod.mk.injEq] at h
        rw [← h.2]; simp
      · simp only [Option.some.injEq, Prod.mk.injEq] at h
        rw [← h.2]; simp

theorem numberAll_ne_nil (g : Graph) : ∀ (l : List (Nat × Nat × Bool)) (st : Num) (out : List (Nat × Nat × List Nat)),
    numberAll g st l = some out → ∀ e ∈ out, e.2.2 ≠ []
  | [], _, out, h, e, he => by
    simp only [numberAll, Option.some.injEq] at h
    subst h; cases he
  | (n, d, fc) :: rest, st, out, h, e, he => by
    simp only [numberAll] at h
    split at h
    · cases h
    · rename_i st' r h1
      split at h
      · cases h
      · rename_i out' h2
        simp only [Option.some.injEq] at h
        subst h
        rcases List.mem_cons.mp he with rfl | he
        · exact numberOne_ne_nil h1
        · exact numberAll_ne_nil g rest _ out' h2 e he

theorem mergeSort_revno_ne_nil (g : Graph) (tip : Nat) (ms : List MS) (h : mergeSort g tip = some ms) :
    ∀ e ∈ ms, e.revno ≠ [] := by
  unfold mergeSort mergeSortCore at h
  cases hd : dfsOrder g tip with
  | none => simp [hd] at h
  | some order =>
    simp only [hd] at h
    cases hn : numberAll g ⟨[], []⟩ order with
    | none => simp [hn] at h
    | some out =>
      simp only [hn, Option.map_some, Option.some.injEq] at h
      subst h
      intro e he
      have hmem : e.revno ∈ (eomFlags g out.reverse).map (·.revno) := List.mem_map.mpr ⟨e, he, rfl⟩
      rw [eomFlags_revno] at hmem
      obtain ⟨x, hx, hxe⟩ := List.mem_map.mp hmem
      rw [← hxe]
      exact numberAll_ne_nil g order _ out hn x (List.mem_reverse.mp hx)

end BreezyVerif.C25
