import BreezyVerif.Model.C14
import BreezyVerif.Lemmas.C14
/-!
C14 — transform previews match their applied result; conflict resolution ends
clean or with MalformedTransform; nothing is applied otherwise.

All statements are about the executable model `Model/C14.lean`, for every base
tree, every transform state (any maps over any trans-ids) and every fuel.
-/
namespace BreezyVerif.C14

/-! ### the resolution loop -/

/-- `resolve_conflicts` returns only from a state in which `find_raw_conflicts()`
is empty — for every number of passes, every transform, every code variant. -/
theorem resolve_clean_or_error (fl : Flags) (fuel : Nat) (tt : TT) (last : List Conflict) (tt' : TT)
    (h : TT.resolve fl fuel tt last = .clean tt') : tt'.findRawConflicts fl = [] := by
  induction fuel generalizing tt last with
  | zero => simp [TT.resolve] at h
  | succ n ih =>
    unfold TT.resolve at h
    simp only at h
    split at h
    · rename_i hc
      cases h
      simpa using hc
    · split at h
      · exact ih _ _ h
      · cases h

/-- a conflict-free transform is returned as it is (no resolver runs) -/
theorem resolve_clean_reached (fl : Flags) (fuel : Nat) (tt : TT) (last : List Conflict)
    (h : tt.findRawConflicts fl = []) : TT.resolve fl (fuel + 1) tt last = .clean tt := by
  simp [TT.resolve, h]

/-- when the passes are used up the loop raises MalformedTransform with the
conflicts of the last pass; they are not empty -/
theorem resolve_zero_malformed (fl : Flags) (fuel : Nat) (tt : TT) (last cs : List Conflict)
    (hl : fuel = 0 → last ≠ []) (h : TT.resolve fl fuel tt last = .malformed cs) : cs ≠ [] := by
  induction fuel generalizing tt last with
  | zero =>
    simp [TT.resolve] at h
    subst h
    exact hl rfl
  | succ n ih =>
    unfold TT.resolve at h
    simp only at h
    split at h
    · cases h
    · rename_i hc
      split at h
      · apply ih _ _ _ h
        intro _
        intro hnil
        simp [hnil] at hc
      · cases h

example : TT.resolve ⟨false, false, false, false, false, false⟩ 0 { base := [], next := 0 } [.parentLoop 1] = .malformed [.parentLoop 1] := rfl

/-- all or nothing: `resolve_conflicts(tt); tt.apply()` either leaves the disk
exactly as it was (an exception was raised: MalformedTransform or a resolver's
own), or it applies a transform `tt'` that has no raw conflicts, completely. -/
theorem run_all_or_nothing (fl : Flags) (tt : TT) :
    tt.diskAfter fl = tt.baseDisk ∨
    ∃ tt', tt.resolveConflicts fl = .clean tt' ∧ tt'.findRawConflicts fl = [] ∧ tt.diskAfter fl = tt'.applyDisk := by
  unfold TT.diskAfter TT.resolveAndApply
  cases hr : tt.resolveConflicts fl with
  | clean tt' =>
    have hc := resolve_clean_or_error fl passCount tt [] tt' hr
    right
    exact ⟨tt', rfl, hc, by simp [hc]⟩
  | malformed cs => left; rfl
  | crashed e => left; rfl

/-- conflict types without a resolver are skipped by `conflict_pass` -/
theorem resolveOne_no_resolver (fl : Flags) (tt : TT) (c : Conflict) (h : c.hasResolver = false) :
    tt.resolveOne fl c = .ok tt := by
  cases c <;> simp_all [Conflict.hasResolver, TT.resolveOne]

/-! ### apply (disk) against the `final_*` functions -/

/-- the removal phase, per trans-id -/
theorem applyRemovals_get (tt : TT) (d : Disk) (t : Tid) :
    (tt.applyRemovals d)[t]? = (d[t]?).map (tt.removalStep t) := by
  simp [TT.applyRemovals]

/-- hypotheses under which the entry is meaningful: the id is known, a tree id
has a name and a parent, contents are only deleted where there are contents
(`delete_contents` checks `tree_kind`) and new ids carry no tree data -/
def TT.okId (tt : TT) (t : Tid) : Bool :=
  decide (t < tt.next) && decide (t ≠ TT.root) &&
  (decide (t < tt.nbase) || (ahas tt.newName t && ahas tt.newParent t))

/-- the node of a trans-id after the removal phase -/
theorem removal_fields (tt : TT) (t : Tid) (hroot : t ≠ TT.root) :
    let i1 := tt.removalStep t (tt.baseInode t)
    i1.kind = (if tt.removedContents.contains t then none else tt.treeKind t) ∧
    (i1.attached = true → i1.kind = tt.treeKind t ∧ tt.pathChanged t = false ∧ tt.removedContents.contains t = false) ∧
    (tt.pathChanged t = false → tt.removedContents.contains t = false → i1.attached = (tt.treeKind t).isSome) ∧
    i1.data = tt.treeData t ∧ i1.exec = tt.treeExec t := by
  unfold TT.removalStep TT.baseInode TT.treeKind TT.treeData TT.treeExec TT.nbase
  by_cases hb : t < tt.base.length
  · have hget : tt.base[t]? = some tt.base[t] := by simp [hb]
    simp only [hget, hroot, Nat.not_le.mpr hb, false_or, if_false]
    by_cases hr : t ∈ tt.removedContents
    · simp [hr]
    · by_cases hp : tt.pathChanged t = true
      · simp [hr, hp]
      · simp [hr, hp]
  · have hget : tt.base[t]? = none := List.getElem?_eq_none (Nat.le_of_not_lt hb)
    simp [hget, Nat.le_of_not_lt hb, Inode.empty]

theorem ahas_of_alookup_some {β : Type} {l : List (Tid × β)} {k : Tid} {v : β} (h : alookup l k = some v) : ahas l k = true := by
  unfold ahas; unfold alookup at h
  cases hf : l.find? (fun e => e.1 == k) with
  | none => simp [hf] at h
  | some e => exact List.any_eq_true.mpr ⟨e, List.mem_of_find?_eq_some hf, by simpa using List.find?_some hf⟩

theorem ahas_of_alookup_none {β : Type} {l : List (Tid × β)} {k : Tid} (h : alookup l k = none) : ahas l k = false := by
  unfold ahas; unfold alookup at h
  cases hf : l.find? (fun e => e.1 == k) with
  | none => rw [List.find?_eq_none] at hf; exact List.any_eq_false.mpr hf
  | some e => simp [hf] at h

theorem alookup_isSome_of_ahas {β : Type} {l : List (Tid × β)} {k : Tid} (h : ahas l k = true) : (alookup l k).isSome = true := by
  cases hl : alookup l k with
  | none => have := ahas_of_alookup_none hl; simp_all
  | some v => rfl

/-- **apply = final (disk)**: after the removal, insertion and chmod phases the
inode of every trans-id shows exactly the kind, contents and executable bit that
`final_kind`, the new / tree contents and `_new_executability` / the tree mode
describe.  Holds for every transform state, clean or not. -/
theorem applied_disk_eq_final (fl : Flags) (tt : TT) (t : Tid) (p : List String) (h : tt.okId t = true) :
    let a := tt.appliedEntry fl t p
    let f := tt.finalEntry t
    a.kind = f.kind ∧ a.data = f.data ∧ a.exec = f.exec := by
  simp only [TT.okId, Bool.and_eq_true, Bool.or_eq_true, decide_eq_true_eq] at h
  obtain ⟨⟨hlt, hroot⟩, hknown⟩ := h
  obtain ⟨hk1, hatt1, hatt1', hd1, hx1⟩ := removal_fields tt t hroot
  simp only [TT.appliedEntry, applyDisk_get tt t hlt, TT.finalEntry]
  generalize tt.removalStep t (tt.baseInode t) = i1 at *
  -- names and parents exist for the ids we look at
  have hfp : tt.pathChanged t = true ∨ ahas tt.newContents t = true → ∃ pp n, tt.finalParent t = some pp ∧ tt.finalName t = some n := by
    intro _
    unfold TT.finalParent TT.finalName
    rcases hknown with hb | ⟨hn, hp⟩
    · have hget : tt.base[t]? = some tt.base[t] := by simp [TT.nbase] at hb; simp [hb]
      cases alookup tt.newParent t <;> cases alookup tt.newName t <;> simp [hget]
    · have h1 := alookup_isSome_of_ahas hn
      have h2 := alookup_isSome_of_ahas hp
      cases hA : alookup tt.newParent t <;> cases hB : alookup tt.newName t <;> simp_all
  unfold TT.chmodStep TT.insertionStep TT.limboInode TT.finalKind
  cases hnc : alookup tt.newContents t with
  | some kd =>
    obtain ⟨k, d⟩ := kd
    have hh := ahas_of_alookup_some hnc
    obtain ⟨pp, n, hpp, hn⟩ := hfp (Or.inr hh)
    simp only [hh, Bool.true_or, if_true, hpp, hn]
    cases hx : alookup tt.newExec t <;> cases k <;> simp
  | none =>
    have hh := ahas_of_alookup_none hnc
    simp only [hh, Bool.false_or]
    by_cases hpc : tt.pathChanged t = true
    · obtain ⟨pp, n, hpp, hn⟩ := hfp (Or.inl hpc)
      simp only [hpc, if_true, hpp, hn]
      rw [hk1]
      cases hx : alookup tt.newExec t <;> cases hr : tt.removedContents.contains t <;>
        cases hk : tt.treeKind t <;> simp_all <;> (rename_i k; cases k <;> simp_all)
    · have hpc' : tt.pathChanged t = false := by simpa using hpc
      simp only [hpc', Bool.false_eq_true, if_false]
      by_cases hr : tt.removedContents.contains t = true
      · have : i1.attached = false := by
          cases ha : i1.attached with
          | false => rfl
          | true => have := (hatt1 ha).2.2; simp_all
        have hr2 : t ∈ tt.removedContents := by simpa using hr
        cases hx : alookup tt.newExec t <;> simp [this, hr2]
      · have hr' : tt.removedContents.contains t = false := by simpa using hr
        have ha := hatt1' hpc' hr'
        rw [hr'] at hk1
        simp only [hr']
        cases hx : alookup tt.newExec t <;> cases hk : tt.treeKind t <;> simp_all <;>
          (rename_i k; cases k <;> simp_all)

example : ({ base := [⟨none, "", some .dir, "", false, some "r"⟩, ⟨some 0, "x", some .file, "X", true, some "fx"⟩], next := 2,
             newName := [(1, "y")], newParent := [(1, some 0)] } : TT).okId 1 = true := by decide

/-! ### the preview tree against the `final_*` functions -/

/-- the answers of a preview tree that reads unmodified entries at their tree path -/
def Flags.previewFixed (fl : Flags) : Bool := fl.dataByTreePath && fl.execByTreePath

/-- **preview = final**: with the preview accessors reading an unmodified entry at its
*tree* path, `kind`, `get_file_text` / `get_symlink_target`, `is_executable` and
`is_versioned` of the preview tree are exactly the final entry — for every
transform state, every trans-id and whatever path it is found at. -/
theorem preview_entry_eq_final (fl : Flags) (tt : TT) (t : Tid) (p : List String) (hf : fl.previewFixed = true) :
    let v := tt.previewEntry fl t p
    let f := tt.finalEntry t
    v.kind = f.kind ∧ v.data = some f.data ∧ v.exec = f.exec ∧ v.versioned = f.versioned := by
  simp only [Flags.previewFixed, Bool.and_eq_true] at hf
  obtain ⟨hd, hx⟩ := hf
  simp only [TT.previewEntry, TT.finalEntry, hd, hx, if_true]
  refine ⟨trivial, ?_, ?_, trivial⟩
  · unfold TT.finalKind
    cases hnc : alookup tt.newContents t with
    | some kd => obtain ⟨k, d⟩ := kd; cases k <;> simp
    | none =>
      by_cases hr : t ∈ tt.removedContents
      · simp [hr]
      · cases hk : tt.treeKind t with
        | none => simp [hr, hk]
        | some k => cases k <;> simp [hr, hk]
  · cases hk : tt.finalKind t with
    | none => simp
    | some k => cases k <;> cases alookup tt.newExec t <;> simp

/-- **preview = apply** on kind, contents and executable bit, for the fixed preview
accessors: both equal the final entry. -/
theorem preview_eq_apply_disk (fl : Flags) (tt : TT) (t : Tid) (p : List String)
    (hf : fl.previewFixed = true) (h : tt.okId t = true) :
    let v := tt.previewEntry fl t p
    let a := tt.appliedEntry fl t p
    v.kind = a.kind ∧ v.data = some a.data ∧ v.exec = a.exec := by
  obtain ⟨a1, a2, a3⟩ := applied_disk_eq_final fl tt t p h
  obtain ⟨p1, p2, p3, _⟩ := preview_entry_eq_final fl tt t p hf
  simp only at a1 a2 a3 p1 p2 p3 ⊢
  exact ⟨by rw [p1, a1], by rw [p2, a2], by rw [p3, a3]⟩

/-- hypothesis of the partial theorem: the base tree has this very entry at the path
the preview shows it at (it was not moved), and contents are only replaced on
versioned entries -/
def TT.unmovedAt (tt : TT) (t : Tid) (p : List String) : Bool :=
  tt.tidOfTreePath p == some t && (!(ahas tt.newContents t) || tt.finalVersioned t)

/-- **preview = final, partial**: for the accessors as they are in the pinned source
(an unmodified entry is read from the base tree at the *preview* path) the
statement holds for entries that the base tree has at that same path.  For moved
entries it is false: `preview_path_lookup_witness`. -/
theorem preview_entry_partial (fl : Flags) (tt : TT) (t : Tid) (p : List String) (hu : tt.unmovedAt t p = true) :
    let v := tt.previewEntry fl t p
    let f := tt.finalEntry t
    v.kind = f.kind ∧ v.data = some f.data ∧ v.exec = f.exec ∧ v.versioned = f.versioned := by
  simp only [TT.unmovedAt, Bool.and_eq_true, Bool.or_eq_true, beq_iff_eq, Bool.not_eq_eq_eq_not, Bool.not_true] at hu
  obtain ⟨hp, hv⟩ := hu
  simp only [TT.previewEntry, TT.finalEntry, TT.baseDataAt, TT.baseExecAt, hp]
  refine ⟨trivial, ?_, ?_, trivial⟩
  · unfold TT.finalKind
    cases hnc : alookup tt.newContents t with
    | some kd =>
      obtain ⟨k, d⟩ := kd
      have hh := ahas_of_alookup_some hnc
      have hv' : tt.finalVersioned t = true := by simpa [hh] using hv
      cases k <;> simp [hv']
    | none =>
      by_cases hr : t ∈ tt.removedContents
      · simp [hr]
      · cases hk : tt.treeKind t with
        | none => simp [hr, hk]
        | some k => cases k <;> simp [hr, hk]
  · cases hk : tt.finalKind t with
    | none => simp
    | some k => cases k <;> cases alookup tt.newExec t <;> simp

/-- the code variant of the pinned source for bzr trees -/
def pinnedBzr : Flags := { git := false, dataByTreePath := false, execByTreePath := false, childrenGet := false, cancelGuarded := false, loopGuarded := false }
def pinnedGit : Flags := { git := true, dataByTreePath := true, execByTreePath := false, childrenGet := false, cancelGuarded := false, loopGuarded := false }

/-- base tree `x` (an executable file) and a directory `d` with a file `d/g` -/
def witnessTT : TT :=
  { base := [⟨none, "", some .dir, "", false, some "r"⟩, ⟨some 0, "x", some .file, "X", true, some "fx"⟩,
             ⟨some 0, "d", some .dir, "", false, some "fd"⟩, ⟨some 2, "g", some .file, "G", false, some "fg"⟩],
    next := 4 }

/-- `adjust_path("y", root, trans_id_tree_path("x"))` -/
def renamedFile : TT := { witnessTT with newName := [(1, "y")], newParent := [(1, some 0)] }
/-- `adjust_path("e", root, trans_id_tree_path("d"))` -/
def renamedDir : TT := { witnessTT with newName := [(2, "e")], newParent := [(2, some 0)] }

/-- **witness (bzr preview)**: rename an unmodified executable file `x` to `y`.  The
transform has no raw conflicts, the applied tree has `y` with the text and the
executable bit of `x`, but the preview tree (as in the pinned source) cannot
read `y` (`data = none`: NoSuchFile) and says it is not executable. -/
theorem preview_path_lookup_witness :
    renamedFile.findRawConflicts pinnedBzr = [] ∧
    renamedFile.pathOf 1 = some ["y"] ∧
    (renamedFile.appliedEntry pinnedBzr 1 ["y"]).data = "X" ∧
    (renamedFile.appliedEntry pinnedBzr 1 ["y"]).exec = true ∧
    (renamedFile.previewEntry pinnedBzr 1 ["y"]).data = none ∧
    (renamedFile.previewEntry pinnedBzr 1 ["y"]).exec = false := by
  decide +kernel

/-- **witness (git apply)**: rename a directory `d` with a versioned file `d/g` to `e`.
No raw conflicts; the preview tree says `e/g` is versioned; the index written by
`_generate_index_changes` still has `d/g` and not `e/g`. -/
theorem git_index_dir_rename_witness :
    renamedDir.findRawConflicts pinnedGit = [] ∧
    renamedDir.pathOf 3 = some ["e", "g"] ∧
    (renamedDir.previewEntry pinnedGit 3 ["e", "g"]).versioned = true ∧
    (renamedDir.appliedEntry pinnedGit 3 ["e", "g"]).versioned = false ∧
    renamedDir.gitIndex = [["x"], ["d", "g"]] := by
  decide +kernel

/-! ### the inventory delta -/

/-- every trans-id whose name, parent, file id or executable bit is set by the
transform is in `_inventory_altered` -/
theorem inventoryAltered_covers (tt : TT) (t : Tid) (h : t < tt.next)
    (hc : ahas tt.newName t = true ∨ ahas tt.newParent t = true ∨ ahas tt.newExec t = true) :
    t ∈ tt.inventoryAltered := by
  unfold TT.inventoryAltered
  simp only [List.mem_filter, TT.ids, List.mem_range]
  refine ⟨h, ?_⟩
  rcases hc with h1 | h1 | h1 <;> simp [h1]

/-- **delta soundness, per entry**: for every altered, finally versioned trans-id the
delta carries an entry with the final name, the final kind and the file id of
the *final* parent — the inventory path of the entry is then its final path. -/
theorem delta_put_sound (tt : TT) (t : Tid) (f : String) (ha : t ∈ tt.inventoryAltered) (hf : tt.finalFid t = some f) :
    DeltaItem.put f (tt.deltaEntry t f) ∈ tt.generateDelta ∧
    (tt.deltaEntry t f).name = (tt.finalName t).getD "" ∧
    (tt.deltaEntry t f).parentFid = ((tt.finalParent t).getD none).bind tt.finalFid ∧
    (∀ k, tt.finalKind t = some k → (tt.deltaEntry t f).kind = some k) := by
  refine ⟨?_, rfl, rfl, fun k hk => by simp [TT.deltaEntry, hk]⟩
  unfold TT.generateDelta
  apply List.mem_append_right
  rw [List.mem_filterMap]
  exact ⟨t, ha, by simp [hf]⟩

/-- `apply_inventory_delta`: the last item about a file id decides its entry -/
theorem delta_last_put_wins (tt : TT) (pre post : List DeltaItem) (f : String) (e : InvEntry)
    (hd : tt.generateDelta = pre ++ [.put f e] ++ post)
    (hpost : ∀ x ∈ post, (match x with | .remove g => g | .put g _ => g) ≠ f) :
    (tt.appliedInv.find? (fun x => x.1 == f)).map (·.2) = some e := by
  unfold TT.appliedInv
  rw [hd]
  exact applyDelta_put_last _ pre post f e hpost

/-! ### resolvers -/

/-- "versioning no contents": after `cancel_versioning` the id is no longer in
`_new_id`, so the conflict is not reported again -/
theorem resolve_versioning_no_contents_sound (tt tt' : TT) (t : Tid) (h : tt.cancelVersioning t = .ok tt') :
    ahas tt'.newId t = false ∧ Conflict.versioningNoContents t ∉ tt'.improperVersioning := by
  unfold TT.cancelVersioning at h
  split at h
  · cases h
    have h1 : ahas (aerase tt.newId t) t = false := ahas_aerase_self _ _
    refine ⟨h1, ?_⟩
    unfold TT.improperVersioning
    rw [List.mem_filterMap]
    rintro ⟨e, he, hx⟩
    split at hx
    · simp only [Option.some.injEq, Conflict.versioningNoContents.injEq] at hx
      have : ahas (aerase tt.newId t) t = true := by
        unfold ahas
        exact List.any_eq_true.mpr ⟨e, he, by simp [hx]⟩
      simp [h1] at this
    · cases hx
  · cases h

/-- "missing parent", parent not scheduled for deletion: it becomes a directory -/
theorem resolve_missing_parent_sound (fl : Flags) (tt tt' : TT) (t : Tid)
    (hr : tt.removedContents.contains t = false) (h : tt.resolveMissingParent fl t = .ok tt') :
    tt'.finalKind t = some .dir := by
  unfold TT.resolveMissingParent at h
  simp only [hr, Bool.false_eq_true, if_false] at h
  split at h
  · cases h
  · unfold TT.createContents at h
    split at h
    · cases h
    · rename_i hn
      cases h
      have hn' : ahas tt.newContents t = false := by simpa using hn
      simp [TT.finalKind, alookup_append_new _ _ _ hn']

/-- "missing parent", parent scheduled for deletion: the deletion is cancelled -/
theorem resolve_missing_parent_cancels (fl : Flags) (tt tt' : TT) (t : Tid)
    (hr : tt.removedContents.contains t = true) (h : tt.resolveMissingParent fl t = .ok tt') :
    tt'.removedContents.contains t = false := by
  unfold TT.resolveMissingParent at h
  simp only [hr, if_true] at h
  cases hc : tt.childrenOf fl t with
  | error e => simp [hc, bind, Except.bind] at h
  | ok cs =>
    simp only [hc, bind, Except.bind, pure, Except.pure] at h
    cases h
    simp

/-- "duplicate" (the `.moved` branch): one of the two entries keeps its parent and
gets the suffix `.moved` — the entry that was *not* renamed by the transform if
exactly one of them was -/
theorem resolve_duplicate_renames (fl : Flags) (tt tt' : TT) (last cur : Tid)
    (hb : (fl.git && tt.finalKind cur = some .dir && tt.finalKind last = some .dir) = false)
    (h : tt.resolveDuplicate fl last cur = .ok tt') :
    ∃ fp n, tt.finalParent last = some (some fp) ∧
      let existing := if tt.pathChanged last then cur else last
      tt.finalName existing = some n ∧ tt'.finalName existing = some (n ++ ".moved") ∧
      tt'.finalParent existing = some (some fp) := by
  unfold TT.resolveDuplicate at h
  split at h
  · cases h
  · cases h
  · rename_i fp hfp
    refine ⟨fp, ?_⟩
    simp only at h
    have hb' : ¬ ((fl.git && decide (tt.finalKind cur = some .dir) && decide (tt.finalKind last = some .dir)) = true) := by
      simpa using hb
    by_cases hpc : tt.pathChanged last = true
    · simp only [hpc, if_true] at h ⊢
      rw [if_neg hb'] at h
      cases hn : tt.finalName cur with
      | none => simp [hn] at h
      | some n =>
        simp only [hn] at h
        unfold TT.adjustPath at h
        split at h
        · cases h
        · cases h
          exact ⟨n, hfp, rfl, by simp [TT.finalName, alookup_aset_self], by simp [TT.finalParent, alookup_aset_self]⟩
    · have hpc' : tt.pathChanged last = false := by simpa using hpc
      simp only [hpc', Bool.false_eq_true, if_false] at h ⊢
      rw [if_neg hb'] at h
      cases hn : tt.finalName last with
      | none => simp [hn] at h
      | some n =>
        simp only [hn] at h
        unfold TT.adjustPath at h
        split at h
        · cases h
        · cases h
          exact ⟨n, hfp, rfl, by simp [TT.finalName, alookup_aset_self], by simp [TT.finalParent, alookup_aset_self]⟩

/-- "duplicate id": the tree entry that carries the file id is unversioned -/
theorem resolve_duplicate_id_sound (tt tt' : TT) (old : Tid) (h : tt.resolveDuplicateId old = .ok tt') :
    tt'.removedId.contains old = true := by
  unfold TT.resolveDuplicateId TT.unversionFile at h
  cases h
  exact sadd_contains _ _

end BreezyVerif.C14
