import BreezyVerif.Model.C17
import BreezyVerif.Props.C18
/-!
C17 — the four three-way merge laws, for all trees (functions `Id → Option
Entry`, no bound on the number of ids), lifted from per-entry lemmas by
extensionality over ids.  "No conflicts" = no attribute-level conflict at any
id, and the merged tree is the stated well-formed tree (so the file-system
conflict pass has nothing to act on).
-/
namespace BreezyVerif.C17
open BreezyVerif.C18 (threeWay Winner)

/-- per-entry normal form of inventories: non-files are never executable -/
def EntryNorm (e : Option Entry) : Prop := ∀ x, e = some x → x.kind ≠ .file → x.exec = false

/-! ### per-entry lemmas -/

theorem mergeEntry_other_eq_base (b t : Option Entry) : mergeEntry b t b = ⟨t, []⟩ := by
  simp [mergeEntry]

theorem mergeEntry_this_eq_base (b o : Option Entry) (hn : EntryNorm o) :
    mergeEntry b b o = ⟨o, []⟩ := by
  by_cases hob : o = b
  · subst hob; simp [mergeEntry]
  · cases b with
    | none =>
      cases o with
      | none => exact absurd rfl hob
      | some oe =>
        have := hn oe rfl
        obtain ⟨p, n, k, c, x⟩ := oe
        cases k <;> simp_all [mergeEntry, namesStep, namesOn, contentsStep, contentsOn, execStep, execOn, assemble, threeWay, overrideAbsent, pick, pairOf]
    | some be =>
      cases o with
      | none => simp [mergeEntry, namesStep, namesOn, contentsStep, contentsOn, execStep, execOn, assemble, threeWay, overrideAbsent, pick, pairOf]
      | some oe =>
        have := hn oe rfl
        obtain ⟨p, n, k, c, x⟩ := oe
        obtain ⟨p', n', k', c', x'⟩ := be
        simp only [mergeEntry, namesStep, namesOn, contentsStep, contentsOn, execStep, execOn, assemble, hob, if_false, threeWay, overrideAbsent, pick, pairOf, Option.map_some,
          Option.isNone_some, Bool.false_and, Option.some.injEq]
        by_cases h1 : n' = n <;> by_cases h2 : p' = p <;> by_cases h3 : (k, c) = (k', c') <;>
          by_cases h4 : x' = x <;> cases k <;> simp_all <;> grind

theorem mergeEntry_same (b t : Option Entry) (hn : EntryNorm t) :
    mergeEntry b t t = ⟨t, []⟩ := by
  by_cases hob : t = b
  · subst hob; simp [mergeEntry]
  · cases t with
    | none => cases b <;> simp_all [mergeEntry, namesStep, namesOn, contentsStep, contentsOn, execStep, execOn, assemble, threeWay, overrideAbsent, pick, pairOf]
    | some te =>
      have := hn te rfl
      obtain ⟨p, n, k, c, x⟩ := te
      cases b with
      | none => cases k <;> simp_all [mergeEntry, namesStep, namesOn, contentsStep, contentsOn, execStep, execOn, assemble, threeWay, overrideAbsent, pick, pairOf]
      | some be =>
        obtain ⟨p', n', k', c', x'⟩ := be
        simp only [mergeEntry, namesStep, namesOn, contentsStep, contentsOn, execStep, execOn, assemble, hob, if_false, threeWay, overrideAbsent, pick, pairOf, Option.map_some,
          Option.isNone_some, Bool.false_and, Option.some.injEq]
        by_cases h1 : n' = n <;> by_cases h2 : p' = p <;> by_cases h3 : (k, c) = (k', c') <;>
          by_cases h4 : x' = x <;> cases k <;> simp_all <;> grind

/-! ### the four laws -/

/-- OTHER = BASE ⇒ the merge leaves THIS unchanged, without conflicts -/
theorem merge_other_eq_base (base this : Tree) :
    merge3 base this base = this ∧ ∀ i, conflictsAt base this base i = [] := by
  constructor
  · funext i; simp [merge3, mergeEntry_other_eq_base]
  · intro i; simp [conflictsAt, mergeEntry_other_eq_base]

/-- THIS = BASE ⇒ the merged tree is OTHER, without conflicts -/
theorem merge_this_eq_base (base other : Tree) (hn : ExecNorm other) :
    merge3 base base other = other ∧ ∀ i, conflictsAt base base other i = [] := by
  have h : ∀ i, mergeEntry (base i) (base i) (other i) = ⟨other i, []⟩ := fun i =>
    mergeEntry_this_eq_base _ _ (fun x hx => hn i x hx)
  constructor
  · funext i; simp [merge3, h]
  · intro i; simp [conflictsAt, h]

/-- both sides made identical changes ⇒ result is THIS (= OTHER), without conflicts -/
theorem merge_identical (base this : Tree) (hn : ExecNorm this) :
    merge3 base this this = this ∧ ∀ i, conflictsAt base this this i = [] := by
  have h : ∀ i, mergeEntry (base i) (this i) (this i) = ⟨this i, []⟩ := fun i =>
    mergeEntry_same _ _ (fun x hx => hn i x hx)
  constructor
  · funext i; simp [merge3, h]
  · intro i; simp [conflictsAt, h]

/-- the two sides change disjoint sets of ids ⇒ the result is the union of both
change sets, without conflicts -/
theorem merge_disjoint (base this other : Tree) (hn : ExecNorm other)
    (hd : ∀ i, this i = base i ∨ other i = base i) :
    merge3 base this other = union base this other ∧ ∀ i, conflictsAt base this other i = [] := by
  have h : ∀ i, mergeEntry (base i) (this i) (other i) = ⟨union base this other i, []⟩ := by
    intro i
    unfold union
    by_cases ho : other i = base i
    · simp [ho, mergeEntry_other_eq_base]
    · have ht : this i = base i := (hd i).resolve_right ho
      simp only [ho, if_false, ht]
      exact mergeEntry_this_eq_base _ _ (fun x hx => hn i x hx)
  constructor
  · funext i; simp [merge3, h]
  · intro i; simp [conflictsAt, h]

/-- hence the file-system conflict pass has nothing to do whenever the union is well-formed -/
theorem merge_disjoint_wf (ids : List Id) (base this other : Tree) (hn : ExecNorm other)
    (hd : ∀ i, this i = base i ∨ other i = base i) (hw : wf ids (union base this other) = true) :
    wf ids (merge3 base this other) = true := by
  rw [(merge_disjoint base this other hn hd).1]; exact hw

/-- the union takes every change of either side: ids changed by OTHER carry
OTHER's entry, ids changed by THIS carry THIS's entry, untouched ids BASE's -/
theorem union_spec (base this other : Tree) (hd : ∀ i, this i = base i ∨ other i = base i) (i : Id) :
    (other i ≠ base i → union base this other i = other i) ∧
    (this i ≠ base i → union base this other i = this i) ∧
    (this i = base i → other i = base i → union base this other i = base i) := by
  unfold union
  refine ⟨fun h => by simp [h], fun h => ?_, fun h1 h2 => by simp [h1, h2]⟩
  have : other i = base i := (hd i).resolve_left h
  simp [this]

/-- the laws are not vacuous and the hypotheses matter: when both sides change
the same entry differently the merge reports a conflict -/
theorem conflict_witness :
    (mergeEntry (some ⟨some 0, 1, .file, 1, false⟩) (some ⟨some 0, 2, .file, 1, false⟩)
      (some ⟨some 0, 3, .file, 1, false⟩)).conflicts = [.path] ∧
    (mergeEntry (some ⟨some 0, 1, .file, 1, false⟩) none (some ⟨some 0, 1, .file, 2, false⟩)).conflicts
      = [.contents] := by decide

/-! non-vacuity examples -/
example : ∃ base this other : Tree, ExecNorm other ∧ (∀ i, this i = base i ∨ other i = base i) ∧
    this ≠ base ∧ other ≠ base := by
  refine ⟨fun i => if i = 0 then some ⟨none, 0, .dir, 0, false⟩ else if i = 1 then some ⟨some 0, 1, .file, 1, false⟩ else none,
          fun i => if i = 0 then some ⟨none, 0, .dir, 0, false⟩ else if i = 1 then some ⟨some 0, 2, .file, 1, false⟩ else none,
          fun i => if i = 0 then some ⟨none, 0, .dir, 0, false⟩ else if i = 1 then some ⟨some 0, 1, .file, 1, false⟩
                   else if i = 2 then some ⟨some 0, 3, .file, 7, true⟩ else none, ?_, ?_, ?_, ?_⟩
  · intro i e h hk
    by_cases h0 : i = 0 <;> by_cases h1 : i = 1 <;> by_cases h2 : i = 2 <;> simp_all <;> (subst h; simp_all)
  · intro i
    by_cases h0 : i = 0 <;> by_cases h1 : i = 1 <;> by_cases h2 : i = 2 <;> simp_all
  · intro h; have := congrFun h 1; simp at this
  · intro h; have := congrFun h 2; simp at this

end BreezyVerif.C17
