import BreezyVerif.Model.C29
/-!
C30 — a smart server never waits for bytes beyond the current request.

The decoders are the state machines of `Model/C29.lean` (`feed`, `nextReadSize`).
This file adds the reading loops that trust `next_read_size()`:

* `SmartServerPipeStreamMedium._serve_one_request_unguarded` (stops when the hint is 0),
* `ConventionalResponseHandler._read_more` driven by `_wait_for_response_end` (same shape),
* `SmartClientRequestProtocolOne.read_body_bytes` / `Two.read_streamed_body`
  (stop when the body decoder has `finished_reading`).

A pipe delivers between 1 and `want` bytes per read (`sched i` picks how many);
asking for more than the peer will ever send blocks forever (`wouldBlock`).
-/
namespace BreezyVerif.C30
open BreezyVerif.C29

/-- a decoder as seen by a reading loop -/
structure Machine (S : Type) where
  feed : S → Bytes → S
  nrs : S → Int            -- next_read_size()
  fin : S → Bool           -- the message has been decoded completely
  stop : S → Bool          -- the loop's exit test
  unused : S → Bytes

inductive Outcome (S : Type) where
  /-- loop returned; `leftover` = bytes of the message that were never read -/
  | finished (s : S) (leftover : Bytes)
  /-- `read(want)` with fewer than `want` bytes left in the message (or `want ≤ 0`): blocks -/
  | wouldBlock (s : S) (want : Int) (avail : Nat)
  | outOfFuel
  /-- `read(n)` returned `b""`: the peer closed the pipe (only `pipeLoopEof` produces it).
  Server: `self.finished = True; return`; client: `ConnectionResetError` -/
  | eof (s : S)
  deriving Repr

/-- a short read: at least 1, at most `want` bytes -/
def readSize (want : Int) (choice : Nat) : Nat := max 1 (min choice want.toNat)

/-- `while True: n = next_read_size(); if stop: return; data = read(n); accept_bytes(data)`
on the bytes `avail` that remain of the current message -/
def pipeLoop {S : Type} (M : Machine S) (sched : Nat → Nat) : Nat → Nat → S → Bytes → Outcome S
  | 0, _, _, _ => .outOfFuel
  | fuel + 1, i, s, avail =>
    if M.stop s then .finished s avail
    else
      let want := M.nrs s
      if want ≤ 0 ∨ (avail.length : Int) < want then .wouldBlock s want avail.length
      else
        let k := readSize want (sched i)
        pipeLoop M sched fuel (i + 1) (M.feed s (avail.take k)) (avail.drop k)

/-- the hints requested along the way (for the correspondence check) -/
def pipeHints {S : Type} (M : Machine S) (sched : Nat → Nat) : Nat → Nat → S → Bytes → List Int
  | 0, _, _, _ => []
  | fuel + 1, i, s, avail =>
    if M.stop s then []
    else
      let want := M.nrs s
      if want ≤ 0 ∨ (avail.length : Int) < want then [want]
      else
        let k := readSize want (sched i)
        want :: pipeHints M sched fuel (i + 1) (M.feed s (avail.take k)) (avail.drop k)

/-- client `read_body_bytes`: `while not decoder.finished_reading` -/
def lpMachine : Machine LP :=
  { feed := LP.feed, nrs := LP.nextReadSize, fin := LP.finished, stop := LP.finished, unused := LP.unused }

/-- client `read_streamed_body` -/
def ckMachine : Machine CK :=
  { feed := CK.feed, nrs := CK.nextReadSize, fin := CK.finished, stop := CK.finished, unused := CK.unused }

/-- server pipe medium / client `_read_more` on a ProtocolThreeDecoder: stop when the hint is 0 -/
def v3Machine : Machine V3 :=
  { feed := V3.feed, nrs := V3.nextReadSize, fin := V3.finished,
    stop := fun s => s.nextReadSize == 0, unused := V3.unused }

/-- server pipe medium on SmartServerRequestProtocolOne/Two -/
def reqMachine (w : List Bytes → Bool) : Machine Req :=
  { feed := Req.feed w, nrs := Req.nextReadSize, fin := Req.finished,
    stop := fun s => s.nextReadSize == 0,
    unused := Req.unused }


/-! ## the peer closes the pipe inside a message

`pipeLoopEof` is the same loop over a pipe whose writer has sent `avail` and then closed
its end: a read with at least one byte pending returns `1 … min want pending` bytes (a pipe
never blocks while bytes are pending), a read with nothing pending returns `b""`. -/
def pipeLoopEof {S : Type} (M : Machine S) (sched : Nat → Nat) : Nat → Nat → S → Bytes → Outcome S
  | 0, _, _, _ => .outOfFuel
  | fuel + 1, i, s, avail =>
    if M.stop s then .finished s avail
    else
      let want := M.nrs s
      if want ≤ 0 then .wouldBlock s want avail.length
      else if avail.isEmpty then .eof s
      else
        let k := min (readSize want (sched i)) avail.length
        pipeLoopEof M sched fuel (i + 1) (M.feed s (avail.take k)) (avail.drop k)

def pipeHintsEof {S : Type} (M : Machine S) (sched : Nat → Nat) : Nat → Nat → S → Bytes → List Int
  | 0, _, _, _ => []
  | fuel + 1, i, s, avail =>
    if M.stop s then []
    else
      let want := M.nrs s
      if want ≤ 0 ∨ avail.isEmpty then [want]
      else
        let k := min (readSize want (sched i)) avail.length
        want :: pipeHintsEof M sched fuel (i + 1) (M.feed s (avail.take k)) (avail.drop k)

/-! ## machine combinators -/

/-- `SmartMedium.read_bytes`: `min(desired_count, _MAX_READ_SIZE)` (64 KiB) -/
def capMachine {S : Type} (M : Machine S) (cap : Nat) : Machine S :=
  { M with nrs := fun s => min (M.nrs s) (cap : Int) }

/-- a decoder that gives up: once `ok s` is false, `next_read_size()` is 0 and the loop
stops (`ProtocolThreeDecoder.decoding_failed`, or the message handler raising out of
`_read_more` on the client) — wherever in the message that happens -/
def guardMachine {S : Type} (M : Machine S) (ok : S → Bool) : Machine S :=
  { feed := M.feed
    nrs := fun s => if ok s then M.nrs s else 0
    fin := fun s => M.fin s && ok s
    stop := fun s => M.stop s || !ok s
    unused := M.unused }

/-- run `M1` to completion, then hand its unused bytes to the decoder `k` chooses
(`_build_protocol`: `protocol.accept_bytes(unused_bytes)`) and continue with `M2` -/
def seqMachine {S1 S2 : Type} (M1 : Machine S1) (M2 : Machine S2) (k : S1 → S2) :
    Machine (S1 ⊕ S2) :=
  { feed := fun s x => match s with
      | .inl s1 =>
        let s1' := M1.feed s1 x
        if M1.fin s1' then .inr (M2.feed (k s1') (M1.unused s1')) else .inl s1'
      | .inr s2 => .inr (M2.feed s2 x)
    nrs := fun s => match s with | .inl s1 => M1.nrs s1 | .inr s2 => M2.nrs s2
    fin := fun s => match s with | .inl _ => false | .inr s2 => M2.fin s2
    stop := fun s => match s with | .inl _ => false | .inr s2 => M2.stop s2
    unused := fun s => match s with | .inl _ => [] | .inr s2 => M2.unused s2 }

/-- one of two decoders, chosen when the state is created -/
def altMachine {S1 S2 : Type} (M1 : Machine S1) (M2 : Machine S2) : Machine (S1 ⊕ S2) :=
  { feed := fun s x => match s with | .inl a => .inl (M1.feed a x) | .inr b => .inr (M2.feed b x)
    nrs := fun s => match s with | .inl a => M1.nrs a | .inr b => M2.nrs b
    fin := fun s => match s with | .inl a => M1.fin a | .inr b => M2.fin b
    stop := fun s => match s with | .inl a => M1.stop a | .inr b => M2.stop b
    unused := fun s => match s with | .inl a => M1.unused a | .inr b => M2.unused b }

/-- nothing to read (a response without body): the state is the unused bytes -/
def nilMachine : Machine Bytes :=
  { feed := fun u x => u ++ x, nrs := fun _ => 0, fin := fun _ => true, stop := fun _ => true,
    unused := fun u => u }

/-! ## `_get_line` (medium.py): `read_bytes(1)` until the buffer contains a newline -/

inductive Line where
  | reading (buf : Bytes)
  /-- `line` is the text before the newline, `unused` = `excess` (pushed back) -/
  | done (line unused : Bytes)
  deriving DecidableEq, Repr

def Line.feed : Line → Bytes → Line
  | .reading buf, x =>
    match splitLine (buf ++ x) with
    | none => .reading (buf ++ x)
    | some (l, r) => .done l r
  | .done l u, x => .done l (u ++ x)

def Line.finished : Line → Bool
  | .done .. => true
  | _ => false

def Line.unused : Line → Bytes
  | .done _ u => u
  | _ => []

def lineMachine : Machine Line :=
  { feed := Line.feed, nrs := fun _ => 1, fin := Line.finished, stop := Line.finished,
    unused := Line.unused }

/-! ## ProtocolThreeDecoder with the checks it makes on headers and structures -/

/-- `okH raw`: `bdecode_as_tuple(raw)` succeeds and gives a dict; `okS raw`: it succeeds -/
def evOk (okH okS : Bytes → Bool) : Ev → Bool
  | .headers h => okH h
  | .struct r => okS r
  | _ => true

def v3Ok (okH okS : Bytes → Bool) (s : V3) : Bool := s.events.all (evOk okH okS)

/-- the server's decoder: framing + `decoding_failed` on an undecodable header / structure.
(Errors raised by the message handler do NOT stop the server's decoder: `accept_bytes`
catches `SmartMessageHandlerError`, reports it and goes on parsing to the end.) -/
def v3gMachine (okH okS : Bytes → Bool) : Machine V3 := guardMachine v3Machine (v3Ok okH okS)

/-- the client's decoder + ConventionalResponseHandler: additionally a structure that is not
a sequence or a part sequence the handler rejects (`Resp.run`) makes `protocol_error`
re-raise out of `_read_more`, which ends the reading loop at that point -/
def v3cOk (okH okS isSeq : Bytes → Bool) (fx : Bool) (s : V3) : Bool :=
  v3Ok okH okS s && v3Ok (fun _ => true) isSeq s &&
    (Resp.run fx {} s.events).toBool

def v3cMachine (okH okS isSeq : Bytes → Bool) (fx : Bool) : Machine V3 :=
  guardMachine v3Machine (v3cOk okH okS isSeq fx)

/-! ## `_build_protocol` + `_serve_one_request_unguarded`: one whole request on the pipe -/

/-- `_get_protocol_factory_for_bytes(line)` and the first `accept_bytes`:
v3 marker → ProtocolThreeDecoder fed `b""`; v2 marker → protocol 2 fed what follows the
marker on that line (nothing); anything else → protocol 1 fed the line itself -/
def serveDispatch (w : List Bytes → Bool) : Line → V3 ⊕ Req
  | .done l _ =>
    if l ++ [10] = marker3 then .inl (V3.init false)
    else if l ++ [10] = request2 then .inr (.line [])
    else .inr (Req.feed w (.line []) (l ++ [10]))
  | .reading _ => .inr (.line [])

def serveMachine (w : List Bytes → Bool) (okH okS : Bytes → Bool) : Machine (Line ⊕ (V3 ⊕ Req)) :=
  seqMachine lineMachine (altMachine (v3gMachine okH okS) (reqMachine w)) (serveDispatch w)

def serveInit : Line ⊕ (V3 ⊕ Req) := .inl (.reading [])

/-! ## client side, protocol 1 / 2: `read_response_tuple` then the body reader

v1: tuple line, then the body decoder; v2: `bzr response 2\n`, status line, tuple line,
then the body decoder.  Every line is read by `_get_line`. -/

def const {A B : Type} (b : B) : A → B := fun _ => b

def client1Machine {S : Type} (M : Machine S) (init : S) : Machine (Line ⊕ S) :=
  seqMachine lineMachine M (const init)

def client2Machine {S : Type} (M : Machine S) (init : S) : Machine (Line ⊕ (Line ⊕ (Line ⊕ S))) :=
  seqMachine lineMachine
    (seqMachine lineMachine (seqMachine lineMachine M (const init)) (const (.inl (.reading []))))
    (const (.inl (.reading [])))

/-- which body reader the caller uses after `read_response_tuple`:
nothing (`expect_body=False` / failed status), `read_body_bytes`, `read_streamed_body` -/
inductive BodyKind where
  | none | bulk | stream
  deriving DecidableEq, Repr

def bodyMachine : Machine (LP ⊕ (CK ⊕ Bytes)) :=
  altMachine lpMachine (altMachine ckMachine nilMachine)

def bodyInit : BodyKind → LP ⊕ (CK ⊕ Bytes)
  | .bulk => .inl LP.init
  | .stream => .inr (.inl CK.init)
  | .none => .inr (.inr [])

def client1 (bk : BodyKind) : Machine (Line ⊕ (LP ⊕ (CK ⊕ Bytes))) :=
  client1Machine bodyMachine (bodyInit bk)

def client2 (bk : BodyKind) : Machine (Line ⊕ (Line ⊕ (Line ⊕ (LP ⊕ (CK ⊕ Bytes))))) :=
  client2Machine bodyMachine (bodyInit bk)

def client1Init : Line ⊕ (LP ⊕ (CK ⊕ Bytes)) := .inl (.reading [])
def client2Init : Line ⊕ (Line ⊕ (Line ⊕ (LP ⊕ (CK ⊕ Bytes)))) := .inl (.reading [])

/-! ## bencode as fastbencode's `bdecode_as_tuple` accepts it (validity and top-level kind only;
used by the driver to instantiate `okH`/`okS`/`isSeq`, the theorems are parametric in them) -/

inductive BCtx where
  | list
  | dkey (last : Option Bytes)
  | dval (key : Bytes)
  deriving DecidableEq, Repr

def bytesLt : Bytes → Bytes → Bool
  | _, [] => false
  | [], _ :: _ => true
  | a :: as, b :: bs => if a < b then true else if b < a then false else bytesLt as bs

/-- split at the first occurrence of `c` -/
def splitAtByte (c : UInt8) : Bytes → Option (Bytes × Bytes)
  | [] => none
  | x :: xs =>
    if x = c then some ([], xs)
    else match splitAtByte c xs with
      | none => none
      | some (l, r) => some (x :: l, r)

def isDigits (b : Bytes) : Bool := !b.isEmpty && b.all (fun c => 48 ≤ c.toNat && c.toNat ≤ 57)

/-- digits without a leading zero (except `0` itself) -/
def canonDigits (b : Bytes) : Bool := isDigits b && (b.length = 1 || b.head? != some 48)

/-- the text between `i` and `e` -/
def intOk : Bytes → Bool
  | 45 :: ds => canonDigits ds && ds != [48]
  | ds => canonDigits ds

/-- a value (`isStr`, payload if it is a string) has been completed below the stack `st` -/
def bAfter (isStr : Bool) (payload : Bytes) : List BCtx → Option (List BCtx)
  | [] => some []
  | .list :: st => some (.list :: st)
  | .dkey last :: st =>
    if isStr && (match last with | none => true | some k => bytesLt k payload)
    then some (.dval payload :: st) else none
  | .dval key :: st => some (.dkey (some key) :: st)

/-- scan values until the outermost one is complete; `some rest` = what follows it -/
def bScan : Nat → Bytes → List BCtx → Option Bytes
  | 0, _, _ => none
  | fuel + 1, b, st =>
    let finish (isStr : Bool) (payload rest : Bytes) : Option Bytes :=
      match st with
      | [] => some rest
      | _ => match bAfter isStr payload st with
        | none => none
        | some st' => bScan fuel rest st'
    match b with
    | [] => none
    | 108 :: r => bScan fuel r (.list :: st)
    | 100 :: r => bScan fuel r (.dkey none :: st)
    | 101 :: r =>
      match st with
      | .list :: st' | .dkey _ :: st' =>
        (match st' with
         | [] => some r
         | _ => match bAfter false [] st' with
           | none => none
           | some st'' => bScan fuel r st'')
      | _ => none
    | 105 :: r =>
      match splitAtByte 101 r with
      | none => none
      | some (ds, rest) => if intOk ds then finish false [] rest else none
    | c :: _ =>
      if 48 ≤ c.toNat ∧ c.toNat ≤ 57 then
        match splitAtByte 58 b with
        | none => none
        | some (ds, rest) =>
          if canonDigits ds then
            match parseNat 10 ds with
            | none => none
            | some n => if rest.length < n then none else finish true (rest.take n) (rest.drop n)
          else none
      else none

inductive BKind where
  | int | str | list | dict
  deriving DecidableEq, Repr

/-- `some kind` iff `bdecode_as_tuple(b)` succeeds -/
def bencKind (b : Bytes) : Option BKind :=
  if bScan (b.length + 1) b [] = some [] then
    match b with
    | 100 :: _ => some .dict
    | 108 :: _ => some .list
    | 105 :: _ => some .int
    | _ => some .str
  else none

def bencIsDict (b : Bytes) : Bool := bencKind b == some .dict
def bencValid (b : Bytes) : Bool := (bencKind b).isSome
def bencIsList (b : Bytes) : Bool := bencKind b == some .list

end BreezyVerif.C30
