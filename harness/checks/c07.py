"""C07 — autopack planning is well-formed for every pack size distribution
(breezy/bzr/pack_repo.py: RepositoryPackCollection._max_pack_count,
pack_distribution, plan_autopack_combinations, _do_autopack).

Model: lean/BreezyVerif/Model/C07.lean (literal transcription, IndexError /
AssertionError explicit).  Theorems (Props/C07.lean) hold for ALL pack lists
with positive counts and ALL totals >= their sum.

T2 (every run): the real methods are called on a RepositoryPackCollection made
with __new__ (the planner methods use no instance state) with sortable stub
packs, and compared with the Lean model on
  * mpc/dist: every total 0..N plus digit-pattern and random totals to 10**18,
  * plan: EVERY multiset of positive counts with sum <= S (exhaustive), each
    with total = sum, one total > sum, and (10 %) a total < sum (malformed
    stream: IndexError path), pack ids and list order shuffled,
  * plan with arbitrary (non power-of-ten) distributions,
  * random large collections (near powers of ten, many equal sizes),
  * auto: the real _do_autopack on a stub collection with zero-revision packs,
  * real: a real 2a repository is grown by commits / fetches of k revisions;
    after every write group the real multiset of per-pack revision counts is
    compared with what the model plans from the previous real state.
Oracle (independent of the model, digit sum recomputed here): no exception,
plan == [] or one [n, ps] with len(ps) >= 2, ps a sub-multiset of the input,
n == sum of ps; packs after a non-empty plan <= digit sum; plan == [] iff
pack count <= bound; distribution sums to total with digit-sum many buckets;
on the real repository: key_count() == sum of per-pack counts and
pack count <= digit sum after every write group.

Mutants this was built against (scratch worktree; all caught).  "oracle" =
VIOLATION with a concrete failing input, "T2" = the planner still satisfies
the property (the theorems need neither the sort nor exact bucket closing) but
no longer computes the modelled function: VIOLATION ... no-failing-input-found
naming the first differing case.
  M1  `next_pack_rev_count >= pack_distribution[0]` -> `>`            T2
  M2  `if pack_operations[-1][0] >= pack_distribution[0]` -> `>`      T2
  M3  `len(existing_packs) <= len(pack_distribution)` -> `<`          oracle
      (plans `[[0, []]]` when exactly at the bound; AssertionError for total > sum)
  M4  `_max_pack_count(total) >= total_packs` -> `>` in _do_autopack  oracle
  M5  dropping `existing_packs.sort(reverse=True)`                    T2
  M6a pack_distribution: `10**exponent` -> `10**(exponent+1)`         oracle
  M6b pack_distribution: result not reversed                          T2
  M7  `pack_distribution[0] = -next_pack_rev_count` -> `del pack_distribution[0]`
      (partially used bucket dropped: IndexError only for later packs) oracle
  M8  `_max_pack_count`: `if not total_revisions: return 1` -> 0      oracle
  M9  zero-revision packs no longer skipped in _do_autopack           oracle
  M10 inner loop `if next_pack_rev_count >= 0` -> `> 0` (an exactly used
      bucket stays as a 0 bucket: empty combination planned)          oracle
Harmless (stay clean): final loop replaced by sum()/comprehension, the while /
pop(0) loop replaced by `for ... in sorted(..., reverse=True)`, digit sum by
divmod.
"""
import glob
import json
import os

from vlib import env

THEOREMS = [
    "distribution_sum", "distribution_length", "plan_ok", "plan_shape", "plan_bound",
    "plan_idle", "plan_nonidle", "autopack_none_iff", "autopack_ok", "autopack_spec",
    "plan_error_witness",
]
RULE = ("plan: every multiset of positive counts with sum <= S (exhaustive) x {total = sum, a total > sum, "
        "10% a total < sum}, plus random large collections, arbitrary distributions, _do_autopack with "
        "zero-revision packs and real-repository write groups; non-trivial = the planner gets past the "
        "'no more packs than buckets' shortcut (or, for mpc/dist, total >= 10)")
ASSUMPTIONS = [
    "total revision count passed to the planner >= sum of per-pack counts (checked on the real repository on "
    "every run: key_count() == sum of get_revision_count(); CombinedGraphIndex.key_count() adds per-index counts)",
    "Pack objects are totally ordered and distinct packs compare unequal (stub packs ordered by id; real packs "
    "are bzrformats Rust objects with __lt__)",
]
TRUSTED = [
    "packs are modelled as (count, id) pairs; the effect of _execute_pack_operations is modelled as 'each "
    "non-empty combination becomes one pack' (its real effect is observed in the real-repository part)",
]


# ---------------------------------------------------------------- real code
class StubPack:
    """sortable stand-in for a Pack (the planner only sorts and returns them)"""
    __slots__ = ("n", "count")

    def __init__(self, n, count=0):
        self.n = n
        self.count = count

    def get_revision_count(self):
        return self.count

    def __lt__(self, o):
        return self.n < o.n

    def __gt__(self, o):
        return self.n > o.n

    def __le__(self, o):
        return self.n <= o.n

    def __ge__(self, o):
        return self.n >= o.n

    def __eq__(self, o):
        return isinstance(o, StubPack) and self.n == o.n

    def __hash__(self):
        return hash(self.n)

    def __repr__(self):
        return "P%d" % self.n


_coll = None


def _collection():
    global _coll
    if _coll is None:
        from breezy.bzr.pack_repo import RepositoryPackCollection
        _coll = RepositoryPackCollection.__new__(RepositoryPackCollection)
    return _coll


def _exc(e):
    return "E:" + type(e).__name__


def _show_ops(ops):
    if ops is None:
        return "None"
    if not ops:
        return "[]"
    return "|".join("%d;%s" % (n, ",".join("%d:%d" % (c, p.n) for c, p in ps) or "-")
                    for n, ps in ops)


def impl_plan(packs, dist):
    """real plan_autopack_combinations; returns (canonical string, raw ops with (count, pack) pairs)"""
    c = _collection()
    existing = [(cnt, StubPack(i, cnt)) for cnt, i in packs]
    try:
        ops = c.plan_autopack_combinations(existing, list(dist))
    except Exception as e:  # noqa
        return _exc(e), None
    ops = [[n, [(p.count, p) for p in ps]] for n, ps in ops]
    return _show_ops(ops), ops


class _Idx:
    def __init__(self, total):
        self.total = total

    def key_count(self):
        return self.total


class _Agg:
    def __init__(self, total):
        self.combined_index = _Idx(total)


def impl_auto(total, packs):
    """real _do_autopack on a stub collection: key_count() = total, all_packs() = stub packs"""
    from breezy.bzr.pack_repo import RepositoryPackCollection
    c = RepositoryPackCollection.__new__(RepositoryPackCollection)
    stubs = [StubPack(i, cnt) for cnt, i in packs]
    c.repo = None
    c.revision_index = _Agg(total)
    c._names = {("n%d" % p.n): None for p in stubs}
    c.all_packs = lambda: list(stubs)
    c.normal_packer_class = None
    c._restart_autopack = None
    got = []

    def execute(pack_operations, packer_class=None, reload_func=None):
        got.append(pack_operations)
        return ("executed", pack_operations)

    c._execute_pack_operations = execute
    try:
        r = c._do_autopack()
    except Exception as e:  # noqa
        return _exc(e), None
    if r is None and not got:
        return "None", None
    ops = [[n, [(p.count, p) for p in ps]] for n, ps in got[0]]
    return _show_ops(ops), ops


def digit_sum(t):
    """independent of the implementation"""
    return sum(int(ch) for ch in str(t)) if t else 1


# ---------------------------------------------------------------- oracle
def oracle_plan(ctx, case, packs, bound, out, ops, what="plan"):
    """the property's predicate on the real result; only called when every
    count is positive and the distribution can hold them (total >= sum)"""
    if ops is None:
        if out == "None":
            if len(packs) > bound:
                ctx.violation(case, "%s: %d packs exceed the bound %d but nothing is planned" % (what, len(packs), bound))
            return
        ctx.violation(case, "%s fails with internal error %s" % (what, out))
        return
    if len(ops) == 0:
        if len(packs) > bound:
            ctx.violation(case, "%s: %d packs exceed the bound %d but the plan is empty" % (what, len(packs), bound))
        return
    if len(packs) <= bound:
        ctx.violation(case, "%s: pack count %d is within the bound %d but a combination is planned: %s"
                      % (what, len(packs), bound, out))
    if len(ops) != 1:
        ctx.violation(case, "%s: %d combinations planned: %s" % (what, len(ops), out))
        return
    n, ps = ops[0]
    if len(ps) < 2:
        ctx.violation(case, "%s: combination of %d pack(s): %s" % (what, len(ps), out))
    if n != sum(c for c, _ in ps):
        ctx.violation(case, "%s: revision count %d is not the sum of the combined packs: %s" % (what, n, out))
    pool = sorted((c, i) for c, i in packs)
    sel = sorted((c, p.n) for c, p in ps)
    j = 0
    for x in sel:  # sub-multiset test
        while j < len(pool) and pool[j] < x:
            j += 1
        if j >= len(pool) or pool[j] != x:
            ctx.violation(case, "%s: combined pack %r is not one of the given packs (or used twice): %s" % (what, x, out))
            break
        j += 1
    after = len(packs) - len(ps) + 1
    if after > bound:
        ctx.violation(case, "%s: %d packs remain after the plan, bound is %d: %s" % (what, after, bound, out))


def oracle_dist(ctx, t, mpc, dist):
    case = dict(kind="dist", total=t)
    if sum(dist) != t:
        ctx.violation(case, "pack_distribution(%d) sums to %d" % (t, sum(dist)))
    if len(dist) != mpc or mpc != digit_sum(t):
        ctx.violation(case, "pack_distribution(%d) has %d buckets, _max_pack_count %d, digit sum %d"
                      % (t, len(dist), mpc, digit_sum(t)))


# ---------------------------------------------------------------- generators
def partitions(n, maxpart=None):
    """all multisets of positive integers summing to n, as descending lists"""
    if maxpart is None or maxpart > n:
        maxpart = n
    if n == 0:
        yield []
        return
    for k in range(maxpart, 0, -1):
        for rest in partitions(n - k, k):
            yield [k] + rest


def _line_plan(dist, packs):
    return "plan %s %s" % (",".join(map(str, dist)) or "-", ",".join("%d:%d" % (c, i) for c, i in packs) or "-")


def _line_auto(total, packs):
    return "auto %d %s" % (total, ",".join("%d:%d" % (c, i) for c, i in packs) or "-")


def _mk_packs(rng, counts):
    ids = list(range(1, len(counts) + 1))
    rng.shuffle(ids)
    packs = [[c, i] for c, i in zip(counts, ids)]
    rng.shuffle(packs)
    return packs


def _other_total(rng, s):
    r = rng.random()
    if r < 0.3:
        return s + rng.randint(1, 9)
    if r < 0.6:
        p = 1
        while p <= s:
            p *= 10
        return rng.choice([p, p - 1, p + 1, 2 * p])
    if r < 0.8:
        return s + rng.randint(1, 10 * s + 10)
    return s * rng.randint(2, 11)


def _small_total(rng, s):
    return rng.choice([0, s - 1, s // 2, max(0, s - 10), rng.randint(0, s - 1)])


class Batch:
    def __init__(self, ctx):
        self.ctx = ctx
        self.cases, self.lines, self.outs = [], [], []

    def add(self, case, line, out):
        self.cases.append(case)
        self.lines.append(line)
        self.outs.append(out)

    def flush(self):
        if self.lines:
            self.ctx.diff(self.cases, self.lines, self.outs)
        self.cases, self.lines, self.outs = [], [], []


def do_plan_case(ctx, b, packs, total=None, dist=None, tag="plan"):
    c = _collection()
    s = sum(cn for cn, _ in packs)
    if dist is None:
        try:
            dist = c.pack_distribution(total)
        except Exception as e:  # noqa
            ctx.violation(dict(kind="dist", total=total), "pack_distribution(%d) raises %s" % (total, _exc(e)))
            return
        bound = digit_sum(total)
        case = dict(kind="plan", total=total, packs=packs)
    else:
        bound = len(dist)
        case = dict(kind="plandist", dist=list(dist), packs=packs)
    out, ops = impl_plan(packs, dist)
    wellformed = sum(dist) >= s and all(cn > 0 for cn, _ in packs)
    if wellformed:
        oracle_plan(ctx, case, packs, bound, out, ops)
    ctx.case(case, nontrivial=len(packs) > len(dist))
    ctx.count("%s:%s" % (tag, "wellformed" if wellformed else "total<sum"))
    ctx.count("out:" + ("empty" if out == "[]" else out if out.startswith("E:") else "combine"))
    ctx.count("npacks:%s" % (len(packs) if len(packs) < 10 else "%d0+" % (len(packs) // 10)))
    b.add(case, _line_plan(dist, packs), out)


def do_auto_case(ctx, b, total, packs):
    case = dict(kind="auto", total=total, packs=packs)
    out, ops = impl_auto(total, packs)
    s = sum(cn for cn, _ in packs)
    nz = [p for p in packs if p[0] > 0]
    if total >= s:
        if len(nz) == len(packs):
            oracle_plan(ctx, case, packs, digit_sum(total), out, ops, what="_do_autopack")
        else:
            if out.startswith("E:"):
                ctx.violation(case, "_do_autopack fails with internal error %s" % out)
            if (out == "None") != (len(packs) <= digit_sum(total)):
                ctx.violation(case, "_do_autopack trigger: %d packs, bound %d, result %s" % (len(packs), digit_sum(total), out))
            if ops is not None and len(nz) > digit_sum(total):
                oracle_plan(ctx, case, nz, digit_sum(total), out, ops, what="_do_autopack(non-empty packs)")
    ctx.case(case, nontrivial=len(packs) > digit_sum(total))
    ctx.count("auto:" + ("none" if out == "None" else "empty" if out == "[]" else out if out.startswith("E:") else "combine"))
    ctx.count("auto:zero-packs" if len(nz) < len(packs) else "auto:all-positive")
    b.add(case, _line_auto(total, packs), out)


def _rand_counts(rng, maxlen):
    style = rng.randrange(6)
    n = rng.randint(2, maxlen)
    if style == 0:    # many equal small packs
        v = rng.choice([1, 1, 2, 5, 9, 10, 11])
        return [v] * n
    if style == 1:    # near powers of ten
        return [max(1, 10 ** rng.randint(0, 6) + rng.choice([-1, 0, 0, 1])) for _ in range(n)]
    if style == 2:    # one large pack and a tail of ones (typical repository)
        return [rng.randint(1, 10 ** rng.randint(1, 7))] + [rng.choice([1, 1, 1, 2, 10])] * (n - 1)
    if style == 3:    # already distribution-shaped plus a few extra
        t = rng.randint(1, 10 ** rng.randint(1, 6))
        d = _collection().pack_distribution(t)[:maxlen]
        return [x for x in d if x > 0] + [rng.choice([1, 1, 3, 10]) for _ in range(rng.randint(1, 4))]
    if style == 4:    # uniformly small
        return [rng.randint(1, 12) for _ in range(n)]
    return [rng.randint(1, 10 ** rng.randint(0, 7)) for _ in range(n)]


# ---------------------------------------------------------------- real repository
def real_repo_part(ctx, b, steps, maxk):
    """grow a real 2a repository by write groups of k revisions; compare the
    evolution of the per-pack revision counts with the model"""
    rng = ctx.rng
    src = env.make_tree("2a")
    revs = []
    need = steps * maxk
    for i in range(need):
        revs.append(src.commit("r%d" % i))
    tgt = env.make_tree("2a").branch.repository

    def observe():
        tgt.lock_read()
        try:
            pc = tgt._pack_collection
            pc.ensure_loaded()
            cs = sorted((p.get_revision_count() for p in pc.all_packs()), reverse=True)
            return cs, pc.revision_index.combined_index.key_count()
        finally:
            tgt.unlock()

    pos = 0
    before, _ = observe()
    for step in range(steps):
        k = 1 if rng.random() < 0.5 else rng.randint(1, maxk)
        pos += k
        try:
            tgt.fetch(src.branch.repository, revision_id=revs[pos - 1])
        except Exception as e:  # noqa -- the write group's autopack failed
            ctx.violation(dict(kind="real", step=step, before=before, added=k, after=None, total=pos),
                          "real repository: write group adding %d revisions to packs %r fails with %s: %s"
                          % (k, before, _exc(e), str(e)[:200]))
            ctx.count("real:exception")
            break
        after, total = observe()
        case = dict(kind="real", step=step, before=before, added=k, after=after, total=total)
        if total != sum(after):
            ctx.violation(case, "key_count() %d != sum of per-pack revision counts %d" % (total, sum(after)))
        if total != pos:
            ctx.violation(case, "repository holds %d revision keys after fetching %d revisions" % (total, pos))
        if len(after) > digit_sum(total):
            ctx.violation(case, "real repository has %d packs after a write group, bound is %d (counts %r)"
                          % (len(after), digit_sum(total), after))
        # the model plans from the previous REAL state plus the new pack
        packs = [[c, i + 1] for i, c in enumerate(before + [k])]
        ctx.case(case, nontrivial=after != sorted(before + [k], reverse=True))
        ctx.count("real:" + ("autopacked" if after != sorted(before + [k], reverse=True) else "no-autopack"))
        b.add(case, "after %d %s" % (total, ",".join(map(str, before + [k]))), ",".join(map(str, after)))
        before = after
    ctx.extra["real_repo_final"] = dict(revisions=pos, packs=before)


# ---------------------------------------------------------------- run
FIXED = [
    # plan_error_witness: total < sum -> IndexError on the real method
    dict(kind="plan", total=20, packs=[[10, 1], [10, 2], [1, 3]]),
    dict(kind="plan", total=20, packs=[[5, 1], [5, 2], [10, 3]]),
    dict(kind="plan", total=20, packs=[[4, 1], [12, 2], [4, 3]]),
    dict(kind="auto", total=2, packs=[[1, 1], [1, 2], [0, 3]]),
    dict(kind="plan", total=0, packs=[]),
    dict(kind="plan", total=0, packs=[[1, 1], [1, 2]]),
]


def _corpus():
    out = list(FIXED)
    for f in sorted(glob.glob(os.path.join(env.VERIF, "corpus", "C07", "*.json"))):
        out.append(json.load(open(f)))
    return out


def _run_case(ctx, b, case):
    k = case["kind"]
    if k == "plan":
        do_plan_case(ctx, b, case["packs"], total=case["total"])
    elif k == "plandist":
        do_plan_case(ctx, b, case["packs"], dist=case["dist"], tag="plandist")
    elif k == "auto":
        do_auto_case(ctx, b, case["total"], case["packs"])
    elif k == "dist":
        do_dist_case(ctx, b, case["total"])


def do_dist_case(ctx, b, t):
    c = _collection()
    try:
        mpc = c._max_pack_count(t)
        dist = c.pack_distribution(t)
    except Exception as e:  # noqa
        ctx.violation(dict(kind="dist", total=t), "distribution of %d raises %s" % (t, _exc(e)))
        return
    oracle_dist(ctx, t, mpc, dist)
    case = dict(kind="dist", total=t)
    ctx.case(case, nontrivial=t >= 10)
    ctx.count("dist:digits=%d" % len(str(t)))
    b.add(case, "mpc %d" % t, str(mpc))
    b.add(case, "dist %d" % t, ",".join(map(str, dist)) or "-")


def exhaustive_part(ctx, b, S):
    """every multiset of positive counts with sum <= S"""
    rng = ctx.rng
    nmulti = 0
    for s in range(0, S + 1):
        for part in partitions(s):
            nmulti += 1
            packs = _mk_packs(rng, part)
            do_plan_case(ctx, b, packs, total=s)
            do_plan_case(ctx, b, packs, total=_other_total(rng, s))
            if s > 0 and rng.random() < 0.1:
                do_plan_case(ctx, b, packs, total=_small_total(rng, s))
            if len(b.lines) > 100000:
                b.flush()
    b.flush()
    ctx.exhaustive = True
    ctx.extra["exhaustive_domain"] = dict(multisets_with_sum_le=S, multisets=nmulti)


def run(ctx, S=None):
    rng = ctx.rng
    b = Batch(ctx)
    for case in _corpus():
        _run_case(ctx, b, case)
    # --- distribution
    for t in range(ctx.pick(3000, 30000)):
        do_dist_case(ctx, b, t)
    for _ in range(ctx.pick(1500, 15000)):
        e = rng.randint(1, 18)
        t = rng.choice([10 ** e, 10 ** e - 1, 10 ** e + 1, rng.randint(0, 10 ** e),
                        int("".join(rng.choice("0019") for _ in range(e)) or "0")])
        do_dist_case(ctx, b, t)
    b.flush()
    S = S or ctx.pick(36, 48)
    exhaustive_part(ctx, b, S)
    # --- arbitrary distributions (plan_spec covers any distribution with sum >= sum of counts)
    for _ in range(ctx.pick(4000, 40000)):
        counts = [rng.randint(1, 15) for _ in range(rng.randint(1, 9))]
        dist = [rng.randint(0, 15) for _ in range(rng.randint(0, 8))]
        if rng.random() < 0.8 and sum(dist) < sum(counts):
            dist.insert(rng.randint(0, len(dist)), sum(counts) - sum(dist) + rng.randint(0, 3))
        do_plan_case(ctx, b, _mk_packs(rng, counts), dist=dist, tag="plandist")
    # --- random large collections
    maxlen = ctx.pick(60, 300)
    for _ in range(ctx.pick(3000, 30000)):
        counts = _rand_counts(rng, maxlen)
        packs = _mk_packs(rng, counts)
        s = sum(counts)
        r = rng.random()
        total = s if r < 0.7 else _other_total(rng, s) if r < 0.9 else _small_total(rng, s)
        do_plan_case(ctx, b, packs, total=total, tag="random")
    b.flush()
    # --- _do_autopack with zero-revision packs
    for _ in range(ctx.pick(3000, 30000)):
        counts = _rand_counts(rng, 25) if rng.random() < 0.5 else [rng.randint(1, 11) for _ in range(rng.randint(0, 12))]
        if rng.random() < 0.6:
            counts = counts + [0] * rng.randint(1, 12)
        packs = _mk_packs(rng, counts)
        s = sum(counts)
        total = s if rng.random() < 0.85 else _other_total(rng, s) if rng.random() < 0.6 or s == 0 else _small_total(rng, s)
        do_auto_case(ctx, b, total, packs)
    b.flush()
    # --- real repository
    real_repo_part(ctx, b, ctx.pick(45, 140), ctx.pick(6, 12))
    b.flush()


def widen(ctx):
    """a tie broke with a clean oracle: search the next larger exhaustive layer
    and more random collections for an input on which the property itself fails"""
    b = Batch(ctx)
    exhaustive_part(ctx, b, 41)
    rng = ctx.rng
    for _ in range(20000):
        counts = _rand_counts(rng, 40)
        s_ = sum(counts)
        do_plan_case(ctx, b, _mk_packs(rng, counts), total=s_ if rng.random() < 0.7 else _other_total(rng, s_), tag="random")
    b.flush()


def replay(ctx, case):
    b = Batch(ctx)
    k = case.get("kind")
    if k == "real":
        line = "after %d %s" % (case["total"], ",".join(map(str, case["before"] + [case["added"]])))
        return dict(case=case, impl=",".join(map(str, case["after"])), model=ctx.model([line])[0],
                    note="real-repository step: recorded observation, re-run the check to reproduce")
    _run_case(ctx, b, case)
    model = ctx.model(b.lines) if b.lines else []
    return dict(case=case, impl=b.outs, model=model, oracle_failures=[v["what"] for v in ctx.violations])
