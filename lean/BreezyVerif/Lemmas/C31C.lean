import BreezyVerif.Lemmas.C31B
/-
Helper lemmas for C31, part 3: the decidable shape predicates `isCanon` /
`isMild` and the tameness class `Mild` (every "%" starts a canonical escape,
all other bytes arbitrary), which contains both `Canon` and `NoPct` strings and
is closed under what `expanduser` does with a home directory of that shape.
-/
namespace BreezyVerif.C31

/-! ### isCanon -/

theorem canon_of_isCanon {p : Bytes} (h : isCanon p = true) : Canon p := by
  unfold isCanon at h
  have e : escape (pctDecode p) = p := by simpa using h
  rw [← e]
  exact canon_escape _

theorem ofNat_split {x y : Nat} (hx : x < 16) (hy : y < 16) :
    (UInt8.ofNat (16 * x + y)).toNat / 16 = x ∧ (UInt8.ofNat (16 * x + y)).toNat % 16 = y := by
  have : (UInt8.ofNat (16 * x + y)).toNat = 16 * x + y := by
    rw [UInt8.toNat_ofNat']
    omega
  rw [this]
  omega

theorem escape_pctDecode_canon {p : Bytes} (h : Canon p) : escape (pctDecode p) = p := by
  induction h with
  | nil => simp [pctDecode, escape]
  | safe c r hc _ ih =>
    have hne : c ≠ PCT := fun e => by subst e; simp [isSafe_PCT] at hc
    rw [pctDecode_cons_ne hne]
    simp [escape, hc, ih]
  | esc x y r hx hy hv _ ih =>
    rw [pctDecode_esc (hexV_hexU x hx) (hexV_hexU y hy)]
    obtain ⟨h1, h2⟩ := ofNat_split hx hy
    simp only [escape, hv, Bool.false_eq_true, ↓reduceIte, h1, h2, ih]

theorem isCanon_of_canon {p : Bytes} (h : Canon p) : isCanon p = true := by
  unfold isCanon
  simp [escape_pctDecode_canon h]

/-! ### Mild -/

/-- every "%" starts an upper-case escape of a byte that is not safe; other bytes arbitrary -/
inductive Mild : Bytes → Prop
  | nil : Mild []
  | other (c : UInt8) (r : Bytes) : c ≠ PCT → Mild r → Mild (c :: r)
  | esc (x y : Nat) (r : Bytes) : x < 16 → y < 16 → isSafe (UInt8.ofNat (16 * x + y)) = false →
      Mild r → Mild (PCT :: hexU x :: hexU y :: r)

theorem hexV_lt {c : UInt8} {x : Nat} (h : hexV c = some x) : x < 16 := by
  unfold hexV at h
  have := c.toNat_lt
  split at h
  · rename_i hc
    simp only [Bool.and_eq_true, decide_eq_true_eq] at hc
    cases h
    have : c.toNat ≤ 57 := by simpa using UInt8.le_iff_toNat_le.mp hc.2
    omega
  · split at h
    · rename_i hc
      simp only [Bool.and_eq_true, decide_eq_true_eq] at hc
      cases h
      have : c.toNat ≤ 70 := by simpa using UInt8.le_iff_toNat_le.mp hc.2
      omega
    · split at h
      · rename_i hc
        simp only [Bool.and_eq_true, decide_eq_true_eq] at hc
        cases h
        have : c.toNat ≤ 102 := by simpa using UInt8.le_iff_toNat_le.mp hc.2
        omega
      · cases h

theorem mild_of_isMild : ∀ (p : Bytes), isMild p = true → Mild p
  | [], _ => .nil
  | [c], h => by
    simp [isMild] at h
    exact .other c [] h .nil
  | [c, a], h => by
    simp [isMild] at h
    exact .other c _ h.1 (.other a [] h.2 .nil)
  | c :: a :: b :: r, h => by
    unfold isMild at h
    split at h
    · rename_i hc
      subst hc
      split at h
      · rename_i x y hx hy
        simp only [Bool.and_eq_true, beq_iff_eq, Bool.not_eq_eq_eq_not, Bool.not_true] at h
        obtain ⟨⟨⟨ha, hb⟩, hs⟩, hr⟩ := h
        rw [ha, hb]
        exact .esc x y r (hexV_lt hx) (hexV_lt hy) hs (mild_of_isMild r hr)
      · cases h
    · rename_i hc
      exact .other c _ hc (mild_of_isMild (a :: b :: r) h)

theorem mild_of_canon {p : Bytes} (h : Canon p) : Mild p := by
  induction h with
  | nil => exact .nil
  | safe c r hc _ ih =>
    exact .other c r (fun e => by subst e; simp [isSafe_PCT] at hc) ih
  | esc x y r hx hy hv _ ih => exact .esc x y r hx hy hv ih

theorem mild_of_noPct : ∀ (p : Bytes), NoPct p → Mild p := by
  intro p
  induction p with
  | nil => intro _; exact .nil
  | cons c r ih =>
    intro h
    exact .other c r (fun e => h (by simp [e])) (ih (fun e => h (by simp [e])))

theorem hexU_ne_PCT' (x : Nat) (h : x < 16) : hexU x ≠ PCT := hexU_ne_PCT x h

theorem mild_append {a b : Bytes} (ha : Mild a) (hb : Mild b) : Mild (a ++ b) := by
  induction ha with
  | nil => simpa
  | other c r hc _ ih => exact .other c _ hc ih
  | esc x y r hx hy hv _ ih => exact .esc x y _ hx hy hv ih

theorem mild_drop {s : Bytes} (h : Mild s) : ∀ n, Mild (s.drop n) := by
  induction h with
  | nil => intro n; simp; exact .nil
  | other c r hc hr ih =>
    intro n
    cases n with
    | zero => exact .other c r hc hr
    | succ n => simpa using ih n
  | esc x y r hx hy hv hr ih =>
    intro n
    match n with
    | 0 => exact .esc x y r hx hy hv hr
    | 1 => exact .other _ _ (hexU_ne_PCT x hx) (.other _ _ (hexU_ne_PCT y hy) hr)
    | 2 => exact .other _ _ (hexU_ne_PCT y hy) hr
    | n + 3 => simpa using ih n

theorem mild_joinSl : ∀ segs : List Seg, (∀ s ∈ segs, Mild s) → Mild (joinSl segs)
  | [], _ => .nil
  | [s], h => by simpa [joinSl] using h s (by simp)
  | s :: t :: ss, h => by
    simp only [joinSl]
    exact mild_append (h s (by simp))
      (.other SL _ (by decide) (mild_joinSl (t :: ss) (fun x hx => h x (by simp [hx]))))

theorem mild_normPct {s : Bytes} (h : Mild s) : normPct s = s := by
  induction h with
  | nil => simp [normPct]
  | other c r hc _ ih => rw [normPct_cons_ne hc, ih]
  | esc x y r hx hy hv _ ih =>
    rw [normPct_esc (hexV_hexU x hx) (hexV_hexU y hy), ih]
    have : isUnreserved (UInt8.ofNat (16 * x + y)) = false := by
      unfold isSafe at hv
      exact (Bool.or_eq_false_iff.mp hv).1
    simp only [this, Bool.false_eq_true, ↓reduceIte]

theorem mild_splitSl {p : Bytes} (h : Mild p) : ∀ s ∈ splitSl p, Mild s := by
  induction h with
  | nil => simp [splitSl]; exact .nil
  | other c r hc hr ih =>
    by_cases hsl : c = SL
    · subst hsl
      rw [splitSl_cons_sl]
      intro s hs
      cases hs with
      | head => exact .nil
      | tail _ h' => exact ih s h'
    · obtain ⟨s, ss, h1, h2⟩ := splitSl_cons_ne hsl r
      rw [h2]
      rw [h1] at ih
      intro t ht
      cases ht with
      | head => exact .other c s hc (ih s (by simp))
      | tail _ h' => exact ih t (List.mem_cons_of_mem _ h')
  | esc x y r hx hy hv hr ih =>
    have hP : PCT ≠ SL := by decide
    obtain ⟨s, ss, h1, _⟩ := splitSl_cons_ne (hexU_ne_SL y hy) r
    have e1 : splitSl (hexU y :: r) = (hexU y :: s) :: ss := splitSl_cons_ne' (hexU_ne_SL y hy) h1
    have e2 : splitSl (hexU x :: hexU y :: r) = (hexU x :: hexU y :: s) :: ss :=
      splitSl_cons_ne' (hexU_ne_SL x hx) e1
    have e3 : splitSl (PCT :: hexU x :: hexU y :: r) = (PCT :: hexU x :: hexU y :: s) :: ss :=
      splitSl_cons_ne' hP e2
    rw [e3]
    rw [h1] at ih
    intro t ht
    cases ht with
    | head => exact .esc x y s hx hy hv (ih s (by simp))
    | tail _ h' => exact ih t (List.mem_cons_of_mem _ h')

theorem mild_split_decode {p : Bytes} (h : Mild p) :
    splitSl (pctDecode p) = (splitSl p).map pctDecode := by
  induction h with
  | nil => simp [splitSl, pctDecode]
  | other c r hne hr ih =>
    rw [pctDecode_cons_ne hne]
    by_cases hsl : c = SL
    · subst hsl
      rw [splitSl_cons_sl, splitSl_cons_sl, ih]
      simp [pctDecode]
    · obtain ⟨s, ss, h1, h2⟩ := splitSl_cons_ne hsl r
      obtain ⟨s', ss', h1', h2'⟩ := splitSl_cons_ne hsl (pctDecode r)
      rw [h2, h2']
      rw [h1, h1'] at ih
      simp only [List.map_cons, List.cons.injEq] at ih ⊢
      refine ⟨?_, ih.2⟩
      rw [pctDecode_cons_ne hne, ih.1]
  | esc x y r hx hy hv hr ih =>
    have hP : PCT ≠ SL := by decide
    have hvs : UInt8.ofNat (16 * x + y) ≠ SL := fun e => by rw [e] at hv; simp [isSafe_SL] at hv
    rw [pctDecode_esc (hexV_hexU x hx) (hexV_hexU y hy)]
    obtain ⟨s, ss, h1, _⟩ := splitSl_cons_ne (hexU_ne_SL y hy) r
    have e1 : splitSl (hexU y :: r) = (hexU y :: s) :: ss := splitSl_cons_ne' (hexU_ne_SL y hy) h1
    have e2 : splitSl (hexU x :: hexU y :: r) = (hexU x :: hexU y :: s) :: ss :=
      splitSl_cons_ne' (hexU_ne_SL x hx) e1
    have e3 : splitSl (PCT :: hexU x :: hexU y :: r) = (PCT :: hexU x :: hexU y :: s) :: ss :=
      splitSl_cons_ne' hP e2
    obtain ⟨s', ss', h1', h2'⟩ := splitSl_cons_ne hvs (pctDecode r)
    rw [e3, h2']
    rw [h1, h1'] at ih
    simp only [List.map_cons, List.cons.injEq] at ih ⊢
    refine ⟨?_, ih.2⟩
    rw [pctDecode_esc (hexV_hexU x hx) (hexV_hexU y hy), ih.1]

theorem mild_decode_nil {r : Bytes} (h : Mild r) (hd : pctDecode r = []) : r = [] := by
  cases h with
  | nil => rfl
  | other c r' hne _ => rw [pctDecode_cons_ne hne] at hd; cases hd
  | esc x y r' hx hy _ _ =>
    rw [pctDecode_esc (hexV_hexU x hx) (hexV_hexU y hy)] at hd; cases hd

theorem mild_decode_head {r t : Bytes} {c : UInt8} (h : Mild r) (hd : pctDecode r = c :: t)
    (hc : isSafe c = true) : ∃ r', r = c :: r' ∧ Mild r' ∧ pctDecode r' = t := by
  cases h with
  | nil => simp [pctDecode] at hd
  | other c' r' hne hr' =>
    rw [pctDecode_cons_ne hne] at hd
    cases hd
    exact ⟨r', rfl, hr', rfl⟩
  | esc x y r' hx hy hv _ =>
    rw [pctDecode_esc (hexV_hexU x hx) (hexV_hexU y hy)] at hd
    cases hd
    rw [hc] at hv; cases hv

theorem mild_decode_dotdot {s : Bytes} (h : Mild s) (hd : pctDecode s = dotdot) : s = dotdot := by
  obtain ⟨r1, rfl, h1, d1⟩ := mild_decode_head h hd isSafe_DOT
  obtain ⟨r2, rfl, h2, d2⟩ := mild_decode_head h1 d1 isSafe_DOT
  rw [mild_decode_nil h2 d2]
  rfl

theorem tame_mild : Tame Mild where
  norm := fun _ h => mild_normPct h
  seg := fun _ h => mild_splitSl h
  join := mild_joinSl
  split_decode := fun _ h => mild_split_decode h
  decode_dotdot := fun _ h hd => mild_decode_dotdot h hd

theorem goodSeg_mild_of_canon {s : Seg} (h : GoodSeg Canon s) : GoodSeg Mild s :=
  ⟨mild_of_canon h.1, h.2.1, h.2.2⟩

/-! ### userdir expansion preserves mildness -/

theorem mild_withSlash {p : Bytes} (h : Mild p) : Mild (withSlash p) := by
  unfold withSlash
  split
  · exact h
  · exact mild_append h (.other SL [] (by decide) .nil)

theorem expandUserdirs_mild {expander : Bytes → Bytes} (he : ∀ p, Mild p → Mild (expander p))
    (base : Bytes) {p : Bytes} (hp : Mild p) : Mild (expandUserdirs expander base p) := by
  unfold expandUserdirs
  split
  · simp only []
    split
    · exact mild_drop (mild_withSlash (he p hp)) _
    · exact hp
  · exact hp

theorem expanduser_mild {tbl : List (Bytes × Bytes)} (ht : ∀ e ∈ tbl, Mild (rstripSl e.2))
    {p : Bytes} (hp : Mild p) : Mild (expanduser tbl p) := by
  unfold expanduser
  cases p with
  | nil => exact hp
  | cons c rest =>
    simp only []
    split
    · cases hl : lookupHome tbl (rest.takeWhile (· ≠ SL)) with
      | none => exact hp
      | some home =>
        simp only []
        have hh : Mild (rstripSl home) := by
          unfold lookupHome at hl
          cases hfnd : tbl.find? (fun e => e.1 = rest.takeWhile (· ≠ SL)) with
          | none => rw [hfnd] at hl; cases hl
          | some e =>
            rw [hfnd] at hl
            cases hl
            exact ht e (List.mem_of_find?_eq_some hfnd)
        have hrest : Mild rest := by simpa using mild_drop hp 1
        obtain ⟨n, hn⟩ := dropWhile_eq_drop (fun x => decide (x ≠ SL)) rest
        have htail : Mild (rest.dropWhile (· ≠ SL)) := by rw [hn]; exact mild_drop hrest n
        split
        · exact .other SL [] (by decide) .nil
        · exact mild_append hh htail
    · exact hp

end BreezyVerif.C31
