import BreezyVerif.Model.C46
/-
C11 — adding files versions exactly the intended paths.

Layout model: `Model/C46.lean` (forest of directory entries with the flags
versioned / ignored / recognised control dir / conflict helper / kind).

Modelled code (as it is):
* `breezy/bzr/inventorytree.py: _SmartAddHelper.add` (+ `_add_one_and_parent`,
  `_gather_dirs_to_add`) with the default `AddAction` (`skip_file` = never)
* `breezy/git/workingtree.py: GitWorkingTree.smart_add`

`smart_add` is one structural pass over the layout.  Phase 1 of the code
(version every named path — for bzr with its unversioned parents — whatever the
ignore rules say) does not depend on the walk, so the pass computes for every
entry the flag after phase 1 (`onPath`) and then applies the walk rule of the
mode it is reached in:
  idle  outside every directory being scanned
  walk  the parent directory is being scanned (its `os.listdir` loop runs)
  dead  below a named, scanned directory, but the scan does not get here
        (bzr only: `_gather_dirs_to_add` drops named directories inside another
        named directory, so a named directory in a dead region is not scanned;
        git scans every named directory)
-/
namespace BreezyVerif.C11
open BreezyVerif.C46

inductive Mode where
  | idle | walk | dead
  deriving DecidableEq, Repr

structure Cfg where
  fmt : Fmt
  /-- tree-relative named paths; `[]` is the tree root (`brz add` without arguments) -/
  names : List Path
  recurse : Bool
  /-- git only: does `smart_add` refuse an explicitly named path of the control
  directory (the code as found does not — finding `git-tree-named-control-file`;
  the harness probes the tree) -/
  gitRefusesCtl : Bool := false
  deriving Repr

/-- phase 1: the entry at `p` is versioned because it was named (bzr: or is a
parent of a named path; git: directories are not index entries) -/
def onPath (c : Cfg) (p : Path) (i : Info) : Bool :=
  match c.fmt with
  | .bzr => c.names.any fun n => p.isPrefixOf n
  | .git => c.names.contains p && i.kind != .dir

/-- `ControlDirFormat.find_format(transport)` succeeds on a directory -/
def isNestedTree (i : Info) (kids : Forest) : Bool := i.kind == .dir && hasCtl kids

/-- the `os.listdir` loop of a scanned directory puts this child on the work
list.  bzr: not the tree's control directory; versioned children always,
unversioned ones unless ignored.  git: not the control directory, and never an
ignored child (even a versioned one). -/
def listed (c : Cfg) (p : Path) (i : Info) (v1 : Bool) : Bool :=
  match c.fmt with
  | .bzr => !(p.head? == some ".bzr") && (v1 || !i.ignored)
  | .git => !(p.head? == some ".git") && !i.ignored

/-- the flag of an entry taken from the work list.  bzr: a conflict helper is
skipped; an unversioned nested tree is skipped; anything else is versioned.
git: directories are not index entries; a file is added unless it is in the
index or a conflict helper. -/
def visitFlag (c : Cfg) (i : Info) (kids : Forest) (v1 : Bool) : Bool :=
  match c.fmt with
  | .bzr => if i.helper then v1 else v1 || !isNestedTree i kids
  | .git => if i.kind == .dir then v1 else v1 || !i.helper

/-- is the content of an entry taken from the work list scanned -/
def visitKids (c : Cfg) (i : Info) (kids : Forest) : Mode :=
  match c.fmt with
  | .bzr => if i.helper then .dead else if i.kind == .dir && !hasCtl kids then .walk else .dead
  | .git => if i.kind == .dir && !hasCtl kids then .walk else .dead

/-- a named directory is put on the work list by phase 1 (`user_dirs`; the test
uses the kind on disk).  bzr: not if it lies in an already scanned / dead
region (`_gather_dirs_to_add`). -/
def startsWalk (c : Cfg) (p : Path) (i : Info) (m : Mode) : Bool :=
  c.recurse && c.names.contains p && i.kind == .dir && (c.fmt == .git || m == .idle)

/-- bzr: a scheduled named directory that was already *versioned* and holds a
`.bzr` directory is reported by `_get_ie` with kind `tree-reference`
(`_directory_may_be_tree_reference`): its visit does nothing and, being
scheduled, it shadows named directories below it.  (Reached from its parent's
scan the raw inventory kind `directory` is used instead.) -/
def namedTreeRef (c : Cfg) (i : Info) (kids : Forest) : Bool :=
  c.fmt == .bzr && i.versioned && kids.hasDir ".bzr"

/-- one entry: (versioned flag afterwards, mode of its content) -/
def step (c : Cfg) (p : Path) (m : Mode) (i : Info) (kids : Forest) : Bool × Mode :=
  let v1 := i.versioned || onPath c p i
  if startsWalk c p i m then
    (if namedTreeRef c i kids then (v1, .dead) else (visitFlag c i kids v1, visitKids c i kids))
  else match m with
    | .walk => if listed c p i v1 then (visitFlag c i kids v1, visitKids c i kids) else (v1, .dead)
    | .idle => (v1, .idle)
    | .dead => (v1, .dead)

/-- the whole command on the content of the directory `here`, reached in mode `m` -/
def pass (c : Cfg) (here : Path) (m : Mode) : Forest → Forest
  | .nil => .nil
  | .cons i kids rest =>
    let s := step c (here ++ [i.name]) m i kids
    .cons { i with versioned := s.1 } (pass c (here ++ [i.name]) s.2 kids) (pass c here m rest)

/-- the tree root is scanned iff it was named and we recurse -/
def rootMode (c : Cfg) : Mode := if c.recurse && c.names.contains [] then .walk else .idle

inductive Err where
  | forbiddenControlFile | noSuchFile
  deriving DecidableEq, Repr

/-- validation of the named paths, in order: bzr (and git if `refuse`) refuses
names in the tree's control directory; a missing path raises `NoSuchFile` -/
def checkNames (fmt : Fmt) (refuse : Bool) (f : Forest) : List Path → Option Err
  | [] => none
  | p :: ps =>
    if fmt == .bzr && p.head? == some ".bzr" then some .forbiddenControlFile
    else if fmt == .git && refuse && p.head? == some ".git" then some .forbiddenControlFile
    else if p != [] && (f.get p).isNone then some .noSuchFile
    else checkNames fmt refuse f ps

def smartAdd (c : Cfg) (f : Forest) : Except Err Forest :=
  match checkNames c.fmt c.gitRefusesCtl f c.names with
  | some e => .error e
  | none => .ok (pass c [] (rootMode c) f)

/-- versioned paths of a layout -/
def versionedPaths : Forest → List Path
  | .nil => []
  | .cons i kids rest =>
    (if i.versioned then [[i.name]] else []) ++ (versionedPaths kids).map (i.name :: ·) ++ versionedPaths rest

/-! ### specification side: which entries the walk reaches -/

/-- the mode in which the directory listing that contains the entry `q` is
processed: the mode of the top listing handed down through `step` along the
path (this is what `add_exact` relates the result to) -/
def modeOf (c : Cfg) (here : Path) (m : Mode) : Forest → Path → Option Mode
  | .nil, _ => none
  | .cons i kids rest, q =>
    match q with
    | [] => none
    | n :: t =>
      if i.name = n then
        (match t with
         | [] => some m
         | _ :: _ => modeOf c (here ++ [i.name]) (step c (here ++ [i.name]) m i kids).2 kids t)
      else modeOf c here m rest q

/-- forget the versioned flags (everything else a layout consists of) -/
def clearV : Forest → Forest
  | .nil => .nil
  | .cons i kids rest => .cons { i with versioned := false } (clearV kids) (clearV rest)

end BreezyVerif.C11
