"""commit(specific_files=['c/b/b']) after `mv c/a c/b` (c/a/b itself untouched) records nothing: the selected
path c/b/b does not exist in the new revision (the entry stays at c/a/b).  iter_changes' docstring promises that
the parents of the specific files are always evaluated for changes."""
import os, sys, tempfile
h = tempfile.mkdtemp(dir="/var/tmp/imp-C01C02/c01")
os.environ.update(HOME=h, BRZ_HOME=h, BRZ_EMAIL="t <t@example.com>")
sys.path.insert(0, os.environ.get("VERIF_REPO", "/repo"))
import breezy; breezy.initialize()
import breezy.bzr, breezy.git, breezy.bzr.bzrdir, breezy.bzr.workingtree_4, breezy.bzr.groupcompress_repo
from breezy.controldir import ControlDir, format_registry
wt = ControlDir.create_standalone_workingtree(os.path.join(h, "t"), format=format_registry.make_controldir("2a"))
b = wt.basedir
os.mkdir(b + "/c"); os.mkdir(b + "/c/a"); open(b + "/c/a/b", "w").write("x")
wt.add(["c", "c/a", "c/a/b"]); wt.commit("1")
wt.rename_one("c/a", "c/b")
rid = wt.commit("2", specific_files=["c/b/b"])
t = wt.branch.repository.revision_tree(rid)
with t.lock_read():
    paths = sorted(p for p, ie in t.iter_entries_by_dir())
print(paths)
if "c/b/b" not in paths:
    print("the selected path c/b/b is not in the new revision")
    sys.exit(1)
